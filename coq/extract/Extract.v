(* Extraction of the executable model and specification oracles to OCaml.
   ExtrOcamlBasic only: N, positive, nat stay extracted inductives. *)
Require Extraction.
Require Import ExtrOcamlBasic.
From V Require Import lib.Base lib.Regex lib.RegexDecide lib.Utf8 gen.GenRegex.
From V Require Import model.Ident spec.IdentSpec.
Extraction Language OCaml.
Extraction "verif_model.ml"
  decode_runes encode_runes go_match incl_check all_regexes
  identifier_from_constant identifier_from_constant_prefix ident_spec is_ident_char C18_bridges.
