(* Model of html.go: HTMLEscaped, HTMLConcat. The range table is regenerated. *)
From V Require Import lib.Base lib.Regex lib.Utf8 gen.GenUnicode.
Local Open Scope N_scope.

Definition coerce_rune (r : N) : N := if in_ranges r control_and_nonchar_table then FFFD else r.

(* coerceToUTF8InterchangeValid *)
Definition coerce (s : bytes) : bytes := encode_runes (map coerce_rune (decode_runes s)).

(* html.EscapeString *)
Definition html_escape_byte (b : N) : bytes :=
  if b =? 38 then B "&amp;"
  else if b =? 39 then B "&#39;"
  else if b =? 60 then B "&lt;"
  else if b =? 62 then B "&gt;"
  else if b =? 34 then B "&#34;"
  else [b].
Definition html_escape_string (s : bytes) : bytes := flat_map html_escape_byte s.

Definition html_escaped (s : bytes) : bytes := html_escape_string (coerce s).
Definition html_concat (l : list bytes) : bytes := concat l.
