(* Small models of the Go standard-library string functions that template/*.go calls
   (stdlib: modelled, validated by correspondence through the functions that use them). *)
From V Require Import lib.Base lib.Utf8 gen.GenUnicode model.Url.
Local Open Scope N_scope.

(* strings.ToLower on a byte string: runes are lower-cased, invalid bytes become U+FFFD *)
Definition to_lower_bytes (s : bytes) : bytes := encode_runes (map to_lower (decode_runes s)).

Definition ascii_lower (c : N) : N := if (65 <=? c) && (c <=? 90) then c + 32 else c.
Definition ascii_upper (c : N) : N := if (97 <=? c) && (c <=? 122) then c - 32 else c.

(* bytes.EqualFold / HasPrefix(ToUpper(..)) restricted to ASCII patterns: see DESIGN 4.0 *)
Fixpoint prefix_fold (p s : bytes) : bool :=
  match p, s with
  | [], _ => true
  | x :: p', y :: s' => (ascii_lower x =? ascii_lower y) && prefix_fold p' s'
  | _ :: _, [] => false
  end.

(* bytes.Index(s, sep) for non-empty sep: index of the first occurrence *)
Fixpoint index_of (sep s : bytes) : option nat :=
  match s with
  | [] => if prefixb sep [] then Some O else None
  | _ :: t => if prefixb sep s then Some O
              else match index_of sep t with Some i => Some (S i) | None => None end
  end.

(* bytes.IndexAny with an ASCII set / bytes.IndexByte *)
Fixpoint index_any (set s : bytes) : option nat :=
  match s with
  | [] => None
  | c :: t => if mem_N c set then Some O
              else match index_any set t with Some i => Some (S i) | None => None end
  end.
Definition index_byte (b : N) (s : bytes) : option nat := index_any [b] s.

(* unicode.IsSpace *)
Definition is_unicode_space (r : N) : bool :=
  ((9 <=? r) && (r <=? 13)) || (r =? 32) || (r =? 133) || (r =? 160) || (r =? 5760)
  || ((8192 <=? r) && (r <=? 8202)) || (r =? 8232) || (r =? 8233) || (r =? 8239) || (r =? 8287)
  || (r =? 12288).

(* strings.Fields on runes (the callers apply it to ToLower output, which is valid UTF-8) *)
Fixpoint fields_aux (cur : list N) (l : list N) : list (list N) :=
  match l with
  | [] => match cur with [] => [] | _ => [rev cur] end
  | r :: t => if is_unicode_space r
              then match cur with [] => fields_aux [] t | _ => rev cur :: fields_aux [] t end
              else fields_aux (r :: cur) t
  end.
Definition fields_runes (l : list N) : list (list N) := fields_aux [] l.
Definition fields (s : bytes) : list bytes := map encode_runes (fields_runes (decode_runes s)).

Fixpoint join_with (sep : bytes) (l : list bytes) : bytes :=
  match l with
  | [] => []
  | [x] => x
  | x :: t => x ++ sep ++ join_with sep t
  end.

(* checked slicing: None where Go would panic *)
Definition byte_at (s : bytes) (i : nat) : option N := nth_error s i.
Definition slice (s : bytes) (a b : nat) : option bytes :=
  if Nat.leb a b && Nat.leb b (length s) then Some (firstn (b - a) (skipn a s)) else None.
