(* text/template parse trees as the harness serialises them (real parser, DESIGN F.3), and the
   pipeline rewriting of template/escape.go (ensurePipelineContains). *)
From V Require Import lib.Base gen.GenTemplate model.TContext model.TSanitize.
Local Open Scope N_scope.

Inductive arg :=
| ADot
| AField (path : list bytes)                 (* .A.B *)
| AVar (name : bytes) (path : list bytes)    (* $x.A *)
| AIdent (f : bytes)                         (* function name *)
| AStr (s : bytes)
| ANum (text : bytes)
| ABool (b : bool)
| ANil
| AChain (inner : arg) (path : list bytes)   (* (pipeline).A *)
| APipe (decls : list bytes) (cmds : list (list arg)).   (* parenthesised pipeline *)

Definition cmd := list arg.

Record pipe := mkpipe { p_decls : list bytes; p_cmds : list cmd }.

Inductive node :=
| NText (id : nat) (text : bytes)
| NAction (id : nat) (p : pipe)
| NIf (id : nat) (p : pipe) (body els : list node)
| NRange (id : nat) (p : pipe) (body els : list node)
| NWith (id : nat) (p : pipe) (body els : list node)
| NTemplate (id : nat) (name : bytes) (p : option pipe)
| NBreak (id : nat)
| NContinue (id : nat)
| NComment (id : nat).

Definition tree := list node.

Definition cmd_ident (c : cmd) : option bytes :=
  match c with AIdent f :: _ => Some f | _ => None end.

Definition ident_cmd (f : bytes) : cmd := [AIdent f].

Definition is_predefined (f : bytes) : bool := mem_bytes f T_predefinedEscapers.

Fixpoint lookup_pair (k : bytes) (t : list (bytes * bytes)) : option bytes :=
  match t with
  | [] => None
  | (k', v) :: t' => if bytes_eqb k k' then Some v else lookup_pair k t'
  end.

(* normalizeEscFn / escFnsEq *)
Definition normalize_esc_fn (e : bytes) : bytes :=
  match lookup_pair e T_equivEscapers with
  | Some n => if bytes_eqb n [] then e else n
  | None => e
  end.
Definition esc_fns_eq (a b : bytes) : bool := bytes_eqb (normalize_esc_fn a) (normalize_esc_fn b).

(* ensurePipelineContains(p, s) *)
Definition ensure_pipeline_contains (p : pipe) (s : list bytes) : pipe :=
  match s with
  | [] => p
  | _ =>
      let cmds := p_cmds p in
      let n := length cmds in
      let '(cmds, plen, s) :=
          match rev cmds with
          | last :: before =>
              match cmd_ident last with
              | Some esc =>
                  if is_predefined esc then
                    let '(cmds, plen) :=
                        if Nat.eqb n 1 && Nat.ltb 1 (length last)
                        then ([AIdent N_evalArgs :: tl last; ident_cmd esc], 2%nat)
                        else (cmds, n) in
                    let dup := existsb (esc_fns_eq esc) s in
                    let s' := map (fun x => if esc_fns_eq esc x then esc else x) s in
                    (cmds, if dup then (plen - 1)%nat else plen, s')
                  else (cmds, n, s)
              | None => (cmds, n, s)
              end
          | [] => (cmds, n, s)
          end in
      mkpipe (p_decls p) (firstn plen cmds ++ map ident_cmd s)
  end.
