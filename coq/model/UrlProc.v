(* Model of internal/safehtmlutil: urlProcessor (QueryEscapeURL / NormalizeURL on strings),
   IsSafeTrustedResourceURLPrefix, URLContainsDoubleDotSegment. *)
From V Require Import lib.Base lib.Regex lib.Utf8 gen.GenRegex.
Local Open Scope N_scope.

Definition is_hex (c : N) : bool :=
  ((48 <=? c) && (c <=? 57)) || ((97 <=? c) && (c <=? 102)) || ((65 <=? c) && (c <=? 70)).

Definition is_alnum (c : N) : bool :=
  ((97 <=? c) && (c <=? 122)) || ((65 <=? c) && (c <=? 90)) || ((48 <=? c) && (c <=? 57)).

(* ! # $ & * + , / : ; = ? @ [ ] *)
Definition url_reserved : list N := [33; 35; 36; 38; 42; 43; 44; 47; 58; 59; 61; 63; 64; 91; 93].
(* - . _ ~ *)
Definition url_unreserved_marks : list N := [45; 46; 95; 126].

Definition hex_digit (d : N) : N := if d <? 10 then 48 + d else 87 + d.   (* lower case *)
Definition pct_encode (c : N) : bytes := [37; hex_digit (c / 16); hex_digit (c mod 16)].

Definition keep_byte (norm : bool) (c : N) (rest : bytes) : bool :=
  if mem_N c url_reserved then norm
  else if mem_N c url_unreserved_marks then true
  else if c =? 37 then
    norm && match rest with h1 :: h2 :: _ => is_hex h1 && is_hex h2 | _ => false end
  else is_alnum c.

Fixpoint url_processor (norm : bool) (s : bytes) : bytes :=
  match s with
  | [] => []
  | c :: t => if keep_byte norm c t then c :: url_processor norm t
              else pct_encode c ++ url_processor norm t
  end.

Definition query_escape_url : bytes -> bytes := url_processor false.
Definition normalize_url : bytes -> bytes := url_processor true.

Definition is_safe_tru_prefix (s : bytes) : bool :=
  go_match G_safeTrustedResourceURLPrefixPattern (decode_runes s).
Definition contains_double_dot (s : bytes) : bool :=
  go_match G_urlDoubleDotSegmentPattern (decode_runes s).
