(* Model of template/sanitize.go and template/url.go: which sanitizers an action gets.
   Policy tables and regular expressions are regenerated (gen/GenPolicy.v, gen/GenRegex.v). *)
From V Require Import lib.Base lib.Regex lib.Utf8 gen.GenRegex gen.GenPolicy gen.GenTemplate.
From V Require Import model.GoStrings model.HtmlUnescape model.Url model.UrlProc model.TContext.
Local Open Scope N_scope.

(* sanitizationContext numbers (sanitizers.go iota order; names are in P_contexts) *)
Definition sc_info (sc : N) : option (bytes * bytes * bool * bool) :=
  match find (fun e => fst e =? sc) P_contexts with Some (_, i) => Some i | None => None end.
Definition sc_sanitizer_name (sc : N) : bytes :=
  match sc_info sc with Some (_, n, _, _) => n | None => [] end.
Definition sc_is_enum (sc : N) : bool :=
  match sc_info sc with Some (_, _, e, _) => e | None => false end.
Definition sc_is_url (sc : N) : bool :=
  match sc_info sc with Some (_, _, _, u) => u | None => false end.
Definition sc_by_name (name : bytes) : N :=
  match find (fun e => let '(_, (n, _, _, _)) := e in bytes_eqb n name) P_contexts with
  | Some (k, _) => k
  | None => 0
  end.
Definition SC_HTML : N := sc_by_name (B "HTML").
Definition SC_None : N := sc_by_name (B "None").
Definition SC_Style : N := sc_by_name (B "Style").
Definition SC_TRU : N := sc_by_name (B "TrustedResourceURL").
Definition SC_TRUOrURL : N := sc_by_name (B "TrustedResourceURLOrURL").
Definition SC_URL : N := sc_by_name (B "URL").

Definition go_match_bytes (r : regex) (s : bytes) : bool := go_match r (decode_runes s).

Fixpoint lookup2 (a e : bytes) (t : list (bytes * bytes * N)) : option N :=
  match t with
  | [] => None
  | (a', e', sc) :: t' => if bytes_eqb a a' && bytes_eqb e e' then Some sc else lookup2 a e t'
  end.

(* sanitizationContextForAttrVal: None = error *)
(* every value of the rel attribute is allow-listed, and there is one
   (fix: allow a URL in a link element's href only if every rel value is allow-listed) *)
Definition all_url_rel_vals (link_rel : bytes) : bool :=
  match fields link_rel with
  | [] => false
  | vs => forallb (fun v => mem_bytes v P_urlLinkRelVals) vs
  end.

Definition sc_for_attr_val (element attr link_rel : bytes) : option N :=
  if bytes_eqb element (B "link") && bytes_eqb attr (B "href") && all_url_rel_vals link_rel
  then Some SC_TRUOrURL
  else if go_match_bytes G_dataAttributeNamePattern attr then Some SC_None
  else match lookup2 attr element P_elementSpecific with
       | Some sc => Some sc
       | None =>
           match lookup_bytes attr P_globalAttr with
           | Some sc =>
               if (match lookup_bytes element P_elementContent with Some _ => true | None => false end)
                  || mem_bytes element P_allowedVoid
               then Some sc else None
           | None => None
           end
       end.

Definition sc_for_element_content (element : bytes) : option N :=
  lookup_bytes element P_elementContent.

Definition validate_no_charref_prefix (p : bytes) : bool :=      (* true = ok *)
  negb (go_match_bytes G_endsWithCharRefPrefixPattern p).

(* decodeURLPrefix: None = error *)
Definition decode_url_prefix (p : bytes) : option bytes :=
  if go_match_bytes G_containsWhitespaceOrControlPattern p then None
  else if negb (validate_no_charref_prefix p) then None
  else
    let d := html_unescape p in
    if go_match_bytes G_containsWhitespaceOrControlPattern d then None
    else if go_match_bytes G_endsWithPercentEncodingPrefixPattern d then None
    else Some d.

Definition validate_url_prefix (p : bytes) : bool :=
  match decode_url_prefix p with
  | None => false
  | Some d =>
      if go_match_bytes G_startsWithFullySpecifiedSchemePattern d
      then bytes_eqb (url_sanitized d) d
      else match index_any [47; 63; 35] d with Some _ => true | None => false end
  end.

Definition validate_tru_prefix (p : bytes) : bool :=
  match decode_url_prefix p with
  | None => false
  | Some d => is_safe_tru_prefix d
  end.

(* urlPrefixValidators *)
Definition url_prefix_validator (sc : N) : option (bytes -> bool) :=
  if (sc =? SC_URL) || (sc =? SC_TRUOrURL) then Some validate_url_prefix
  else if sc =? SC_TRU then Some validate_tru_prefix
  else None.

Definition N_sanitizeHTML : bytes := B "_sanitizeHTML".
Definition N_sanitizeHTMLComment : bytes := B "_sanitizeHTMLComment".
Definition N_normalizeURL : bytes := B "_normalizeURL".
Definition N_queryEscapeURL : bytes := B "_queryEscapeURL".
Definition N_validateTRUSubst : bytes := B "_validateTrustedResourceURLSubstitution".
Definition N_evalArgs : bytes := B "_evalArgs".

Definition nonempty_names (l : list bytes) : list bytes :=
  filter (fun n => negb (bytes_eqb n [])) l.

(* the double loop of sanitizersForAttributeValue: Some sc0 when every (element, attribute)
   pair is allowed and all agree; None = error *)
Fixpoint all_same_sc (pairs : list (bytes * bytes)) (link_rel : bytes) (sc0 : option N) : option N :=
  match pairs with
  | [] => sc0
  | (e, a) :: t =>
      match sc_for_attr_val e a link_rel with
      | None => None
      | Some sc =>
          match sc0 with
          | None => all_same_sc t link_rel (Some sc)
          | Some s0 => if sc =? s0 then all_same_sc t link_rel sc0 else None
          end
      end
  end.

Definition attr_pairs (c : context) : list (bytes * bytes) :=
  let elems := match c_elem_names c with [] => [c_elem c] | l => l end in
  let attrs := match c_attr_names c with [] => [c_attr c] | l => l end in
  flat_map (fun e => map (fun a => (e, a)) attrs) elems.

(* sanitizersForAttributeValue: None = error *)
Definition sanitizers_for_attr_value (c : context) : option (list bytes) :=
  match all_same_sc (attr_pairs c) (c_link_rel c) None with
  | None => None
  | Some sc0 =>
      if sc_is_enum sc0 && negb (bytes_eqb (c_attr_value c) []) then None
      else if (sc0 =? SC_Style) && negb (bytes_eqb (c_attr_value c) [])
              && negb (validate_no_charref_prefix (c_attr_value c)) then None
      else
        let sanitizer := sc_sanitizer_name sc0 in
        if negb (sc_is_url sc0) then Some (nonempty_names [sanitizer] ++ [N_sanitizeHTML])
        else if c_attr_amb c then None
             (* before the empty-prefix case (fix: refuse an action after an ambiguous URL prefix also
                when the prefix is empty on the first branch) *)
        else
          match c_attr_value c with
          | [] => Some (nonempty_names [sanitizer; N_normalizeURL] ++ [N_sanitizeHTML])
          | prefix =>
              match url_prefix_validator sc0 with
                   | None => None
                   | Some v =>
                       if negb (v prefix) then None
                       else if sc0 =? SC_TRU then Some [N_validateTRUSubst; N_queryEscapeURL; N_sanitizeHTML]
                       else if match index_any [35; 63] (html_unescape prefix) with Some _ => true | None => false end
                            (* on the DECODED prefix (fix: decide between query escaping and normalization on the decoded URL prefix) *)
                       then Some [N_queryEscapeURL; N_sanitizeHTML]
                       else Some [N_normalizeURL; N_sanitizeHTML]
                   end
          end
  end.

Fixpoint all_same_content_sc (elems : list bytes) (sc0 : option N) : option N :=
  match elems with
  | [] => sc0
  | e :: t =>
      match (if bytes_eqb e [] then Some SC_HTML else sc_for_element_content e) with
      | None => None
      | Some sc =>
          match sc0 with
          | None => all_same_content_sc t (Some sc)
          | Some s0 => if sc =? s0 then all_same_content_sc t sc0 else None
          end
      end
  end.

Definition sanitizer_for_element_content (c : context) : option bytes :=
  let elems := match c_elem_names c with [] => [c_elem c] | l => l end in
  match all_same_content_sc elems None with
  | None => None
  | Some sc0 => Some (sc_sanitizer_name sc0)
  end.

(* sanitizerForContext: None = error *)
Definition sanitizer_for_context (c : context) : option (list bytes) :=
  match c_state c with
  | StTag | StAttrName | StAfterName => None
  | StHTMLCmt => Some [N_sanitizeHTMLComment]
  | st =>
      if (match c_elem_names c with [] => true | _ => false end) && bytes_eqb (c_elem c) []
         && state_eqb st StText
      then Some [N_sanitizeHTML]
      else if negb (bytes_eqb (c_attr c) []) || (match c_attr_names c with [] => false | _ => true end)
      then match c_delim c with
           | DDoubleQuote | DSingleQuote => sanitizers_for_attr_value c
           | _ => None
           end
      else match sanitizer_for_element_content c with
           | None => None
           | Some n => Some (nonempty_names [n])
           end
  end.
