(* Model of urlset.go: URLSetSanitized, appendURLToSet, consumeIn, consumeNotIn,
   isOptionalSrcMetadataWellFormed.  The two byte tables are regenerated
   (gen/GenTables.v: the member bytes of asciiWhitespace and srcsetMetachars).

   strconv.ParseFloat(s, 64) is modelled to the extent "err == nil": a transliteration of
   $GOROOT/src/strconv/atof.go  special / readFloat  and  atoi.go underscoreOK  (syntax), and
   an EXACT decision of ErrRange with integer arithmetic: a syntactically valid number is
   rejected iff its exact rational value v satisfies |v| >= 2^1024 - 2^970 (the round-to-
   nearest-even boundary above MaxFloat64).  Go's "e < 10000" clamp of the exponent digits
   and its shortcuts dp > 310 / dp < -330 are kept (they also keep the numbers small).
   Underflow is not an error.  Definitions only. *)
From Coq Require Import ZArith.
From V Require Import lib.Base lib.Regex lib.Utf8 gen.GenTables model.Url.
Local Open Scope N_scope.

(* ------------------------------------------------------------------ scanning *)

(* consumeIn(str, mask): the longest prefix whose bytes are all in the table, and the rest *)
Fixpoint consume_in (t : list N) (s : bytes) : bytes * bytes :=
  match s with
  | [] => ([], [])
  | b :: s' =>
      if mem_N b t then let (c, r) := consume_in t s' in (b :: c, r) else ([], s)
  end.

(* consumeNotIn(str, mask): the longest prefix without a byte of the table, and the rest *)
Fixpoint consume_not_in (t : list N) (s : bytes) : bytes * bytes :=
  match s with
  | [] => ([], [])
  | b :: s' =>
      if mem_N b t then ([], s) else let (c, r) := consume_not_in t s' in (b :: c, r)
  end.

(* the five consume calls at the head of the loop body: ((url, metadata), rest) *)
Definition scan_one (s : bytes) : (bytes * bytes) * bytes :=
  let s1 := snd (consume_in T_asciiWhitespace s) in
  let (url, s2) := consume_not_in T_asciiWhitespace s1 in
  let s3 := snd (consume_in T_asciiWhitespace s2) in
  let (meta, s4) := consume_not_in T_srcsetMetachars s3 in
  let s5 := snd (consume_in T_asciiWhitespace s4) in
  ((url, meta), s5).

(* ------------------------------------------------------------------ strconv.ParseFloat *)

(* strconv.lower: c | ('x' - 'X') = c | 32 *)
Definition lower (c : N) : N := if N.testbit c 5 then c else c + 32.
Definition is_digit (c : N) : bool := (48 <=? c) && (c <=? 57).
Definition is_hex_letter (c : N) : bool := (97 <=? lower c) && (lower c <=? 102).

(* commonPrefixLenIgnoreCase(s, prefix), prefix lower case *)
Fixpoint common_prefix_len_ic (s prefix : bytes) : nat :=
  match s, prefix with
  | c :: s', p :: prefix' =>
      let c' := if (65 <=? c) && (c <=? 90) then c + 32 else c in
      if c' =? p then S (common_prefix_len_ic s' prefix') else O
  | _, _ => O
  end.

Definition inf_len (s : bytes) : option nat :=
  let n := common_prefix_len_ic s (B "infinity") in
  let n := if (Nat.ltb 3 n && Nat.ltb n 8)%bool then 3%nat else n in
  if (Nat.eqb n 3 || Nat.eqb n 8)%bool then Some n else None.

(* special(s): Some n = "ok, n bytes consumed".  A sign falls through to the inf case only:
   "+nan" is not special. *)
Definition special (s : bytes) : option nat :=
  match s with
  | [] => None
  | c :: t =>
      if (c =? 43) || (c =? 45) then
        match inf_len t with Some n => Some (S n) | None => None end
      else if (c =? 105) || (c =? 73) then inf_len s
      else if (c =? 110) || (c =? 78) then
        if Nat.eqb (common_prefix_len_ic s (B "nan")) 3 then Some 3%nat else None
      else None
  end.

(* the mantissa loop of readFloat.  State: sawdot sawdigits nd dp mantissa underscores.
   The mantissa is kept in full precision (Go keeps 19 resp. 16 digits and a trunc flag;
   the exact value is what decides ErrRange). *)
Definition mstate : Type := bool * bool * N * Z * N * bool.

Fixpoint mant_loop (hex : bool) (s : bytes) (sawdot sawdigits : bool) (nd : N) (dp : Z)
         (mant : N) (us : bool) : mstate * bytes :=
  match s with
  | [] => ((sawdot, sawdigits, nd, dp, mant, us), [])
  | c :: s' =>
      if c =? 95 then mant_loop hex s' sawdot sawdigits nd dp mant true
      else if c =? 46 then
        if sawdot then ((sawdot, sawdigits, nd, dp, mant, us), s)
        else mant_loop hex s' true sawdigits nd (Z.of_N nd) mant us
      else if is_digit c then
        if (c =? 48) && (nd =? 0) then mant_loop hex s' sawdot true nd (dp - 1)%Z mant us
        else mant_loop hex s' sawdot true (nd + 1) dp
                       (mant * (if hex then 16 else 10) + (c - 48)) us
      else if hex && is_hex_letter c then
        mant_loop hex s' sawdot true (nd + 1) dp (mant * 16 + (lower c - 97 + 10)) us
      else ((sawdot, sawdigits, nd, dp, mant, us), s)
  end.

(* the exponent digit loop: "if e < 10000 { e = e*10 + digit }" *)
Fixpoint exp_digits (s : bytes) (e : N) (us : bool) : (N * bool) * bytes :=
  match s with
  | [] => ((e, us), [])
  | c :: s' =>
      if c =? 95 then exp_digits s' e true
      else if is_digit c then exp_digits s' (if e <? 10000 then e * 10 + (c - 48) else e) us
      else ((e, us), s)
  end.

(* atoi.go underscoreOK; saw is one of '^' 94, '0' 48, '_' 95, '!' 33 *)
Fixpoint us_loop (hex : bool) (saw : N) (s : bytes) : bool :=
  match s with
  | [] => negb (saw =? 95)
  | c :: s' =>
      if is_digit c || (hex && is_hex_letter c) then us_loop hex 48 s'
      else if c =? 95 then (if saw =? 48 then us_loop hex 95 s' else false)
      else if saw =? 95 then false
      else us_loop hex 33 s'
  end.

Definition strip_sign (s : bytes) : bytes :=
  match s with
  | c :: t => if (c =? 43) || (c =? 45) then t else s
  | [] => s
  end.

Definition underscore_ok (s : bytes) : bool :=
  let s := strip_sign s in
  match s with
  | c0 :: c1 :: t =>
      if (c0 =? 48) && ((lower c1 =? 98) || (lower c1 =? 111) || (lower c1 =? 120))
      then us_loop (lower c1 =? 120) 48 t
      else us_loop false 94 s
  | _ => us_loop false 94 s
  end.

(* a syntactically valid number: value = mant * 10^(dp - nd)  resp.  mant * 2^(dp - 4 nd) *)
Record fnum := mk_fnum { f_hex : bool; f_mant : N; f_nd : N; f_dp : Z }.

Definition finish (s : bytes) (hex : bool) (mant nd : N) (dp : Z) (us : bool) (rest : bytes)
  : option (fnum * bytes) :=
  if us && negb (underscore_ok (firstn (length s - length rest) s)) then None
  else Some (mk_fnum hex mant nd dp, rest).

(* readFloat(s): None = not ok; Some (number, unread rest) *)
Definition read_float (s : bytes) : option (fnum * bytes) :=
  let s0 := strip_sign s in
  let hex := match s0 with
             | c0 :: c1 :: _ :: _ => (c0 =? 48) && (lower c1 =? 120)
             | _ => false
             end in
  let s1 := if hex then skipn 2 s0 else s0 in
  let '((sawdot, sawdigits, nd, dp, mant, us), r) := mant_loop hex s1 false false 0 0%Z 0 false in
  if negb sawdigits then None else
  let dp := if sawdot then dp else Z.of_N nd in
  let dp := if hex then (dp * 4)%Z else dp in
  let expchar := if hex then 112 else 101 in
  match r with
  | c :: r1 =>
      if lower c =? expchar then
        match r1 with
        | [] => None
        | c1 :: r2 =>
            let '(neg, r3) := if c1 =? 43 then (false, r2)
                              else if c1 =? 45 then (true, r2) else (false, r1) in
            match r3 with
            | d :: _ =>
                if is_digit d then
                  let '((e, us'), r4) := exp_digits r3 0 us in
                  let dp' := if neg then (dp - Z.of_N e)%Z else (dp + Z.of_N e)%Z in
                  finish s hex mant nd dp' us' r4
                else None
            | [] => None
            end
        end
      else if hex then None else finish s hex mant nd dp us r
  | [] => if hex then None else finish s hex mant nd dp us r
  end.

(* 2^1024 - 2^970: halfway between MaxFloat64 and 2^1024; the tie rounds to even = up *)
Definition overflow_threshold : N := N.shiftl 1 1024 - N.shiftl 1 970.

Definition overflows (f : fnum) : bool :=
  let T := overflow_threshold in
  if f_mant f =? 0 then false
  else if f_hex f then
    let e := (f_dp f - 4 * Z.of_N (f_nd f))%Z in
    if (0 <=? e)%Z then
      (if (1100 <? e)%Z then true else T <=? N.shiftl (f_mant f) (Z.to_N e))
    else
      let k := Z.to_N (- e) in
      if 4 * f_nd f <? k then false else N.shiftl T k <=? f_mant f
  else
    if (310 <? f_dp f)%Z then true
    else if (f_dp f <? -330)%Z then false
    else
      let x := (f_dp f - Z.of_N (f_nd f))%Z in
      if (0 <=? x)%Z then T <=? f_mant f * 10 ^ Z.to_N x
      else T * 10 ^ Z.to_N (- x) <=? f_mant f.

Definition is_nil {A} (l : list A) : bool := match l with [] => true | _ => false end.

(* strconv.ParseFloat(s, 64) returns err == nil *)
Definition parse_float_ok (s : bytes) : bool :=
  match special s with
  | Some n => Nat.eqb n (length s)
  | None =>
      match read_float s with
      | Some (f, rest) => is_nil rest && negb (overflows f)
      | None => false
      end
  end.

Definition is_ascii_letter (c : N) : bool := (97 <=? lower c) && (lower c <=? 122).

Definition is_optional_src_metadata_well_formed (m : bytes) : bool :=
  match m with
  | [] => true
  | _ => parse_float_ok (if is_ascii_letter (last m 0) then removelast m else m)
  end.

(* ------------------------------------------------------------------ appendURLToSet *)

(* (t without one trailing ',', whether there was one); t = [] gives ([], false), which is the
   "left < right" guard *)
Fixpoint strip_trailing_comma (t : bytes) : bytes * bool :=
  match t with
  | [] => ([], false)
  | b :: t' =>
      match t' with
      | [] => if b =? 44 then ([], true) else ([b], false)
      | _ => let (m, ce) := strip_trailing_comma t' in (b :: m, ce)
      end
  end.

Definition pct_comma : bytes := B "%2c".

(* what appendURLToSet writes for a non-empty url (url[0] on an empty url would panic; the
   caller never passes one) *)
Definition render_url (u : bytes) : bytes :=
  match u with
  | [] => []
  | b0 :: t =>
      let '(pre, body) := if b0 =? 44 then (pct_comma, t) else ([], u) in
      let (mid, ce) := strip_trailing_comma body in
      pre ++ mid ++ (if ce then pct_comma else [])
  end.

Definition render (c : bytes * bytes) : bytes :=
  render_url (fst c) ++ (if is_nil (snd c) then [] else 32 :: snd c).

(* ------------------------------------------------------------------ URLSetSanitized *)

(* The URL test is a parameter only so that the OCaml driver can pass a memoising wrapper of the
   extracted (pure) is_safe_url; the model is the instance at is_safe_url, by definition. *)
Definition cand_ok_with (safe : bytes -> bool) (c : bytes * bytes) : bool :=
  negb (is_nil (fst c)) && safe (fst c) && is_optional_src_metadata_well_formed (snd c).

Definition sep : bytes := B " , ".

Definition append_cand_with (safe : bytes -> bool) (buf : bytes) (c : bytes * bytes) : bytes :=
  if cand_ok_with safe c then (if is_nil buf then [] else buf ++ sep) ++ render c else buf.

(* the for loop; every iteration that continues has consumed a ',' so S (length s) rounds
   suffice (proofs/UrlSetFacts.v: url_loop_fuel); None = fuel exhausted, never happens *)
Fixpoint url_loop_with (safe : bytes -> bool) (fuel : nat) (s : bytes) (buf : bytes)
  : option bytes :=
  match fuel with
  | O => None
  | S f =>
      match s with
      | [] => Some buf
      | _ =>
          let '(c, rest) := scan_one s in
          let buf' := append_cand_with safe buf c in
          match rest with
          | b :: rest' => if b =? 44 then url_loop_with safe f rest' buf' else Some buf'
          | [] => Some buf'
          end
      end
  end.

Definition urlset_sanitized_with (safe : bytes -> bool) (s : bytes) : bytes :=
  match url_loop_with safe (S (length s)) s [] with
  | Some [] => innocuous_url
  | Some buf => buf
  | None => []
  end.

Definition cand_ok : bytes * bytes -> bool := cand_ok_with is_safe_url.
Definition urlset_sanitized : bytes -> bytes := urlset_sanitized_with is_safe_url.

(* the (url, metadata) pairs the loop reads, in order *)
Fixpoint scan (fuel : nat) (s : bytes) : list (bytes * bytes) :=
  match fuel with
  | O => []
  | S f =>
      match s with
      | [] => []
      | _ =>
          let '(c, rest) := scan_one s in
          match rest with
          | b :: rest' => if b =? 44 then c :: scan f rest' else [c]
          | [] => [c]
          end
      end
  end.

Definition scan_all (s : bytes) : list (bytes * bytes) := scan (S (length s)) s.

(* ------------------------------------------------------------------ vocabulary of the theorems *)
Fixpoint join (sp : bytes) (l : list bytes) : bytes :=
  match l with
  | [] => []
  | x :: l' => match l' with [] => x | _ => x ++ sp ++ join sp l' end
  end.

(* the descriptor tokens a candidate is written with *)
Definition descr_tokens (m : bytes) : list bytes := match m with [] => [] | _ => [m] end.

(* "copied, in order, from s": s read as  ws* url ws* metadata ws*  items separated by ","
   (what follows an item that is not followed by "," is ignored, as the loop does) *)
Definition all_ws (w : bytes) : Prop := Forall (fun b => mem_N b T_asciiWhitespace = true) w.

Inductive reads : bytes -> list (bytes * bytes) -> Prop :=
| reads_nil : reads [] []
| reads_last w1 u w2 m w3 rest :
    all_ws w1 -> all_ws w2 -> all_ws w3 ->
    match rest with [] => True | b :: _ => b <> 44 end ->
    reads (w1 ++ u ++ w2 ++ m ++ w3 ++ rest) [(u, m)]
| reads_more w1 u w2 m w3 s' cs :
    all_ws w1 -> all_ws w2 -> all_ws w3 -> reads s' cs ->
    reads (w1 ++ u ++ w2 ++ m ++ w3 ++ 44 :: s') ((u, m) :: cs).

(* one leading and one trailing "," of a URL written as "%2c", everything else verbatim *)
Definition pct_ends (lead trail : bool) (comma mid : bytes) : bytes :=
  (if lead then comma else []) ++ mid ++ (if trail then comma else []).
