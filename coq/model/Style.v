(* Model of style.go: cssEscapeString, filter, StyleFromProperties.
   The emission order, the CSS property names and the value treatment of every field are
   NOT written here: they are the regenerated list gen/GenStyle.style_fields, recovered by
   the translator from the statement sequence of StyleFromProperties.  Definitions only. *)
From V Require Import lib.Base lib.Regex lib.Utf8 gen.GenRegex gen.GenStyle model.Url.
Local Open Scope N_scope.

(* ---- fmt.Fprintf(&b, "\\%06X", c) for 0 <= c < 16^6 ---- *)
Definition hex_digit_upper (d : N) : N := if d <? 10 then 48 + d else 55 + d.
Definition hex6 (c : N) : bytes :=
  [ hex_digit_upper ((c / 1048576) mod 16); hex_digit_upper ((c / 65536) mod 16);
    hex_digit_upper ((c / 4096) mod 16); hex_digit_upper ((c / 256) mod 16);
    hex_digit_upper ((c / 16) mod 16); hex_digit_upper (c mod 16) ].

(* the runes of the `case` with the escape in cssEscapeString *)
Definition css_must_escape (c : N) : bool :=
  (c =? 60) || (c =? 34) || (c =? 92) || (c <=? 31) || (c =? 127) ||
  ((128 <=? c) && (c <=? 159)) || (c =? 8232) || (c =? 8233).

Definition css_escape_rune (c : N) : bytes :=
  if c =? 0 then [239; 191; 189]
  else if css_must_escape c then 92 :: hex6 c
  else encode_rune c.

(* for _, c := range s *)
Definition css_escape_string (s : bytes) : bytes := flat_map css_escape_rune (decode_runes s).

(* filter(value, pattern) *)
Definition filter_value (pat : regex) (v : bytes) : bytes :=
  if go_match pat (decode_runes v) then v else innocuous_property_value.

(* strings.Join-like separator handling of the two loops: `if i > 0 { ", " }` *)
Fixpoint join_comma_space (l : list bytes) : bytes :=
  match l with
  | [] => []
  | [x] => x
  | x :: r => x ++ [44; 32] ++ join_comma_space r
  end.

(* url("%s") with cssEscapeString(URLSanitized(url).String()) *)
Definition url_item (u : bytes) : bytes :=
  [117; 114; 108; 40; 34] ++ css_escape_string (url_sanitized u) ++ [34; 41].

Definition last_byte_is (b : N) (s : bytes) : bool :=
  match last_or s None with Some c => c =? b | None => false end.

(* name[1 : len(name)-1] *)
Definition strip_outer (s : bytes) : bytes := removelast (tl s).

Definition font_item (name : bytes) : bytes :=
  if go_match G_identifierPattern (decode_runes name) then name
  else
    let unescaped :=
      if (3 <=? N.of_nat (length name)) && prefixb [34] name && last_byte_is 34 name
      then strip_outer name else name in
    [34] ++ css_escape_string unescaped ++ [34].

(* a StyleProperties value: one entry per struct field, in declaration order *)
Inductive pv : Type := PList (l : list bytes) | PStr (s : bytes).

Definition is_nil {A} (l : list A) : bool := match l with [] => true | _ => false end.

(* the value part of one emission, None when the field is empty (nothing is emitted) *)
Definition field_value (kind : N) (v : pv) : option bytes :=
  match v with
  | PList l =>
      if is_nil l then None
      else if kind =? 0 then Some (join_comma_space (map url_item l))
      else if kind =? 1 then Some (join_comma_space (map font_item l))
      else None
  | PStr s =>
      if is_nil s then None
      else if kind =? 2 then Some (filter_value G_safeEnumPropertyValuePattern s)
      else if kind =? 3 then Some (filter_value G_safeRegularPropertyValuePattern s)
      else None
  end.

Definition emit_field (p : list pv) (e : N * bytes * N) : bytes :=
  let '(ix, name, kind) := e in
  match nth_error p (N.to_nat ix) with
  | Some v =>
      match field_value kind v with
      | Some val => name ++ [58] ++ val ++ [59]
      | None => []
      end
  | None => []
  end.

(* StyleFromProperties(properties).String() *)
Definition style_from_properties (p : list pv) : bytes := flat_map (emit_field p) style_fields.
