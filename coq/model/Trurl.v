(* Model of trustedresourceurl.go: trustedResourceURLFormat (behind
   TrustedResourceURLFormatFromConstant / FromFlag), TrustedResourceURLAppend and
   TrustedResourceURLWithParams.  Faithful to the code, including what it returns next to an error.
   Definitions only.

   Markers.  trustedResourceURLFormatMarkerPattern = `%{[[:word:]]+}` is used through
   ReplaceAllStringFunc: leftmost, non-overlapping matches; at a given start the only possible
   match is "%{" + the longest run of [0-9A-Za-z_] + "}" because the class excludes '}'.
   The pattern is pure ASCII, and an ASCII byte is always decoded as itself while a non-ASCII
   byte never yields an ASCII rune, so the scan is done on bytes.  The scanner below is the
   hand-written one-pass automaton (states: text / after '%' / inside "%{label"); it is tied to
   Go's regexp by the correspondence stream tru_format and to the declarative reading of
   spec/TrurlSpec.v by proofs/TrurlFacts.v (tru_scan_spec). *)
From V Require Import lib.Base lib.Regex lib.Utf8 gen.GenRegex model.UrlProc.
Local Open Scope N_scope.

Definition is_word (c : N) : bool :=
  ((48 <=? c) && (c <=? 57)) || ((65 <=? c) && (c <=? 90)) || (c =? 95) || ((97 <=? c) && (c <=? 122)).

Inductive piece := Lit (c : N) | Mark (label : bytes).

Definition lits (s : bytes) : list piece := map Lit s.

(* SLab rl: "%{" has been read, followed by the label bytes rev rl *)
Inductive scan_state := SText | SPct | SLab (rl : bytes).

Definition scan_flush (st : scan_state) : list piece :=
  match st with
  | SText => []
  | SPct => [Lit 37]
  | SLab rl => lits (37 :: 123 :: rev rl)
  end.

Definition is_nil {A} (l : list A) : bool := match l with [] => true | _ => false end.

Fixpoint tru_scan (st : scan_state) (s : bytes) : list piece :=
  match s with
  | [] => scan_flush st
  | c :: t =>
      match st with
      | SText => if c =? 37 then tru_scan SPct t else Lit c :: tru_scan SText t
      | SPct =>
          if c =? 123 then tru_scan (SLab []) t
          else if c =? 37 then Lit 37 :: tru_scan SPct t
          else Lit 37 :: Lit c :: tru_scan SText t
      | SLab rl =>
          if is_word c then tru_scan (SLab (c :: rl)) t
          else if (c =? 125) && negb (is_nil rl) then Mark (rev rl) :: tru_scan SText t
          else scan_flush st ++ (if c =? 37 then tru_scan SPct t else Lit c :: tru_scan SText t)
      end
  end.

Definition tru_pieces (format : bytes) : list piece := tru_scan SText format.

(* Go map lookup; the harness hands the map over as an association list with unique keys *)
Fixpoint assoc (k : bytes) (args : list (bytes * bytes)) : option bytes :=
  match args with
  | [] => None
  | (k', v) :: r => if bytes_eqb k k' then Some v else assoc k r
  end.

(* the error variable of trustedResourceURLFormat: which error, about which label *)
Inductive tru_err := ErrPrefix | ErrMissing (label : bytes) | ErrDotDot (label : bytes).

(* The replacement callback runs on the matches from left to right; [err] is the captured variable:
   a missing argument sets it only when it is still nil, a ".." value always overwrites it;
   both replace the marker by "". *)
Fixpoint tru_fill (args : list (bytes * bytes)) (ps : list piece) (err : option tru_err)
  : bytes * option tru_err :=
  match ps with
  | [] => ([], err)
  | Lit c :: r => let (o, e) := tru_fill args r err in (c :: o, e)
  | Mark l :: r =>
      match assoc l args with
      | None => tru_fill args r (match err with None => Some (ErrMissing l) | Some _ => err end)
      | Some v =>
          if contains_double_dot v then tru_fill args r (Some (ErrDotDot l))
          else let (o, e) := tru_fill args r err in (query_escape_url v ++ o, e)
      end
  end.

(* what the Go function returns: (TrustedResourceURL.str, err) *)
Definition tru_format_raw (format : bytes) (args : list (bytes * bytes)) : bytes * option tru_err :=
  if is_safe_tru_prefix format then tru_fill args (tru_pieces format) None
  else ([], Some ErrPrefix).

(* None = the call reported an error *)
Definition tru_format (format : bytes) (args : list (bytes * bytes)) : option bytes :=
  match tru_format_raw format args with
  | (o, None) => Some o
  | (_, Some _) => None
  end.

Definition tru_append (t s : bytes) : option bytes :=
  if is_safe_tru_prefix t then Some (t ++ query_escape_url s) else None.

(* ---- TrustedResourceURLWithParams ---- *)

(* url[:i], url[i:] for i = strings.IndexByte(url, '#'); no '#': (url, "") *)
Fixpoint split_frag (s : bytes) : bytes * bytes :=
  match s with
  | [] => ([], [])
  | c :: t => if c =? 35 then ([], s) else let (a, f) := split_frag t in (c :: a, f)
  end.

(* strings.IndexRune(url, '?') for the ASCII rune '?' is the index of the first byte 63 *)
Fixpoint index_of (d : N) (s : bytes) : option nat :=
  match s with
  | [] => None
  | c :: t => if c =? d then Some O else match index_of d t with Some i => Some (S i) | None => None end
  end.

Definition params_sep (url : bytes) : bytes :=
  match index_of 63 url with
  | None => [63]
  | Some i => if Nat.eqb (S i) (length url) then [] else [38]       (* i == len(url)-1 *)
  end.

(* byte-wise lexicographic order of Go strings *)
Fixpoint bytes_leb (a b : bytes) : bool :=
  match a, b with
  | [], _ => true
  | _ :: _, [] => false
  | x :: a', y :: b' => if x <? y then true else if y <? x then false else bytes_leb a' b'
  end.

Fixpoint insert_sorted (x : bytes) (l : list bytes) : list bytes :=
  match l with
  | [] => [x]
  | y :: r => if bytes_leb x y then x :: l else y :: insert_sorted x r
  end.

(* sort.Strings *)
Definition sort_strings (l : list bytes) : list bytes := fold_right insert_sorted [] l.

Fixpoint join_amp (l : list bytes) : bytes :=
  match l with
  | [] => []
  | [x] => x
  | x :: r => x ++ 38 :: join_amp r
  end.

Definition param_nonempty (kv : bytes * bytes) : bool := negb (is_nil (fst kv)) && negb (is_nil (snd kv)).
Definition param_string (kv : bytes * bytes) : bytes :=
  query_escape_url (fst kv) ++ 61 :: query_escape_url (snd kv).

(* [params] is the map in the order in which this particular `range` visits it *)
Definition tru_with_params (t : bytes) (params : list (bytes * bytes)) : bytes :=
  let (url, frag) := split_frag t in
  match sort_strings (map param_string (filter param_nonempty params)) with
  | [] => url ++ frag
  | sp => url ++ params_sep url ++ join_amp sp ++ frag
  end.
