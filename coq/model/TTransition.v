(* Model of template/transition.go.  Every Go index / slice expression is a checked access:
   an out-of-range access evaluates to TPanic, so index safety is proved (C08), not assumed. *)
From V Require Import lib.Base lib.Utf8 gen.GenTemplate model.GoStrings model.TContext.
Local Open Scope N_scope.

Inductive tres := TOk (c : context) (n : nat) | TPanic.

Definition is_ws (c : N) : bool := mem_N c [32; 9; 10; 12; 13].
Definition ascii_alpha (c : N) : bool := ((65 <=? c) && (c <=? 90)) || ((97 <=? c) && (c <=? 122)).
Definition ascii_alnum (c : N) : bool := ascii_alpha c || ((48 <=? c) && (c <=? 57)).

(* eatWhiteSpace(s, i): index of the first non-white-space byte at or after i *)
Fixpoint eat_ws_list (l : bytes) : nat :=
  match l with c :: t => if is_ws c then S (eat_ws_list t) else O | [] => O end.
Definition eat_white_space (s : bytes) (i : nat) : nat := (i + eat_ws_list (skipn i s))%nat.

(* eatAttrName(s, i): Some j, or None for the error (a quote or less-than sign in the name) *)
Fixpoint eat_attr_list (l : bytes) : option nat :=
  match l with
  | [] => Some O
  | c :: t =>
      if mem_N c [32; 9; 10; 12; 13; 61; 62] then Some O
      else if mem_N c [39; 34; 60] then None
      else match eat_attr_list t with Some j => Some (S j) | None => None end
  end.
Definition eat_attr_name (s : bytes) (i : nat) : option nat :=
  match eat_attr_list (skipn i s) with Some j => Some (i + j)%nat | None => None end.

(* eatTagName(s, i) *)
Fixpoint eat_tag_tail (fuel : nat) (l : bytes) : nat :=
  match fuel with
  | O => O
  | S f =>
      match l with
      | x :: t =>
          if ascii_alnum x then S (eat_tag_tail f t)
          else if (x =? 58) || (x =? 45) then
            match t with
            | y :: t' => if ascii_alnum y then S (S (eat_tag_tail f t')) else O
            | [] => O
            end
          else O
      | [] => O
      end
  end.
Definition eat_tag_name (s : bytes) (i : nat) : nat * bytes :=
  match skipn i s with
  | c :: t => if ascii_alpha c
              then let j := (i + 1 + eat_tag_tail (length t) t)%nat in
                   (j, to_lower_bytes (firstn (j - i) (skipn i s)))
              else (i, [])
  | [] => (i, [])
  end.

(* tText: the loop over '<' positions, k = start of the search *)
Fixpoint t_text_loop (fuel : nat) (c : context) (s : bytes) (k : nat) : tres :=
  match fuel with
  | O => TPanic
  | S f =>
      match index_byte 60 (skipn k s) with
      | None => TOk c (length s)
      | Some d =>
          let i := (k + d)%nat in
          if Nat.eqb (i + 1) (length s) then TOk c (length s)
          else if Nat.leb (i + 4) (length s) && bytes_eqb (firstn 4 (skipn i s)) (B "<!--")
          then TOk (ctx_state StHTMLCmt) (i + 4)
          else
            let i := S i in
            match byte_at s i with
            | None => TPanic
            | Some ch =>
                if ch =? 47 then
                  if Nat.eqb (i + 1) (length s) then TOk c (length s)
                  else
                    let i := S i in
                    let '(j, e) := eat_tag_name s i in
                    if negb (Nat.eqb j i) then TOk (ctx_state StTag) j
                    else t_text_loop f c s j
                else
                  let '(j, e) := eat_tag_name s i in
                  if negb (Nat.eqb j i) then TOk (set_elem (ctx_state StTag) e) j
                  else t_text_loop f c s j
            end
      end
  end.
Definition t_text (c : context) (s : bytes) : tres := t_text_loop (S (length s)) c s 0.

(* tTag *)
Definition t_tag (c : context) (s : bytes) : tres :=
  let i := eat_white_space s 0 in
  if Nat.eqb i (length s) then TOk c (length s)
  else
    match byte_at s i with
    | None => TPanic
    | Some ch =>
        if ch =? 62 then
          let st := if mem_bytes (c_elem c) T_specialElements then StSpecialElementBody else StText in
          let void := negb (bytes_eqb (c_elem c) []) && mem_bytes (c_elem c) T_voidElements in
          TOk (mkctx st DNone (if void then [] else c_elem c) (if void then [] else c_elem_names c) [] [] false [] None
                     (if void then [] else c_script_type c) (if void then [] else c_link_rel c))
              (i + 1)
        else
          match eat_attr_name s i with
          | None => TOk (ctx_error ErrBadHTML) (length s)
          | Some j =>
              if Nat.eqb i j then TOk (ctx_error ErrBadHTML) (length s)
              else
                match slice s i j with
                | None => TPanic
                | Some nm =>
                    TOk (mkctx (if Nat.eqb j (length s) then StAttrName else StAfterName) DNone
                               (c_elem c) (c_elem_names c) (to_lower_bytes nm) [] false [] None [] (c_link_rel c)) j
                end
          end
    end.

Definition t_attr_name (c : context) (s : bytes) : tres :=
  match eat_attr_name s 0 with
  | None => TOk (ctx_error ErrBadHTML) (length s)
  | Some i => if negb (Nat.eqb i (length s)) then TOk (set_state c StAfterName) i else TOk c i
  end.

Definition t_after_name (c : context) (s : bytes) : tres :=
  let i := eat_white_space s 0 in
  if Nat.eqb i (length s) then TOk c (length s)
  else match byte_at s i with
       | None => TPanic
       | Some ch => if negb (ch =? 61) then TOk (set_state c StTag) i
                    else TOk (set_state c StBeforeValue) (i + 1)
       end.

Definition t_before_value (c : context) (s : bytes) : tres :=
  let i := eat_white_space s 0 in
  if Nat.eqb i (length s) then TOk c (length s)
  else match byte_at s i with
       | None => TPanic
       | Some ch =>
           if ch =? 39 then TOk (set_state_delim c StAttr DSingleQuote) (i + 1)
           else if ch =? 34 then TOk (set_state_delim c StAttr DDoubleQuote) (i + 1)
           else TOk (set_state_delim c StAttr DSpaceOrTagEnd) i
       end.

Definition t_html_cmt (c : context) (s : bytes) : tres :=
  match index_of (B "-->") s with
  | Some i => TOk ctx0 (i + 3)
  | None => TOk c (length s)
  end.

(* indexTagEnd: res accumulates the offset of the current s within the original *)
Fixpoint index_tag_end_loop (fuel : nat) (s tag : bytes) (res : nat) : option nat :=
  match fuel with
  | O => None
  | S f =>
      match s with
      | [] => None
      | _ =>
          match index_of (B "</") s with
          | None => None
          | Some i =>
              let s1 := skipn (i + 2) s in
              if Nat.leb (length tag) (length s1) && prefix_fold tag s1 &&
                 Nat.eqb (length tag) (length (firstn (length tag) s1)) then
                let s2 := skipn (length tag) s1 in
                match s2 with
                | ch :: _ => if mem_N ch T_tagEndSeparators then Some (res + i)%nat
                             else index_tag_end_loop f s2 tag (res + length tag + i + 2)
                | [] => index_tag_end_loop f s2 tag (res + length tag + i + 2)
                end
              else index_tag_end_loop f s1 tag (res + i + 2)
          end
      end
  end.
Definition index_tag_end (s tag : bytes) : option nat := index_tag_end_loop (S (length s)) s tag 0.

(* context.go isInTag *)
Definition is_in_tag (st : state) : bool :=
  match st with
  | StTag | StAttrName | StAfterName | StBeforeValue | StAttr => true
  | _ => false
  end.

(* the end tag of a special element is looked for in the element's body only, not inside its start
   tag (fix: look for the end tag of a special element only in the element's body) *)
Definition special_applies (c : context) : bool :=
  mem_bytes (c_elem c) T_specialElements && negb (is_in_tag (c_state c)).

Definition t_special_tag_end (c : context) (s : bytes) : tres :=
  if special_applies c then
    match index_tag_end s (c_elem c) with
    | Some i => TOk ctx0 i
    | None => TOk c (length s)
    end
  else TOk c (length s).

Definition t_attr (c : context) (s : bytes) : tres := TOk c (length s).
Definition t_error (c : context) (s : bytes) : tres := TOk c (length s).

Definition transition (st : state) : context -> bytes -> tres :=
  match st with
  | StText => t_text
  | StSpecialElementBody => t_special_tag_end
  | StTag => t_tag
  | StAttrName => t_attr_name
  | StAfterName => t_after_name
  | StBeforeValue => t_before_value
  | StHTMLCmt => t_html_cmt
  | StAttr => t_attr
  | StError => t_error
  end.
