(* Model of template/context.go and the context helpers of template/escape.go
   (nudge, join, joinNames, mangle). *)
From V Require Import lib.Base lib.Utf8 gen.GenTemplate model.GoStrings.
Local Open Scope N_scope.

Inductive state := StText | StSpecialElementBody | StTag | StAttrName | StAfterName
                 | StBeforeValue | StHTMLCmt | StAttr | StError.
Inductive delim := DNone | DDoubleQuote | DSingleQuote | DSpaceOrTagEnd.

Definition state_num (s : state) : N :=
  match s with
  | StText => 0 | StSpecialElementBody => 1 | StTag => 2 | StAttrName => 3 | StAfterName => 4
  | StBeforeValue => 5 | StHTMLCmt => 6 | StAttr => 7 | StError => 8
  end.
Definition delim_num (d : delim) : N :=
  match d with DNone => 0 | DDoubleQuote => 1 | DSingleQuote => 2 | DSpaceOrTagEnd => 3 end.
Definition state_eqb (a b : state) : bool := state_num a =? state_num b.
Definition delim_eqb (a b : delim) : bool := delim_num a =? delim_num b.

(* ErrorCode values of template/error.go *)
Definition ErrBadHTML : N := 2.
Definition ErrBranchEnd : N := 3.
Definition ErrEndContext : N := 4.
Definition ErrNoSuchTemplate : N := 5.
Definition ErrOutputContext : N := 6.
Definition ErrPredefinedEscaper : N := 11.
Definition ErrEscapeAction : N := 12.
Definition ErrCSPCompatibility : N := 13.
Definition ErrUnbalancedJsTemplate : N := 14.

Record context := mkctx {
  c_state : state;
  c_delim : delim;
  c_elem : bytes;                (* element.name *)
  c_elem_names : list bytes;     (* element.names *)
  c_attr : bytes;                (* attr.name *)
  c_attr_value : bytes;          (* attr.value *)
  c_attr_amb : bool;             (* attr.ambiguousValue *)
  c_attr_names : list bytes;     (* attr.names *)
  c_err : option N;              (* err: Some ErrorCode *)
  c_script_type : bytes;
  c_link_rel : bytes
}.

Definition ctx0 : context := mkctx StText DNone [] [] [] [] false [] None [] [].
Definition ctx_state (s : state) : context := mkctx s DNone [] [] [] [] false [] None [] [].
Definition ctx_error (code : N) : context := mkctx StError DNone [] [] [] [] false [] (Some code) [] [].

Definition set_state (c : context) (s : state) : context :=
  mkctx s (c_delim c) (c_elem c) (c_elem_names c) (c_attr c) (c_attr_value c) (c_attr_amb c)
        (c_attr_names c) (c_err c) (c_script_type c) (c_link_rel c).
Definition set_state_delim (c : context) (s : state) (d : delim) : context :=
  mkctx s d (c_elem c) (c_elem_names c) (c_attr c) (c_attr_value c) (c_attr_amb c)
        (c_attr_names c) (c_err c) (c_script_type c) (c_link_rel c).
Definition set_attr_value (c : context) (v : bytes) : context :=
  mkctx (c_state c) (c_delim c) (c_elem c) (c_elem_names c) (c_attr c) v (c_attr_amb c)
        (c_attr_names c) (c_err c) (c_script_type c) (c_link_rel c).

(* context.eq: element and attr compare by name only; err pointers are equal only when both nil *)
Definition ctx_eq (c d : context) : bool :=
  state_eqb (c_state c) (c_state d) && delim_eqb (c_delim c) (c_delim d) &&
  bytes_eqb (c_elem c) (c_elem d) && bytes_eqb (c_attr c) (c_attr d) &&
  (match c_err c, c_err d with None, None => true | _, _ => false end) &&
  bytes_eqb (c_script_type c) (c_script_type d) && bytes_eqb (c_link_rel c) (c_link_rel d).

Definition mem_bytes (x : bytes) (l : list bytes) : bool := existsb (bytes_eqb x) l.

(* nudge *)
Definition nudge (c : context) : context :=
  match c_state c with
  | StTag => set_state c StAttrName
  | StBeforeValue => set_state_delim c StAttr DSpaceOrTagEnd
  | StAfterName => set_state c StAttrName
  | _ => c
  end.

(* joinNames (fix: keep the names accumulated on the first branch in joinNames) *)
Definition join_names (an bn : bytes) (ans bns : list bytes) : list bytes :=
  ans ++ (if bytes_eqb an bn then [] else [an; bn]) ++ filter (fun n => negb (mem_bytes n ans)) bns.

Definition set_elem (c : context) (e : bytes) : context :=
  mkctx (c_state c) (c_delim c) e (c_elem_names c) (c_attr c) (c_attr_value c) (c_attr_amb c)
        (c_attr_names c) (c_err c) (c_script_type c) (c_link_rel c).
Definition set_attr (c : context) (a : bytes) : context :=
  mkctx (c_state c) (c_delim c) (c_elem c) (c_elem_names c) a (c_attr_value c) (c_attr_amb c)
        (c_attr_names c) (c_err c) (c_script_type c) (c_link_rel c).

(* join; the recursion through nudge is at most one level deep because nudge is idempotent *)
Definition join_merge (a b : context) : context :=
  mkctx (c_state a) (c_delim a) (c_elem a)
        (join_names (c_elem a) (c_elem b) (c_elem_names a) (c_elem_names b))
        (c_attr a) (c_attr_value a)
        (c_attr_amb a || negb (bytes_eqb (c_attr_value a) (c_attr_value b)) || c_attr_amb b)
        (* || c_attr_amb b: fix: keep the ambiguity ... when only the second joined branch carries it *)
        (join_names (c_attr a) (c_attr b) (c_attr_names a) (c_attr_names b))
        (c_err a) (c_script_type a) (c_link_rel a).

Definition join_flat (a b : context) : option context :=
  let a := join_merge a b in
  if ctx_eq a b then Some a
  else if ctx_eq (set_elem a (c_elem b)) b then Some (set_elem a (c_elem b))
  else if ctx_eq (set_attr a (c_attr b)) b then Some (set_attr a (c_attr b))
  else None.

Fixpoint join_fuel (fuel : nat) (a b : context) : context :=
  match c_state a, c_state b with
  | StError, _ => a
  | _, StError => b
  | _, _ =>
      match join_flat a b with
      | Some c => c
      | None =>
          let a' := join_merge a b in
          let c := nudge a' in
          let d := nudge b in
          let err := ctx_error ErrBranchEnd in
          if negb (ctx_eq c a' && ctx_eq d b) then
            match fuel with
            | O => err
            | S f => let e := join_fuel f c d in
                     match c_state e with StError => err | _ => e end
            end
          else err
      end
  end.
Definition join (a b : context) : context := join_fuel 3 a b.

(* mangle *)
Definition title_case (s : bytes) : bytes :=
  (* strings.Title on an element/attribute name: upper-case the first letter of each word
     (word characters: ASCII alphanumerics and '_'; non-ASCII bytes are kept and treated as word
     characters -- exact for ASCII names, an injective simplification otherwise: mangled names are
     only ever compared for equality) *)
  let fix go (prev_letter : bool) (l : bytes) : bytes :=
      match l with
      | [] => []
      | c :: t =>
          let is_letter := ((97 <=? c) && (c <=? 122)) || ((65 <=? c) && (c <=? 90)) || (128 <=? c)
                           || ((48 <=? c) && (c <=? 57)) || (c =? 95) in
          (if prev_letter then c else ascii_upper c) :: go is_letter t
      end in
  go false s.

Definition mangle (c : context) (name : bytes) : bytes :=
  match c_state c with
  | StText => name
  | _ =>
      name ++ B "$htmltemplate_" ++ nth (N.to_nat (state_num (c_state c))) T_stateNames []
      ++ (match c_delim c with DNone => [] | d => B "_" ++ nth (N.to_nat (delim_num d)) T_delimNames [] end)
      ++ (match c_attr c with [] => [] | a => B "_attr" ++ title_case a end)
      ++ (match c_elem c with [] => [] | e => B "_element" ++ title_case e end)
  end.
