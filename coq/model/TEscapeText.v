(* Model of contextAfterText, escapeText and isJsTemplateBalanced (template/escape.go). *)
From V Require Import lib.Base lib.Utf8 gen.GenTemplate gen.GenPolicy.
From V Require Import model.GoStrings model.HtmlUnescape model.TContext model.TTransition.
Local Open Scope N_scope.

(* the loop `for u := unescape(s); len(u) != 0; { c, u = transition(c, u) }` of contextAfterText *)
Fixpoint run_transitions (fuel : nat) (c : context) (u : bytes) : option context :=
  match u with
  | [] => Some c
  | _ =>
      match fuel with
      | O => None
      | S f =>
          match transition (c_state c) c u with
          | TPanic => None
          | TOk c1 n => run_transitions f c1 (skipn n u)
          end
      end
  end.

Definition delim_ends (d : delim) : bytes := nth (N.to_nat (delim_num d)) T_delimEnds [].

Definition link_rel_of (v : bytes) : bytes :=
  B " " ++ join_with (B " ") (fields (to_lower_bytes v)) ++ B " ".

Definition context_after_text (c : context) (s : bytes) : tres :=
  match c_delim c with
  | DNone =>
      match t_special_tag_end c s with
      | TPanic => TPanic
      | TOk c1 i =>
          if Nat.eqb i 0 then TOk c1 0
          else match slice s 0 i with
               | None => TPanic
               | Some pre => transition (c_state c) c pre
               end
      end
  | d =>
      let i := match index_any (delim_ends d) s with Some i => i | None => length s end in
      let bad :=
          match d with
          | DSpaceOrTagEnd => match index_any [34; 39; 60; 61; 96] (firstn i s) with Some _ => true | None => false end
          | _ => false
          end in
      if bad then TOk (ctx_error ErrBadHTML) (length s)
      else if Nat.eqb i (length s) then
        let c := set_attr_value c (c_attr_value c ++ s) in
        (* the loop makes progress or ends: fuel = 2 * length + 2 is ample, exhaustion is a panic *)
        match run_transitions (2 * length s + 2) c (html_unescape s) with
        | Some c' => TOk c' (length s)
        | None => TPanic
        end
      else
        let v := firstn i s in
        let in_attr := match c_state c with StAttr => true | _ => false end in
        let st := if in_attr && bytes_eqb (c_elem c) (B "script") && bytes_eqb (c_attr c) (B "type")
                  then to_lower_bytes v else c_script_type c in
        let lr := if in_attr && bytes_eqb (c_elem c) (B "link") && bytes_eqb (c_attr c) (B "rel")
                  then link_rel_of v else c_link_rel c in
        TOk (mkctx StTag DNone (c_elem c) (c_elem_names c) [] [] false [] None st lr)
            (match d with DSpaceOrTagEnd => i | _ => S i end)
  end.

(* ---- isJsTemplateBalanced ---- *)
Inductive jsres := JsOk (rest : bytes) | JsErr | JsFuel.

Fixpoint consume_js_template (fuel : nat) (s : bytes) {struct fuel} : jsres :=
  match fuel with
  | O => JsFuel
  | S f =>
      match index_of [96] s with
      | None => JsErr                                   (* missing closing backquote *)
      | Some tend =>
          match index_of (B "${") s with
          | Some estart =>
              if Nat.ltb estart tend then
                match consume_js_expr f s with
                | JsOk s' => consume_js_template f s'
                | r => r
                end
              else JsOk (skipn (tend + 1) s)
          | None => JsOk (skipn (tend + 1) s)
          end
      end
  end
with consume_js_expr (fuel : nat) (s : bytes) {struct fuel} : jsres :=
  match fuel with
  | O => JsFuel
  | S f =>
      match index_of (B "}") s with
      | None => JsErr
      | Some eend =>
          match index_of [96] s with
          | Some nested =>
              if Nat.ltb nested eend then
                match consume_js_template f (skipn (nested + 1) s) with
                | JsOk s' => consume_js_expr f s'
                | r => r
                end
              else JsOk (skipn (eend + 1) s)
          | None => JsOk (skipn (eend + 1) s)
          end
      end
  end.

Fixpoint js_balanced_loop (fuel : nat) (s : bytes) : option bool :=
  match fuel with
  | O => None
  | S f =>
      match index_of [96] s with
      | None => Some true
      | Some i =>
          match consume_js_template (2 * length s + 2) (skipn (i + 1) s) with
          | JsOk s' => js_balanced_loop f s'
          | JsErr => Some false
          | JsFuel => None
          end
      end
  end.
(* Some true = balanced, Some false = error, None = fuel exhausted (excluded by a lemma) *)
Definition is_js_template_balanced (s : bytes) : option bool := js_balanced_loop (S (length s)) s.

(* ---- escapeText ---- *)
Inductive etres :=
| EOk (c : context) (edited : bool) (out : bytes)      (* end context, whether the node is rewritten, new text *)
| EPanic.

Definition is_rcdata_elem (e : bytes) : bool :=
  match lookup_bytes e P_elementContent with
  | Some sc => sc =? 8      (* sanitizationContextRCDATA *)
  | None => false
  end.

(* index of the last '<' in s[i:end), searching backwards from end-1 *)
Fixpoint last_lt (l : bytes) (base : nat) (acc : option nat) : option nat :=
  match l with
  | [] => acc
  | c :: t => last_lt t (S base) (if c =? 60 then Some base else acc)
  end.

(* the "&lt;" rewriting of s[i:end): l is the suffix s[j:], n = end - j positions remain;
   buffer b and `written` are threaded *)
Fixpoint escape_lts (s : bytes) (l : bytes) (n : nat) (j : nat) (b : bytes) (written : nat) : bytes * nat :=
  match n, l with
  | S n', ch :: t =>
      if (ch =? 60) && negb (prefix_fold (B "<!DOCTYPE") l)
      then escape_lts s t n' (S j) (b ++ firstn (j - written) (skipn written s) ++ B "&lt;") (S j)
      else escape_lts s t n' (S j) b written
  | _, _ => (b, written)
  end.

Definition is_comment_state (st : state) : bool := match st with StHTMLCmt => true | _ => false end.

Fixpoint escape_text_loop (fuel : nat) (csp : bool) (s : bytes) (c : context) (i : nat)
         (b : bytes) (written : nat) : etres :=
  if Nat.eqb i (length s) then
    (* after the loop *)
    if negb (Nat.eqb written 0) && negb (state_eqb (c_state c) StError) then
      let b' := if negb (is_comment_state (c_state c)) || negb (delim_eqb (c_delim c) DNone)
                then b ++ skipn written s else b in
      EOk c true b'
    else EOk c false []
  else
    match fuel with
    | O => EPanic
    | S f =>
        if csp && prefixb (B "on") (c_attr c) then EOk (ctx_error ErrCSPCompatibility) false []
        else
          match context_after_text c (skipn i s) with
          | TPanic => EPanic
          | TOk c1 nread =>
              let i1 := (i + nread)%nat in
              let '(b, written) :=
                  if state_eqb (c_state c) StText || is_rcdata_elem (c_elem c) then
                    let end_ :=
                        if negb (state_eqb (c_state c1) (c_state c)) then
                          match last_lt (firstn (i1 - i) (skipn i s)) i None with
                          | Some j => j
                          | None => i1
                          end
                        else i1 in
                    escape_lts s (skipn i s) (end_ - i) i b written
                  else if is_comment_state (c_state c) && delim_eqb (c_delim c) DNone then (b, i1)
                  else (b, written) in
              let js_bad :=
                  if state_eqb (c_state c) StSpecialElementBody && bytes_eqb (c_elem c) (B "script")
                  then match is_js_template_balanced s with Some true => false | _ => true end
                  else false in
              if js_bad then EOk (ctx_error ErrUnbalancedJsTemplate) false []
              else
                let elide :=
                    if negb (state_eqb (c_state c) (c_state c1)) && is_comment_state (c_state c1)
                       && delim_eqb (c_delim c1) DNone then
                      (* c1.state is stateHTMLCmt: the opener is 4 bytes; s[written:cs] is a checked slice *)
                      if Nat.ltb i1 4 then None
                      else match slice s written (i1 - 4) with
                           | Some piece => Some (b ++ piece, i1)
                           | None => None
                           end
                    else Some (b, written) in
                match elide with
                | None => EPanic
                | Some (b, written) =>
                    if Nat.eqb i i1 && state_eqb (c_state c) (c_state c1) then EPanic
                    else escape_text_loop f csp s c1 i1 b written
                end
          end
    end.

Definition escape_text (csp : bool) (c : context) (s : bytes) : etres :=
  if csp && match index_of (B "javascript:") s with Some _ => true | None => false end
  then EOk (ctx_error ErrCSPCompatibility) false []
  else escape_text_loop (2 * length s + 2) csp s c 0 [] 0.
