(* Model of script.go: ScriptFromDataAndConstant, and of the OUTPUT text of
   encoding/json.Marshal (Go 1.23, escapeHTML = true) on the JSON value ADT.
   Definitions only.  jsIdentifierPattern and the Sprintf layout are regenerated
   (gen/GenRegex.v, gen/GenFormats.v).

   Modelled, not verified: encoding/json (reflection over Go values, number
   formatting).  Number texts are taken as given (the harness formats them with
   strconv); everything else of the output grammar is modelled here:
     - appendString (encode.go): the string encoder,
     - appendCompact(escape=true) (indent.go): what happens to the bytes returned by
       a json.Marshaler / json.RawMessage,
     - the scanner (scanner.go) deciding whether such bytes are accepted at all. *)
From V Require Import lib.Base lib.Regex lib.Utf8 gen.GenRegex gen.GenFormats.
Local Open Scope N_scope.

(* ---------------------------------------------------------------- values *)

(* JSON values.  Object members are in the order in which encoding/json emits them:
   map keys sorted bytewise and unique, struct fields in declaration order. *)
Inductive jvalue : Type :=
| JNull
| JBool (b : bool)
| JNum (text : bytes)
| JStr (s : bytes)
| JArr (l : list jvalue)
| JObj (m : list (bytes * jvalue)).

(* Go data as encoding/json sees it: JSON values, plus values whose encoding is supplied by
   the value itself (json.Marshaler, json.RawMessage: [GRaw raw] carries the returned bytes)
   and values that cannot be encoded at all (channels, funcs, NaN, failing marshalers).
   A TextMarshaler is a GStr of the returned text. *)
Inductive gvalue : Type :=
| GNull
| GBool (b : bool)
| GNum (text : bytes)
| GStr (s : bytes)
| GArr (l : list gvalue)
| GObj (m : list (bytes * gvalue))
| GRaw (raw : bytes)
| GBad.

Fixpoint g_of_j (d : jvalue) : gvalue :=
  match d with
  | JNull => GNull
  | JBool b => GBool b
  | JNum t => GNum t
  | JStr s => GStr s
  | JArr l => GArr (map g_of_j l)
  | JObj m => GObj (map (fun kv => match kv with (k, v) => (k, g_of_j v) end) m)
  end.

(* ---------------------------------------------------------------- strings *)

(* utf8.DecodeRune on b0 :: r0: the rune and the number of FURTHER bytes it occupies.
   (FFFD, 0) on a byte >= 0x80 means RuneError with size 1. *)
Definition utf8_head (b0 : N) (r0 : bytes) : N * nat :=
  if b0 <? 128 then (b0, 0%nat)
  else if (194 <=? b0) && (b0 <=? 223) then
    match r0 with
    | b1 :: _ => if cont b1 then ((b0 - 192) * 64 + (b1 - 128), 1%nat) else (FFFD, 0%nat)
    | _ => (FFFD, 0%nat)
    end
  else if (224 <=? b0) && (b0 <=? 239) then
    match r0 with
    | b1 :: b2 :: _ =>
        if acc3 b0 b1 && cont b2
        then ((b0 - 224) * 4096 + (b1 - 128) * 64 + (b2 - 128), 2%nat)
        else (FFFD, 0%nat)
    | _ => (FFFD, 0%nat)
    end
  else if (240 <=? b0) && (b0 <=? 244) then
    match r0 with
    | b1 :: b2 :: b3 :: _ =>
        if acc4 b0 b1 && cont b2 && cont b3
        then ((b0 - 240) * 262144 + (b1 - 128) * 4096 + (b2 - 128) * 64 + (b3 - 128), 3%nat)
        else (FFFD, 0%nat)
    | _ => (FFFD, 0%nat)
    end
  else (FFFD, 0%nat).

(* const hex = "0123456789abcdef" *)
Definition hexd (x : N) : N := if x <? 10 then 48 + x else 87 + x.

(* \u00XX *)
Definition u00 (b : N) : bytes := [92; 117; 48; 48; hexd (b / 16); hexd (b mod 16)].

(* appendString on one byte < 0x80, escapeHTML = true *)
Definition esc_byte (b : N) : bytes :=
  if b =? 34 then [92; 34]
  else if b =? 92 then [92; 92]
  else if b =? 8 then [92; 98]
  else if b =? 12 then [92; 102]
  else if b =? 10 then [92; 110]
  else if b =? 13 then [92; 114]
  else if b =? 9 then [92; 116]
  else if (b <? 32) || (b =? 60) || (b =? 62) || (b =? 38) then u00 b
  else [b].

(* the loop of appendString; fuel = number of bytes *)
Fixpoint esc_go (fuel : nat) (s : bytes) : bytes :=
  match fuel with
  | O => []
  | S f =>
      match s with
      | [] => []
      | b0 :: r0 =>
          if b0 <? 128 then esc_byte b0 ++ esc_go f r0
          else
            match utf8_head b0 r0 with
            | (c, k) =>
                match k with
                | O => [92; 117; 102; 102; 102; 100] ++ esc_go f r0          (* the six characters \ufffd *)
                | _ =>
                    if (c =? 8232) || (c =? 8233)
                    then [92; 117; 50; 48; 50; hexd (c mod 16)] ++ esc_go f (skipn k r0)
                    else (b0 :: firstn k r0) ++ esc_go f (skipn k r0)
                end
            end
      end
  end.

Definition encode_string (s : bytes) : bytes := [34] ++ esc_go (length s) s ++ [34].

(* ---------------------------------------------------------------- Marshal *)

Fixpoint join_comma (l : list bytes) : bytes :=
  match l with
  | [] => []
  | x :: l' => match l' with [] => x | _ => x ++ [44] ++ join_comma l' end
  end.

Fixpoint json_marshal (d : jvalue) : bytes :=
  match d with
  | JNull => B "null"
  | JBool b => if b then B "true" else B "false"
  | JNum t => t
  | JStr s => encode_string s
  | JArr l => [91] ++ join_comma (map json_marshal l) ++ [93]
  | JObj m =>
      [123] ++ join_comma (map (fun kv => match kv with
                                          | (k, v) => encode_string k ++ [58] ++ json_marshal v
                                          end) m) ++ [125]
  end.

(* ---- bytes supplied by a Marshaler: appendCompact(dst, b, escape = true) ---- *)

Definition is_ws (c : N) : bool := (c =? 32) || (c =? 9) || (c =? 13) || (c =? 10).

Definition esc_html (b : N) : bytes :=
  if (b =? 60) || (b =? 62) || (b =? 38) then u00 b else [b].

Definition is_linesep (b b1 b2 : N) : bool :=
  (b =? 226) && (b1 =? 128) && ((b2 =? 168) || (b2 =? 169)).

Inductive cstate := COut | CStr | CEsc.

(* Outside strings insignificant white space is dropped; '<' '>' '&' and the byte
   sequences E2 80 A8 / E2 80 A9 are replaced wherever they occur.  A byte >= 0x80
   outside a string can never be accepted by the scanner: the loop stops there (the
   whole call then fails, see go_json_valid). *)
Fixpoint compact_from (st : cstate) (s : bytes) : bytes :=
  match s with
  | [] => []
  | b :: r =>
      match st with
      | COut =>
          if is_ws b then compact_from COut r
          else if 128 <=? b then []
          else if b =? 34 then 34 :: compact_from CStr r
          else esc_html b ++ compact_from COut r
      | _ =>
          let plain :=
            match st with
            | CEsc => esc_html b ++ compact_from CStr r
            | _ =>
                if b =? 34 then 34 :: compact_from COut r
                else if b =? 92 then 92 :: compact_from CEsc r
                else esc_html b ++ compact_from CStr r
            end in
          match r with
          | b1 :: b2 :: r2 =>
              if is_linesep b b1 b2
              then [92; 117; 50; 48; 50; hexd (b2 mod 16)] ++ compact_from CStr r2
              else plain
          | _ => plain
          end
      end
  end.

Definition compact_escape (raw : bytes) : bytes := compact_from COut raw.

(* ---- scanner.go as a pushdown automaton: is a byte string one JSON value? ---- *)

Inductive pstate := PKey | PVal | PArr.   (* parseObjectKey, parseObjectValue, parseArrayValue *)

Inductive sstate :=
| QBeginValue | QBeginValueOrEmpty | QBeginStringOrEmpty | QBeginString | QEndValue | QEndTop
| QInString | QEsc | QU (more : nat)
| QNeg | QInt | QZero | QDot | QDot0 | QExp | QExpSign | QExp0
| QLit (rest : bytes).                    (* inside true / false / null *)

Definition is_digit (c : N) : bool := (48 <=? c) && (c <=? 57).
Definition is_hex (c : N) : bool :=
  is_digit c || ((97 <=? c) && (c <=? 102)) || ((65 <=? c) && (c <=? 70)).

Definition pop_state (stk : list pstate) : sstate * list pstate :=
  (match stk with [] => QEndTop | _ => QEndValue end, stk).

(* stateEndValue *)
Definition end_value (stk : list pstate) (c : N) : option (sstate * list pstate) :=
  match stk with
  | [] => if is_ws c then Some (QEndTop, []) else None
  | ps :: stk' =>
      if is_ws c then Some (QEndValue, stk)
      else match ps with
           | PKey => if c =? 58 then Some (QBeginValue, PVal :: stk') else None
           | PVal => if c =? 44 then Some (QBeginString, PKey :: stk')
                     else if c =? 125 then Some (pop_state stk') else None
           | PArr => if c =? 44 then Some (QBeginValue, stk)
                     else if c =? 93 then Some (pop_state stk') else None
           end
  end.

(* stateBeginValue on a non-space byte *)
Definition begin_value (stk : list pstate) (c : N) : option (sstate * list pstate) :=
  if c =? 123 then Some (QBeginStringOrEmpty, PKey :: stk)
  else if c =? 91 then Some (QBeginValueOrEmpty, PArr :: stk)
  else if c =? 34 then Some (QInString, stk)
  else if c =? 45 then Some (QNeg, stk)
  else if c =? 48 then Some (QZero, stk)
  else if c =? 116 then Some (QLit (B "rue"), stk)
  else if c =? 102 then Some (QLit (B "alse"), stk)
  else if c =? 110 then Some (QLit (B "ull"), stk)
  else if (49 <=? c) && (c <=? 57) then Some (QInt, stk)
  else None.

Definition after_zero (stk : list pstate) (c : N) : option (sstate * list pstate) :=
  if c =? 46 then Some (QDot, stk)
  else if (c =? 101) || (c =? 69) then Some (QExp, stk)
  else end_value stk c.

Definition scan_step (st : sstate) (stk : list pstate) (c : N) : option (sstate * list pstate) :=
  match st with
  | QBeginValue => if is_ws c then Some (st, stk) else begin_value stk c
  | QBeginValueOrEmpty =>
      if is_ws c then Some (st, stk)
      else if c =? 93 then end_value stk c
      else begin_value stk c
  | QBeginStringOrEmpty =>
      if is_ws c then Some (st, stk)
      else if c =? 125 then end_value (PVal :: tl stk) c
      else if c =? 34 then Some (QInString, stk) else None
  | QBeginString =>
      if is_ws c then Some (st, stk)
      else if c =? 34 then Some (QInString, stk) else None
  | QEndValue => end_value stk c
  | QEndTop => if is_ws c then Some (QEndTop, stk) else None
  | QInString =>
      if c =? 34 then Some (QEndValue, stk)
      else if c =? 92 then Some (QEsc, stk)
      else if c <? 32 then None
      else Some (QInString, stk)
  | QEsc =>
      if (c =? 98) || (c =? 102) || (c =? 110) || (c =? 114) || (c =? 116)
         || (c =? 92) || (c =? 47) || (c =? 34) then Some (QInString, stk)
      else if c =? 117 then Some (QU 4, stk)
      else None
  | QU more =>
      if is_hex c then
        match more with
        | O => None
        | S O => Some (QInString, stk)
        | S k => Some (QU k, stk)
        end
      else None
  | QNeg =>
      if c =? 48 then Some (QZero, stk)
      else if (49 <=? c) && (c <=? 57) then Some (QInt, stk) else None
  | QInt => if is_digit c then Some (QInt, stk) else after_zero stk c
  | QZero => after_zero stk c
  | QDot => if is_digit c then Some (QDot0, stk) else None
  | QDot0 =>
      if is_digit c then Some (QDot0, stk)
      else if (c =? 101) || (c =? 69) then Some (QExp, stk)
      else end_value stk c
  | QExp =>
      if (c =? 43) || (c =? 45) then Some (QExpSign, stk)
      else if is_digit c then Some (QExp0, stk) else None
  | QExpSign => if is_digit c then Some (QExp0, stk) else None
  | QExp0 => if is_digit c then Some (QExp0, stk) else end_value stk c
  | QLit rest =>
      match rest with
      | [] => None
      | x :: rest' =>
          if c =? x then Some (match rest' with [] => QEndValue | _ => QLit rest' end, stk)
          else None
      end
  end.

Fixpoint scan_run (st : sstate) (stk : list pstate) (s : bytes) : option (sstate * list pstate) :=
  match s with
  | [] => Some (st, stk)
  | c :: r =>
      match scan_step st stk c with
      | Some (st', stk') => scan_run st' stk' r
      | None => None
      end
  end.

Definition is_end_top (st : sstate) : bool := match st with QEndTop => true | _ => false end.

(* checkValid / scanner.eof: one complete value, surrounded by optional white space.
   (The nesting limit of 10000 is not modelled.) *)
Definition go_json_valid (s : bytes) : bool :=
  match scan_run QBeginValue [] s with
  | Some (st, stk) =>
      if is_end_top st then true
      else match scan_step st stk 32 with
           | Some (st', _) => is_end_top st'
           | None => false
           end
  | None => false
  end.

(* ---- Marshal on Go data ---- *)

Fixpoint g_encodable (g : gvalue) : bool :=
  match g with
  | GArr l => forallb g_encodable l
  | GObj m => forallb (fun kv => match kv with (_, v) => g_encodable v end) m
  | GRaw raw => go_json_valid raw
  | GBad => false
  | _ => true
  end.

Fixpoint g_marshal (g : gvalue) : bytes :=
  match g with
  | GNull => B "null"
  | GBool b => if b then B "true" else B "false"
  | GNum t => t
  | GStr s => encode_string s
  | GArr l => [91] ++ join_comma (map g_marshal l) ++ [93]
  | GObj m =>
      [123] ++ join_comma (map (fun kv => match kv with
                                          | (k, v) => encode_string k ++ [58] ++ g_marshal v
                                          end) m) ++ [125]
  | GRaw raw => compact_escape raw
  | GBad => []
  end.

(* ---------------------------------------------------------------- script.go *)

Definition js_name_ok (name : bytes) : bool :=
  go_match G_jsIdentifierPattern (decode_runes name).

(* fmt.Sprintf(layout, name, json, script) with the regenerated layout pieces *)
Definition script_frame (name J script : bytes) : bytes :=
  script_layout_prefix ++ name ++ script_layout_mid ++ J ++ script_layout_suffix ++ script.

(* None = (Script{}, err) *)
Definition script_from_data (name : bytes) (d : jvalue) (script : bytes) : option bytes :=
  if js_name_ok name then Some (script_frame name (json_marshal d) script) else None.

Definition script_from_go (name : bytes) (g : gvalue) (script : bytes) : option bytes :=
  if js_name_ok name then
    if g_encodable g then Some (script_frame name (g_marshal g) script) else None
  else None.
