(* Model of the contextual analysis of template/escape.go: escape, escapeAction, escapeBranch,
   escapeList, escapeListConditionally, escapeTemplate, escapeTree, computeOutCtx,
   escapeTemplateBody, commit.  Faithful to the code including its defects (DESIGN section 5). *)
From V Require Import lib.Base gen.GenTemplate model.GoStrings model.TContext model.TTransition
     model.TEscapeText model.TSanitize model.TTree.
Local Open Scope N_scope.

(* a tree as text/template holds it: None models a nil *parse.Tree *)
Definition tenv := list (bytes * option tree).

Fixpoint env_lookup (name : bytes) (e : tenv) : option (option tree) :=
  match e with
  | [] => None
  | (n, t) :: e' => if bytes_eqb name n then Some t else env_lookup name e'
  end.

Fixpoint env_set (name : bytes) (t : option tree) (e : tenv) : tenv :=
  match e with
  | [] => [(name, t)]
  | (n, t') :: e' => if bytes_eqb name n then (n, t) :: e' else (n, t') :: env_set name t e'
  end.

(* an edit is keyed by (name of the template whose tree holds the node, node id) *)
Definition ekey := (bytes * nat)%type.
Definition ekey_eqb (a b : ekey) : bool := bytes_eqb (fst a) (fst b) && Nat.eqb (snd a) (snd b).

Record escaper := mkesc {
  e_output : list (bytes * context);
  e_derived : tenv;
  e_called : list bytes;
  e_action_edits : list (ekey * list bytes);
  e_template_edits : list (ekey * bytes);
  e_text_edits : list (ekey * bytes)
}.

Definition esc_empty : escaper := mkesc [] [] [] [] [] [].

Fixpoint output_lookup (name : bytes) (l : list (bytes * context)) : option context :=
  match l with
  | [] => None
  | (n, c) :: l' => if bytes_eqb name n then Some c else output_lookup name l'
  end.
Fixpoint output_set (name : bytes) (c : context) (l : list (bytes * context)) : list (bytes * context) :=
  match l with
  | [] => [(name, c)]
  | (n, c') :: l' => if bytes_eqb name n then (n, c) :: l' else (n, c') :: output_set name c l'
  end.

Definition has_key {A} (k : ekey) (l : list (ekey * A)) : bool := existsb (fun x => ekey_eqb k (fst x)) l.

(* analysis outcome: a panic of the Go code is an explicit result *)
Inductive panic := PBreakContinue | PNilTree | PSharedNode | PTextLoop | POutOfSync | PNoTemplates | PFuel.

Inductive ares (A : Type) := AOk (x : A) | APanic (p : panic).
Arguments AOk {A} x.
Arguments APanic {A} p.

Definition set_called (name : bytes) (e : escaper) : escaper :=
  mkesc (e_output e) (e_derived e) (if mem_bytes name (e_called e) then e_called e else name :: e_called e)
        (e_action_edits e) (e_template_edits e) (e_text_edits e).
Definition set_output (name : bytes) (c : context) (e : escaper) : escaper :=
  mkesc (output_set name c (e_output e)) (e_derived e) (e_called e)
        (e_action_edits e) (e_template_edits e) (e_text_edits e).
Definition set_derived (name : bytes) (t : option tree) (e : escaper) : escaper :=
  mkesc (e_output e) (env_set name t (e_derived e)) (e_called e)
        (e_action_edits e) (e_template_edits e) (e_text_edits e).

Definition edit_action (k : ekey) (s : list bytes) (e : escaper) : ares escaper :=
  if has_key k (e_action_edits e) then APanic PSharedNode
  else AOk (mkesc (e_output e) (e_derived e) (e_called e) ((k, s) :: e_action_edits e)
                  (e_template_edits e) (e_text_edits e)).
Definition edit_template (k : ekey) (n : bytes) (e : escaper) : ares escaper :=
  if has_key k (e_template_edits e) then APanic PSharedNode
  else AOk (mkesc (e_output e) (e_derived e) (e_called e) (e_action_edits e)
                  ((k, n) :: e_template_edits e) (e_text_edits e)).
Definition edit_text (k : ekey) (t : bytes) (e : escaper) : ares escaper :=
  if has_key k (e_text_edits e) then APanic PSharedNode
  else AOk (mkesc (e_output e) (e_derived e) (e_called e) (e_action_edits e)
                  (e_template_edits e) ((k, t) :: e_text_edits e)).

(* the part of the name space the analysis reads *)
Record nsview := mkns {
  ns_text : tenv;              (* text/template's association: name -> tree (None = nil Tree) *)
  ns_set : list bytes;         (* names in ns.set *)
  ns_csp : bool                (* cspCompatible *)
}.

(* e.template(name): text.Lookup(name), else derived[name] *)
Definition find_template (ns : nsview) (e : escaper) (name : bytes) : option (option tree) :=
  match env_lookup name (ns_text ns) with
  | Some t => Some t
  | None => env_lookup name (e_derived e)
  end.

(* escapeAction *)
Definition escape_action (tname : bytes) (c : context) (id : nat) (p : pipe) (e : escaper)
  : ares (context * escaper) :=
  match p_decls p with
  | _ :: _ => AOk (c, e)
  | [] =>
      let c := nudge c in
      let ncmds := length (p_cmds p) in
      let bad :=
          existsb (fun pc =>
                     match cmd_ident (snd pc) with
                     | Some ident =>
                         is_predefined ident &&
                         (Nat.ltb (fst pc) (ncmds - 1) ||
                          (state_eqb (c_state c) StAttr && delim_eqb (c_delim c) DSpaceOrTagEnd &&
                           bytes_eqb ident (B "html")))
                     | None => false
                     end)
                  (combine (seq 0 ncmds) (p_cmds p)) in
      if bad then AOk (ctx_error ErrPredefinedEscaper, e)
      else
        match c_state c with
        | StError => AOk (c, e)
        | _ =>
            let c := match c_state c with StAttrName | StTag => set_state c StAttrName | _ => c end in
            match sanitizer_for_context c with
            | None => AOk (ctx_error ErrEscapeAction, e)
            | Some s =>
                match edit_action (tname, id) s e with
                | AOk e' => AOk (c, e')
                | APanic x => APanic x
                end
            end
        end
  end.

Definition merge_into (e e1 : escaper) : ares escaper :=
  let e0 := mkesc (fold_left (fun acc kv => output_set (fst kv) (snd kv) acc) (e_output e1) (e_output e))
                  (fold_left (fun acc kv => env_set (fst kv) (snd kv) acc) (e_derived e1) (e_derived e))
                  (fold_left (fun acc n => if mem_bytes n acc then acc else n :: acc) (e_called e1) (e_called e))
                  (e_action_edits e) (e_template_edits e) (e_text_edits e) in
  let step_a := fun (acc : ares escaper) (kv : ekey * list bytes) =>
                  match acc with AOk a => edit_action (fst kv) (snd kv) a | p => p end in
  let step_t := fun (acc : ares escaper) (kv : ekey * bytes) =>
                  match acc with AOk a => edit_template (fst kv) (snd kv) a | p => p end in
  let step_x := fun (acc : ares escaper) (kv : ekey * bytes) =>
                  match acc with AOk a => edit_text (fst kv) (snd kv) a | p => p end in
  fold_left step_x (e_text_edits e1)
    (fold_left step_t (e_template_edits e1)
       (fold_left step_a (e_action_edits e1) (AOk e0))).

Section Analysis.
  Variable ns : nsview.

  (* tname = the (possibly derived) template whose tree is being walked *)
  Fixpoint escape_node (fuel : nat) (tname : bytes) (c : context) (n : node) (e : escaper)
    {struct fuel} : ares (context * escaper) :=
    match fuel with
    | O => APanic PFuel
    | S f =>
        match n with
        | NAction id p => escape_action tname c id p e
        | NIf _ _ body els => escape_branch f tname c body els false e
        | NWith _ _ body els => escape_branch f tname c body els false e
        | NRange _ _ body els => escape_branch f tname c body els true e
        | NTemplate id name _ =>
            match escape_tree f c name e with
            | APanic x => APanic x
            | AOk (c1, dname, e1) =>
                if bytes_eqb dname name then AOk (c1, e1)
                else match edit_template (tname, id) dname e1 with
                     | AOk e2 => AOk (c1, e2)
                     | APanic x => APanic x
                     end
            end
        | NText id text =>
            match escape_text (ns_csp ns) c text with
            | EPanic => APanic PTextLoop
            | EOk c1 edited out =>
                if edited then
                  match edit_text (tname, id) out e with
                  | AOk e1 => AOk (c1, e1)
                  | APanic x => APanic x
                  end
                else AOk (c1, e)
            end
        | NBreak _ | NContinue _ | NComment _ => APanic PBreakContinue
        end
    end

  with escape_list (fuel : nat) (tname : bytes) (c : context) (l : list node) (e : escaper)
    {struct fuel} : ares (context * escaper) :=
    match fuel with
    | O => APanic PFuel
    | S f =>
        match l with
        | [] => AOk (c, e)
        | n :: rest =>
            match escape_node f tname c n e with
            | APanic x => APanic x
            | AOk (c1, e1) => escape_list f tname c1 rest e1
            end
        end
    end

  (* escapeListConditionally: result context, whether it was committed into e, new e *)
  with escape_list_cond (fuel : nat) (tname : bytes) (c : context) (l : list node)
                        (filter : option (escaper -> context -> bool)) (e : escaper)
    {struct fuel} : ares (context * bool * escaper) :=
    match fuel with
    | O => APanic PFuel
    | S f =>
        let e1 := mkesc (e_output e) [] [] [] [] [] in
        match escape_list f tname c l e1 with
        | APanic x => APanic x
        | AOk (c1, e1') =>
            match filter with
            | Some flt =>
                if flt e1' c1 then
                  match merge_into e e1' with
                  | AOk e2 => AOk (c1, true, e2)
                  | APanic x => APanic x
                  end
                else AOk (c1, false, e)
            | None => AOk (c1, false, e)
            end
        end
    end

  with escape_branch (fuel : nat) (tname : bytes) (c : context) (body els : list node) (is_range : bool)
                     (e : escaper) {struct fuel} : ares (context * escaper) :=
    match fuel with
    | O => APanic PFuel
    | S f =>
        match escape_list f tname c body e with
        | APanic x => APanic x
        | AOk (c0, e0) =>
            let after_range :=
                if is_range && negb (state_eqb (c_state c0) StError) then
                  match escape_list_cond f tname c0 body None e0 with
                  | APanic x => APanic x
                  | AOk (c1, _, e0') => AOk (join c0 c1, e0')
                  end
                else AOk (c0, e0) in
            match after_range with
            | APanic x => APanic x
            | AOk (c0', e0') =>
                if is_range && negb (state_eqb (c_state c0) StError) && state_eqb (c_state c0') StError
                then AOk (c0', e0')
                else
                  match escape_list f tname c els e0' with
                  | APanic x => APanic x
                  | AOk (c1, e1) => AOk (join c0' c1, e1)
                  end
            end
        end
    end

  (* escapeTree: result context, derived name, escaper *)
  with escape_tree (fuel : nat) (c : context) (name : bytes) (e : escaper)
    {struct fuel} : ares (context * bytes * escaper) :=
    match fuel with
    | O => APanic PFuel
    | S f =>
        let dname := mangle c name in
        let e := set_called dname e in
        match output_lookup dname (e_output e) with
        | Some out => AOk (out, dname, e)
        | None =>
            match find_template ns e name with
            | None => AOk (ctx_error ErrNoSuchTemplate, dname, e)
            | Some t =>
                (* t : option tree = the (possibly nil) Tree of the template named `name` *)
                let pick : ares (option tree * escaper) :=
                    if bytes_eqb dname name then AOk (t, e)
                    else match find_template ns e dname with
                         | Some dt => AOk (dt, e)
                         | None =>
                             match t with
                             | None => APanic PNilTree       (* dt.Tree.Name on a nil copy *)
                             | Some tr => AOk (Some tr, set_derived dname (Some tr) e)
                             end
                         end in
                match pick with
                | APanic x => APanic x
                | AOk (tr, e) =>
                    match tr with
                    | None => APanic PNilTree                (* t.Tree.Root on a nil Tree *)
                    | Some root =>
                        match compute_out_ctx f c dname root e with
                        | APanic x => APanic x
                        | AOk (c1, e1) => AOk (c1, dname, e1)
                        end
                    end
                end
            end
        end
    end

  with compute_out_ctx (fuel : nat) (c : context) (tname : bytes) (root : list node) (e : escaper)
    {struct fuel} : ares (context * escaper) :=
    match fuel with
    | O => APanic PFuel
    | S f =>
        match escape_template_body f c tname root e with
        | APanic x => APanic x
        | AOk (c1, ok, e1) =>
            let second :=
                if ok then AOk (c1, ok, e1)
                else match escape_template_body f c1 tname root e1 with
                     | APanic x => APanic x
                     | AOk (c2, ok2, e2) => if ok2 then AOk (c2, true, e2) else AOk (c1, false, e2)
                     end in
            match second with
            | APanic x => APanic x
            | AOk (c1, ok, e1) =>
                if negb ok && negb (state_eqb (c_state c1) StError)
                then AOk (ctx_error ErrOutputContext, e1)
                else AOk (c1, e1)
            end
        end
    end

  with escape_template_body (fuel : nat) (c : context) (tname : bytes) (root : list node) (e : escaper)
    {struct fuel} : ares (context * bool * escaper) :=
    match fuel with
    | O => APanic PFuel
    | S f =>
        let flt := fun (e1 : escaper) (c1 : context) =>
                     if state_eqb (c_state c1) StError then false
                     else if negb (mem_bytes tname (e_called e1)) then true
                     else ctx_eq c c1 in
        escape_list_cond f tname c root (Some flt) (set_output tname c e)
    end.
End Analysis.
