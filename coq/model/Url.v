(* Model of url.go: isSafeURL and URLSanitized.
   safeURLPattern is regenerated and split by the translator into its two alternatives
   (gen/GenRegex.v); unicode.ToLower is a regenerated table (gen/GenUnicode.v). *)
From V Require Import lib.Base lib.Regex lib.Utf8 gen.GenRegex gen.GenUnicode.
Local Open Scope N_scope.

Definition in_run (r : N) (e : N * N * N) : bool :=
  let '(lo, hi, _) := e in (lo <=? r) && (r <=? hi).

(* unicode.ToLower: ASCII fast path exactly as in the Go source, else the regenerated table *)
Definition to_lower (r : N) : N :=
  if r <? 128 then (if (65 <=? r) && (r <=? 90) then r + 32 else r)
  else match find (in_run r) to_lower_table with
       | Some (lo, _, img) => img + (r - lo)
       | None => r
       end.

(* the runes that regexp sees after strings.ToLower(url) *)
Definition lower_runes (s : bytes) : list N := map to_lower (decode_runes s).

Definition innocuous_url : bytes := B "about:invalid#zGoSafez".
Definition javascript_runes : list N := B "javascript".

Fixpoint take_until_colon (l : list N) : list N :=
  match l with
  | [] => []
  | c :: t => if c =? 58 then [] else c :: take_until_colon t
  end.

(* FindStringSubmatch: the scheme alternative has priority (leftmost-first); its capture
   is everything before the first ':' because the captured class excludes ':' *)
Definition is_safe_url (s : bytes) : bool :=
  let l := lower_runes s in
  if accepts (Cat G_safeURL_scheme_alt any_star) l
  then negb (list_eqb N.eqb (take_until_colon l) javascript_runes)
  else accepts (Cat G_safeURL_rel_alt any_star) l.

Definition url_sanitized (s : bytes) : bytes :=
  if is_safe_url s then s else innocuous_url.
