(* Model of Go's html.UnescapeString (stdlib; modelled, not verified; attribute = false),
   transliterated from $GOROOT/src/html/escape.go.  Entity tables are regenerated from the
   installed Go (gen/GenEntities.v).  Used by template/escape.go (attribute value chunks),
   template/url.go (decodeURLPrefix) and the C10 round-trip statement. *)
From V Require Import lib.Base lib.Utf8 gen.GenEntities.
Local Open Scope N_scope.

Definition is_digit (c : N) : bool := (48 <=? c) && (c <=? 57).
Definition is_lower_hex (c : N) : bool := (97 <=? c) && (c <=? 102).
Definition is_upper_hex (c : N) : bool := (65 <=? c) && (c <=? 70).
Definition is_alnum_byte (c : N) : bool :=
  ((97 <=? c) && (c <=? 122)) || ((65 <=? c) && (c <=? 90)) || is_digit c.

(* Go computes the code point in a rune (int32) with wrap-around *)
Definition wrap32 (x : N) : N := x mod 4294967296.

(* the digit loop: returns the accumulated value and the index after the loop *)
Fixpoint parse_digits (hex : bool) (l : bytes) (x : N) (i : nat) : N * nat :=
  match l with
  | [] => (x, i)
  | c :: l' =>
      if hex then
        if is_digit c then parse_digits hex l' (wrap32 (16 * x + (c - 48))) (S i)
        else if is_lower_hex c then parse_digits hex l' (wrap32 (16 * x + (c - 97 + 10))) (S i)
        else if is_upper_hex c then parse_digits hex l' (wrap32 (16 * x + (c - 65 + 10))) (S i)
        else if c =? 59 then (x, S i) else (x, i)
      else
        if is_digit c then parse_digits hex l' (wrap32 (10 * x + (c - 48))) (S i)
        else if c =? 59 then (x, S i) else (x, i)
  end.

(* what the final rune is, given the int32 value held as its unsigned representation *)
Definition charref_rune (x : N) : N :=
  if (128 <=? x) && (x <=? 159) then nth (N.to_nat (x - 128)) charref_replacement_table FFFD
  else if (x =? 0) || ((55296 <=? x) && (x <=? 57343)) then FFFD
  else if 2147483648 <=? x then FFFD            (* negative int32: EncodeRune writes U+FFFD *)
  else if 1114111 <? x then FFFD
  else x.

Fixpoint lookup_bytes {A} (k : bytes) (t : list (bytes * A)) : option A :=
  match t with
  | [] => None
  | (k', v) :: t' => if bytes_eqb k k' then Some v else lookup_bytes k t'
  end.

(* the run of ASCII alphanumerics at the front of l, plus a following ';' *)
Fixpoint alnum_run (l : bytes) : nat :=
  match l with
  | c :: l' => if is_alnum_byte c then S (alnum_run l') else if c =? 59 then 1%nat else O
  | [] => O
  end.

(* longest proper prefix (length j, maxLen >= j > 1) of the name that is an entity *)
Fixpoint prefix_entity (name : bytes) (j : nat) : option (N * nat) :=
  match j with
  | O | S O => None
  | S j' =>
      match lookup_bytes (firstn j name) entity_table with
      | Some x => Some (x, j)
      | None => prefix_entity name j'
      end
  end.

(* s starts with '&'.  Returns the bytes written and the number of source bytes consumed. *)
Definition unescape_entity (s : bytes) : bytes * nat :=
  match s with
  | _ :: [] | [] => (firstn 1 s, 1%nat)
  | amp :: c1 :: _ =>
      if c1 =? 35 then
        if Nat.leb (length s) 3 then ([amp], 1%nat)
        else
          let c2 := nth 2 s 0 in
          let hex := (c2 =? 120) || (c2 =? 88) in
          let start := if hex then 3%nat else 2%nat in
          let '(x, i) := parse_digits hex (skipn start s) 0 start in
          if Nat.leb i 3 then ([amp], 1%nat)
          else (encode_rune (charref_rune x), i)
      else
        let i := S (alnum_run (skipn 1 s)) in
        let name := firstn (i - 1) (skipn 1 s) in
        match name with
        | [] => (firstn i s, i)
        | _ =>
            match lookup_bytes name entity_table with
            | Some x => (encode_rune x, i)
            | None =>
                match lookup_bytes name entity2_table with
                | Some (x1, x2) => (encode_rune x1 ++ encode_rune x2, i)
                | None =>
                    let maxlen := Nat.min (length name - 1) longest_entity_without_semicolon in
                    match prefix_entity name maxlen with
                    | Some (x, j) => (encode_rune x, S j)
                    | None => (firstn i s, i)
                    end
                end
            end
        end
  end.

Fixpoint unescape_fuel (fuel : nat) (s : bytes) : bytes :=
  match fuel with
  | O => s
  | S f =>
      match s with
      | [] => []
      | c :: t =>
          if c =? 38 then
            let '(out, n) := unescape_entity s in
            out ++ unescape_fuel f (skipn n s)
          else c :: unescape_fuel f t
      end
  end.

Definition html_unescape (s : bytes) : bytes := unescape_fuel (length s) s.
