(* Model of template/trustedsource.go, TrustedSourceFromConstantDir, for unix path
   semantics (filepath.Separator = '/' = 47, filepath.ListSeparator = ':' = 58; Windows
   volume names are out of scope).  An error return is None.

   The standard-library functions the constructor calls are transliterated from the
   installed Go (go1.23: internal/filepathlite/path.go Clean with its lazybuf,
   path/filepath/path_unix.go join):

   * strings.IndexAny(filename, "/:") scans runes, but both separators are ASCII and an
     ASCII byte never occurs inside a multi-byte UTF-8 sequence, and Go's decoder consumes
     exactly one byte for an invalid sequence; so "some rune of filename is '/' or ':'" is
     the same as "some byte of filename is 47 or 58".  (Go itself takes the byte path here:
     for an all-ASCII chars argument IndexAny uses an asciiSet over the bytes of s.)
     The byte search below is therefore exact; the tsrc_dir stream checks it on malformed
     UTF-8 and on the look-alikes U+2215 U+FF0E U+2024 as well.
   * lazybuf: only out.w and the bytes out[0..w) are observable, so the buffer is the
     byte list [rout] kept in REVERSE order (head = out[w-1]), w = length rout.

   Definitions only; proofs are in proofs/TrustedSourceFacts.v. *)
From V Require Import lib.Base.
Local Open Scope N_scope.

Definition SEP : N := 47.       (* filepath.Separator     '/' *)
Definition LISTSEP : N := 58.   (* filepath.ListSeparator ':' *)
Definition DOT : N := 46.

Definition is_sep (c : N) : bool := c =? SEP.      (* IsPathSeparator *)

(* ---- filepath.Clean ---- *)

(* out.w--; for out.w > dotdot && !IsPathSeparator(out.index(out.w)) { out.w-- }
   The argument is out[0..w] INCLUSIVE of index w after the first decrement, reversed:
   its head is out.index(out.w) and its tail has length out.w. *)
Fixpoint back_loop (rout : bytes) (dotdot : nat) : bytes :=
  match rout with
  | [] => []
  | c :: rest =>
      if Nat.ltb dotdot (length rest) && negb (is_sep c) then back_loop rest dotdot else rest
  end.

(* the ".." case of the switch *)
Definition dotdot_step (rooted : bool) (st : bytes * nat) : bytes * nat :=
  let '(rout, dotdot) := st in
  if Nat.ltb dotdot (length rout) then (back_loop rout dotdot, dotdot)          (* can backtrack *)
  else if negb rooted then                                                      (* append .. *)
    let o1 := if Nat.ltb 0 (length rout) then SEP :: rout else rout in
    let o2 := DOT :: DOT :: o1 in
    (o2, length o2)
  else st.

(* the default case: add slash if needed, copy element *)
Definition elem_step (rooted : bool) (st : bytes * nat) (elem : bytes) : bytes * nat :=
  let '(rout, dotdot) := st in
  let o1 := if (rooted && negb (Nat.eqb (length rout) 1)) || (negb rooted && negb (Nat.eqb (length rout) 0))
            then SEP :: rout else rout in
  (rev elem ++ o1, dotdot).

(* for ; r < n && !IsPathSeparator(path[r]); r++ : the element and what follows it *)
Fixpoint span_elem (rest : bytes) : bytes * bytes :=
  match rest with
  | [] => ([], [])
  | c :: t => if is_sep c then ([], rest) else let '(e, r) := span_elem t in (c :: e, r)
  end.

(* r+k == n || IsPathSeparator(path[r+k]) *)
Definition end_or_sep (rest : bytes) : bool :=
  match rest with [] => true | c :: _ => is_sep c end.

(* for r < n { switch ... } ; every iteration consumes at least one byte, fuel = n + 1 *)
Fixpoint clean_loop (fuel : nat) (rooted : bool) (rest : bytes) (st : bytes * nat) : bytes * nat :=
  match fuel with
  | O => st
  | S k =>
      match rest with
      | [] => st
      | c :: r1 =>
          if is_sep c then clean_loop k rooted r1 st                               (* empty element *)
          else if (c =? DOT) && end_or_sep r1 then clean_loop k rooted r1 st        (* . element *)
          else if (c =? DOT) && (match r1 with c2 :: r2 => (c2 =? DOT) && end_or_sep r2 | [] => false end)
               then clean_loop k rooted (tl r1) (dotdot_step rooted st)             (* .. element *)
          else let '(e, r') := span_elem rest in clean_loop k rooted r' (elem_step rooted st e)
      end
  end.

Definition clean (path : bytes) : bytes :=
  match path with
  | [] => [DOT]                                            (* return originalPath + "." *)
  | c :: t =>
      let rooted := is_sep c in
      let '(rout, _) :=
        if rooted then clean_loop (S (length path)) true t ([SEP], 1%nat)
        else clean_loop (S (length path)) false path ([], 0%nat) in
      match rout with [] => [DOT] | _ => rev rout end      (* turn empty string into "." *)
  end.

(* ---- strings.Join(elems, "/") ---- *)
Fixpoint strings_join (elems : list bytes) : bytes :=
  match elems with
  | [] => []
  | [e] => e
  | e :: rest => e ++ SEP :: strings_join rest
  end.

(* ---- filepath.Join: for i, e := range elem { if e != "" { return Clean(strings.Join(elem[i:], "/")) } }; return "" ---- *)
Fixpoint go_join (elems : list bytes) : bytes :=
  match elems with
  | [] => []
  | [] :: rest => go_join rest
  | _ :: _ => clean (strings_join elems)
  end.

(* ---- TrustedSourceFromConstantDir ---- *)
Definition has_separator (f : bytes) : bool :=
  existsb (fun c => (c =? SEP) || (c =? LISTSEP)) f.

Definition from_constant_dir (dir src f : bytes) : option bytes :=
  if has_separator f then None                       (* strings.IndexAny(...) != -1 *)
  else if bytes_eqb f [DOT; DOT] then None           (* filename == ".." *)
  else Some (go_join [dir; src; f]).
