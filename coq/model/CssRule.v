(* Model of stylesheet.go: CSSRule, cssStringPattern.ReplaceAllString(selector, ""),
   invalidCSSSelectorRune, hasBalancedBrackets.  The regular expression of the invalid rune,
   the bracket table and the Sprintf layout are regenerated (gen/GenRegex.v, GenTables.v,
   GenStyle.v).  Definitions only.

   cssStringPattern.ReplaceAllString is modelled by a hand scanner (the regenerated pattern is
   compared with the scanner's two string grammars in spec/CssRuleSpec.v, and the scanner itself
   is tied by correspondence through the hook VerifSelectorWithoutStrings).  Go's regexp works on
   runes; the scanner works on BYTES, which gives the same result: every byte the pattern
   distinguishes (the two quotes, backslash, CR, LF, FF) is ASCII, Go's decoder never makes an ASCII
   byte part of a longer (valid or invalid) sequence, "backslash + any rune" followed by body
   runes consumes the same bytes as "backslash + one byte" followed by body bytes because non-ASCII
   bytes are body bytes, and ReplaceAllString copies the unmatched parts byte for byte. *)
From V Require Import lib.Base lib.Regex lib.Utf8 gen.GenRegex gen.GenTables gen.GenStyle.
Local Open Scope N_scope.

(* the rest after the closing quote q of a string whose opening quote has been consumed;
   None: no match starts at that quote *)
Fixpoint scan_string (q : N) (s : bytes) : option bytes :=
  match s with
  | [] => None
  | c :: r =>
      if c =? q then Some r
      else if (c =? 13) || (c =? 10) || (c =? 12) then None
      else if c =? 92 then
        match r with
        | [] => None
        | _ :: r' => scan_string q r'
        end
      else scan_string q r
  end.

(* leftmost-first, non-overlapping removal of all matches *)
Fixpoint strip_strings_fuel (fuel : nat) (s : bytes) : bytes :=
  match fuel with
  | O => s
  | S f =>
      match s with
      | [] => []
      | c :: r =>
          if (c =? 34) || (c =? 39) then
            match scan_string c r with
            | Some rest => strip_strings_fuel f rest
            | None => c :: strip_strings_fuel f r
            end
          else c :: strip_strings_fuel f r
      end
  end.
Definition strip_strings (s : bytes) : bytes := strip_strings_fuel (S (length s)) s.

(* invalidCSSSelectorRune.FindStringSubmatch(s) != nil *)
Definition has_invalid_selector_rune (s : bytes) : bool :=
  go_match G_invalidCSSSelectorRune (decode_runes s).

(* matchingBrackets[c] *)
Fixpoint bracket_opening (t : list (N * N)) (c : N) : option N :=
  match t with
  | [] => None
  | (cl, op) :: t' => if cl =? c then Some op else bracket_opening t' c
  end.
Definition is_opening_bracket (t : list (N * N)) (c : N) : bool := existsb (fun p => snd p =? c) t.

(* hasBalancedBrackets: the list.List used as a stack, top first *)
Fixpoint balanced_from (stack : list N) (s : bytes) : bool :=
  match s with
  | [] => match stack with [] => true | _ => false end
  | c :: r =>
      match bracket_opening T_matchingBrackets c with
      | Some expected =>
          match stack with
          | [] => false
          | v :: st => if v =? expected then balanced_from st r else false
          end
      | None =>
          if is_opening_bracket T_matchingBrackets c then balanced_from (c :: stack) r
          else balanced_from stack r
      end
  end.
Definition has_balanced_brackets (s : bytes) : bool := balanced_from [] s.

(* CSSRule(selector, style): None = an error is returned *)
Definition css_rule (selector style : bytes) : option bytes :=
  if existsb (N.eqb 60) selector then None
  else
    let stripped := strip_strings selector in
    if has_invalid_selector_rune stripped then None
    else if negb (has_balanced_brackets stripped) then None
    else Some (cssrule_pre ++ selector ++ cssrule_mid ++ style ++ cssrule_post).
