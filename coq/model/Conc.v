(* C09 model: (a) what each API method of safehtml/template touches and under which locks, computed
   from the regenerated per-function summaries (gen/GenLocks.v) and hand-written summaries of the
   text/template methods that are called; (b) an interleaving semantics of threads that run programs
   of atomic actions Acq/Rel/Rd/Wr, with mutex ownership, happens-before and data races.
   Definitions only; proofs are in proofs/ConcFacts.v. *)
From V Require Import lib.Base gen.GenLocks.

(* ------------------------------------------------------------------ locations, mutexes, actions *)

(* ns.mu of the name space; text/template's common.muTmpl and common.muFuncs (RWMutexes, modelled as
   exclusive: see the trusted base in tools/props/C09.json) *)
Inductive mutex : Type := NsMu | MuTmpl | MuFuncs.

(* location classes.  safehtml's own state: the fields of nameSpace, of its escaper and of Template;
   text/template's state: the Tree field of a text template, the Root field of a parse.Tree, the fields
   of parse nodes, the association map common.tmpl and the function maps. *)
Inductive loc : Type :=
  | LSet | LEscaped | LCsp | LEsc
  | LEscOutput | LEscDerived | LEscCalled | LEscActionEdits | LEscTemplateEdits | LEscTextEdits
  | LEscapeErr | LTreeField | LTextPtr
  | LTextTree | LTreeRoot | LNodes | LTmplMap | LFuncMaps.

Scheme Equality for mutex.
Scheme Equality for loc.

Inductive action : Type := Acq (m : mutex) | Rel (m : mutex) | Rd (l : loc) | Wr (l : loc).

Definition op := list action.          (* one API call *)
Definition thread := list op.          (* the calls one goroutine makes, in order *)
Notation event := (nat * action)%type (only parsing). (* thread id, action *)

(* ------------------------------------------------------------------ (b) interleaving semantics *)

Definition thread_prog (t : thread) : list action := concat t.

(* the next action of thread t *)
Fixpoint take_step (pcs : list (list action)) (t : nat) : option (action * list (list action)) :=
  match pcs, t with
  | [], _ => None
  | p :: rest, O => match p with [] => None | a :: p' => Some (a, p' :: rest) end
  | p :: rest, S t' =>
      match take_step rest t' with None => None | Some (a, rest') => Some (a, p :: rest') end
  end.

(* a schedule is the list of thread ids in the order in which they take a step *)
Fixpoint run_sched (pcs : list (list action)) (sched : list nat) : option (list event) :=
  match sched with
  | [] => Some []
  | t :: s' =>
      match take_step pcs t with
      | None => None
      | Some (a, pcs') =>
          match run_sched pcs' s' with None => None | Some tr => Some ((t, a) :: tr) end
      end
  end.

Definition trace_of (threads : list thread) (sched : list nat) : option (list event) :=
  run_sched (map thread_prog threads) sched.

(* mutex ownership *)
Definition owners := mutex -> option nat.
Definition no_owner : owners := fun _ => None.
Definition set_owner (o : owners) (m : mutex) (v : option nat) : owners :=
  fun m' => if mutex_beq m m' then v else o m'.
Definition step_owner (o : owners) (e : event) : owners :=
  match snd e with
  | Acq m => set_owner o m (Some (fst e))
  | Rel m => set_owner o m None
  | _ => o
  end.
Definition owner_after (tr : list event) : owners := fold_left step_owner tr no_owner.

(* Lock blocks while the mutex is held; Unlock is only performed by the holder *)
Definition enabled (o : owners) (e : event) : Prop :=
  match snd e with
  | Acq m => o m = None
  | Rel m => o m = Some (fst e)
  | _ => True
  end.
Definition mutex_ok (tr : list event) : Prop :=
  forall i e, nth_error tr i = Some e -> enabled (owner_after (firstn i tr)) e.

Definition valid_schedule (threads : list thread) (sched : list nat) : Prop :=
  exists tr, trace_of threads sched = Some tr /\ mutex_ok tr.

(* happens-before on the positions of a trace: program order, and every earlier Unlock of a mutex
   is synchronised before a later Lock of the same mutex (Go memory model) *)
Inductive hb (tr : list event) : nat -> nat -> Prop :=
  | hb_po : forall i j t a b, (i < j)%nat ->
      nth_error tr i = Some (t, a) -> nth_error tr j = Some (t, b) -> hb tr i j
  | hb_sync : forall i j t t' m, (i < j)%nat ->
      nth_error tr i = Some (t, Rel m) -> nth_error tr j = Some (t', Acq m) -> hb tr i j
  | hb_trans : forall i j k, hb tr i j -> hb tr j k -> hb tr i k.

Definition accesses (a : action) (l : loc) : Prop := a = Rd l \/ a = Wr l.
Definition is_write (a : action) : Prop := exists l, a = Wr l.

(* two conflicting accesses of different threads that happens-before does not order.  hb only relates
   an earlier to a later position, so for i < j unordered means not (hb i j). *)
Definition race (tr : list event) : Prop :=
  exists i j t a t' b l, (i < j)%nat /\
    nth_error tr i = Some (t, a) /\ nth_error tr j = Some (t', b) /\ t <> t' /\
    accesses a l /\ accesses b l /\ (is_write a \/ is_write b) /\ ~ hb tr i j.

(* what a thread has done so far, the locks it holds and the critical sections it has completed *)
Definition proj (t : nat) (tr : list event) : list action :=
  map snd (filter (fun e => Nat.eqb (fst e) t) tr).

Fixpoint remove_mutex (m : mutex) (s : list mutex) : list mutex :=
  match s with
  | [] => []
  | x :: r => if mutex_beq m x then remove_mutex m r else x :: remove_mutex m r
  end.
Definition mem_mutex (m : mutex) (s : list mutex) : bool := existsb (mutex_beq m) s.

Definition lock_step (sd : list mutex * list mutex) (a : action) : list mutex * list mutex :=
  match a with
  | Acq m => (m :: fst sd, snd sd)
  | Rel m => (remove_mutex m (fst sd), if mem_mutex m (fst sd) then m :: snd sd else snd sd)
  | _ => sd
  end.
Definition lock_state (p : list action) : list mutex * list mutex := fold_left lock_step p ([], []).
Definition lockset (p : list action) : list mutex := fst (lock_state p).   (* held after p *)
Definition doneset (p : list action) : list mutex := snd (lock_state p).   (* critical sections completed in p *)

(* ------------------------------------------------------------------ (a) what the methods touch *)

Fixpoint assoc_bytes {A} (k : bytes) (l : list (bytes * A)) : option A :=
  match l with
  | [] => None
  | (k', v) :: r => if bytes_eqb k k' then Some v else assoc_bytes k r
  end.

(* the tracked fields of gen/GenLocks.v *)
Definition field_table : list (bytes * loc) :=
  [ (B "ns.set", LSet); (B "ns.escaped", LEscaped); (B "ns.cspCompatible", LCsp); (B "ns.esc", LEsc);
    (B "esc.output", LEscOutput); (B "esc.derived", LEscDerived); (B "esc.called", LEscCalled);
    (B "esc.actionNodeEdits", LEscActionEdits); (B "esc.templateNodeEdits", LEscTemplateEdits);
    (B "esc.textNodeEdits", LEscTextEdits);
    (B "Template.escapeErr", LEscapeErr); (B "Template.Tree", LTreeField); (B "Template.text", LTextPtr);
    (B "text.Tree", LTextTree); (B "node.Root", LTreeRoot);
    (B "node.Pipe", LNodes); (B "node.Cmds", LNodes); (B "node.Args", LNodes); (B "node.Name", LNodes);
    (B "node.Text", LNodes); (B "node.Nodes", LNodes); (B "node.List", LNodes); (B "node.method", LNodes) ].

(* Hand-written from $GOROOT/src/text/template (go1.23): template.go, exec.go, funcs.go.
   (location, write, the text/template mutex held at that point).
   Execute: reads t.Tree / t.Root and the nodes WITHOUT any lock; looks callees up under muTmpl
   (walkTemplate -> Lookup) and then reads the callee's Tree / Root without a lock; functions under
   muFuncs (findFunction).  DefinedTemplates reads every associated template's Tree and Root under
   muTmpl only.  AddParseTree writes the map and nt.Tree under muTmpl.  Funcs writes under muFuncs. *)
Definition text_summaries : list (bytes * list (loc * bool * option mutex)) :=
  [ (B "Execute", [ (LTextTree, false, None); (LTreeRoot, false, None); (LNodes, false, None);
                    (LTmplMap, false, Some MuTmpl); (LFuncMaps, false, Some MuFuncs) ]);
    (B "Lookup", [ (LTmplMap, false, Some MuTmpl) ]);
    (B "Templates", [ (LTmplMap, false, Some MuTmpl) ]);
    (B "Name", []);
    (B "New", []);
    (B "DefinedTemplates", [ (LTmplMap, false, Some MuTmpl); (LTextTree, false, Some MuTmpl);
                             (LTreeRoot, false, Some MuTmpl) ]);
    (B "Funcs", [ (LFuncMaps, false, Some MuFuncs); (LFuncMaps, true, Some MuFuncs) ]);
    (B "AddParseTree", [ (LTmplMap, false, Some MuTmpl); (LTmplMap, true, Some MuTmpl);
                         (LTextTree, false, Some MuTmpl); (LTextTree, true, Some MuTmpl) ]);
    (B "Clone", [ (LTmplMap, false, Some MuTmpl); (LTextTree, false, Some MuTmpl);
                  (LFuncMaps, false, Some MuFuncs) ]);
    (B "Parse", [ (LFuncMaps, false, Some MuFuncs);
                  (LTmplMap, false, Some MuTmpl); (LTmplMap, true, Some MuTmpl);
                  (LTextTree, false, Some MuTmpl); (LTextTree, true, Some MuTmpl) ]) ].

(* one access a method can make: location, write?, mutexes held, and whether the method has
   definitely completed a critical section of ns.mu before it *)
Definition entry := (loc * bool * (list mutex * bool))%type.
Definition e_loc (e : entry) : loc := fst (fst e).
Definition e_write (e : entry) : bool := snd (fst e).
Definition e_held (e : entry) : list mutex := fst (snd e).
Definition e_after (e : entry) : bool := snd (snd e).

Definition vkey := (bytes * (bool * bool))%type.
Definition vkey_eqb (a b : vkey) : bool :=
  bytes_eqb (fst a) (fst b) && Bool.eqb (fst (snd a)) (fst (snd b)) && Bool.eqb (snd (snd a)) (snd (snd b)).

Record wres : Type := mk_wres {
  w_vis : list vkey;      (* (function, lock inherited, after) already expanded *)
  w_ent : list entry;
  w_bad : list bytes;     (* what could not be interpreted *)
  w_cs : bool }.          (* the function definitely completes a critical section of ns.mu *)

Definition ns_held (lk : bool) : list mutex := if lk then [NsMu] else [].

(* Sequential symbolic walk of a function body.  [inh]: ns.mu is held by the caller; [after]: a
   critical section of ns.mu has definitely been completed before.  Within a body: [locked0] a Lock at
   conditional depth 0 has been seen, so that once the function is unlocked again a critical section
   has been completed.  A (function, inh, after) triple is expanded once; this bounds the work on the
   recursive call graph of the escaper and is enough because only the SET of accesses is needed. *)
Fixpoint walk_fn (fuel : nat) (vis : list vkey) (name : bytes) (inh after : bool) : wres :=
  match fuel with
  | O => mk_wres vis [] [B "fuel exhausted"] false
  | S fuel' =>
    if existsb (vkey_eqb (name, (inh, after))) vis then mk_wres vis [] [] false else
    match assoc_bytes name lock_summaries with
    | None => mk_wres vis [] [] false   (* a function of another file: no tracked state (checked by the translator) *)
    | Some body =>
      (fix walk_body (body : list access) (vis : list vkey) (after locked0 : bool) (depth : nat)
                     (cs : bool) (ents : list entry) (bads : list bytes) {struct body} : wres :=
         match body with
         | [] => mk_wres vis ents bads cs
         | a :: rest =>
           match a with
           | Acc f w lk =>
             if bytes_eqb f (B "#cond") then walk_body rest vis after locked0 (S depth) cs ents bads
             else if bytes_eqb f (B "#end") then walk_body rest vis after locked0 (pred depth) cs ents bads
             else if bytes_eqb f (B "ns.mu.Lock") then
               if inh || lk then walk_body rest vis after locked0 depth cs ents ((B "Lock while ns.mu is held: " ++ name) :: bads)
               else let top := Nat.eqb depth 0 in
                    walk_body rest vis after (locked0 || top) depth (cs || top) ents bads
             else
               let eff := inh || lk in
               let aft := negb eff && (after || locked0) in
               match assoc_bytes f field_table with
               | None => walk_body rest vis after locked0 depth cs ents ((B "unknown field: " ++ f) :: bads)
               | Some l => walk_body rest vis after locked0 depth cs ((l, w, (ns_held eff, aft)) :: ents) bads
               end
           | Call g lk =>
             let eff := inh || lk in
             let aft := negb eff && (after || locked0) in
             let r := walk_fn fuel' vis g eff aft in
             let done := Nat.eqb depth 0 && negb eff && w_cs r in
             walk_body rest (w_vis r) (after || done) locked0 depth (cs || done)
                       (w_ent r ++ ents) (w_bad r ++ bads)
           | CallText m lk =>
             let eff := inh || lk in
             let aft := negb eff && (after || locked0) in
             match assoc_bytes m text_summaries with
             | None => walk_body rest vis after locked0 depth cs ents ((B "no summary of text/template method: " ++ m) :: bads)
             | Some s =>
               let es := map (fun x : loc * bool * option mutex =>
                                (fst (fst x), snd (fst x),
                                 (ns_held eff ++ match snd x with Some tm => [tm] | None => [] end, aft))) s in
               walk_body rest vis after locked0 depth cs (es ++ ents) bads
             end
           end
         end) body ((name, (inh, after)) :: vis) after false O false [] []
    end
  end.

Definition walk_fuel : nat := 64.

Definition method_walk (name : bytes) : wres := walk_fn walk_fuel [] name false false.
Definition method_entries (name : bytes) : list entry := w_ent (method_walk name).
Definition method_bad (name : bytes) : list bytes := w_bad (method_walk name).

(* the methods that the property allows to run concurrently *)
Definition api_methods : list bytes :=
  [ B "Template.Execute"; B "Template.ExecuteToHTML"; B "Template.ExecuteTemplate";
    B "Template.ExecuteTemplateToHTML"; B "Template.Lookup"; B "Template.Templates";
    B "Template.Name"; B "Template.DefinedTemplates" ].

Definition known_method (name : bytes) : bool :=
  match assoc_bytes name lock_summaries with Some _ => true | None => false end.
