(* Model of the run-time sanitizers of template/sanitizers.go (the funcs map) over a small
   value ADT, and of applying a sanitizer chain as text/template executes a pipeline. *)
From V Require Import lib.Base lib.Utf8 gen.GenPolicy.
From V Require Import model.Html model.HtmlUnescape model.Url model.UrlProc model.UrlSet model.TContext model.TSanitize.
Local Open Scope N_scope.

Inductive kind := KHTML | KScript | KStyle | KStyleSheet | KURL | KTRU | KIdentifier.

Definition kind_num (k : kind) : N :=
  match k with KHTML => 0 | KScript => 1 | KStyle => 2 | KStyleSheet => 3 | KURL => 4 | KTRU => 5 | KIdentifier => 6 end.
Definition kind_eqb (a b : kind) : bool := kind_num a =? kind_num b.

(* the values a template action can be given, as far as the sanitizers can tell them apart *)
Inductive value :=
| VStr (s : bytes)              (* a Go string *)
| VSafe (k : kind) (s : bytes)  (* a value of a safehtml type with contents s *)
| VPtr (v : value)              (* a non-nil pointer to v *)
| VOther (text : bytes)         (* any other value; text = what fmt.Sprint prints (ints, Stringers, errors) *)
| VNil.                         (* untyped nil *)

(* safehtmlutil.Indirect *)
Fixpoint indirect (v : value) : value := match v with VPtr v' => indirect v' | _ => v end.

(* safehtmlutil.Stringify on one argument *)
Fixpoint stringify (v : value) : bytes :=
  match v with
  | VStr s => s
  | VSafe _ s => s
  | VPtr v' => stringify v'
  | VOther t => t
  | VNil => B "<nil>"
  end.

Definition typed_only (k : kind) (v : value) : option bytes :=
  match indirect v with
  | VSafe k' s => if kind_eqb k k' then Some s else None
  | _ => None
  end.

Definition enum_sanitizer (fname : bytes) (v : value) : option bytes :=
  let input := stringify v in
  match lookup_bytes fname P_enumValues with
  | Some words => if mem_bytes input words then Some input else None
  | None => None
  end.

(* one sanitizer / URL processor of the funcs map, by name; None = it returns an error *)
Definition apply_sanitizer (name : bytes) (v : value) : option bytes :=
  if bytes_eqb name (B "_sanitizeHTML") then
    match indirect v with
    | VSafe KHTML s => Some s
    | _ => Some (html_escaped (stringify v))
    end
  else if bytes_eqb name (B "_sanitizeRCDATA") then Some (html_escaped (stringify v))
  else if bytes_eqb name (B "_sanitizeHTMLValOnly") then typed_only KHTML v
  else if bytes_eqb name (B "_sanitizeIdentifier") then typed_only KIdentifier v
  else if bytes_eqb name (B "_sanitizeScript") then typed_only KScript v
  else if bytes_eqb name (B "_sanitizeStyle") then typed_only KStyle v
  else if bytes_eqb name (B "_sanitizeStyleSheet") then typed_only KStyleSheet v
  else if bytes_eqb name (B "_sanitizeTrustedResourceURL") then typed_only KTRU v
  else if bytes_eqb name (B "_sanitizeTrustedResourceURLOrURL") then
    match indirect v with
    | VSafe KTRU s => Some s
    | VSafe KURL s => Some s
    | _ => Some (url_sanitized (stringify v))
    end
  else if bytes_eqb name (B "_sanitizeURL") then
    match indirect v with
    | VSafe KURL s => Some s
    | _ => Some (url_sanitized (stringify v))
    end
  else if bytes_eqb name (B "_sanitizeURLSet") then Some (urlset_sanitized (stringify v))
  else if bytes_eqb name (B "_sanitizeHTMLComment") then Some []
  else if bytes_eqb name (B "_queryEscapeURL") then Some (query_escape_url (stringify v))
  else if bytes_eqb name (B "_normalizeURL") then Some (normalize_url (stringify v))
  else if bytes_eqb name (B "_validateTrustedResourceURLSubstitution") then
    let input := stringify v in
    if contains_double_dot input then None else Some input
  else if bytes_eqb name (B "_evalArgs") then Some (stringify v)
  else if mem_bytes name (map fst P_enumValues) then enum_sanitizer name v
  else None.

(* a pipeline  v | f1 | f2 | ...  : each function receives the string the previous one returned *)
Fixpoint apply_chain (chain : list bytes) (v : value) : option bytes :=
  match chain with
  | [] => Some (stringify v)
  | [f] => apply_sanitizer f v
  | f :: rest =>
      match apply_sanitizer f v with
      | Some s => apply_chain rest (VStr s)
      | None => None
      end
  end.
