(* Model of identifier.go.  The two patterns are regenerated (gen/GenRegex.v);
   a panic is None. *)
From V Require Import lib.Base lib.Regex lib.Utf8 gen.GenRegex.

Definition valid_ident_start (v : bytes) : bool :=
  go_match G_startsWithAlphabetPattern (decode_runes v).
Definition valid_ident_chars (v : bytes) : bool :=
  go_match G_onlyAlphanumericsOrHyphenPattern (decode_runes v).

Definition identifier_from_constant (v : bytes) : option bytes :=
  if negb (valid_ident_start v) || negb (valid_ident_chars v) then None else Some v.

Definition identifier_from_constant_prefix (p v : bytes) : option bytes :=
  if negb (valid_ident_start p) || negb (valid_ident_chars p) then None
  else if negb (valid_ident_chars v) then None
  else Some (p ++ [45] ++ v).
