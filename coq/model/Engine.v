(* Model of the stateful API of template/template.go + commit of template/escape.go as a
   deterministic state machine over explicit object heaps (Go pointers are ids).
   Execution of an analysed tree by text/template is NOT modelled here: an exec op answers
   [RExec tid] = "text/template executes text object tid"; what that prints is the business
   of model/TExec.v and of the implementation-vs-implementation oracles. *)
From V Require Import lib.Base gen.GenTemplate model.GoStrings model.TContext model.TTransition
     model.TEscapeText model.TSanitize model.TTree model.TEscaper.
Local Open Scope N_scope.

Inductive estat := ENotYet | EEscOK | EErr (code : N).

(* a *text/template.Template *)
Record textobj := mktext { x_name : bytes; x_tree : option tree; x_common : nat }.
(* a *safehtml/template.Template *)
Record tmplobj := mktmpl { h_err : estat; h_text : nat; h_tree_nil : bool; h_ns : nat }.
(* a *nameSpace *)
Record nspace := mknsp { n_set : list (bytes * nat); n_escaped : bool; n_csp : bool; n_esc : escaper }.

Record world := mkworld {
  w_text : list textobj;                    (* index = text id *)
  w_common : list (list (bytes * nat));     (* index = common id: name -> text id *)
  w_tmpl : list tmplobj;                    (* index = object id *)
  w_ns : list nspace;                       (* index = name space id *)
  w_handles : list (option nat)             (* what each op returned to the client: object id or nil *)
}.

Definition world0 : world := mkworld [] [] [] [] [].

(* heaps are lists indexed by id; writing past the end pads with the default, so that
   reading back what was written holds unconditionally *)
Fixpoint set_nth {A} (d : A) (n : nat) (x : A) (l : list A) : list A :=
  match n, l with
  | O, [] => [x]
  | O, _ :: t => x :: t
  | S n', [] => d :: set_nth d n' x []
  | S n', h :: t => h :: set_nth d n' x t
  end.

Fixpoint assoc_get {A} (k : bytes) (l : list (bytes * A)) : option A :=
  match l with
  | [] => None
  | (k', v) :: t => if bytes_eqb k k' then Some v else assoc_get k t
  end.
Fixpoint assoc_set {A} (k : bytes) (v : A) (l : list (bytes * A)) : list (bytes * A) :=
  match l with
  | [] => [(k, v)]
  | (k', v') :: t => if bytes_eqb k k' then (k', v) :: t else (k', v') :: assoc_set k v t
  end.

Definition text_d : textobj := mktext [] None 0.
Definition tmpl_d : tmplobj := mktmpl ENotYet 0 true 0.
Definition ns_d : nspace := mknsp [] false false esc_empty.
Definition get_text (w : world) (tid : nat) : textobj := nth tid (w_text w) text_d.
Definition get_tmpl (w : world) (o : nat) : tmplobj := nth o (w_tmpl w) tmpl_d.
Definition get_ns (w : world) (n : nat) : nspace := nth n (w_ns w) ns_d.
Definition get_common (w : world) (c : nat) : list (bytes * nat) := nth c (w_common w) [].

Definition put_text (w : world) (tid : nat) (x : textobj) : world :=
  mkworld (set_nth text_d tid x (w_text w)) (w_common w) (w_tmpl w) (w_ns w) (w_handles w).
Definition put_tmpl (w : world) (o : nat) (t : tmplobj) : world :=
  mkworld (w_text w) (w_common w) (set_nth tmpl_d o t (w_tmpl w)) (w_ns w) (w_handles w).
Definition put_ns (w : world) (n : nat) (x : nspace) : world :=
  mkworld (w_text w) (w_common w) (w_tmpl w) (set_nth ns_d n x (w_ns w)) (w_handles w).
Definition put_common (w : world) (c : nat) (m : list (bytes * nat)) : world :=
  mkworld (w_text w) (set_nth [] c m (w_common w)) (w_tmpl w) (w_ns w) (w_handles w).
Definition add_handle (w : world) (h : option nat) : world :=
  mkworld (w_text w) (w_common w) (w_tmpl w) (w_ns w) (w_handles w ++ [h]).

Definition new_text (w : world) (x : textobj) : world * nat :=
  (mkworld (w_text w ++ [x]) (w_common w) (w_tmpl w) (w_ns w) (w_handles w), length (w_text w)).
Definition new_common (w : world) : world * nat :=
  (mkworld (w_text w) (w_common w ++ [[]]) (w_tmpl w) (w_ns w) (w_handles w), length (w_common w)).
Definition new_tmpl (w : world) (t : tmplobj) : world * nat :=
  (mkworld (w_text w) (w_common w) (w_tmpl w ++ [t]) (w_ns w) (w_handles w), length (w_tmpl w)).
Definition new_ns (w : world) (x : nspace) : world * nat :=
  (mkworld (w_text w) (w_common w) (w_tmpl w) (w_ns w ++ [x]) (w_handles w), length (w_ns w)).

(* template.New(name): fresh name space, fresh text template with its own (empty) common *)
Definition alloc_new (w : world) (name : bytes) : world * nat :=
  let '(w, cid) := new_common w in
  let '(w, tid) := new_text w (mktext name None cid) in
  let '(w, nsid) := new_ns w (mknsp [] false false esc_empty) in
  let '(w, o) := new_tmpl w (mktmpl ENotYet tid true nsid) in
  (put_ns w nsid (mknsp [(name, o)] false false esc_empty), o).

(* parse.IsEmptyTree on a root list *)
Definition is_empty_tree (t : tree) : bool :=
  forallb (fun n => match n with
                    | NText _ txt => forallb (fun c => is_ws c || (c =? 11) || (c =? 133) || (c =? 160)) txt
                    | NComment _ => true
                    | _ => false
                    end) t.

(* text/template (t *Template) AddParseTree(name, tree), t = text object tid *)
Definition add_parse_tree (w : world) (tid : nat) (name : bytes) (tr : tree) : world :=
  let t := get_text w tid in
  let '(w, nt) := if bytes_eqb name (x_name t) then (w, tid)
                  else new_text w (mktext name None (x_common t)) in
  let cm := get_common w (x_common t) in
  let keep_old :=
      match assoc_get name cm with
      | Some old => is_empty_tree tr && (match x_tree (get_text w old) with Some _ => true | None => false end)
      | None => false
      end in
  let w := if keep_old then w else put_common w (x_common t) (assoc_set name nt cm) in
  let ntx := get_text w nt in
  if negb keep_old || (match x_tree ntx with None => true | Some _ => false end)
  then put_text w nt (mktext (x_name ntx) (Some tr) (x_common ntx))
  else w.

(* the result of parse.Parse(name, text, ...) as delivered by the harness *)
Inductive parsed := ParseError | Parsed (trees : list (bytes * tree)).

Inductive rclass :=
| RHandle (h : option nat)       (* a *Template was returned (object id) or nil *)
| RParseOk
| RErrCannotParse | RErrParse | RErrCannotClone
| RErrIncomplete                 (* "... is an incomplete or empty template" before analysis *)
| RErrUndefined
| RErrEscape (code : N)          (* analysis failed now, or the sticky error *)
| RExec (tid : nat)              (* analysis fine: text/template executes text object tid *)
| RInfo                          (* Templates / DefinedTemplates / Name / CSPCompatible *)
| RPanic (p : panic)
| RBadOp.                        (* the op refers to a nil or unknown handle *)

(* name space view for the analysis: the common of an arbitrary member's text template *)
Definition ns_view (w : world) (nsid : nat) : option nsview :=
  let ns := get_ns w nsid in
  match n_set ns with
  | [] => None
  | (_, o) :: _ =>
      let cid := x_common (get_text w (h_text (get_tmpl w o))) in
      Some (mkns (map (fun kv => (fst kv, x_tree (get_text w (snd kv)))) (get_common w cid))
                 (map fst (n_set ns)) (n_csp ns))
  end.

(* rewriting of a tree by the pending edits of template `tname` *)
Fixpoint apply_edits_node (fuel : nat) (tname : bytes) (e : escaper) (n : node) : node :=
  match fuel with
  | O => n
  | S f =>
      let sub := map (apply_edits_node f tname e) in
      match n with
      | NText id t =>
          match find (fun kv => ekey_eqb (tname, id) (fst kv)) (e_text_edits e) with
          | Some (_, t') => NText id t'
          | None => n
          end
      | NAction id p =>
          match find (fun kv => ekey_eqb (tname, id) (fst kv)) (e_action_edits e) with
          | Some (_, s) => NAction id (ensure_pipeline_contains p s)
          | None => n
          end
      | NTemplate id name p =>
          match find (fun kv => ekey_eqb (tname, id) (fst kv)) (e_template_edits e) with
          | Some (_, name') => NTemplate id name' p
          | None => n
          end
      | NIf id p b el => NIf id p (sub b) (sub el)
      | NRange id p b el => NRange id p (sub b) (sub el)
      | NWith id p b el => NWith id p (sub b) (sub el)
      | _ => n
      end
  end.

Fixpoint node_size (fuel : nat) (n : node) : nat :=
  match fuel with
  | O => 1
  | S f =>
      match n with
      | NIf _ _ b el | NRange _ _ b el | NWith _ _ b el =>
          S (fold_left (fun a x => a + node_size f x)%nat (b ++ el) O)
      | _ => 1%nat
      end
  end.
Definition tree_depth_bound (t : tree) : nat := S (length t + 64).

(* names of templates that have pending edits *)
Definition dedup_bytes (l : list bytes) : list bytes :=
  fold_right (fun x acc => if mem_bytes x acc then acc else x :: acc) [] l.
Definition edited_names (e : escaper) : list bytes :=
  dedup_bytes (map (fun kv => fst (fst kv)) (e_action_edits e) ++ map (fun kv => fst (fst kv)) (e_template_edits e)
               ++ map (fun kv => fst (fst kv)) (e_text_edits e)).

(* commit, for the name space nsid *)
Definition commit (w : world) (nsid : nat) : world :=
  let ns := get_ns w nsid in
  match n_set ns with
  | [] => w
  | (_, o) :: _ =>
      let tid := h_text (get_tmpl w o) in
      let e := n_esc ns in
      (* derived templates are added to the text association *)
      (* e.derived is never cleared: a derived template committed earlier is re-added with the
         very same (already rewritten, shared by pointer) tree, which changes nothing *)
      let w := fold_left (fun w kv =>
                            match snd kv, assoc_get (fst kv) (get_common w (x_common (get_text w tid))) with
                            | Some tr, None => add_parse_tree w tid (fst kv) tr
                            | _, _ => w
                            end) (e_derived e) w in
      (* edits are applied to the trees of the (now registered) templates *)
      let cid := x_common (get_text w tid) in
      let w := fold_left (fun w name =>
                            match assoc_get name (get_common w cid) with
                            | Some xt =>
                                let x := get_text w xt in
                                match x_tree x with
                                | Some tr => put_text w xt (mktext (x_name x)
                                                 (Some (map (apply_edits_node 200 name e) tr)) (x_common x))
                                | None => w
                                end
                            | None => w
                            end) (edited_names e) w in
      let ns := get_ns w nsid in
      put_ns w nsid (mknsp (n_set ns) (n_escaped ns) (n_csp ns)
                           (mkesc (e_output e) (e_derived e) [] [] [] []))
  end.

Definition analysis_fuel : nat := 400.

(* escapeTemplate(tmpl, node, name) for a member of name space nsid; returns the error code if any *)
Definition escape_template (w : world) (nsid : nat) (name : bytes) : world * option (ares (option N)) :=
  match ns_view w nsid with
  | None => (w, Some (APanic PNoTemplates))
  | Some view =>
      let ns := get_ns w nsid in
      match escape_tree view analysis_fuel ctx0 name (n_esc ns) with
      | APanic p => (w, Some (APanic p))
      | AOk (c, _, e1) =>
          let w := put_ns w nsid (mknsp (n_set ns) (n_escaped ns) (n_csp ns) e1) in
          let err := match c_err c with
                     | Some code => Some code
                     | None => if state_eqb (c_state c) StText then None else Some ErrEndContext
                     end in
          match err with
          | Some code =>
              match assoc_get name (n_set ns) with
              | Some o =>
                  let t := get_tmpl w o in
                  let x := get_text w (h_text t) in
                  let w := put_tmpl w o (mktmpl (EErr code) (h_text t) true (h_ns t)) in
                  (put_text w (h_text t) (mktext (x_name x) None (x_common x)), Some (AOk (Some code)))
              | None => (w, Some (AOk (Some code)))
              end
          | None =>
              let w := commit w nsid in
              match assoc_get name (n_set ns) with
              | Some o =>
                  let t := get_tmpl w o in
                  let x := get_text w (h_text t) in
                  (put_tmpl w o (mktmpl EEscOK (h_text t)
                                        (match x_tree x with None => true | Some _ => false end) (h_ns t)),
                   Some (AOk None))
              | None => (w, Some (AOk None))
              end
          end
      end
  end.

Definition set_escaped (w : world) (nsid : nat) : world :=
  let ns := get_ns w nsid in put_ns w nsid (mknsp (n_set ns) true (n_csp ns) (n_esc ns)).

Inductive op :=
| ONew (name : bytes)
| OSubNew (h : nat) (name : bytes)
| OParse (h : nat) (p : parsed)
| OClone (h : nat)
| OLookup (h : nat) (name : bytes)
| OExecute (h : nat)
| OExecuteTemplate (h : nat) (name : bytes)
| OInfo (h : nat)            (* Templates, DefinedTemplates, Name: no state change *)
| OCSP (h : nat).

Definition handle (w : world) (h : nat) : option nat :=
  match nth_error (w_handles w) h with Some (Some o) => Some o | _ => None end.

(* (t *Template) new(name), t = object o *)
Definition sub_new (w : world) (o : nat) (name : bytes) : world * nat :=
  let t := get_tmpl w o in
  let x := get_text w (h_text t) in
  let '(w, tid) := new_text w (mktext name None (x_common x)) in
  let '(w, o') := new_tmpl w (mktmpl ENotYet tid true (h_ns t)) in
  let ns := get_ns w (h_ns t) in
  let w :=
      match assoc_get name (n_set ns) with
      | Some existing =>
          (* emptyTmpl := New(existing.Name()); *existing = *emptyTmpl *)
          let ename := x_name (get_text w (h_text (get_tmpl w existing))) in
          let '(w, fresh) := alloc_new w ename in
          put_tmpl w existing (get_tmpl w fresh)
      | None => w
      end in
  let ns := get_ns w (h_ns t) in
  (put_ns w (h_ns t) (mknsp (assoc_set name o' (n_set ns)) (n_escaped ns) (n_csp ns) (n_esc ns)), o').

(* text/template Clone of the text template x: a new common; the own name (if registered) maps to a
   copy of x, every other name of the association to a copy of its text template *)
Definition clone_text (w : world) (x : textobj) : world * nat * nat :=
  let '(w1, cid) := new_common w in
  let '(w1, ntid) := new_text w1 (mktext (x_name x) (x_tree x) cid) in
  let w1 := match assoc_get (x_name x) (get_common w1 (x_common x)) with
            | Some _ => put_common w1 cid [(x_name x, ntid)]
            | None => w1
            end in
  let w1 := fold_left (fun w kv =>
              if bytes_eqb (fst kv) (x_name x) then w
              else let src := get_text w (snd kv) in
                   let '(w, c) := new_text w (mktext (x_name src) (x_tree src) cid) in
                   put_common w cid (assoc_set (fst kv) c (get_common w cid)))
            (get_common w (x_common x)) w1 in
  (w1, cid, ntid).

(* one template of the clone's association: a new member of the clone's name space nsid, provided the
   source set ns has a member of that name which has not been executed *)
Definition clone_member (ns : nspace) (nsid : nat) (acc : option world) (kv : bytes * nat) : option world :=
  match acc with
  | None => None
  | Some w =>
      match assoc_get (fst kv) (n_set ns) with
      | Some src =>
          match h_err (get_tmpl w src) with
          | ENotYet =>
              let xt := get_text w (snd kv) in
              let '(w, m) := new_tmpl w (mktmpl ENotYet (snd kv)
                               (match x_tree xt with None => true | Some _ => false end) nsid) in
              let nsn := get_ns w nsid in
              Some (put_ns w nsid (mknsp (assoc_set (fst kv) m (n_set nsn)) false false esc_empty))
          | _ => None
          end
      | None => None
      end
  end.

Definition step (w : world) (o : op) : world * rclass :=
  match o with
  | ONew name =>
      let '(w, obj) := alloc_new w name in
      (add_handle w (Some obj), RHandle (Some obj))
  | OSubNew h name =>
      match handle w h with
      | None => (w, RBadOp)
      | Some obj => let '(w, o') := sub_new w obj name in (add_handle w (Some o'), RHandle (Some o'))
      end
  | OParse h p =>
      match handle w h with
      | None => (w, RBadOp)
      | Some obj =>
          let t := get_tmpl w obj in
          if n_escaped (get_ns w (h_ns t)) then (w, RErrCannotParse)
          else
            match p with
            | ParseError => (w, RErrParse)
            | Parsed trees =>
                let w := fold_left (fun w kv => add_parse_tree w (h_text t) (fst kv) (snd kv)) trees w in
                (* for every text template of the association: create / re-point the member *)
                let cid := x_common (get_text w (h_text t)) in
                let w := fold_left (fun w kv =>
                           let name := fst kv in let xt := snd kv in
                           let ns := get_ns w (h_ns t) in
                           let '(w, member) :=
                               match assoc_get name (n_set ns) with
                               | Some m => (w, m)
                               | None => sub_new w obj name
                               end in
                           let m := get_tmpl w member in
                           put_tmpl w member (mktmpl (h_err m) xt
                                                     (match x_tree (get_text w xt) with None => true | Some _ => false end)
                                                     (h_ns m)))
                         (get_common w cid) w in
                (w, RParseOk)
            end
      end
  | OClone h =>
      match handle w h with
      | None => (w, RBadOp)
      | Some obj =>
          let t := get_tmpl w obj in
          match h_err t with
          | ENotYet =>
              let x := get_text w (h_text t) in
              let ns := get_ns w (h_ns t) in
              let '(w1, cid, ntid) := clone_text w x in
              let '(w1, nsid) := new_ns w1 (mknsp [] false false esc_empty) in
              let '(w1, ret) := new_tmpl w1 (mktmpl ENotYet ntid
                                   (match x_tree x with None => true | Some _ => false end) nsid) in
              let w1 := put_ns w1 nsid (mknsp [(x_name x, ret)] false false esc_empty) in
              (* for every template of the clone's association *)
              let res := fold_left (clone_member ns nsid) (get_common w1 cid) (Some w1) in
              match res with
              | None => (w, RErrCannotClone)
              | Some w2 =>
                  let r := assoc_get (x_name x) (n_set (get_ns w2 nsid)) in
                  (add_handle w2 r, RHandle r)
              end
          | _ => (w, RErrCannotClone)
          end
      end
  | OLookup h name =>
      match handle w h with
      | None => (w, RBadOp)
      | Some obj =>
          let r := assoc_get name (n_set (get_ns w (h_ns (get_tmpl w obj)))) in
          (add_handle w r, RHandle r)
      end
  | OExecute h =>
      match handle w h with
      | None => (w, RBadOp)
      | Some obj =>
          let t := get_tmpl w obj in
          let w := set_escaped w (h_ns t) in
          match h_err t with
          | ENotYet =>
              if h_tree_nil t then (w, RErrIncomplete)
              else
                let name := x_name (get_text w (h_text t)) in
                match escape_template w (h_ns t) name with
                | (w, Some (APanic p)) => (w, RPanic p)
                | (w, Some (AOk (Some code))) => (w, RErrEscape code)
                | (w, _) => (w, RExec (h_text (get_tmpl w obj)))
                end
          | EErr code => (w, RErrEscape code)
          | EEscOK => (w, RExec (h_text t))
          end
      end
  | OExecuteTemplate h name =>
      match handle w h with
      | None => (w, RBadOp)
      | Some obj =>
          let t := get_tmpl w obj in
          let w := set_escaped w (h_ns t) in
          match assoc_get name (n_set (get_ns w (h_ns t))) with
          | None => (w, RErrUndefined)
          | Some m =>
              let tm := get_tmpl w m in
              match h_err tm with
              | EErr code => (w, RErrEscape code)
              | st =>
                  match x_tree (get_text w (h_text tm)) with
                  | None => (w, RErrIncomplete)
                  | Some _ =>
                      let cid := x_common (get_text w (h_text t)) in
                      match assoc_get name (get_common w cid) with
                      | None => (w, RPanic POutOfSync)
                      | Some _ =>
                          match st with
                          | ENotYet =>
                              match escape_template w (h_ns t) name with
                              | (w, Some (APanic p)) => (w, RPanic p)
                              | (w, Some (AOk (Some code))) => (w, RErrEscape code)
                              | (w, _) => (w, RExec (h_text (get_tmpl w m)))
                              end
                          | _ => (w, RExec (h_text tm))
                          end
                      end
                  end
              end
          end
      end
  | OInfo h => match handle w h with None => (w, RBadOp) | Some _ => (w, RInfo) end
  | OCSP h =>
      match handle w h with
      | None => (w, RBadOp)
      | Some obj =>
          let nsid := h_ns (get_tmpl w obj) in
          let ns := get_ns w nsid in
          (put_ns w nsid (mknsp (n_set ns) (n_escaped ns) true (n_esc ns)), RInfo)
      end
  end.

Definition run (ops : list op) : world * list rclass :=
  fold_left (fun st o => let '(w, outs) := st in let '(w', r) := step w o in (w', outs ++ [r])) ops (world0, []).
