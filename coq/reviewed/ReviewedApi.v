(* FROZEN, hand-reviewed table for property C19.  Never regenerated.

   Produced once from gen/GenApi.v of the pinned commit (fe7c755) and then annotated by reading the
   source and documentation of every entry.  It lists every exported function and method of
   packages safehtml and safehtml/template through which a client can obtain a value of a
   trust-carrying type, with the reviewer's verdict on WHY the value can be trusted (its role) and,
   for every parameter, what the parameter stands for:

     TrustedText  programmer-controlled text (template bodies, file names, glob patterns, the
                  arguments of the *FromConstant constructors, format strings, flag/env-var names
                  and flag values): the property demands the compile-time gate type here;
     Dynamic      run-time data; the function sanitizes/escapes/validates it (or it never becomes
                  part of the value's contents: template names, options, delimiters, FuncMap);
     Safe         a value that itself carries trust (a safe type, *Template, TrustedFS, embed.FS).

   spec/ApiSpec.v compares this table with the regenerated gen/GenApi.v on every run: a function
   of GenApi that yields a trust-carrying type and is not listed here is a closed-world failure
   (witness: the function); a listed function whose parameter names changed makes the table stale. *)
From V Require Import lib.Base.
Local Open Scope N_scope.

Inductive prole : Type := TrustedText | Dynamic | Safe.

Inductive frole : Type :=
| SanitizingConstructor (prop : bytes)   (* contents are the sanitized/escaped image of the dynamic
                                            parameters; the named property covers the sanitizer *)
| ConstantGated                          (* contents come only from TrustedText (and Safe) parameters *)
| Composition                            (* builds the value only from Safe values *)
| TemplateExecution                      (* result of executing a *Template on dynamic data (C01-C09) *)
| EscapeHatchFlag.                       (* yields a safe value from a caller-supplied flag.Value: D20 *)

Record reviewed : Type := mk_reviewed {
  r_pkg : bytes;
  r_recv : bytes;          (* receiver base type name, empty for functions *)
  r_name : bytes;
  r_role : frole;
  r_params : list (bytes * prole)
}.

(* The trust-carrying types.  The first ten wrap a string; TrustedFS wraps a file system. *)
Definition safe_types : list (bytes * bytes) :=
  [ (B "safehtml", B "HTML"); (B "safehtml", B "Script"); (B "safehtml", B "Style");
    (B "safehtml", B "StyleSheet"); (B "safehtml", B "URL"); (B "safehtml", B "URLSet");
    (B "safehtml", B "TrustedResourceURL"); (B "safehtml", B "Identifier");
    (B "template", B "TrustedSource"); (B "template", B "TrustedTemplate");
    (B "template", B "TrustedFS") ].

(* *Template carries the (trusted) template text from which execution results are produced. *)
Definition carrier_types : list (bytes * bytes) := [ (B "template", B "Template") ].

(* the properties that cover the sanitizing constructors *)
Definition covering_properties : list bytes :=
  [B "C10"; B "C11"; B "C12"; B "C13"; B "C14"; B "C15"; B "C16"; B "C17"; B "C18"; B "C20"].

Definition reviewed_api : list reviewed :=
  [ (* ---------------- package safehtml ---------------- *)
    mk_reviewed (B "safehtml") (B "") (B "HTMLEscaped") (SanitizingConstructor (B "C10"))
      [(B "text", Dynamic)];
    mk_reviewed (B "safehtml") (B "") (B "HTMLConcat") Composition
      [(B "htmls", Safe)];
    (* validated against [A-Za-z][-_A-Za-z0-9]* at run time as well (C18); the gate is what makes it trusted *)
    mk_reviewed (B "safehtml") (B "") (B "IdentifierFromConstant") ConstantGated
      [(B "value", TrustedText)];
    mk_reviewed (B "safehtml") (B "") (B "IdentifierFromConstantPrefix") (SanitizingConstructor (B "C18"))
      [(B "prefix", TrustedText); (B "value", Dynamic)];
    mk_reviewed (B "safehtml") (B "") (B "ScriptFromConstant") ConstantGated
      [(B "script", TrustedText)];
    mk_reviewed (B "safehtml") (B "") (B "ScriptFromDataAndConstant") (SanitizingConstructor (B "C17"))
      [(B "name", TrustedText); (B "data", Dynamic); (B "script", TrustedText)];
    mk_reviewed (B "safehtml") (B "") (B "StyleFromConstant") ConstantGated
      [(B "style", TrustedText)];
    mk_reviewed (B "safehtml") (B "") (B "StyleFromProperties") (SanitizingConstructor (B "C15"))
      [(B "properties", Dynamic)];
    mk_reviewed (B "safehtml") (B "") (B "StyleSheetFromConstant") ConstantGated
      [(B "styleSheet", TrustedText)];
    mk_reviewed (B "safehtml") (B "") (B "CSSRule") (SanitizingConstructor (B "C16"))
      [(B "selector", Dynamic); (B "style", Safe)];
    mk_reviewed (B "safehtml") (B "") (B "TrustedResourceURLWithParams") (SanitizingConstructor (B "C13"))
      [(B "t", Safe); (B "params", Dynamic)];
    mk_reviewed (B "safehtml") (B "") (B "TrustedResourceURLFromConstant") ConstantGated
      [(B "url", TrustedText)];
    mk_reviewed (B "safehtml") (B "") (B "TrustedResourceURLFormatFromConstant") (SanitizingConstructor (B "C13"))
      [(B "format", TrustedText); (B "args", Dynamic)];
    (* the three flag functions: the flag.Value stands for deployment-controlled text, but any client
       type implementing flag.Value is accepted: recorded finding D20 *)
    mk_reviewed (B "safehtml") (B "") (B "TrustedResourceURLFormatFromFlag") EscapeHatchFlag
      [(B "format", TrustedText); (B "args", Dynamic)];
    mk_reviewed (B "safehtml") (B "") (B "TrustedResourceURLFromFlag") EscapeHatchFlag
      [(B "value", TrustedText)];
    mk_reviewed (B "safehtml") (B "") (B "TrustedResourceURLAppend") (SanitizingConstructor (B "C13"))
      [(B "t", Safe); (B "s", Dynamic)];
    mk_reviewed (B "safehtml") (B "") (B "URLSanitized") (SanitizingConstructor (B "C11"))
      [(B "url", Dynamic)];
    mk_reviewed (B "safehtml") (B "") (B "URLSetSanitized") (SanitizingConstructor (B "C12"))
      [(B "str", Dynamic)];

    (* ---------------- package template: execution ---------------- *)
    mk_reviewed (B "template") (B "Template") (B "ExecuteToHTML") TemplateExecution
      [(B "data", Dynamic)];
    mk_reviewed (B "template") (B "Template") (B "ExecuteTemplateToHTML") TemplateExecution
      [(B "name", Dynamic); (B "data", Dynamic)];
    mk_reviewed (B "template") (B "") (B "MustParseAndExecuteToHTML") ConstantGated
      [(B "text", TrustedText)];

    (* ---------------- package template: building *Template ---------------- *)
    mk_reviewed (B "template") (B "Template") (B "Templates") Composition [];
    mk_reviewed (B "template") (B "Template") (B "Option") Composition [(B "opt", Dynamic)];
    mk_reviewed (B "template") (B "Template") (B "Parse") ConstantGated [(B "text", TrustedText)];
    mk_reviewed (B "template") (B "Template") (B "ParseFromTrustedTemplate") Composition [(B "tmpl", Safe)];
    mk_reviewed (B "template") (B "Template") (B "Clone") Composition [];
    mk_reviewed (B "template") (B "") (B "New") Composition [(B "name", Dynamic)];
    mk_reviewed (B "template") (B "Template") (B "New") Composition [(B "name", Dynamic)];
    mk_reviewed (B "template") (B "Template") (B "Funcs") Composition [(B "funcMap", Dynamic)];
    mk_reviewed (B "template") (B "Template") (B "CSPCompatible") Composition [];
    (* the delimiters decide how the constant text is split into text and actions; they are not text
       of the template.  Reviewed as Dynamic. *)
    mk_reviewed (B "template") (B "Template") (B "Delims") Composition [(B "left", Dynamic); (B "right", Dynamic)];
    mk_reviewed (B "template") (B "Template") (B "Lookup") Composition [(B "name", Dynamic)];
    mk_reviewed (B "template") (B "") (B "Must") Composition [(B "t", Safe); (B "err", Dynamic)];
    mk_reviewed (B "template") (B "") (B "ParseFiles") ConstantGated [(B "filenames", TrustedText)];
    mk_reviewed (B "template") (B "") (B "ParseFilesFromTrustedSources") Composition [(B "filenames", Safe)];
    mk_reviewed (B "template") (B "Template") (B "ParseFiles") ConstantGated [(B "filenames", TrustedText)];
    mk_reviewed (B "template") (B "Template") (B "ParseFilesFromTrustedSources") Composition [(B "filenames", Safe)];
    mk_reviewed (B "template") (B "") (B "ParseGlob") ConstantGated [(B "pattern", TrustedText)];
    mk_reviewed (B "template") (B "") (B "ParseGlobFromTrustedSource") Composition [(B "pattern", Safe)];
    mk_reviewed (B "template") (B "Template") (B "ParseGlob") ConstantGated [(B "pattern", TrustedText)];
    mk_reviewed (B "template") (B "Template") (B "ParseGlobFromTrustedSource") Composition [(B "pattern", Safe)];
    (* glob patterns are programmer-controlled text but are declared as plain string: finding D21 *)
    mk_reviewed (B "template") (B "") (B "ParseFS") ConstantGated
      [(B "tfs", Safe); (B "patterns", TrustedText)];
    mk_reviewed (B "template") (B "Template") (B "ParseFS") ConstantGated
      [(B "tfs", Safe); (B "patterns", TrustedText)];

    (* ---------------- package template: TrustedFS, TrustedSource, TrustedTemplate ---------------- *)
    (* an embed.FS can be filled only by a go:embed directive, i.e. at compile time *)
    mk_reviewed (B "template") (B "") (B "TrustedFSFromEmbed") Composition [(B "fsys", Safe)];
    mk_reviewed (B "template") (B "") (B "TrustedFSFromTrustedSource") Composition [(B "ts", Safe)];
    mk_reviewed (B "template") (B "TrustedFS") (B "Sub") Composition [(B "dir", Safe)];
    mk_reviewed (B "template") (B "") (B "TrustedSourceFromConstant") ConstantGated [(B "src", TrustedText)];
    mk_reviewed (B "template") (B "") (B "TrustedSourceFromConstantDir") (SanitizingConstructor (B "C20"))
      [(B "dir", TrustedText); (B "src", Safe); (B "filename", Dynamic)];
    mk_reviewed (B "template") (B "") (B "TrustedSourceJoin") Composition [(B "elem", Safe)];
    mk_reviewed (B "template") (B "") (B "TrustedSourceFromFlag") EscapeHatchFlag [(B "value", TrustedText)];
    (* the NAME of the variable is gated; its value is deployment configuration *)
    mk_reviewed (B "template") (B "") (B "TrustedSourceFromEnvVar") ConstantGated [(B "key", TrustedText)];
    mk_reviewed (B "template") (B "") (B "MakeTrustedTemplate") ConstantGated [(B "tmpl", TrustedText)] ].
