(* REVIEWED POLICY -- frozen, human-reviewed reference tables for C04 (never regenerated).
   A copy of the sanitization policy of template/sanitizers.go at the pinned commit, keyed by
   sanitization-context NAME (not by the iota numbering of the code), reviewed against the
   documentation of safehtml/template ("Sanitization contexts" in doc.go).  The engine may become
   stricter than this table; it may never become weaker (props/C04.v). *)
From V Require Import lib.Base lib.Regex.
Local Open Scope N_scope.

(* context name -> (sanitizer function, is enumerated, is URL class, accepts only its safe type) *)
Definition R_contexts : list (bytes * (bytes * bool * bool * bool)) :=
  [ ((B "AsyncEnum"), ((B "_sanitizeAsyncEnum"), true, false, false));
    ((B "DirEnum"), ((B "_sanitizeDirEnum"), true, false, false));
    ((B "HTML"), ((B "_sanitizeHTML"), false, false, false));
    ((B "HTMLValOnly"), ((B "_sanitizeHTMLValOnly"), false, false, true));
    ((B "Identifier"), ((B "_sanitizeIdentifier"), false, false, true));
    ((B "LoadingEnum"), ((B "_sanitizeLoadingEnum"), true, false, false));
    ((B "None"), ((B ""), false, false, false));
    ((B "RCDATA"), ((B "_sanitizeRCDATA"), false, false, false));
    ((B "Script"), ((B "_sanitizeScript"), false, false, true));
    ((B "Style"), ((B "_sanitizeStyle"), false, false, true));
    ((B "StyleSheet"), ((B "_sanitizeStyleSheet"), false, false, true));
    ((B "TargetEnum"), ((B "_sanitizeTargetEnum"), true, false, false));
    ((B "TrustedResourceURL"), ((B "_sanitizeTrustedResourceURL"), false, true, true));
    ((B "TrustedResourceURLOrURL"), ((B "_sanitizeTrustedResourceURLOrURL"), false, true, false));
    ((B "URL"), ((B "_sanitizeURL"), false, true, false));
    ((B "URLSet"), ((B "_sanitizeURLSet"), false, false, false)) ].

(* (attribute, element) -> context *)
Definition R_elementSpecific : list (bytes * bytes * bytes) :=
  [ ((B "accept"), (B "input"), (B "None"));
    ((B "action"), (B "form"), (B "URL"));
    ((B "defer"), (B "script"), (B "None"));
    ((B "formaction"), (B "button"), (B "URL"));
    ((B "formaction"), (B "input"), (B "URL"));
    ((B "formmethod"), (B "button"), (B "None"));
    ((B "formmethod"), (B "input"), (B "None"));
    ((B "href"), (B "a"), (B "TrustedResourceURLOrURL"));
    ((B "href"), (B "area"), (B "TrustedResourceURLOrURL"));
    ((B "method"), (B "form"), (B "None"));
    ((B "pattern"), (B "input"), (B "None"));
    ((B "readonly"), (B "input"), (B "None"));
    ((B "readonly"), (B "textarea"), (B "None"));
    ((B "src"), (B "audio"), (B "TrustedResourceURLOrURL"));
    ((B "src"), (B "img"), (B "TrustedResourceURLOrURL"));
    ((B "src"), (B "input"), (B "TrustedResourceURLOrURL"));
    ((B "src"), (B "source"), (B "TrustedResourceURLOrURL"));
    ((B "src"), (B "video"), (B "TrustedResourceURLOrURL"));
    ((B "srcdoc"), (B "iframe"), (B "HTMLValOnly"));
    ((B "srcset"), (B "img"), (B "URLSet"));
    ((B "srcset"), (B "source"), (B "URLSet")) ].

(* attribute -> context, on any element whose content is listed or that is an allowed void element *)
Definition R_globalAttr : list (bytes * bytes) :=
  [ ((B "align"), (B "None"));
    ((B "alt"), (B "None"));
    ((B "aria-activedescendant"), (B "Identifier"));
    ((B "aria-atomic"), (B "None"));
    ((B "aria-autocomplete"), (B "None"));
    ((B "aria-busy"), (B "None"));
    ((B "aria-checked"), (B "None"));
    ((B "aria-controls"), (B "Identifier"));
    ((B "aria-current"), (B "None"));
    ((B "aria-describedby"), (B "Identifier"));
    ((B "aria-disabled"), (B "None"));
    ((B "aria-dropeffect"), (B "None"));
    ((B "aria-expanded"), (B "None"));
    ((B "aria-haspopup"), (B "None"));
    ((B "aria-hidden"), (B "None"));
    ((B "aria-invalid"), (B "None"));
    ((B "aria-label"), (B "None"));
    ((B "aria-labelledby"), (B "Identifier"));
    ((B "aria-level"), (B "None"));
    ((B "aria-live"), (B "None"));
    ((B "aria-multiline"), (B "None"));
    ((B "aria-multiselectable"), (B "None"));
    ((B "aria-orientation"), (B "None"));
    ((B "aria-owns"), (B "Identifier"));
    ((B "aria-posinset"), (B "None"));
    ((B "aria-pressed"), (B "None"));
    ((B "aria-readonly"), (B "None"));
    ((B "aria-relevant"), (B "None"));
    ((B "aria-required"), (B "None"));
    ((B "aria-selected"), (B "None"));
    ((B "aria-setsize"), (B "None"));
    ((B "aria-sort"), (B "None"));
    ((B "aria-valuemax"), (B "None"));
    ((B "aria-valuemin"), (B "None"));
    ((B "aria-valuenow"), (B "None"));
    ((B "aria-valuetext"), (B "None"));
    ((B "async"), (B "AsyncEnum"));
    ((B "autocapitalize"), (B "None"));
    ((B "autocomplete"), (B "None"));
    ((B "autocorrect"), (B "None"));
    ((B "autofocus"), (B "None"));
    ((B "autoplay"), (B "None"));
    ((B "bgcolor"), (B "None"));
    ((B "border"), (B "None"));
    ((B "cellpadding"), (B "None"));
    ((B "cellspacing"), (B "None"));
    ((B "checked"), (B "None"));
    ((B "cite"), (B "None"));
    ((B "class"), (B "None"));
    ((B "color"), (B "None"));
    ((B "cols"), (B "None"));
    ((B "colspan"), (B "None"));
    ((B "contenteditable"), (B "None"));
    ((B "controls"), (B "None"));
    ((B "controlslist"), (B "None"));
    ((B "crossorigin"), (B "None"));
    ((B "datetime"), (B "None"));
    ((B "dir"), (B "DirEnum"));
    ((B "disabled"), (B "None"));
    ((B "download"), (B "None"));
    ((B "draggable"), (B "None"));
    ((B "enctype"), (B "None"));
    ((B "face"), (B "None"));
    ((B "for"), (B "Identifier"));
    ((B "formenctype"), (B "None"));
    ((B "frameborder"), (B "None"));
    ((B "height"), (B "None"));
    ((B "hidden"), (B "None"));
    ((B "href"), (B "TrustedResourceURL"));
    ((B "hreflang"), (B "None"));
    ((B "id"), (B "Identifier"));
    ((B "ismap"), (B "None"));
    ((B "itemid"), (B "None"));
    ((B "itemprop"), (B "None"));
    ((B "itemref"), (B "None"));
    ((B "itemscope"), (B "None"));
    ((B "itemtype"), (B "None"));
    ((B "label"), (B "None"));
    ((B "lang"), (B "None"));
    ((B "list"), (B "Identifier"));
    ((B "loading"), (B "LoadingEnum"));
    ((B "loop"), (B "None"));
    ((B "max"), (B "None"));
    ((B "maxlength"), (B "None"));
    ((B "media"), (B "None"));
    ((B "min"), (B "None"));
    ((B "minlength"), (B "None"));
    ((B "multiple"), (B "None"));
    ((B "muted"), (B "None"));
    ((B "name"), (B "Identifier"));
    ((B "nonce"), (B "None"));
    ((B "open"), (B "None"));
    ((B "placeholder"), (B "None"));
    ((B "poster"), (B "None"));
    ((B "preload"), (B "None"));
    ((B "rel"), (B "None"));
    ((B "required"), (B "None"));
    ((B "reversed"), (B "None"));
    ((B "role"), (B "None"));
    ((B "rows"), (B "None"));
    ((B "rowspan"), (B "None"));
    ((B "selected"), (B "None"));
    ((B "shape"), (B "None"));
    ((B "size"), (B "None"));
    ((B "sizes"), (B "None"));
    ((B "slot"), (B "None"));
    ((B "span"), (B "None"));
    ((B "spellcheck"), (B "None"));
    ((B "src"), (B "TrustedResourceURL"));
    ((B "start"), (B "None"));
    ((B "step"), (B "None"));
    ((B "style"), (B "Style"));
    ((B "summary"), (B "None"));
    ((B "tabindex"), (B "None"));
    ((B "target"), (B "TargetEnum"));
    ((B "title"), (B "None"));
    ((B "translate"), (B "None"));
    ((B "type"), (B "None"));
    ((B "valign"), (B "None"));
    ((B "value"), (B "None"));
    ((B "width"), (B "None"));
    ((B "wrap"), (B "None")) ].

(* element -> context of its content *)
Definition R_elementContent : list (bytes * bytes) :=
  [ ((B "a"), (B "HTML"));
    ((B "abbr"), (B "HTML"));
    ((B "acronym"), (B "HTML"));
    ((B "address"), (B "HTML"));
    ((B "article"), (B "HTML"));
    ((B "aside"), (B "HTML"));
    ((B "audio"), (B "HTML"));
    ((B "b"), (B "HTML"));
    ((B "basefont"), (B "HTML"));
    ((B "bdi"), (B "HTML"));
    ((B "bdo"), (B "HTML"));
    ((B "big"), (B "HTML"));
    ((B "blockquote"), (B "HTML"));
    ((B "body"), (B "HTML"));
    ((B "button"), (B "HTML"));
    ((B "canvas"), (B "HTML"));
    ((B "caption"), (B "HTML"));
    ((B "center"), (B "HTML"));
    ((B "cite"), (B "HTML"));
    ((B "code"), (B "HTML"));
    ((B "colgroup"), (B "HTML"));
    ((B "command"), (B "HTML"));
    ((B "data"), (B "HTML"));
    ((B "datalist"), (B "HTML"));
    ((B "dd"), (B "HTML"));
    ((B "del"), (B "HTML"));
    ((B "details"), (B "HTML"));
    ((B "dfn"), (B "HTML"));
    ((B "dialog"), (B "HTML"));
    ((B "dir"), (B "HTML"));
    ((B "div"), (B "HTML"));
    ((B "dl"), (B "HTML"));
    ((B "dt"), (B "HTML"));
    ((B "em"), (B "HTML"));
    ((B "fieldset"), (B "HTML"));
    ((B "figcaption"), (B "HTML"));
    ((B "figure"), (B "HTML"));
    ((B "font"), (B "HTML"));
    ((B "footer"), (B "HTML"));
    ((B "form"), (B "HTML"));
    ((B "frame"), (B "HTML"));
    ((B "frameset"), (B "HTML"));
    ((B "h1"), (B "HTML"));
    ((B "h2"), (B "HTML"));
    ((B "h3"), (B "HTML"));
    ((B "h4"), (B "HTML"));
    ((B "h5"), (B "HTML"));
    ((B "h6"), (B "HTML"));
    ((B "head"), (B "HTML"));
    ((B "header"), (B "HTML"));
    ((B "hgroup"), (B "HTML"));
    ((B "html"), (B "HTML"));
    ((B "i"), (B "HTML"));
    ((B "iframe"), (B "HTML"));
    ((B "ins"), (B "HTML"));
    ((B "kbd"), (B "HTML"));
    ((B "label"), (B "HTML"));
    ((B "legend"), (B "HTML"));
    ((B "lh"), (B "HTML"));
    ((B "li"), (B "HTML"));
    ((B "main"), (B "HTML"));
    ((B "map"), (B "HTML"));
    ((B "mark"), (B "HTML"));
    ((B "menu"), (B "HTML"));
    ((B "meter"), (B "HTML"));
    ((B "nav"), (B "HTML"));
    ((B "nobr"), (B "HTML"));
    ((B "noscript"), (B "HTML"));
    ((B "ol"), (B "HTML"));
    ((B "optgroup"), (B "HTML"));
    ((B "option"), (B "HTML"));
    ((B "output"), (B "HTML"));
    ((B "p"), (B "HTML"));
    ((B "picture"), (B "HTML"));
    ((B "pre"), (B "HTML"));
    ((B "progress"), (B "HTML"));
    ((B "q"), (B "HTML"));
    ((B "rb"), (B "HTML"));
    ((B "rp"), (B "HTML"));
    ((B "rt"), (B "HTML"));
    ((B "rtc"), (B "HTML"));
    ((B "ruby"), (B "HTML"));
    ((B "s"), (B "HTML"));
    ((B "samp"), (B "HTML"));
    ((B "script"), (B "Script"));
    ((B "section"), (B "HTML"));
    ((B "select"), (B "HTML"));
    ((B "slot"), (B "HTML"));
    ((B "small"), (B "HTML"));
    ((B "span"), (B "HTML"));
    ((B "strike"), (B "HTML"));
    ((B "strong"), (B "HTML"));
    ((B "style"), (B "StyleSheet"));
    ((B "sub"), (B "HTML"));
    ((B "summary"), (B "HTML"));
    ((B "sup"), (B "HTML"));
    ((B "table"), (B "HTML"));
    ((B "tbody"), (B "HTML"));
    ((B "td"), (B "HTML"));
    ((B "textarea"), (B "RCDATA"));
    ((B "tfoot"), (B "HTML"));
    ((B "th"), (B "HTML"));
    ((B "thead"), (B "HTML"));
    ((B "time"), (B "HTML"));
    ((B "title"), (B "RCDATA"));
    ((B "tr"), (B "HTML"));
    ((B "tt"), (B "HTML"));
    ((B "u"), (B "HTML"));
    ((B "ul"), (B "HTML"));
    ((B "var"), (B "HTML"));
    ((B "video"), (B "HTML")) ].

Definition R_allowedVoid : list bytes := [(B "area"); (B "br"); (B "col"); (B "hr"); (B "img"); (B "input"); (B "link"); (B "param"); (B "source"); (B "track"); (B "wbr")].
Definition R_urlLinkRelVals : list bytes := [(B "alternate"); (B "author"); (B "bookmark"); (B "canonical"); (B "cite"); (B "dns-prefetch"); (B "help"); (B "icon"); (B "license"); (B "next"); (B "preconnect"); (B "prefetch"); (B "preload"); (B "prerender"); (B "prev"); (B "search"); (B "subresource")].

(* enum sanitizer -> the words it may emit *)
Definition R_enumValues : list (bytes * list bytes) :=
  [ ((B "_sanitizeAsyncEnum"), [(B "async")]);
    ((B "_sanitizeDirEnum"), [(B "auto"); (B "ltr"); (B "rtl")]);
    ((B "_sanitizeLoadingEnum"), [(B "eager"); (B "lazy")]);
    ((B "_sanitizeTargetEnum"), [(B "_blank"); (B "_self")]) ].

(* data-* attribute names: ^data-[a-z_][-a-z0-9_]*$ *)
Definition R_dataAttributeName : regex :=
  Cat BeginText (Cat (lit (B "data-")) (Cat (Cls [(95, 95); (97, 122)])
      (Cat (Star (Cls [(45, 45); (48, 57); (95, 95); (97, 122)])) EndText))).
