(* C17 -- ScriptFromDataAndConstant embeds data as an inert, round-tripping JSON literal.
   This file holds only the property theorems; proofs are in proofs/ScriptFacts.v and
   proofs/JsonFacts.v.  Byte literals: 60 '<', 62 '>', 38 '&', 8232 U+2028, 8233 U+2029,
   [59; 10] = ";\n". *)
From V Require Import lib.Base lib.Regex lib.Utf8 gen.GenRegex model.Script spec.Json spec.ScriptSpec.
From V Require Import proofs.JsonFacts proofs.ScriptFacts.

(* a successful call returns exactly "var " name " = " J ";\n" script with J = Marshal(data),
   and the name is an ASCII identifier *)
Theorem C17_frame : forall n d s o,
  script_from_data n d s = Some o ->
  o = B "var " ++ n ++ B " = " ++ json_marshal d ++ [59; 10] ++ s /\ js_ident_spec n = true.
Proof. exact script_from_data_frame. Qed.
Print Assumptions C17_frame.

(* the same for Go data that contains marshaler-supplied bytes or unencodable parts *)
Theorem C17_frame_go : forall n g s o,
  script_from_go n g s = Some o ->
  o = B "var " ++ n ++ B " = " ++ g_marshal g ++ [59; 10] ++ s /\ js_ident_spec n = true
  /\ g_encodable g = true.
Proof. exact script_from_go_frame. Qed.
Print Assumptions C17_frame_go.

(* J contains none of '<' '>' '&' U+2028 U+2029, for every value; the only thing that comes
   from outside the model are the number texts (digits - + . e E) *)
Theorem C17_inert : forall d, wf_jvalue d = true ->
  Forall (fun r => r <> 60 /\ r <> 62 /\ r <> 38 /\ r <> 8232 /\ r <> 8233)
         (decode_runes (json_marshal d)).
Proof. exact marshal_harmless. Qed.
Print Assumptions C17_inert.

(* likewise whatever bytes a json.Marshaler / RawMessage returns (any bytes at all) ... *)
Theorem C17_inert_marshaler : forall raw,
  Forall (fun r => r <> 60 /\ r <> 62 /\ r <> 38 /\ r <> 8232 /\ r <> 8233)
         (decode_runes (compact_escape raw)).
Proof. exact compact_harmless. Qed.
Print Assumptions C17_inert_marshaler.

(* ... and for Go data mixing values, TextMarshaler text (GStr) and marshaler bytes (GRaw) *)
Theorem C17_inert_go : forall g, wf_gvalue g = true ->
  Forall (fun r => r <> 60 /\ r <> 62 /\ r <> 38 /\ r <> 8232 /\ r <> 8233)
         (decode_runes (g_marshal g)).
Proof. exact g_marshal_harmless. Qed.
Print Assumptions C17_inert_go.

(* J is a single JSON text that an RFC 8259 decoder reads back as the value of the data
   (strings with invalid UTF-8 replaced by U+FFFD), for every value whose number texts are
   numbers of RFC 8259 section 6 *)
Theorem C17_roundtrip : forall d, num_jvalue d = true ->
  json_decode (json_marshal d) = Some (canon d).
Proof. exact json_roundtrip. Qed.
Print Assumptions C17_roundtrip.

(* in particular for every byte string: decode (encode_string s) = the UTF-8-sanitised s *)
Theorem C17_roundtrip_string : forall s : bytes,
  json_decode (encode_string s) = Some (JStr (encode_runes (decode_runes s))).
Proof. exact string_roundtrip. Qed.
Print Assumptions C17_roundtrip_string.

(* the call fails when the pattern does not match or the data cannot be encoded;
   in particular for every name that is not an ASCII identifier *)
Theorem C17_errors : forall n g s,
  go_match G_jsIdentifierPattern (decode_runes n) = false \/ g_encodable g = false ->
  script_from_go n g s = None.
Proof. exact script_from_go_error. Qed.
Print Assumptions C17_errors.

Theorem C17_non_identifier_fails : forall n d s,
  js_ident_spec n = false -> script_from_data n d s = None.
Proof. exact non_identifier_rejected. Qed.
Print Assumptions C17_non_identifier_fails.

Theorem C17_name_ascii : forall n,
  go_match G_jsIdentifierPattern (decode_runes n) = true ->
  decode_runes n = n /\ js_ident_spec n = true.
Proof. exact js_name_ascii. Qed.
Print Assumptions C17_name_ascii.

(* every ASCII identifier of two or more characters is accepted, whatever the JSON value *)
Theorem C17_identifier_accepted : forall n d s,
  js_ident2_spec n = true -> script_from_data n d s <> None.
Proof. exact identifier_accepted. Qed.
Print Assumptions C17_identifier_accepted.

(* Not proved, covered by the oracle search on every json_compact / script_data case:
   the bytes of a Marshaler that encoding/json accepts decode, after compaction, to the
   value they decoded to before. *)
Definition C17_roundtrip_marshaler_full_statement : Prop :=
  forall raw, go_json_valid raw = true ->
  json_decode raw <> None /\ json_decode (compact_escape raw) = json_decode raw.
