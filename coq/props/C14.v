(* C14 -- data interpolated after a static URL prefix stays inside its URL component.
   Only the property theorems; proofs are in proofs/UrlPrefixFacts.v.  Specification predicates:
   spec/UrlPrefixSpec.v (from the property text), spec/Rfc3986.v, spec/WhatwgUrl.v; models:
   model/TSanitize.v (sanitizersForAttributeValue, validateURLPrefix, decodeURLPrefix),
   model/UrlProc.v (urlProcessor), model/TSanitizers.v (the run-time chain), model/HtmlUnescape.v
   (html.UnescapeString: what the browser decodes the attribute value to).  wf_bytes v says that v is
   a byte string (every element below 256).  Statements that are false of the faithful model are kept
   as _full_statement Definitions (evaluated by the oracle on every case); their refutations are in
   props/C14_findings.v. *)
From V Require Import lib.Base lib.Utf8 model.Html model.HtmlUnescape model.UrlProc model.TContext model.TSanitize
     model.TSanitizers spec.Rfc3986 spec.WhatwgUrl spec.HtmlSpec spec.UrlPrefixSpec proofs.UrlPrefixFacts.

(* which chain an action after a non-empty static prefix gets in a URL-typed attribute: the
   validator of the class accepted the prefix, the value is unambiguous, and the chain is
   validate + escape + html (TrustedResourceURL), escape + html when the prefix AS THE BROWSER SEES IT
   (character references decoded) contains '?' or '#', normalise + html otherwise.  This is the full
   statement; it holds since the repair of D16 (fix: decide between query escaping and normalization
   on the decoded URL prefix) - before, the engine looked at the raw prefix and the statement needed
   the hypothesis finding_D16 (c_attr_value c) = false. *)
Definition C14_chain_choice_full_statement : Prop := forall c chain sc0,
  all_same_sc (attr_pairs c) (c_link_rel c) None = Some sc0 ->
  sc_is_url sc0 = true -> c_attr_value c <> [] ->
  sanitizers_for_attr_value c = Some chain ->
  c_attr_amb c = false /\
  ((sc0 = SC_TRU /\ validate_tru_prefix (c_attr_value c) = true /\
    chain = [N_validateTRUSubst; N_queryEscapeURL; N_sanitizeHTML]) \/
   ((sc0 = SC_URL \/ sc0 = SC_TRUOrURL) /\ validate_url_prefix (c_attr_value c) = true /\
    chain = if has_qf (html_unescape (c_attr_value c)) then [N_queryEscapeURL; N_sanitizeHTML]
            else [N_normalizeURL; N_sanitizeHTML])).

Theorem C14_chain_choice : C14_chain_choice_full_statement.
Proof. exact chain_choice. Qed.
Print Assumptions C14_chain_choice.

(* query / fragment part: HTML escaping and the browser's decoding leave the escaped text alone; it
   is fully percent-encoded, decodes to the data, and contains none of  & = # / ? : @ ; + SP, backslash, quotes or angle brackets *)
Theorem C14_query_confined : forall v : bytes, wf_bytes v ->
  let q := query_escape_url v in
  html_escaped q = q /\ html_unescape (html_escaped q) = q /\
  unreserved_or_pct q = true /\ pct_decode q = v /\
  forall c, In c q ->
    c <> 38 /\ c <> 61 /\ c <> 35 /\ c <> 47 /\ c <> 63 /\ c <> 92 /\ c <> 34 /\ c <> 39 /\ c <> 60 /\ c <> 62 /\
    c <> 58 /\ c <> 64 /\ c <> 59 /\ c <> 43 /\ c <> 32.
Proof. exact query_confined. Qed.
Print Assumptions C14_query_confined.

Theorem C14_query_chain : forall x o, wf_bytes (stringify x) ->
  apply_chain [N_queryEscapeURL; N_sanitizeHTML] x = Some o ->
  o = query_escape_url (stringify x) /\ html_unescape o = query_escape_url (stringify x).
Proof. exact query_chain_confined. Qed.
Print Assumptions C14_query_chain.

(* after a TrustedResourceURL prefix: additionally the data has no dot-dot (for the code's pattern
   and in the specification's reading, triplets for '.' counted) and what the browser decodes has
   no '/' and no backslash *)
Theorem C14_tru_confined : forall x o, wf_bytes (stringify x) ->
  apply_chain [N_validateTRUSubst; N_queryEscapeURL; N_sanitizeHTML] x = Some o ->
  contains_double_dot (stringify x) = false /\ spec_dotdot (stringify x) = false /\
  o = query_escape_url (stringify x) /\ html_unescape o = query_escape_url (stringify x) /\
  unreserved_or_pct (html_unescape o) = true /\ pct_decode (html_unescape o) = stringify x /\
  ~ In 47 (html_unescape o) /\ ~ In 92 (html_unescape o).
Proof. exact tru_confined_all. Qed.
Print Assumptions C14_tru_confined.

(* across the boundary between prefix and data the directory can still be left (finding D10):
   the full statement, evaluated by the oracle on every case *)
Definition C14_tru_path_full_statement : Prop := forall p v : bytes,
  validate_tru_prefix p = true -> contains_double_dot v = false ->
  let dp := html_unescape p in
  length (segments (uri_path (dp ++ query_escape_url v))) = length (segments (uri_path (dp ++ [120]))) /\
  path_dir (uri_path (dp ++ query_escape_url v)) = path_dir (uri_path (dp ++ [120])).

(* elsewhere: allowed bytes only, every '%' starts an escape, a fixed point of the normaliser, every
   byte kept or replaced by its triplet with valid escapes kept (norm_rel), explicitly: a valid
   escape anywhere in the data is kept, an incomplete one at the very end is encoded *)
Theorem C14_normalized : forall v : bytes, wf_bytes v ->
  let n := normalize_url v in
  forallb normalized_byte n = true /\ pct_ok n = true /\ normalize_url n = n /\ norm_rel v n = true /\
  (forall a b h1 h2, v = a ++ [37; h1; h2] ++ b -> sp_hex h1 = true -> sp_hex h2 = true ->
     n = normalize_url a ++ [37; h1; h2] ++ normalize_url b) /\
  (forall a, v = a ++ [37] -> n = normalize_url a ++ B "%25") /\
  (forall a h, v = a ++ [37; h] -> sp_hex h = true -> n = normalize_url a ++ B "%25" ++ [h]).
Proof. exact normalized_summary. Qed.
Print Assumptions C14_normalized.

(* the browser decodes the emitted text back to the normalised text; the emitted text cannot end
   the attribute *)
Theorem C14_normalized_chain : forall x o, wf_bytes (stringify x) ->
  apply_chain [N_normalizeURL; N_sanitizeHTML] x = Some o ->
  html_unescape o = normalize_url (stringify x) /\ no_quote_or_angle o = true /\ amp_ok o = true.
Proof. exact normalize_chain_decoded. Qed.
Print Assumptions C14_normalized_chain.

(* rejected prefixes, by both validators *)
Theorem C14_prefix_rejected : forall p : bytes,
  (has_ws_or_ctrl p = true \/ has_ws_or_ctrl (html_unescape p) = true \/
   ends_with_partial_charref p = true \/ ends_with_partial_pct (html_unescape p) = true ->
   decode_url_prefix p = None /\ validate_url_prefix p = false /\ validate_tru_prefix p = false) /\
  (could_complete_to_scheme (html_unescape p) = true -> validate_url_prefix p = false /\ validate_tru_prefix p = false).
Proof. exact prefix_rejected_both. Qed.
Print Assumptions C14_prefix_rejected.

(* the rejection clause exactly as the oracle evaluates it on the implementation *)
Theorem C14_must_reject : forall p : bytes, must_reject html_unescape p = true -> validate_url_prefix p = false.
Proof. exact must_reject_rejected. Qed.
Print Assumptions C14_must_reject.

(* an accepted prefix fixes the scheme the WHATWG URL parser finds, whatever normalised bytes follow *)
Theorem C14_prefix_scheme_fixed : forall p : bytes, validate_url_prefix p = true ->
  forall d, forallb normalized_byte d = true ->
  whatwg_scheme (decode_runes (html_unescape p ++ d)) = whatwg_scheme (decode_runes (html_unescape p)).
Proof. exact prefix_scheme_fixed. Qed.
Print Assumptions C14_prefix_scheme_fixed.

Theorem C14_prefix_scheme_fixed_outputs : forall p v : bytes, validate_url_prefix p = true -> wf_bytes v ->
  whatwg_scheme (decode_runes (html_unescape p ++ normalize_url v)) = whatwg_scheme (decode_runes (html_unescape p)) /\
  whatwg_scheme (decode_runes (html_unescape p ++ query_escape_url v)) = whatwg_scheme (decode_runes (html_unescape p)).
Proof. exact prefix_scheme_fixed_outputs. Qed.
Print Assumptions C14_prefix_scheme_fixed_outputs.
