(* C05 -- templates that cannot be contextualized never produce output (sticky).
   Only the property theorems; proofs are in proofs/EngineFacts.v.  An exec op of the model answers
   RErrEscape (nothing is written), RExec tid (text/template runs text object tid) or another error. *)
From V Require Import lib.Base model.TContext model.TTree model.TEscaper model.Engine spec.EngineSpec proofs.EngineFacts proofs.EngineHistFacts proofs.EngineInvFacts proofs.EnginePermFacts.

(* in EVERY world (reachable or not): once a template carries an analysis error, Execute on it
   returns that error, writes nothing, and the error stays *)
Theorem C05_sticky_execute : forall w h obj code,
  handle w h = Some obj -> h_err (get_tmpl w obj) = EErr code ->
  snd (step w (OExecute h)) = RErrEscape code /\
  h_err (get_tmpl (fst (step w (OExecute h))) obj) = EErr code.
Proof. exact sticky_execute. Qed.
Print Assumptions C05_sticky_execute.

Theorem C05_sticky_execute_template : forall w h obj name m code,
  handle w h = Some obj ->
  assoc_get name (n_set (get_ns w (h_ns (get_tmpl w obj)))) = Some m ->
  h_err (get_tmpl w m) = EErr code ->
  snd (step w (OExecuteTemplate h name)) = RErrEscape code.
Proof. exact sticky_execute_template. Qed.
Print Assumptions C05_sticky_execute_template.

(* the first failure is recorded on the member and both of its tree fields are cleared:
   the un-analysed body can never be run *)
Theorem C05_first_failure : forall w nsid name w' code o,
  escape_template w nsid name = (w', Some (AOk (Some code))) ->
  assoc_get name (n_set (get_ns w nsid)) = Some o ->
  h_err (get_tmpl w' o) = EErr code /\ h_tree_nil (get_tmpl w' o) = true /\
  x_tree (get_text w' (h_text (get_tmpl w' o))) = None.
Proof. exact first_failure_recorded. Qed.
Print Assumptions C05_first_failure.

(* the history-free reading of the property: whatever happened before, a template whose analysis
   fails on a fresh set with the same definitions never executes.  FALSE of the faithful model
   (finding D1, props/C05_findings.v); decided on the implementation by the fresh-set oracle. *)
Definition C05_fresh_full_statement : Prop :=
  forall defs hist name code,
    last_result (defs ++ [OExecuteTemplate 0 name]) = Some (RErrEscape code) ->
    exists code', last_result (defs ++ hist ++ [OExecuteTemplate 0 name]) = Some (RErrEscape code').

(* ---- over histories ---- *)
(* The calls of a history that the theorem covers, relative to the failed template object o, are
   [allowed] (proofs/EngineHistFacts.v): every New, Parse, Clone, Lookup, ExecuteTemplate, Templates ...
   through any handle of any set; t.New(name) only for a name that is not yet defined in t's set
   (redefinition replaces the template: it is a different template afterwards, finding D40 lives
   there); Execute through the failed template's own handles, and through every handle whose object
   is the member its set registers under its own name ([registered]; every handle the API returns
   is, until its name is redefined -- that invariant of reachable worlds is evaluated on every
   history of the correspondence run but is not proved, hence _partial). *)
Theorem C05_sticky_forever_partial : forall w h o code ops,
  handle w h = Some o -> h_err (get_tmpl w o) = EErr code -> allowed_hist w o ops ->
  let w' := run_from w ops in
  handle w' h = Some o /\ h_err (get_tmpl w' o) = EErr code /\
  snd (step w' (OExecute h)) = RErrEscape code.
Proof. exact sticky_forever. Qed.
Print Assumptions C05_sticky_forever_partial.

(* ... and ExecuteTemplate of its name, after that history, through ANY handle of the set *)
Theorem C05_sticky_forever_by_name_partial : forall w o code ops h' obj' name,
  h_err (get_tmpl w o) = EErr code -> allowed_hist w o ops ->
  let w' := run_from w ops in
  handle w' h' = Some obj' ->
  assoc_get name (n_set (get_ns w' (h_ns (get_tmpl w' obj')))) = Some o ->
  snd (step w' (OExecuteTemplate h' name)) = RErrEscape code.
Proof. exact sticky_forever_by_name. Qed.
Print Assumptions C05_sticky_forever_by_name_partial.

(* how a template gets there: an Execute that answers with an analysis error has recorded it *)
Theorem C05_failed_execute_recorded : forall w h o code,
  handle w h = Some o -> registered w o ->
  snd (step w (OExecute h)) = RErrEscape code ->
  h_err (get_tmpl (fst (step w (OExecute h))) o) = EErr code.
Proof. exact failed_execute_recorded. Qed.
Print Assumptions C05_failed_execute_recorded.

(* ---- over histories, for every REACHABLE world, without the hypothesis on Execute ---- *)
(* every world the API can reach satisfies the well-formedness invariant Inv (set consistency,
   association consistency, every handle denotes a registered member or an empty shell) *)
Theorem C05_reachable_worlds_well_formed : forall ops, Inv (run_from world0 ops).
Proof. exact Inv_reachable. Qed.
Print Assumptions C05_reachable_worlds_well_formed.

(* the full statement: after ANY history ops0 of API calls, if a template carries an analysis error,
   then after ANY further history ops (New, Parse, Clone, Lookup, Execute, ExecuteTemplate, ... through
   any handles of any set; t.New only for names its set does not define yet) the handle still denotes
   it, the error is still there, and Execute returns it (C05_sticky_execute: nothing is written) *)
Theorem C05_sticky_forever : forall ops0 h o code ops,
  let w := run_from world0 ops0 in
  handle w h = Some o -> h_err (get_tmpl w o) = EErr code -> no_redefine_hist w ops ->
  let w' := run_from w ops in
  handle w' h = Some o /\ h_err (get_tmpl w' o) = EErr code /\
  snd (step w' (OExecute h)) = RErrEscape code.
Proof. exact sticky_forever_reachable. Qed.
Print Assumptions C05_sticky_forever.

Theorem C05_sticky_forever_by_name : forall ops0 o code ops h' obj' name,
  let w := run_from world0 ops0 in
  h_err (get_tmpl w o) = EErr code -> no_redefine_hist w ops ->
  let w' := run_from w ops in
  handle w' h' = Some obj' ->
  assoc_get name (n_set (get_ns w' (h_ns (get_tmpl w' obj')))) = Some o ->
  snd (step w' (OExecuteTemplate h' name)) = RErrEscape code.
Proof. exact sticky_forever_by_name_reachable. Qed.
Print Assumptions C05_sticky_forever_by_name.

(* the property as it reads, for the direct call: in every reachable world, if Execute through a handle answers
   with an analysis error (it wrote nothing), then after ANY further history of API calls (t.New only for names
   its set does not define yet) Execute through that handle answers with the same error again *)
Theorem C05_failure_is_permanent : forall ops0 h o code ops,
  let w0 := run_from world0 ops0 in
  handle w0 h = Some o ->
  snd (step w0 (OExecute h)) = RErrEscape code ->
  let w := fst (step w0 (OExecute h)) in
  no_redefine_hist w ops ->
  snd (step (run_from w ops) (OExecute h)) = RErrEscape code.
Proof. exact failure_is_permanent. Qed.
Print Assumptions C05_failure_is_permanent.
