(* C05 -- templates that cannot be contextualized never produce output (sticky).
   Only the property theorems; proofs are in proofs/EngineFacts.v.  An exec op of the model answers
   RErrEscape (nothing is written), RExec tid (text/template runs text object tid) or another error. *)
From V Require Import lib.Base model.TContext model.TTree model.TEscaper model.Engine spec.EngineSpec proofs.EngineFacts.

(* in EVERY world (reachable or not): once a template carries an analysis error, Execute on it
   returns that error, writes nothing, and the error stays *)
Theorem C05_sticky_execute : forall w h obj code,
  handle w h = Some obj -> h_err (get_tmpl w obj) = EErr code ->
  snd (step w (OExecute h)) = RErrEscape code /\
  h_err (get_tmpl (fst (step w (OExecute h))) obj) = EErr code.
Proof. exact sticky_execute. Qed.
Print Assumptions C05_sticky_execute.

Theorem C05_sticky_execute_template : forall w h obj name m code,
  handle w h = Some obj ->
  assoc_get name (n_set (get_ns w (h_ns (get_tmpl w obj)))) = Some m ->
  h_err (get_tmpl w m) = EErr code ->
  snd (step w (OExecuteTemplate h name)) = RErrEscape code.
Proof. exact sticky_execute_template. Qed.
Print Assumptions C05_sticky_execute_template.

(* the first failure is recorded on the member and both of its tree fields are cleared:
   the un-analysed body can never be run *)
Theorem C05_first_failure : forall w nsid name w' code o,
  escape_template w nsid name = (w', Some (AOk (Some code))) ->
  assoc_get name (n_set (get_ns w nsid)) = Some o ->
  h_err (get_tmpl w' o) = EErr code /\ h_tree_nil (get_tmpl w' o) = true /\
  x_tree (get_text w' (h_text (get_tmpl w' o))) = None.
Proof. exact first_failure_recorded. Qed.
Print Assumptions C05_first_failure.

(* the history-free reading of the property: whatever happened before, a template whose analysis
   fails on a fresh set with the same definitions never executes.  FALSE of the faithful model
   (finding D1, props/C05_findings.v); decided on the implementation by the fresh-set oracle. *)
Definition C05_fresh_full_statement : Prop :=
  forall defs hist name code,
    last_result (defs ++ [OExecuteTemplate 0 name]) = Some (RErrEscape code) ->
    exists code', last_result (defs ++ hist ++ [OExecuteTemplate 0 name]) = Some (RErrEscape code').
