(* Recorded findings of C14 (not part of the gate): machine-checked witnesses. *)
From V Require Import lib.Base lib.Utf8 model.Html model.HtmlUnescape model.UrlProc model.TContext model.TSanitize
     model.TSanitizers spec.Rfc3986 spec.WhatwgUrl spec.HtmlSpec spec.UrlPrefixSpec proofs.UrlPrefixFacts props.C14.

(* D16: <a href="/foo&quest;x={{.}}">: the browser decodes the prefix to /foo?x= (query part), the
   engine looks at the undecoded text, finds neither '?' nor '#' and only normalises *)
Definition d16_ctx : context := mkctx StAttr DDoubleQuote (B "a") [] (B "href") (B "/foo&quest;x=") false [] None [] [].

Lemma C14_chain_choice_refuted : ~ C14_chain_choice_full_statement.
Proof.
  intros H.
  specialize (H d16_ctx [N_normalizeURL; N_sanitizeHTML] SC_TRUOrURL).
  destruct H as [_ [(E & _)|(_ & _ & E)]]; try (vm_compute; reflexivity); try (intro X; discriminate X).
  - vm_compute in E. discriminate E.
  - vm_compute in E. discriminate E.
Qed.

(* what it means for the emitted URL: '&', '=' and '#' of the data survive *)
Lemma D16_witness :
  finding_D16 (B "/foo&quest;x=") = true /\
  apply_chain [N_normalizeURL; N_sanitizeHTML] (VStr (B "1&admin=1#frag")) = Some (B "1&amp;admin=1#frag") /\
  html_unescape (B "/foo&quest;x=1&amp;admin=1#frag") = B "/foo?x=1&admin=1#frag".
Proof. repeat split; vm_compute; reflexivity. Qed.

(* D10 (template form): <script src="/a/.{{.}}"> with "." : every check passes, the result is /a/.. *)
Lemma C14_tru_path_refuted : ~ C14_tru_path_full_statement.
Proof.
  intros H. specialize (H (B "/a/.") (B ".")).
  destruct H as [_ E]; try (vm_compute; reflexivity). vm_compute in E. discriminate E.
Qed.

Lemma D10_witness :
  finding_D10_tmpl (B "/a/.") (B ".") = true /\ validate_tru_prefix (B "/a/.") = true /\
  apply_chain [N_validateTRUSubst; N_queryEscapeURL; N_sanitizeHTML] (VStr (B ".")) = Some (B ".") /\
  remove_dot_segments (B "/a/..") = B "/".
Proof. repeat split; vm_compute; reflexivity. Qed.
