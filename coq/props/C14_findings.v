(* Recorded findings of C14 (not part of the gate): machine-checked witnesses. *)
From V Require Import lib.Base lib.Utf8 model.Html model.HtmlUnescape model.UrlProc model.TContext model.TSanitize
     model.TSanitizers spec.Rfc3986 spec.WhatwgUrl spec.HtmlSpec spec.UrlPrefixSpec proofs.UrlPrefixFacts props.C14.

(* D16 (repaired: fix: decide between query escaping and normalization on the decoded URL prefix):
   <a href="/foo&quest;x={{.}}">: the browser decodes the prefix to /foo?x= (query part); the engine
   used to look at the undecoded text, find neither '?' nor '#' and only normalise.  What is kept here
   is the witness that the raw and the decoded prefix disagree, that the repaired engine now picks
   the query escaper for it, and what the old choice meant for the emitted URL. *)
Definition d16_ctx : context := mkctx StAttr DDoubleQuote (B "a") [] (B "href") (B "/foo&quest;x=") false [] None [] [].

Lemma D16_witness :
  finding_D16 (B "/foo&quest;x=") = true /\
  sanitizers_for_attr_value d16_ctx = Some [N_queryEscapeURL; N_sanitizeHTML] /\
  apply_chain [N_normalizeURL; N_sanitizeHTML] (VStr (B "1&admin=1#frag")) = Some (B "1&amp;admin=1#frag") /\
  html_unescape (B "/foo&quest;x=1&amp;admin=1#frag") = B "/foo?x=1&admin=1#frag".
Proof. repeat split; vm_compute; reflexivity. Qed.

(* D10 (template form): <script src="/a/.{{.}}"> with "." : every check passes, the result is /a/.. *)
Lemma C14_tru_path_refuted : ~ C14_tru_path_full_statement.
Proof.
  intros H. specialize (H (B "/a/.") (B ".")).
  destruct H as [_ E]; try (vm_compute; reflexivity). vm_compute in E. discriminate E.
Qed.

Lemma D10_witness :
  finding_D10_tmpl (B "/a/.") (B ".") = true /\ validate_tru_prefix (B "/a/.") = true /\
  apply_chain [N_validateTRUSubst; N_queryEscapeURL; N_sanitizeHTML] (VStr (B ".")) = Some (B ".") /\
  remove_dot_segments (B "/a/..") = B "/".
Proof. repeat split; vm_compute; reflexivity. Qed.
