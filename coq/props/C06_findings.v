(* Recorded finding D6 as it shows in C06: a helper first executed in text context and later
   included from an attribute is sanitized twice, because the derived copy is taken from the already
   rewritten tree. *)
From V Require Import lib.Base model.TContext model.TTree model.TEscaper model.Engine spec.EngineSpec props.C06.
Local Open Scope N_scope.

(* {{define "h"}}{{.}}{{end}}<p title="{{template "h" .A}}">x</p> *)
Definition d6_defs : list op :=
  [ ONew (B "main");
    OParse 0 (Parsed [ (B "h", [NAction 0 dot_pipe]);
                       (B "main", [NText 0 (B "<p title=" ++ [34]); NTemplate 1 (B "h") (Some (field_pipe (B "A")));
                                   NText 2 ([34] ++ B ">x</p>")]) ]) ].

Definition d6_derived : bytes :=
  B "h$htmltemplate_StateAttr_DelimDoubleQuote_attrTitle_elementP".

Lemma C06_history_independent_refuted : ~ C06_history_independent_full_statement.
Proof.
  intros H.
  specialize (H d6_defs [OExecuteTemplate 0 (B "h")] (B "main") d6_derived).
  assert (Hx : Forall (fun o => is_exec_op o = true) [OExecuteTemplate 0 (B "h")]) by (repeat constructor).
  specialize (H Hx). vm_compute in H. discriminate H.
Qed.
