(* C10 -- HTMLEscaped yields inert, interchange-valid, round-tripping text for every input.
   Only the property theorems; proofs are in proofs/HtmlFacts.v.  The tokenizer clause
   ("placed in element content, RCDATA or a quoted attribute value it never ends the enclosing
   construct") is stated over the HTML tokenizer specification in props/C10_tok.v when present;
   its byte-level content is C10_alphabet. *)
From V Require Import lib.Base lib.Utf8 model.Html model.HtmlUnescape spec.HtmlSpec proofs.HtmlFacts.

(* none of the four bytes 60 62 34 39; every ampersand starts one of the five references *)
Theorem C10_alphabet : forall s,
  no_quote_or_angle (html_escaped s) = true /\ amp_ok (html_escaped s) = true.
Proof. exact html_escaped_alphabet. Qed.
Print Assumptions C10_alphabet.

(* valid UTF-8; no NUL, C0/C1 control other than TAB LF FF CR, DEL, noncharacter or surrogate *)
Theorem C10_interchange_valid : forall s,
  utf8_valid (html_escaped s) = true /\ forallb clean_rune (decode_runes (html_escaped s)) = true.
Proof. exact html_escaped_interchange. Qed.
Print Assumptions C10_interchange_valid.

(* Go's html.UnescapeString (model) gives back s with exactly those code points and every
   invalid byte replaced by U+FFFD *)
Theorem C10_roundtrip : forall s, html_unescape (html_escaped s) = coerce_spec s.
Proof. exact html_unescape_escaped. Qed.
Print Assumptions C10_roundtrip.

Theorem C10_concat : forall l, html_concat l = concat l.
Proof. exact html_concat_spec. Qed.
Print Assumptions C10_concat.
