(* C10 -- HTMLEscaped yields inert, interchange-valid, round-tripping text for every input.
   Only the property theorems; proofs are in proofs/HtmlFacts.v and proofs/HtmlTokInertFacts.v. *)
From V Require Import lib.Base lib.Utf8 model.Html model.HtmlUnescape spec.HtmlSpec spec.HtmlTok proofs.HtmlFacts
     proofs.HtmlTokFacts proofs.HtmlTokInertFacts.

(* none of the four bytes 60 62 34 39; every ampersand starts one of the five references *)
Theorem C10_alphabet : forall s,
  no_quote_or_angle (html_escaped s) = true /\ amp_ok (html_escaped s) = true.
Proof. exact html_escaped_alphabet. Qed.
Print Assumptions C10_alphabet.

(* valid UTF-8; no NUL, C0/C1 control other than TAB LF FF CR, DEL, noncharacter or surrogate *)
Theorem C10_interchange_valid : forall s,
  utf8_valid (html_escaped s) = true /\ forallb clean_rune (decode_runes (html_escaped s)) = true.
Proof. exact html_escaped_interchange. Qed.
Print Assumptions C10_interchange_valid.

(* Go's html.UnescapeString (model) gives back s with exactly those code points and every
   invalid byte replaced by U+FFFD *)
Theorem C10_roundtrip : forall s, html_unescape (html_escaped s) = coerce_spec s.
Proof. exact html_unescape_escaped. Qed.
Print Assumptions C10_roundtrip.

Theorem C10_concat : forall l, html_concat l = concat l.
Proof. exact html_concat_spec. Qed.
Print Assumptions C10_concat.

(* placed in element content, RCDATA content or a single- or double-quoted attribute value, the
   escaped text is consumed by the WHATWG tokenizer specification (spec/HtmlTok.v) without leaving
   the state it was in and without emitting any token: it never ends the enclosing construct *)
Theorem C10_tokenizes_inert : forall s,
  (forall t, t_state t = SData ->
     let t' := tok_run t (html_escaped s) in
     t_state t' = SData /\ t_toks t' = t_toks t /\
     t_classes t' = rev (map (fun _ => PText) (html_escaped s)) ++ t_classes t) /\
  (forall n t, t_state t = SRcdata n ->
     let t' := tok_run t (html_escaped s) in
     t_state t' = SRcdata n /\ t_toks t' = t_toks t /\
     t_classes t' = rev (map (fun _ => PRcdata n) (html_escaped s)) ++ t_classes t) /\
  (forall t, t_state t = SAttrValueDQ ->
     let t' := tok_run t (html_escaped s) in t_state t' = SAttrValueDQ /\ t_toks t' = t_toks t) /\
  (forall t, t_state t = SAttrValueSQ ->
     let t' := tok_run t (html_escaped s) in t_state t' = SAttrValueSQ /\ t_toks t' = t_toks t).
Proof. exact html_escaped_tokenizes_inert. Qed.
Print Assumptions C10_tokenizes_inert.
