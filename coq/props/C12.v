(* C12 -- URLSetSanitized keeps only safe image candidates under the WHATWG srcset parser.
   This file holds only the property theorems; proofs are in proofs/UrlSetFacts.v.
   Vocabulary: model/UrlSet.v (urlset_sanitized, scan_all, cand_ok, render, render_url, join, sep,
   descr_tokens, reads, pct_ends), model/Url.v (is_safe_url, url_sanitized, innocuous_url),
   spec/Srcset.v (candidates = the image candidate strings the WHATWG parser sees, parse). *)
From V Require Import lib.Base gen.GenTables model.Url model.UrlSet spec.Srcset spec.UrlSetSpec proofs.UrlSetFacts.
Local Open Scope N_scope.

(* the loop never runs out of the fuel the model gives it *)
Theorem C12_fuel : forall (safe : bytes -> bool) (s : bytes),
  url_loop_with safe (S (length s)) s [] <> None.
Proof. exact url_loop_fuel. Qed.
Print Assumptions C12_fuel.

(* the output is the innocuous URL or a " , "-separated list of canonical candidates *)
Theorem C12_shape : forall s : bytes,
  urlset_sanitized s = innocuous_url \/
  exists cs, cs <> [] /\ urlset_sanitized s = join sep (map render cs) /\
    Forall (fun c =>
      fst c <> [] /\ Forall (fun b => mem_N b T_asciiWhitespace = false) (fst c) /\
      is_safe_url (fst c) = true /\
      Forall (fun b => mem_N b T_srcsetMetachars = false) (snd c) /\
      is_optional_src_metadata_well_formed (snd c) = true /\
      render_url (fst c) <> [] /\
      Forall (fun b => mem_N b T_asciiWhitespace = false) (render_url (fst c)) /\
      hd 0 (render_url (fst c)) <> 44 /\ last (render_url (fst c)) 0 <> 44 /\
      is_safe_url (render_url (fst c)) = true /\
      Forall (fun b => b <> 40 /\ b <> 41) (snd c)) cs.
Proof. exact c12_shape. Qed.
Print Assumptions C12_shape.

(* only drops: the scanned pairs are copied in order from s, and the output is built from the
   scanned pairs that pass the test, in order *)
Theorem C12_only_drops : forall s : bytes,
  reads s (scan_all s) /\
  urlset_sanitized s =
    match filter cand_ok (scan_all s) with
    | [] => innocuous_url
    | cs => join sep (map render cs)
    end.
Proof. exact c12_only_drops. Qed.
Print Assumptions C12_only_drops.

(* ... each written verbatim except that one leading and one trailing "," of the URL become "%2c" *)
Theorem C12_render_verbatim : forall c : bytes * bytes, fst c <> [] ->
  exists (lead trail : bool) (mid : bytes),
    fst c = pct_ends lead trail [44] mid /\
    render c = pct_ends lead trail pct_comma mid ++ (if is_nil (snd c) then [] else 32 :: snd c).
Proof. exact c12_render_verbatim. Qed.
Print Assumptions C12_render_verbatim.

(* the bridge: on such a list the WHATWG parser finds exactly the candidates written *)
Theorem C12_candidates : forall cs : list (bytes * bytes),
  cs <> [] ->
  Forall (fun c =>
      fst c <> [] /\ Forall (fun b => mem_N b T_asciiWhitespace = false) (fst c) /\
      Forall (fun b => mem_N b T_srcsetMetachars = false) (snd c) /\
      is_optional_src_metadata_well_formed (snd c) = true) cs ->
  candidates (join sep (map render cs)) =
  map (fun c => (render_url (fst c), descr_tokens (snd c))) cs.
Proof. exact c12_candidates. Qed.
Print Assumptions C12_candidates.

(* what the WHATWG parser sees in URLSetSanitized(s), for every s: at least one candidate; every
   URL is one that URLSanitized leaves unchanged; every descriptor list is empty or one
   well-formed metadata; and the candidates are the kept pairs of s, in order *)
Theorem C12_whatwg : forall s : bytes,
  exists cs, cs <> [] /\
    candidates (urlset_sanitized s) = map (fun c => (fst c, descr_tokens (snd c))) cs /\
    Forall (fun c => is_safe_url (fst c) = true /\ url_sanitized (fst c) = fst c /\
                     is_optional_src_metadata_well_formed (snd c) = true) cs /\
    (urlset_sanitized s = innocuous_url \/
     cs = map (fun c => (render_url (fst c), snd c)) (filter cand_ok (scan_all s))).
Proof. exact c12_whatwg. Qed.
Print Assumptions C12_whatwg.

(* the image sources the full algorithm returns are among those candidates *)
Theorem C12_parse_subset : forall (s : bytes) u wd,
  In (u, wd) (parse s) -> exists ds, In (u, ds) (candidates s).
Proof. exact parse_of_candidates. Qed.
Print Assumptions C12_parse_subset.

Theorem C12_idempotent : forall s : bytes,
  urlset_sanitized (urlset_sanitized s) = urlset_sanitized s.
Proof. exact urlset_idempotent. Qed.
Print Assumptions C12_idempotent.
