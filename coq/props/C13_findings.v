(* C13: refutation witnesses of the full statements (the recorded findings), by computation. *)
From V Require Import lib.Base lib.Regex lib.Utf8 model.UrlProc model.Trurl spec.Rfc3986 spec.TrurlSpec props.C13.

(* D14: "/%{a}/evil.com/x.js" with a = "" becomes the protocol-relative "//evil.com/x.js" *)
Lemma C13_confined_refuted_host : exists format args o,
  tru_format format args = Some o /\ finding_D14 format = true /\
  uri_authority (with_x format) = None /\ uri_authority o = Some (B "evil.com").
Proof.
  exists (B "/%{a}/evil.com/x.js"), [(B "a", [])], (B "//evil.com/x.js"). vm_compute. repeat split; reflexivity.
Qed.

(* D10: two "." arguments side by side make a ".." segment *)
Lemma C13_confined_refuted_dotdot : exists format args o,
  tru_format format args = Some o /\ finding_D10 format args = true /\
  finding_D14 format = false /\ finding_D22 format = false /\
  o = B "https://h/a/../c" /\
  climb O (skipn (static_dir_len format) (segments (uri_path o))) = 1%nat /\
  climb O (skipn (static_dir_len format) (segments (uri_path (with_x format)))) = 0%nat.
Proof.
  exists (B "https://h/a/%{a}%{b}/c"), [(B "a", B "."); (B "b", B ".")], (B "https://h/a/../c").
  vm_compute. repeat split; reflexivity.
Qed.

(* D10, static dot next to a marker *)
Lemma C13_confined_refuted_dotdot_static : exists format args o,
  tru_format format args = Some o /\ finding_D10 format args = true /\ o = B "/a/%2e./x.js" /\
  climb O (skipn (static_dir_len format) (segments (uri_path o))) = 1%nat /\
  climb O (skipn (static_dir_len format) (segments (uri_path (with_x format)))) = 0%nat.
Proof.
  exists (B "/a/%2e%{a}/x.js"), [(B "a", B ".")], (B "/a/%2e./x.js"). vm_compute. repeat split; reflexivity.
Qed.

(* D23: a lone "." argument, then a ".." that the format spells out *)
Lemma C13_confined_refuted_single_dot : exists format args o,
  tru_format format args = Some o /\ finding_D23 format args = true /\ finding_D10 format args = false /\
  o = B "/a/b/./../c" /\
  climb O (skipn (static_dir_len format) (segments (uri_path o))) = 1%nat /\
  climb O (skipn (static_dir_len format) (segments (uri_path (with_x format)))) = 0%nat /\
  normalize_path (uri_path o) = B "/a/c" /\ normalize_path (uri_path (with_x format)) = B "/a/b/c".
Proof.
  exists (B "/a/b/%{a}/../c"), [(B "a", B ".")], (B "/a/b/./../c"). vm_compute. repeat split; reflexivity.
Qed.

(* D22: U+017F LATIN SMALL LETTER LONG S folds to "s" under Go's (?i) *)
Lemma C13_prefix_refuted_fold : exists format,
  is_safe_tru_prefix format = true /\ spec_safe_prefix format = false /\ finding_D22 format = true /\
  tru_format format [] = Some format.
Proof. exists (B "http" ++ [197; 191] ++ B "://evil.example/"). vm_compute. repeat split; reflexivity. Qed.

Lemma C13_prefix_full_statement_false : ~ C13_prefix_full_statement.
Proof.
  intros H. destruct C13_prefix_refuted_fold as (format & Hs & Hn & _). rewrite (H format Hs) in Hn. discriminate.
Qed.

(* D24: Append has no dot-segment check *)
Lemma C13_append_refuted_dotdot : exists t s o,
  tru_append t s = Some o /\ finding_D24 t s = true /\ o = B "/a/b/.." /\
  climb O (skipn 3 (segments (uri_path o))) = 1%nat /\ climb O (skipn 3 (segments (uri_path (t ++ [120])))) = 0%nat.
Proof. exists (B "/a/b/"), (B ".."), (B "/a/b/.."). vm_compute. repeat split; reflexivity. Qed.
