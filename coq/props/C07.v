(* C07 -- definitions freeze at first execution; clones are fully isolated.
   Only the property theorems; proofs are in proofs/EngineFacts.v. *)
From V Require Import lib.Base model.TContext model.TTree model.TEscaper model.Engine spec.EngineSpec proofs.EngineFacts proofs.EngineHistFacts proofs.EngineInvFacts proofs.EngineOkFacts proofs.EngineIsoFacts proofs.EngineOwnFacts proofs.EngineResFacts proofs.EngineCloneFacts.

(* in EVERY world: once the set is marked executed, Parse on any of its templates fails and
   changes nothing at all *)
Theorem C07_frozen : forall w h obj p,
  handle w h = Some obj -> n_escaped (get_ns w (h_ns (get_tmpl w obj))) = true ->
  step w (OParse h p) = (w, RErrCannotParse).
Proof. exact parse_after_execute_fails. Qed.
Print Assumptions C07_frozen.

(* every Execute / ExecuteTemplate -- successful or not -- marks the set executed *)
Theorem C07_execute_freezes : forall w h obj,
  handle w h = Some obj ->
  n_escaped (get_ns (fst (step w (OExecute h))) (h_ns (get_tmpl w obj))) = true.
Proof. exact execute_freezes. Qed.
Print Assumptions C07_execute_freezes.

Theorem C07_execute_template_freezes : forall w h obj name,
  handle w h = Some obj ->
  n_escaped (get_ns (fst (step w (OExecuteTemplate h name))) (h_ns (get_tmpl w obj))) = true.
Proof. exact execute_template_freezes. Qed.
Print Assumptions C07_execute_template_freezes.

(* cloning a template that has been executed (successfully or not) fails and changes nothing *)
Theorem C07_clone_after_exec : forall w h obj,
  handle w h = Some obj -> h_err (get_tmpl w obj) <> ENotYet ->
  step w (OClone h) = (w, RErrCannotClone).
Proof. exact clone_after_execute_fails. Qed.
Print Assumptions C07_clone_after_exec.

(* Isolation of clones (no op on one name space changes what another one executes) is a frame
   property over the heaps of the model that is not proved here; on the implementation it is decided
   by the projection oracle of the hist07 stream: every exec result is compared with the result of
   the history projected to the op's own name space chain. *)

(* ---- over histories ---- *)
(* a frozen name space stays frozen through EVERY further sequence of API calls (New, Parse, Clone,
   Lookup, Execute, ExecuteTemplate, ... through any handles, of this or any other set) *)
Theorem C07_frozen_forever : forall w nsid ops,
  (nsid < length (w_ns w))%nat -> n_escaped (get_ns w nsid) = true ->
  n_escaped (get_ns (run_from w ops) nsid) = true.
Proof. exact frozen_forever. Qed.
Print Assumptions C07_frozen_forever.

(* hence: after ANY Execute / ExecuteTemplate through a handle (successful or not) and after ANY
   further history, Parse through every handle whose template lives in that name space fails and
   changes nothing *)
Theorem C07_parse_fails_forever : forall w o h obj ops h' obj' p,
  (o = OExecute h \/ exists name, o = OExecuteTemplate h name) ->
  handle w h = Some obj ->
  let w2 := run_from (fst (step w o)) ops in
  handle w2 h' = Some obj' -> h_ns (get_tmpl w2 obj') = h_ns (get_tmpl w obj) ->
  step w2 (OParse h' p) = (w2, RErrCannotParse).
Proof. exact parse_fails_forever. Qed.
Print Assumptions C07_parse_fails_forever.

(* in every reachable world every handle the client holds denotes the member that its set registers
   under its own name, or an empty shell (no tree, never executed) left behind by a redefinition:
   there are no stale handles through which an executed definition could be reached or replaced *)
Theorem C07_handles_registered : forall ops h obj,
  let w := run_from world0 ops in
  handle w h = Some obj -> registered w obj \/ husk w obj.
Proof. exact handles_registered. Qed.
Print Assumptions C07_handles_registered.

(* isolation, for the template OBJECTS (status, text template, name space of every handle's template): in
   every well-formed - hence every reachable - world, an operation through a handle of one name space never
   touches a template object that lives in another name space (a clone, the original, an unrelated set) ... *)
Theorem C07_other_sets_objects_untouched : forall w op o,
  Inv w -> (o < length (w_tmpl w))%nat ->
  (forall a, op_ns w op = Some a -> h_ns (get_tmpl w o) <> a) ->
  get_tmpl (fst (step w op)) o = get_tmpl w o.
Proof. exact other_sets_objects_untouched. Qed.
Print Assumptions C07_other_sets_objects_untouched.

(* ... nor does any history of such operations.  (The TREES of the other set's text templates: see
   C07_other_sets_trees_untouched below.) *)
Theorem C07_other_sets_objects_untouched_hist : forall ops w o,
  Inv w -> (o < length (w_tmpl w))%nat ->
  other_ns_hist w (h_ns (get_tmpl w o)) ops ->
  get_tmpl (run_from w ops) o = get_tmpl w o.
Proof. exact other_sets_objects_untouched_hist. Qed.
Print Assumptions C07_other_sets_objects_untouched_hist.

(* the ownership invariant behind the isolation of whole sets holds in every reachable world: every text
   template listed in an association carries that association's number, name spaces and associations are
   allocated in lock step, and the text template of every template object belongs to the association of the
   object's name space *)
Theorem C07_reachable_worlds_own_their_texts : forall ops, J (run_from world0 ops).
Proof. exact J_reachable. Qed.
Print Assumptions C07_reachable_worlds_own_their_texts.

(* isolation, for everything else a set consists of: an operation through a handle of one name space leaves
   the name-space record (members, executed flag, escaper state), the association and every text template
   (its tree included) of every OTHER name space exactly as they were - clone, original or unrelated set *)
Theorem C07_other_sets_trees_untouched : forall b w op,
  J w -> (b < length (w_ns w))%nat ->
  (forall a, op_ns w op = Some a -> a <> b) ->
  let w' := fst (step w op) in
  get_ns w' b = get_ns w b /\ get_common w' b = get_common w b /\
  (forall nm tid, In (nm, tid) (get_common w b) -> get_text w' tid = get_text w tid).
Proof. exact other_sets_trees_untouched. Qed.
Print Assumptions C07_other_sets_trees_untouched.

(* ... and the same after ANY history that follows ANY history, as long as none of the later operations
   goes through a handle of that name space *)
Theorem C07_other_sets_trees_untouched_hist : forall b ops0 ops,
  let w := run_from world0 ops0 in
  (b < length (w_ns w))%nat -> other_ns_hist w b ops ->
  let w' := run_from w ops in
  get_ns w' b = get_ns w b /\ get_common w' b = get_common w b /\
  (forall nm tid, In (nm, tid) (get_common w b) -> get_text w' tid = get_text w tid).
Proof. exact other_sets_trees_untouched_hist. Qed.
Print Assumptions C07_other_sets_trees_untouched_hist.

(* "parsing into or executing the clone never changes any result obtained from the original and vice
   versa": after ANY history, followed by ANY history none of whose operations goes through a handle of name
   space b, Execute and ExecuteTemplate through a handle of b answer exactly as they would have answered
   before the second history - the same error, or execution of the same text template (whose tree is
   untouched by C07_other_sets_trees_untouched_hist).  The bytes text/template prints from that tree are not
   part of the model: on the implementation they are compared by the projection oracle. *)
Theorem C07_foreign_history_keeps_result_classes : forall b ops0 ops h obj,
  let w := run_from world0 ops0 in
  handle w h = Some obj -> h_ns (get_tmpl w obj) = b -> other_ns_hist w b ops ->
  let w' := run_from w ops in
  snd (step w' (OExecute h)) = snd (step w (OExecute h)) /\
  forall name, snd (step w' (OExecuteTemplate h name)) = snd (step w (OExecuteTemplate h name)).
Proof. exact foreign_history_keeps_results. Qed.
Print Assumptions C07_foreign_history_keeps_result_classes.

(* "cloning a template that has already been executed fails", over histories: once Execute through a handle has
   answered with an analysis error, or the template it denotes had been executed successfully, Clone through that
   handle is refused - and changes nothing - after ANY further history of API calls through any handles of any set
   (t.New only for names its set does not define yet) *)
Theorem C07_clone_refused_forever : forall ops0 h o ops,
  let w0 := run_from world0 ops0 in
  handle w0 h = Some o ->
  (exists code, snd (step w0 (OExecute h)) = RErrEscape code) \/ h_err (get_tmpl w0 o) = EEscOK ->
  let w := fst (step w0 (OExecute h)) in
  no_redefine_hist w ops ->
  let w' := run_from w ops in
  step w' (OClone h) = (w', RErrCannotClone).
Proof. exact clone_refused_forever. Qed.
Print Assumptions C07_clone_refused_forever.
