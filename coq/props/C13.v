(* C13 -- TrustedResourceURL builders confine dynamic parts to where the format puts them.
   This file holds only the property theorems; proofs are in proofs/TrurlFacts.v.  Statements that
   are false of the faithful model are proved as _partial with the negated finding classifiers as
   extra hypotheses; the full statements are kept as Definitions (covered by the oracle search),
   their refutations are in props/C13_findings.v. *)
From V Require Import lib.Base lib.Regex lib.Utf8 gen.GenRegex model.UrlProc model.Trurl spec.Rfc3986 spec.TrurlSpec proofs.TrurlFacts.
From Coq Require Import Permutation.

(* arguments are percent-encoded down to unreserved characters, reversibly *)
Theorem C13_escape_alphabet : forall s : bytes, wf_bytes s ->
  escaped_alphabet (query_escape_url s) = true /\ pct_decode (query_escape_url s) = s.
Proof. exact escape_alphabet_roundtrip. Qed.
Print Assumptions C13_escape_alphabet.

Theorem C13_escape_spec : forall s : bytes,
  query_escape_url s = spec_escape s /\ forallb not_gen_stop (query_escape_url s) = true.
Proof. exact escape_spec_clean. Qed.
Print Assumptions C13_escape_spec.

Theorem C13_escape_no_delimiters : forall (s : bytes) c, wf_bytes s -> In c (query_escape_url s) ->
  c <> 58 /\ c <> 47 /\ c <> 63 /\ c <> 35 /\ c <> 91 /\ c <> 93 /\ c <> 64 /\ c <> 92.
Proof. exact escape_no_delimiters. Qed.
Print Assumptions C13_escape_no_delimiters.

(* the hand-written scanner finds exactly the markers of the specification *)
Theorem C13_scanner : forall (format : bytes) f,
  fill f (tru_pieces format) = subst_markers f format /\ piece_labels (tru_pieces format) = marker_labels format.
Proof. exact scanner_spec. Qed.
Print Assumptions C13_scanner.

(* a marker of the specification = a full match of the regenerated marker pattern *)
Theorem C13_marker_grammar : forall (s l r : bytes),
  marker_at s = Some (l, r) <->
  (s = 37 :: 123 :: l ++ 125 :: r /\
   accepts (Cat BeginText (Cat G_trustedResourceURLFormatMarkerPattern EndText)) (37 :: 123 :: l ++ [125]) = true).
Proof. exact marker_grammar. Qed.
Print Assumptions C13_marker_grammar.

Theorem C13_subst : forall format args o, tru_format format args = Some o ->
  is_safe_tru_prefix format = true /\
  o = subst_markers (fun l => spec_escape (arg_or_empty args l)) format /\
  (forall l, In l (marker_labels format) -> exists v, lookup l args = Some v /\ contains_double_dot v = false).
Proof. exact format_subst. Qed.
Print Assumptions C13_subst.

Theorem C13_missing_arg : forall format args l, In l (marker_labels format) ->
  (lookup l args = None \/ exists v, lookup l args = Some v /\ contains_double_dot v = true) ->
  tru_format format args = None.
Proof. exact format_bad_arg. Qed.
Print Assumptions C13_missing_arg.

Theorem C13_unsafe_prefix : forall format args t s,
  (is_safe_tru_prefix format = false -> tru_format format args = None) /\
  (is_safe_tru_prefix t = false -> tru_append t s = None).
Proof. exact unsafe_prefix_rejected. Qed.
Print Assumptions C13_unsafe_prefix.

(* the accepted prefixes are the documented ones (false in full: finding D22) *)
Definition C13_prefix_full_statement : Prop := forall format,
  is_safe_tru_prefix format = true -> spec_safe_prefix format = true.

Theorem C13_prefix_partial : forall format,
  is_safe_tru_prefix format = true -> finding_D22 format = false -> spec_safe_prefix format = true.
Proof. exact safe_prefix_documented. Qed.
Print Assumptions C13_prefix_partial.

Theorem C13_prefix_up_to_folding : forall format,
  is_safe_tru_prefix format = true -> spec_safe_prefix (unfolded format) = true.
Proof. exact safe_prefix_unfolded. Qed.
Print Assumptions C13_prefix_up_to_folding.

(* confinement (false in full: findings D10, D14, D22, D23) *)
Definition C13_confined_full_statement : Prop := forall format args o,
  tru_format format args = Some o ->
  let o0 := with_x format in
  spec_safe_prefix format = true /\
  uri_scheme o = uri_scheme o0 /\ uri_authority o = uri_authority o0 /\
  length (segments (uri_path o)) = length (segments (uri_path o0)) /\
  has_query o = has_query o0 /\ has_fragment o = has_fragment o0 /\
  (climb O (skipn (static_dir_len format) (segments (uri_path o)))
   <= climb O (skipn (static_dir_len format) (segments (uri_path o0))))%nat /\
  stays_in_dir (static_dir_len format) o o0 = true.

Theorem C13_confined_partial : forall format args o, tru_format format args = Some o ->
  finding_D22 format = false -> finding_D14 format = false ->
  finding_D10 format args = false -> finding_D23 format args = false ->
  let o0 := with_x format in
  uri_scheme o = uri_scheme o0 /\ uri_authority o = uri_authority o0 /\
  length (segments (uri_path o)) = length (segments (uri_path o0)) /\
  has_query o = has_query o0 /\ has_fragment o = has_fragment o0 /\
  (climb O (skipn (static_dir_len format) (segments (uri_path o)))
   <= climb O (skipn (static_dir_len format) (segments (uri_path o0))))%nat.
Proof. exact confined_partial. Qed.
Print Assumptions C13_confined_partial.

(* TrustedResourceURLAppend (false in full: findings D22, D24) *)
Definition C13_append_full_statement : Prop := forall t s o, tru_append t s = Some o ->
  let o0 := t ++ [120] in
  spec_safe_prefix t = true /\ o = t ++ spec_escape s /\
  uri_scheme o = uri_scheme o0 /\ uri_authority o = uri_authority o0 /\
  length (segments (uri_path o)) = length (segments (uri_path o0)) /\
  has_query o = has_query o0 /\ has_fragment o = has_fragment o0 /\
  forall k, (climb O (skipn k (segments (uri_path o))) <= climb O (skipn k (segments (uri_path o0))))%nat.

Theorem C13_append : forall t s o, tru_append t s = Some o ->
  is_safe_tru_prefix t = true /\ o = t ++ spec_escape s.
Proof. exact append_spec. Qed.
Print Assumptions C13_append.

(* the last hypothesis (no "." segment completed either) is needed by the proof only; the case is
   harmless, and is covered by the search *)
Theorem C13_append_confined_partial : forall t s o, tru_append t s = Some o ->
  finding_D22 t = false -> finding_D24 t s = false -> new_dot 1 (t ++ spec_escape s) (t ++ [120]) = false ->
  let o0 := t ++ [120] in
  spec_safe_prefix t = true /\
  uri_scheme o = uri_scheme o0 /\ uri_authority o = uri_authority o0 /\
  length (segments (uri_path o)) = length (segments (uri_path o0)) /\
  has_query o = has_query o0 /\ has_fragment o = has_fragment o0 /\
  forall k, (climb O (skipn k (segments (uri_path o))) <= climb O (skipn k (segments (uri_path o0))))%nat.
Proof. exact append_confined_partial. Qed.
Print Assumptions C13_append_confined_partial.

(* TrustedResourceURLWithParams: a function of the set of pairs, which only extends the query *)
Theorem C13_params_order : forall t ps ps', Permutation ps ps' ->
  tru_with_params t ps' = tru_with_params t ps.
Proof. exact with_params_perm. Qed.
Print Assumptions C13_params_order.

Theorem C13_params : forall t ps,
  let url := fst (split_frag t) in
  let frag := snd (split_frag t) in
  let sp := sort_strings (map param_string (filter param_nonempty ps)) in
  t = url ++ frag /\ forallb not_hash url = true /\ (frag = [] \/ exists r, frag = 35 :: r) /\
  sorted sp /\ Permutation sp (map param_string (filter param_nonempty ps)) /\
  tru_with_params t ps = match sp with
                         | [] => t
                         | _ => url ++ params_sep url ++ join_amp sp ++ frag
                         end.
Proof. exact with_params_formula. Qed.
Print Assumptions C13_params.

Theorem C13_params_encoded : forall kv, param_string kv = spec_escape (fst kv) ++ 61 :: spec_escape (snd kv).
Proof. exact param_string_spec. Qed.
Print Assumptions C13_params_encoded.

(* only the query component changes (RFC 3986 reading): scheme, authority, path and fragment are
   preserved; the new query is the old one, "&" if it was non-empty, and the sorted encoded pairs *)
Theorem C13_params_components : forall t ps,
  let r := tru_with_params t ps in
  let sp := sort_strings (map param_string (filter param_nonempty ps)) in
  uri_scheme r = uri_scheme t /\ uri_authority r = uri_authority t /\ uri_path r = uri_path t /\
  uri_fragment r = uri_fragment t /\
  (sp = [] -> r = t) /\
  (sp <> [] -> uri_query r = Some (match uri_query t with
                                   | None | Some [] => join_amp sp
                                   | Some q => q ++ 38 :: join_amp sp
                                   end)).
Proof. exact with_params_components. Qed.
Print Assumptions C13_params_components.

(* not proved, evaluated on every case of the tru_params stream: the executable oracle (which also
   decodes the added pairs back) accepts the model's result *)
Definition C13_params_oracle_full_statement : Prop := forall t ps,
  params_verdict t ps (tru_with_params t ps) = 0%N.
