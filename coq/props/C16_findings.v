(* C16: refutation witnesses of the recorded findings (records, not gates). *)
From V Require Import lib.Base lib.Utf8 spec.CssSyntax model.CssRule spec.CssRuleSpec.

Definition D12_selector : bytes :=
  [117; 114; 108; 40; 120; 34; 41; 123; 125] ++ B "input[value^=a]{background:url(//evil/a)}z{" ++ [34; 121; 41].

(* D12: the property's own witness is accepted, and the result is three rules, the second one
   input[value^=a]{background:url(//evil/a)} chosen by the selector *)
Lemma C16_one_rule_refuted_D12 : exists sel st o,
  style_wellformed st = true /\ css_rule sel st = Some o /\ css_rule_spec sel st (Some o) = false /\
  finding_D12 sel = true /\ length (parse_stylesheet (css_tokens o)) = 3%nat.
Proof.
  exists D12_selector, (B "color:red;"), (D12_selector ++ B "{color:red;}").
  repeat split; vm_compute; reflexivity.
Qed.

(* D19: "-->b" is accepted; the parser drops the leading CDC, the prelude is just b *)
Lemma C16_one_rule_refuted_D19 : exists sel st o,
  style_wellformed st = true /\ css_rule sel st = Some o /\ css_rule_spec sel st (Some o) = false /\
  finding_D19 sel = true /\ finding_D12 sel = false /\
  parse_stylesheet (css_tokens o) =
    [RQualified [CVTok (TIdent [98])]
       [CVTok (TIdent (B "color")); CVTok TColon; CVTok (TIdent (B "red")); CVTok TSemicolon] true].
Proof.
  exists (B "-->b"), (B "color:red;"), (B "-->b{color:red;}").
  repeat split; vm_compute; reflexivity.
Qed.
