(* C15: refutation witnesses of the recorded findings (records, not gates). *)
From V Require Import lib.Base lib.Regex lib.RegexDecide lib.Utf8 gen.GenRegex spec.CssSyntax model.Url model.Style spec.StyleSpec.

(* D11 (',' accepted in plain values through the range [+-.]) was repaired by a fix: commit; its
   refutation witnesses were removed with it: the full theorem C15_regular_values now holds and the
   exact bridge bridge_regular_exact is a proved side condition (proofs/StyleExactFacts.v). *)

(* D25: "< x": the space after the escaped '<' is swallowed by the CSS hex escape *)
Lemma C15_css_escape_round_trip_refuted : exists s,
  finding_D25 s = true /\
  css_escape_string s = B "\00003C x" /\
  css_unescape_string (css_escape_string s) = Some (B "<x") /\
  nul_to_fffd (decode_runes s) = B "< x".
Proof. exists (B "< x"). vm_compute. repeat split; reflexivity. Qed.
