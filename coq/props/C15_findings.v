(* C15: refutation witnesses of the recorded findings (records, not gates). *)
From V Require Import lib.Base lib.Regex lib.RegexDecide lib.Utf8 gen.GenRegex spec.CssSyntax model.Url model.Style spec.StyleSpec.

(* D11: Color "red,blue" is emitted verbatim although ',' is outside the documented alphabet *)
Lemma C15_regular_values_refuted : exists p fname css v,
  field_by_name p fname = Some (PStr v) /\ v <> [] /\
  doc_emit p (fname, css, 3) = css ++ [58] ++ v ++ [59] /\ doc_regular v = false /\ finding_D11 v = true.
Proof.
  exists [PList []; PList []; PStr []; PStr []; PStr []; PStr []; PStr []; PStr (B "red,blue")],
    (B "Color"), (B "color"), (B "red,blue").
  vm_compute. repeat split; try reflexivity. discriminate.
Qed.

(* D11 at its source: the regenerated pattern is not within the documented language; witness "," *)
Lemma C15_bridge_regular_exact_refuted :
  bridge_regular_exact = false /\
  go_match G_safeRegularPropertyValuePattern [44] = true /\ accepts S_doc_regular [44] = false.
Proof. vm_compute. repeat split; reflexivity. Qed.

(* D25: "< x": the space after the escaped '<' is swallowed by the CSS hex escape *)
Lemma C15_css_escape_round_trip_refuted : exists s,
  finding_D25 s = true /\
  css_escape_string s = B "\00003C x" /\
  css_unescape_string (css_escape_string s) = Some (B "<x") /\
  nul_to_fffd (decode_runes s) = B "< x".
Proof. exists (B "< x"). vm_compute. repeat split; reflexivity. Qed.
