(* C03 -- safe-type values bypass sanitization only in their own context; attribute values are escaped.
   Only the property theorems; proofs are in proofs/SanitizerFacts.v. *)
From V Require Import lib.Base model.HtmlUnescape model.TContext model.TSanitize model.TSanitizers
     spec.HtmlSpec spec.SanitizerSpec proofs.SanitizerFacts.

(* for every function of the funcs map, every safe type, every contents and every pointer depth:
   the value is emitted verbatim exactly when the sanitizer's contract covers its type; otherwise
   it is handled exactly like the plain string with the same contents *)
Theorem C03_matrix : forall f k s n, In f sanitizer_names ->
  apply_sanitizer f (Nat.iter n VPtr (VSafe k s)) =
  if own f k then Some s else apply_sanitizer f (VStr s).
Proof. exact sanitizer_matrix. Qed.
Print Assumptions C03_matrix.

(* the full statement about attribute values ... *)
Definition C03_attr_escaped_full_statement : Prop :=
  forall c chain v o,
    sanitizers_for_attr_value c = Some chain -> apply_chain chain v = Some o -> attr_inert o = true.

(* ... is false of the faithful model (finding D5, props/C03_findings.v); what holds: whenever the
   chain has at least two steps, or the value is not a safehtml.HTML, the emitted text contains no
   quote and no angle bracket, and every ampersand starts a character reference *)
Theorem C03_attr_escaped_partial : forall c chain v o,
  sanitizers_for_attr_value c = Some chain ->
  (2 <= length chain)%nat \/ is_html_kind_value v = false ->
  apply_chain chain v = Some o ->
  attr_inert o = true.
Proof. exact attr_value_escaped_partial. Qed.
Print Assumptions C03_attr_escaped_partial.
