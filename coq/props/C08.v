(* C08 -- the template API is total: problems are returned as errors, never panics or hangs.
   Only the property theorems; proofs are in proofs/TotalFacts.v.

   Reading guide.  In the models every Go index or slice expression is a checked access and every
   loop carries explicit fuel; a Go panic (index out of range, nil dereference, the explicit panic
   calls) and fuel exhaustion are the explicit outcomes TPanic / EPanic / None / APanic / RPanic.
   "Never panics or hangs" is therefore: these outcomes are not produced.  The text level
   (transition functions, contextAfterText, escapeText, isJsTemplateBalanced) is total without
   exception.  The API level is NOT: the full statement C08_api_total_full_statement is refuted
   on the faithful model (props/C08_findings.v, findings D7, D8 and D40); what holds of every history
   is stated by C08_api_nonexec_total and C08_api_no_text_loop, and the analysis panics are
   characterised exactly by C08_analysis_panics_characterised. *)
From V Require Import lib.Base gen.GenTemplate model.GoStrings model.HtmlUnescape model.TContext model.TTransition
     model.TEscapeText model.TTree model.TEscaper model.Engine spec.TotalSpec proofs.TotalFacts.

(* every transition function of transition.go, for every context and every byte string: a result,
   consuming at most the input -- no index out of range, no slice out of range; the scan loops of
   tText and indexTagEnd finish within their fuel *)
Theorem C08_transitions_total : forall (c : context) (s : bytes),
  (exists c1 n, t_text c s = TOk c1 n /\ (n <= length s)%nat) /\
  (exists c1 n, t_tag c s = TOk c1 n /\ (n <= length s)%nat) /\
  (exists c1 n, t_attr_name c s = TOk c1 n /\ (n <= length s)%nat) /\
  (exists c1 n, t_after_name c s = TOk c1 n /\ (n <= length s)%nat) /\
  (exists c1 n, t_before_value c s = TOk c1 n /\ (n <= length s)%nat) /\
  (exists c1 n, t_html_cmt c s = TOk c1 n /\ (n <= length s)%nat) /\
  (exists c1 n, t_special_tag_end c s = TOk c1 n /\ (n <= length s)%nat) /\
  (exists c1 n, t_attr c s = TOk c1 n /\ (n <= length s)%nat) /\
  (exists c1 n, t_error c s = TOk c1 n /\ (n <= length s)%nat).
Proof. exact transitions_total_pointwise. Qed.
Print Assumptions C08_transitions_total.

(* contextAfterText, for EVERY context (well-formed or not) and every text: the slice s[:i] is in
   range and the loop over the unescaped attribute chunk ends within its fuel (each round consumes
   a byte or lowers a state rank; html.UnescapeString never grows its input) *)
Theorem C08_context_after_text_total : forall (c : context) (s : bytes),
  exists c1 n, context_after_text c s = TOk c1 n /\ (n <= length s)%nat.
Proof. exact context_after_text_total. Qed.
Print Assumptions C08_context_after_text_total.

(* the invariant of reachable contexts holds initially and is preserved by contextAfterText *)
Theorem C08_wf_preserved : wf_ctx ctx0 /\
  (forall c (s : bytes) c1 n, wf_ctx c -> context_after_text c s = TOk c1 n -> wf_ctx c1).
Proof. exact wf_preserved. Qed.
Print Assumptions C08_wf_preserved.

(* progress: the condition of escapeText's "infinite loop" panic is never met *)
Theorem C08_progress : forall c (s : bytes) c1 n, wf_ctx c -> s <> [] ->
  context_after_text c s = TOk c1 n -> (0 < n)%nat \/ c_state c1 <> c_state c.
Proof. exact cat_progress. Qed.
Print Assumptions C08_progress.

(* escapeText never panics (guard dead, s[written:cs] in range, fuel 2*len+2 suffices) and keeps
   the invariant; both CSP modes *)
Theorem C08_escape_text_total : forall csp c (s : bytes), wf_ctx c ->
  exists c' ed out, escape_text csp c s = EOk c' ed out /\ wf_ctx c'.
Proof. exact escape_text_total. Qed.
Print Assumptions C08_escape_text_total.

Theorem C08_js_balanced_total : forall s : bytes, is_js_template_balanced s <> None.
Proof. exact js_balanced_total. Qed.
Print Assumptions C08_js_balanced_total.

(* The selection functions (sanitizerForContext, sanitizationContextFor...) and the run-time
   sanitizers are structurally recursive functions into option: total by construction, nothing to
   prove.  The fuelled scanners they and the escaper use never exhaust their fuel: *)
Theorem C08_sanitizers_total :
  (forall f (s : bytes), (length s <= f)%nat -> unescape_fuel f s = html_unescape s) /\
  (forall s : bytes, (length (html_unescape s) <= length s)%nat) /\
  (forall f (s tag : bytes), (length s < f)%nat -> index_tag_end_loop f s tag 0 = index_tag_end s tag).
Proof. exact scanner_fuel_suffices. Qed.
Print Assumptions C08_sanitizers_total.

(* the analysis (escapeTree and everything below it), any fuel, any name space, any escaper whose
   memoised contexts are well-formed: a panic is the fuel bound, the shared-node check, the
   "unimplemented" panic -- and then some tree has a break/continue/comment node -- or a nil
   dereference -- and then some template of the association has a nil Tree.  Never the text-level
   panic, never out-of-sync, never no-templates. *)
Theorem C08_analysis_panics_characterised : forall ns fuel c name e p,
  wf_ctx c -> wf_output (e_output e) ->
  escape_tree ns fuel c name e = APanic p ->
  panic_allowed (env_has_bc (ns_text ns ++ e_derived e)) (env_has_nil (ns_text ns ++ e_derived e)) p = true.
Proof. exact analysis_panics_characterised. Qed.
Print Assumptions C08_analysis_panics_characterised.

(* partial totality of the analysis: without break/continue/comment nodes and without nil Trees
   only the explicit fuel bound (analysis_fuel = 400 recursion levels in the engine; termination
   of the real recursion is not proved) and the shared-node check remain *)
Theorem C08_analysis_total_partial : forall ns fuel c name e p,
  wf_ctx c -> wf_output (e_output e) ->
  env_has_bc (ns_text ns ++ e_derived e) = false ->
  env_has_nil (ns_text ns ++ e_derived e) = false ->
  escape_tree ns fuel c name e = APanic p -> p = PFuel \/ p = PSharedNode.
Proof. exact analysis_total_partial. Qed.
Print Assumptions C08_analysis_total_partial.

(* the full API statement: no call of any history panics ... *)
Definition C08_api_total_full_statement : Prop :=
  forall ops, Forall (fun r => is_panic r = false) (snd (run ops)).

(* ... is false of the faithful model (C08_refuted_break, C08_refuted_niltree, C08_refuted_clone_of_replaced in
   props/C08_findings.v).  What holds of EVERY history, whatever earlier calls failed:
   New, t.New, Parse, Clone, Lookup, Templates/Name/DefinedTemplates, CSPCompatible never panic; *)
Theorem C08_api_nonexec_total : forall ops k o r,
  nth_error ops k = Some o -> nth_error (snd (run ops)) k = Some r ->
  is_exec o = false -> is_panic r = false.
Proof. exact run_nth_nonexec. Qed.
Print Assumptions C08_api_nonexec_total.

(* and no call ever reaches escapeText's "infinite loop" panic (nor an out-of-range slice or a
   text-level hang): every context the analysis handles in any history is well-formed *)
Theorem C08_api_no_text_loop : forall ops, Forall (fun r => r <> RPanic PTextLoop) (snd (run ops)).
Proof. exact api_no_text_loop. Qed.
Print Assumptions C08_api_no_text_loop.
