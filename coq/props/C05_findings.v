(* Recorded finding D1 as it shows in C05: after X (which calls the context-opening helper Y) has
   been executed, Y alone executes although its analysis fails on a fresh set. *)
From V Require Import lib.Base model.TContext model.TTree model.TEscaper model.Engine spec.EngineSpec props.C05.
Local Open Scope N_scope.

(* {{define "Y"}}<a href="{{end}}{{define "X"}}{{template "Y"}}/x">l</a>{{end}}top *)
Definition d1_defs : list op :=
  [ ONew (B "main");
    OParse 0 (Parsed [ (B "X", [NTemplate 0 (B "Y") None; NText 1 (B "/x" ++ [34] ++ B ">l</a>")]);
                       (B "Y", [NText 0 (B "<a href=" ++ [34])]);
                       (B "main", [NText 0 (B "top")]) ]) ].

Lemma C05_fresh_refuted : ~ C05_fresh_full_statement.
Proof.
  intros H. specialize (H d1_defs [OExecuteTemplate 0 (B "X")] (B "Y") 4).
  destruct H as [code' H]; [vm_compute; reflexivity|].
  vm_compute in H. discriminate H.
Qed.
