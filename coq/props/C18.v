(* C18 -- Identifier constructors admit only [A-Za-z][-_A-Za-z0-9]*, keep the constant prefix.
   This file holds only the property theorems; proofs are in proofs/IdentFacts.v. *)
From V Require Import lib.Base model.Ident spec.IdentSpec proofs.IdentFacts.

Theorem C18_const : forall v r,
  identifier_from_constant v = Some r -> r = v /\ ident_spec r = true.
Proof. exact ident_const_spec. Qed.
Print Assumptions C18_const.

Theorem C18_prefix : forall p v r,
  identifier_from_constant_prefix p v = Some r ->
  r = p ++ [45] ++ v /\ ident_spec r = true /\ ident_spec p = true /\
  forallb is_ident_char v = true.
Proof. exact ident_prefix_spec. Qed.
Print Assumptions C18_prefix.

(* the converse: the constructors accept EXACTLY the identifiers of the specification - nothing the
   specification admits is refused (a panic in the code) *)
Theorem C18_const_exact : forall v,
  identifier_from_constant v = (if ident_spec v then Some v else None).
Proof. exact ident_const_exact. Qed.
Print Assumptions C18_const_exact.

Theorem C18_prefix_exact : forall p v,
  identifier_from_constant_prefix p v =
  (if ident_spec p && forallb is_ident_char v then Some (p ++ [45] ++ v) else None).
Proof. exact ident_prefix_exact. Qed.
Print Assumptions C18_prefix_exact.
