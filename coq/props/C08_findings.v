(* Recorded findings of C08 (not part of the gate): machine-checked witnesses on the faithful model.
   The trees are written as the harness serialises what text/template's parser returns. *)
From V Require Import lib.Base model.TContext model.TTree model.TEscaper model.Engine spec.TotalSpec props.C08.

(* D7: New(main); Parse of {{range .L}}{{break}}{{end}}; Execute: the node switch of
   escaper.escape has no case for break/continue and falls through to its panic call *)
Definition d7_ops : list op :=
  [ ONew (B "main");
    OParse 0 (Parsed [(B "main", [NRange 0 (mkpipe [] [[AField [B "L"]]]) [NBreak 1] []])]);
    OExecute 0 ].

Lemma C08_refuted_break : snd (run d7_ops) = [RHandle (Some 0%nat); RParseOk; RPanic PBreakContinue].
Proof. vm_compute. reflexivity. Qed.

Example d7_classified : finding_D7 d7_ops = true.
Proof. vm_compute. reflexivity. Qed.

(* D8: one Parse defines three templates (quotes written as Q):
     bad  = <a href=Q{{.U}}          c2 = <b title=Q{{template Qbad . Q}}Q>          main = ok
   ExecuteTemplate(bad) returns the analysis error (ends in a non-text context) and sets the Tree
   of bad to nil; ExecuteTemplate(c2) then analyses bad in an attribute context and dereferences
   the nil Tree (dt.Tree.Name on the nil copy) *)
Definition d8_ops : list op :=
  [ ONew (B "main");
    OParse 0 (Parsed
      [ (B "bad", [NText 0 (B "<a href=" ++ [34]); NAction 1 (mkpipe [] [[AField [B "U"]]])]);
        (B "c2", [NText 0 (B "<b title=" ++ [34]); NTemplate 1 (B "bad") (Some (mkpipe [] [[ADot]])); NText 2 ([34] ++ B ">")]);
        (B "main", [NText 0 (B "ok")]) ]);
    OExecuteTemplate 0 (B "bad");
    OExecuteTemplate 0 (B "c2") ].

Lemma C08_refuted_niltree :
  snd (run d8_ops) = [RHandle (Some 0%nat); RParseOk; RErrEscape ErrEndContext; RPanic PNilTree].
Proof. vm_compute. reflexivity. Qed.

Example d8_classified : finding_D8 d8_ops [B "bad"] (B "c2") = true /\ finding_D8 d8_ops [B "bad"] (B "main") = false.
Proof. split; vm_compute; reflexivity. Qed.

(* D40: New(main); Parse defines rec = r and main = <p>{{template Qrec Q .}}</p>; t.New(rec) replaces
   rec by a fresh template without a Tree; Clone of that handle; ExecuteTemplate(main) on the clone
   dereferences the nil Tree of rec (t.Tree.Root in escapeTemplateBody).  No call returned an error. *)
Definition d40_ops : list op :=
  [ ONew (B "main");
    OParse 0 (Parsed
      [ (B "main", [NText 0 (B "<p>"); NTemplate 1 (B "rec") (Some (mkpipe [] [[ADot]])); NText 2 (B "</p>")]);
        (B "rec", [NText 0 (B "r")]) ]);
    OSubNew 0 (B "rec");
    OClone 1;
    OExecuteTemplate 2 (B "main") ].

Lemma C08_refuted_clone_of_replaced :
  snd (run d40_ops) = [RHandle (Some 0%nat); RParseOk; RHandle (Some 2%nat); RHandle (Some 5%nat); RPanic PNilTree].
Proof. vm_compute. reflexivity. Qed.

Example d40_classified :
  finding_D40 d40_ops 4 (B "main") = true /\ finding_D8 d40_ops [] (B "main") = false /\
  finding_D40 d8_ops 3 (B "c2") = false.
Proof. repeat split; vm_compute; reflexivity. Qed.

Lemma C08_api_total_refuted : ~ C08_api_total_full_statement.
Proof.
  intros H. specialize (H d7_ops). rewrite C08_refuted_break in H.
  inversion H as [|? ? _ H1]; subst. inversion H1 as [|? ? _ H2]; subst. inversion H2 as [|? ? Hp _]; subst.
  discriminate Hp.
Qed.
