(* C15 -- StyleFromProperties emits exactly the declared CSS declarations, nothing else.
   This file holds only the property theorems; proofs are in proofs/StyleFacts.v.
   Recorded defects: D11 (',' in regular values), D25 (space after a hex escape is swallowed);
   their witnesses are in props/C15_findings.v. *)
From V Require Import lib.Base lib.Regex lib.Utf8 gen.GenRegex spec.CssSyntax model.Url model.Style spec.StyleSpec
  proofs.StyleFacts proofs.StyleExactFacts proofs.CssTokFacts proofs.StyleTokFacts.

(* the output is the concatenation, in the documented order and under the documented property
   names, of one chunk  name:value;  per non-empty field (regenerated emission list = documented list) *)
Theorem C15_structure : forall p,
  style_from_properties p = flat_map (doc_emit p) documented_fields.
Proof. exact style_structure. Qed.
Print Assumptions C15_structure.

(* empty or ends with ';'; no '<' anywhere *)
Theorem C15_ends_and_no_lt : forall p,
  let o := style_from_properties p in
  (o = [] \/ last_byte_is 59 o = true) /\ ~ In 60 o.
Proof. exact style_ends_and_no_lt. Qed.
Print Assumptions C15_ends_and_no_lt.

(* plain-value fields: verbatim and inside the documented alphabet, or the innocuous constant.
   The full statement (without the hypothesis on D11) is C15_regular_values_full_statement. *)
Theorem C15_regular_values_partial : forall p fname css v,
  field_by_name p fname = Some (PStr v) -> v <> [] ->
  (doc_emit p (fname, css, 3) = css ++ [58] ++ v ++ [59] /\
   forallb is_doc_regular_char_comma v = true /\ no_comment_marker v = true /\
   (finding_D11 v = false -> doc_regular v = true))
  \/ doc_emit p (fname, css, 3) = css ++ [58] ++ documented_innocuous ++ [59].
Proof. exact regular_value_spec. Qed.
Print Assumptions C15_regular_values_partial.

(* the full statement; it holds since the repair of D11 (fix: escape the hyphen in
   safeRegularPropertyValuePattern): the regenerated pattern lies within the documented language *)
Theorem C15_regular_values : forall p fname css v,
  field_by_name p fname = Some (PStr v) -> v <> [] ->
  (doc_emit p (fname, css, 3) = css ++ [58] ++ v ++ [59] /\ doc_regular v = true)
  \/ doc_emit p (fname, css, 3) = css ++ [58] ++ documented_innocuous ++ [59].
Proof. exact regular_value_spec_full. Qed.
Print Assumptions C15_regular_values.

Theorem C15_enum_values : forall p fname css v,
  field_by_name p fname = Some (PStr v) -> v <> [] ->
  (doc_emit p (fname, css, 2) = css ++ [58] ++ v ++ [59] /\ doc_enum v = true)
  \/ doc_emit p (fname, css, 2) = css ++ [58] ++ documented_innocuous ++ [59].
Proof. exact enum_value_spec. Qed.
Print Assumptions C15_enum_values.

(* the two list fields: comma-separated items *)
Theorem C15_list_values : forall p fname css l,
  field_by_name p fname = Some (PList l) -> l <> [] ->
  doc_emit p (fname, css, 0) = css ++ [58] ++ join_comma_space (map url_item l) ++ [59] /\
  doc_emit p (fname, css, 1) = css ++ [58] ++ join_comma_space (map font_item l) ++ [59].
Proof. exact list_value_spec. Qed.
Print Assumptions C15_list_values.

(* every background-image item is, for the CSS tokenizer, url( one terminated string token )
   whose value is the URL that URLSanitized approved (NUL -> U+FFFD; D25: a space right after an
   escaped rune is swallowed -- swallow_spaces is the identity when finding_D25 is false) *)
Theorem C15_url_item_tokens : forall u,
  css_tokens (url_item u) =
  [TFunction [117; 114; 108];
   TString (swallow_spaces (nul_to_fffd (decode_runes (url_sanitized u)))) true; TRParen].
Proof. exact url_item_tokens. Qed.
Print Assumptions C15_url_item_tokens.

(* every font-family item is the documented identifier, verbatim, or one terminated string token *)
Theorem C15_font_item_ident : forall name,
  go_match G_identifierPattern (decode_runes name) = true ->
  font_item name = name /\ doc_font_ident name = true.
Proof. exact font_item_ident. Qed.
Print Assumptions C15_font_item_ident.

Theorem C15_font_item_tokens : forall name,
  go_match G_identifierPattern (decode_runes name) = false ->
  exists inner, (inner = name \/ inner = strip_outer name) /\
  css_tokens (font_item name) = [TString (swallow_spaces (nul_to_fffd (decode_runes inner))) true].
Proof. exact font_item_tokens. Qed.
Print Assumptions C15_font_item_tokens.

(* cssEscapeString: round trip through the CSS string grammar (4.3.5, 4.3.7), exact form *)
Theorem C15_css_escape_round_trip : forall s,
  css_unescape_string (css_escape_string s) = Some (swallow_spaces (nul_to_fffd (decode_runes s))).
Proof. exact css_escape_round_trip_gen. Qed.
Print Assumptions C15_css_escape_round_trip.

Theorem C15_css_escape_round_trip_partial : forall s, finding_D25 s = false ->
  css_unescape_string (css_escape_string s) = Some (nul_to_fffd (decode_runes s)).
Proof. exact css_escape_round_trip. Qed.
Print Assumptions C15_css_escape_round_trip_partial.

Definition C15_css_escape_round_trip_full_statement : Prop := forall s,
  css_unescape_string (css_escape_string s) = Some (nul_to_fffd (decode_runes s)).

(* no raw less-than, double quote, NUL, control or newline byte in the escaped text *)
Theorem C15_css_escape_bytes : forall s,
  Forall (fun b => b <> 60 /\ b <> 34 /\ b <> 0 /\ 32 <= b) (css_escape_string s).
Proof. exact css_escape_string_bytes. Qed.
Print Assumptions C15_css_escape_bytes.

(* the central lemma (DESIGN C15 "tokens_app_semicolon"): harmless text -- over the documented
   alphabet plus ',' and without a comment opener -- followed by one of the separators , : ; is
   tokenized into harmless tokens (ident, hash, delim, number, percentage, dimension, whitespace,
   comma), then the separator's own token, then whatever the rest gives: nothing that starts in
   harmless text can absorb the separator *)
Theorem C15_tokens_app_separator : forall sep, is_sep sep = true -> forall v rest fuel,
  Forall (fun c => hch c = true /\ c <> sep) v -> no_comment_marker v = true ->
  (length (v ++ sep :: rest) < fuel)%nat ->
  exists ts fuel', tokenize_fuel fuel (v ++ sep :: rest) = ts ++ sep_token sep :: tokenize_fuel fuel' rest /\
                   forallb harmless_token ts = true /\ (length rest < fuel')%nat.
Proof. exact tokens_app_separator. Qed.
Print Assumptions C15_tokens_app_separator.

(* THE PROPERTY AT THE LEVEL OF THE CSS PARSER, for every StyleProperties value: CSS Syntax Level 3
   "parse a list of declarations" on the tokens of the Style gives exactly one declaration per
   emitted (= non-empty) field, bearing the documented property name, in the documented order, and
   nothing else (no at-rule, no skipped junk); every block or function inside a value is closed;
   no bad-string, bad-url, unterminated string/url or comment token occurs.  Holds with D11 and D25
   present: neither can add, drop or merge declarations. *)
Theorem C15_declarations : forall p,
  let toks := css_tokens (style_from_properties p) in
  let ds := parse_declaration_list toks in
  map decl_name ds = map (fun n => Some n) (emitted_names p) /\
  forallb is_decl ds = true /\
  forallb decl_closed ds = true /\
  existsb is_bad_token toks = false.
Proof. exact style_declarations. Qed.
Print Assumptions C15_declarations.

(* The remaining, value-level part of the specification predicate of spec/StyleSpec.v (the value of
   every declaration, compared token by token with the field's input) is proved above per item
   (C15_regular_values_partial, C15_enum_values, C15_url_item_tokens, C15_font_item_ident, C15_font_item_tokens) but not for
   the assembled declaration list; the assembled statement is covered by the oracle search: the
   extracted predicate is evaluated on the implementation's real outputs (every failure must be one
   accepted by a recorded-finding classifier), and the model is tied to the implementation by
   correspondence on the same cases. *)
Definition C15_declarations_full_statement : Prop := forall p,
  Forall (fun f => snd f <> 0) (style_spec_failures p (style_from_properties p)).
