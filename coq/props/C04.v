(* C04 -- sanitization policy is default-deny and never weaker than the reviewed policy.
   Only the property theorems; proofs are in proofs/PolicyFacts.v.  The reviewed policy is
   coq/reviewed/ReviewedPolicy.v (frozen); the engine's tables are regenerated on every run. *)
From V Require Import lib.Base gen.GenPolicy reviewed.ReviewedPolicy model.HtmlUnescape model.TContext model.TSanitize
     model.TSanitizers spec.PolicySpec proofs.PolicyFacts.

(* for ALL element names, attribute names and link rel values *)
Theorem C04_default_deny_attr : forall e a rel,
  reviewed_attr e a rel = None -> sc_for_attr_val e a rel = None.
Proof. exact policy_default_deny_attr. Qed.
Print Assumptions C04_default_deny_attr.

Theorem C04_default_deny_content : forall e,
  reviewed_content e = None -> sc_for_element_content e = None.
Proof. exact policy_default_deny_content. Qed.
Print Assumptions C04_default_deny_content.

Theorem C04_not_weaker_attr : forall e a rel sc,
  sc_for_attr_val e a rel = Some sc ->
  exists n', reviewed_attr e a rel = Some n' /\ trust_le n' (sc_name sc) = true.
Proof. exact policy_not_weaker_attr. Qed.
Print Assumptions C04_not_weaker_attr.

Theorem C04_not_weaker_content : forall e sc,
  sc_for_element_content e = Some sc ->
  exists n', reviewed_content e = Some n' /\ trust_le n' (sc_name sc) = true.
Proof. exact policy_not_weaker_content. Qed.
Print Assumptions C04_not_weaker_content.

(* an action in a tag, in an attribute name, or in an attribute value that is not quoted, is refused *)
Theorem C04_positions : forall c,
  (match c_state c with StTag | StAttrName | StAfterName => True | _ => False end) \/
  ((c_attr c <> [] \/ c_attr_names c <> []) /\
   match c_state c with StTag | StAttrName | StAfterName | StHTMLCmt => False | _ => True end /\
   ~ (c_elem_names c = [] /\ c_elem c = [] /\ c_state c = StText) /\
   match c_delim c with DDoubleQuote | DSingleQuote => False | _ => True end) ->
  sanitizer_for_context c = None.
Proof. exact policy_positions. Qed.
Print Assumptions C04_positions.

(* enumerated contexts: every action emits one of the reviewed words *)
Theorem C04_enum_words : forall f v o, enum_sanitizer f v = Some o ->
  exists rw, lookup_bytes f R_enumValues = Some rw /\ In o rw.
Proof. exact enum_words_reviewed. Qed.
Print Assumptions C04_enum_words.

(* typed-only sanitizers refuse plain strings and values of every other safe type *)
Theorem C04_typed_only_strings : forall k s, typed_only k (VStr s) = None.
Proof. exact typed_only_rejects_strings. Qed.
Print Assumptions C04_typed_only_strings.

Theorem C04_typed_only_kinds : forall k k' s n,
  kind_eqb k k' = false -> typed_only k (Nat.iter n VPtr (VSafe k' s)) = None.
Proof. exact typed_only_rejects_other_kinds. Qed.
Print Assumptions C04_typed_only_kinds.

(* shape of every sanitizer chain for an attribute value: static partial values are refused in
   enumerated contexts; URL contexts always run the URL sanitizer + normalizer (empty prefix) or a
   validated prefix + escaper/normalizer; the HTML escaper always comes last *)
Theorem C04_attr_chain : forall c chain,
  sanitizers_for_attr_value c = Some chain ->
  exists sc0, all_same_sc (attr_pairs c) (c_link_rel c) None = Some sc0 /\
    (sc_is_enum sc0 = true -> c_attr_value c = []) /\
    (sc_is_url sc0 = false -> chain = nonempty_names [sc_sanitizer_name sc0] ++ [N_sanitizeHTML]) /\
    (sc_is_url sc0 = true -> c_attr_value c = [] ->
       chain = nonempty_names [sc_sanitizer_name sc0; N_normalizeURL] ++ [N_sanitizeHTML]) /\
    (sc_is_url sc0 = true -> c_attr_value c <> [] ->
       c_attr_amb c = false /\
       (chain = [N_validateTRUSubst; N_queryEscapeURL; N_sanitizeHTML] \/
        chain = [N_queryEscapeURL; N_sanitizeHTML] \/ chain = [N_normalizeURL; N_sanitizeHTML])) /\
    exists pre, chain = pre ++ [N_sanitizeHTML].
Proof. exact attr_chain_shape. Qed.
Print Assumptions C04_attr_chain.
