(* Recorded findings of C01 (not part of the gate): machine-checked witnesses at the model + specification
   level.  D1, D42 (an action inside a DOCTYPE) and D43 are violations of C01.  D13, D41 and D44 are
   misalignments between the engine's context and the tokenizer's state on the AUTHOR'S static markup;
   they were first reported under C01 by an oracle that demanded a final data state and data in
   data/RCDATA text only -- more than the property states -- and are kept here as witnesses of the
   misalignment only: the C01 oracle does not flag them (D13 and D44 are violations of C02).  In each, the engine model (escape_text from the start context) ends in the text context -- so the
   engine accepts the template and treats what follows as ordinary text -- while the WHATWG tokenizer
   specification, run over the same bytes, is somewhere else. *)
From V Require Import lib.Base model.TContext model.TSanitize model.TSanitizers model.TTree model.TEscapeText
     model.TEscaper spec.HtmlTok spec.StructureSpec props.C01.
Local Open Scope N_scope.

Definition end_state (s : bytes) : option state :=
  match escape_text false ctx0 s with EOk c _ _ => Some (c_state c) | EPanic => None end.
Definition written (s : bytes) : option bytes :=
  match escape_text false ctx0 s with EOk _ edited out => Some (if edited then out else s) | EPanic => None end.
Definition tok_final (s : bytes) : hstate := r_final (html_tokenize SData s).

(* D13: the comment opener inside a script element body.  After
     <script>var x = [dq]<!--<script>[dq];</script>
   the engine is in the text context (an action here gets the HTML escaper), the text is written
   unchanged, and the tokenizer is in the script data escaped state (it was in the double escaped
   state when it met the end tag, which therefore only ended the double escape): the script element
   is still open, what follows is script source. *)
Definition d13_text : bytes := B "<script>var x = " ++ [34] ++ B "<!--<script>" ++ [34] ++ B ";</script>".

Lemma C01_D13_witness :
  end_state d13_text = Some StText /\ written d13_text = Some d13_text /\
  tok_final d13_text = SScriptDataEscaped /\
  tok_final (B "<script>var x = " ++ [34] ++ B "<!--<script>") = SScriptDataDoubleEscaped /\
  finding_D13 d13_text = true /\
  (* the rest of the author's markup is consumed as script data, and the fragment does not end in data *)
  ends_in_data (d13_text ++ B "zq<b>") = false /\
  (* script data is the content of a text node: NOT a C01 violation (the structure found with the
     placeholder and with hostile data is the same); that data reaches a script body is property C02 *)
  placement_ok (d13_text ++ B "zq<b>") [(length d13_text, 2%nat)] = true.
Proof. vm_compute. repeat split; reflexivity. Qed.

(* D41: raw-text elements the engine does not model *)
Lemma C01_D41_witness :
  end_state (B "<b>k</b><xmp>") = Some StText /\ tok_final (B "<b>k</b><xmp>") = SRawtext (B "xmp") /\
  end_state (B "<p>k</p><plaintext>") = Some StText /\ tok_final (B "<p>k</p><plaintext>") = SPlaintext /\
  end_state (B "<iframe><b>") = Some StText /\ tok_final (B "<iframe><b>") = SRawtext (B "iframe") /\
  finding_D41 (B "<b>k</b><XMP>") = true /\ finding_D41 (B "<b>k</b><b>") = false.
Proof. vm_compute. repeat split; reflexivity. Qed.

(* D42: DOCTYPE declarations are passed through as text *)
Lemma C01_D42_witness :
  end_state (B "<!DOCTYPE ") = Some StText /\ written (B "<!DOCTYPE ") = Some (B "<!DOCTYPE ") /\
  tok_final (B "<!DOCTYPE ") = SDoctype /\
  same_structure (B "<!DOCTYPE zq>") (B "<!DOCTYPE a b>") = false /\
  same_structure_mod_doctype (B "<!DOCTYPE zq>") (B "<!DOCTYPE a b>") = true /\
  finding_D42 (B "<!doctype ") = true.
Proof. vm_compute. repeat split; reflexivity. Qed.

(* D1 at the output level: what the real engine writes for the witness template (findings/C01.json) with
   the placeholder and with a hostile value; the skeletons differ in an attribute NAME *)
Lemma C01_D1_outputs :
  skel (B "<b >k</b><b zq>z</b>")
  = ([KStart (B "b") [] false; KEnd (B "b"); KStart (B "b") [B "zq"] false; KEnd (B "b")], SData) /\
  skel (B "<b >k</b><b onmouseover=alert(1)>z</b>")
  = ([KStart (B "b") [] false; KEnd (B "b"); KStart (B "b") [B "onmouseover"] false; KEnd (B "b")], SData) /\
  c01_pair_verdict (B "<b >k</b><b zq>z</b>") (B "<b >k</b><b onmouseover=alert(1)>z</b>")
  = Some (B "structure_changed_by_data").
Proof. vm_compute. repeat split; reflexivity. Qed.

(* ------------------------------------------------------------------ D1 refutes the whole-template statement
   The template set of findings/C01.json, as parsed by text/template (node ids as the harness numbers
   them):   define open = <b      define X = template open, >k</b>, template open, action .A, >z</b>
   main = template X.   The model analysis accepts it (the second call of open takes the memoised INPUT
   context, text), the only control path has the segments below, and the two control-equivalent
   executions with the values zq and onmouseover=alert(1) differ in an attribute name. *)
Definition dot_pipe : pipe := mkpipe [] [[ADot]].
Definition field_A : pipe := mkpipe [] [[AField [B "A"]]].
Definition d1_open : tree := [NText 0 (B "<b ")].
Definition d1_X : tree :=
  [NTemplate 0 (B "open") None; NText 1 (B ">k</b>"); NTemplate 2 (B "open") None; NAction 3 field_A; NText 4 (B ">z</b>")].
Definition d1_main : tree := [NTemplate 0 (B "X") (Some dot_pipe)].
Definition d1_trees : list (bytes * tree) := [ (B "X", d1_X); (B "main", d1_main); (B "open", d1_open) ].
Definition d1_esc : escaper :=
  match escape_tree (ns_of_trees d1_trees) 400 ctx0 (B "main") esc_empty with
  | AOk (_, _, e) => e
  | APanic _ => esc_empty
  end.
Definition d1_segs : list seg :=
  [SegStatic (B "<b "); SegStatic (B ">k</b>"); SegStatic (B "<b "); SegAct [N_sanitizeHTML]; SegStatic (B ">z</b>")].

Lemma d1_accepted : accepted d1_trees (B "main") d1_esc.
Proof. exists ctx0, (B "main"). split; [vm_compute; reflexivity | split; reflexivity]. Qed.

Lemma d1_path : path_list (ns_of_trees d1_trees) d1_esc (B "main") d1_main d1_segs.
Proof.
  set (ns := ns_of_trees d1_trees).
  assert (Hopen : forall tn id, ekey_lookup (tn, id) (e_template_edits d1_esc) = None).
  { intros. vm_compute. reflexivity. }
  assert (Popen : forall tn id p, path_node ns d1_esc tn (NTemplate id (B "open") p) [SegStatic (B "<b ")]).
  { intros tn id p. eapply (CPTemplate ns d1_esc tn id (B "open") p d1_open).
    - cbv zeta. rewrite Hopen. vm_compute. reflexivity.
    - cbv zeta. rewrite Hopen. unfold d1_open.
      apply (CPCons ns d1_esc (B "open") (NText 0 (B "<b ")) [] [SegStatic (B "<b ")] []); [|constructor].
      pose proof (CPText ns d1_esc (B "open") 0%nat (B "<b ")) as P.
      replace (ekey_lookup (B "open", 0%nat) (e_text_edits d1_esc)) with (@None bytes) in P by (vm_compute; reflexivity).
      exact P. }
  unfold d1_main, d1_segs.
  apply (CPCons ns d1_esc (B "main") _ [] d1_segs []); [|constructor].
  eapply (CPTemplate ns d1_esc (B "main") 0%nat (B "X") (Some dot_pipe) d1_X).
  - cbv zeta. rewrite Hopen. vm_compute. reflexivity.
  - cbv zeta. rewrite Hopen. unfold d1_X, d1_segs.
    apply (CPCons ns d1_esc (B "X") _ _ [SegStatic (B "<b ")] _ (Popen _ _ _)).
    apply (CPCons ns d1_esc (B "X") _ _ [SegStatic (B ">k</b>")]).
    { pose proof (CPText ns d1_esc (B "X") 1%nat (B ">k</b>")) as P.
      replace (ekey_lookup (B "X", 1%nat) (e_text_edits d1_esc)) with (@None bytes) in P by (vm_compute; reflexivity).
      exact P. }
    apply (CPCons ns d1_esc (B "X") _ _ [SegStatic (B "<b ")] _ (Popen _ _ _)).
    apply (CPCons ns d1_esc (B "X") _ _ [SegAct [N_sanitizeHTML]]).
    { apply CPAction; [reflexivity | vm_compute; reflexivity]. }
    apply (CPCons ns d1_esc (B "X") _ _ [SegStatic (B ">z</b>")] []); [|constructor].
    pose proof (CPText ns d1_esc (B "X") 4%nat (B ">z</b>")) as P.
    replace (ekey_lookup (B "X", 4%nat) (e_text_edits d1_esc)) with (@None bytes) in P by (vm_compute; reflexivity).
    exact P.
Qed.

Lemma C01_structure_refuted : ~ C01_structure_full_statement.
Proof.
  intros H.
  specialize (H d1_trees (B "main") d1_esc d1_main d1_segs
                [VStr (B "zq")] [VStr (B "onmouseover=alert(1)")]
                (B "<b >k</b><b zq>z</b>") (B "<b >k</b><b onmouseover=alert(1)>z</b>")
                d1_accepted).
  destruct H as (Hs & _).
  - vm_compute. reflexivity.
  - exact d1_path.
  - constructor; [left; split; reflexivity | constructor].
  - vm_compute. reflexivity.
  - vm_compute. reflexivity.
  - assert (E : same_structure (B "<b >k</b><b zq>z</b>") (B "<b >k</b><b onmouseover=alert(1)>z</b>") = false)
      by (vm_compute; reflexivity).
    vm_compute in Hs. discriminate Hs.
Qed.
Print Assumptions C01_structure_refuted.

(* ------------------------------------------------------------------ D43: a tag name continued by what follows the text node
   After the text node <td the engine is in the tag context of element td; the text title=[dq] of the
   branch that follows is an attribute name and the action is accepted in its quoted value.  The bytes
   written are <tdtitle=[dq]...: for the tokenizer the value is inside the TAG NAME, and a space in
   the value starts an attribute. *)
Definition d43_after_name : option (state * bytes) :=
  match escape_text false ctx0 (B "<td") with EOk c _ _ => Some (c_state c, c_elem c) | EPanic => None end.
Definition d43_in_value : option (state * delim * bytes * bytes) :=
  match escape_text false ctx0 (B "<td") with
  | EOk c _ _ =>
      match escape_text false c (B "title=" ++ [34]) with
      | EOk c1 _ _ => Some (c_state c1, c_delim c1, c_elem c1, c_attr c1)
      | EPanic => None
      end
  | EPanic => None
  end.

Lemma C01_D43_witness :
  d43_after_name = Some (StTag, B "td") /\
  d43_in_value = Some (StAttr, DDoubleQuote, B "td", B "title") /\
  ends_in_tag_name (B "<td") = true /\
  skel (B "<tdtitle=" ++ [34] ++ B "zq" ++ [34] ++ B ">k</td>")
  = ([KStart (B "tdtitle=" ++ [34] ++ B "zq" ++ [34]) [] false; KEnd (B "td")], SData) /\
  skel (B "<tdtitle=" ++ [34] ++ B "x onmouseover=alert(1)" ++ [34] ++ B ">k</td>")
  = ([KStart (B "tdtitle=" ++ [34] ++ B "x") [B "onmouseover"] false; KEnd (B "td")], SData) /\
  placement_ok (B "<tdtitle=" ++ [34] ++ B "zq" ++ [34] ++ B ">k</td>") [(10, 2)]%nat = false.
Proof. vm_compute. repeat split; reflexivity. Qed.

(* ------------------------------------------------------------------ D44: the special end tag inside the start tag
   <script x=[dq]y[dq]</script> : the engine is back in the text context (it took the end tag opener for
   the end of the script element), the tokenizer has just finished the START tag of a script element
   with the attributes x, less-than sign, script and is in the script data state: an action that follows
   writes script source. *)
Definition d44_text : bytes := B "<script x=" ++ [34] ++ B "y" ++ [34] ++ B "</script>".

(* REPAIRED (fix: look for the end tag of a special element only in the element's body, not inside its
   start tag): the engine now refuses the text (first conjunct: it ends in the error state); the
   tokenizer facts are unchanged *)
Lemma C01_D44_witness :
  end_state d44_text = Some StError /\
  r_tokens (html_tokenize SData d44_text)
  = [StartTag (B "script") [(B "x", B "y"); (B "<", []); (B "script", [])] false] /\
  tok_final d44_text = SScriptData /\
  finding_D44 d44_text = true /\
  finding_D44 (B "<script x=" ++ [34] ++ B "y" ++ [34] ++ B "></script>") = false /\
  (* as for D13: the data is script source (property C02), the markup structure is what the author wrote *)
  placement_ok (d44_text ++ B "alert(1)//") [(length d44_text, 10%nat)] = true /\
  same_structure (d44_text ++ B "zq") (d44_text ++ B "alert(1)//") = true.
Proof. vm_compute. repeat split; reflexivity. Qed.

(* ------------------------------------------------------------------ D45: a special element's name that runs on for the tokenizer
   <style[NBSP]> : the engine is in the body of the special element style, the tokenizer has emitted
   the start tag of an element whose name is style followed by the two bytes of U+00A0 and is in the
   data state, where the comment opener starts a comment. *)
Definition d45_text : bytes := B "<style" ++ [194; 160] ++ B ">".

Lemma C01_D45_witness :
  (match escape_text false ctx0 d45_text with EOk c _ _ => Some (c_state c, c_elem c) | EPanic => None end)
  = Some (StSpecialElementBody, B "style") /\
  r_tokens (html_tokenize SData d45_text) = [StartTag (B "style" ++ [194; 160]) [] false] /\
  tok_final d45_text = SData /\
  no_comments (d45_text ++ B "<!--x--></style>") = false /\
  finding_D45 d45_text = true /\ finding_D45 (B "<style >") = false /\ finding_D45 (B "<style-x>") = false.
Proof. vm_compute. repeat split; reflexivity. Qed.
