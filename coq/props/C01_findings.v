(* Recorded findings of C01 (not part of the gate): machine-checked witnesses at the model + specification
   level.  In each, the engine model (escape_text from the start context) ends in the text context -- so the
   engine accepts the template and treats what follows as ordinary text -- while the WHATWG tokenizer
   specification, run over the same bytes, is somewhere else. *)
From V Require Import lib.Base model.TContext model.TEscapeText spec.HtmlTok spec.StructureSpec.
Local Open Scope N_scope.

Definition end_state (s : bytes) : option state :=
  match escape_text false ctx0 s with EOk c _ _ => Some (c_state c) | EPanic => None end.
Definition written (s : bytes) : option bytes :=
  match escape_text false ctx0 s with EOk _ edited out => Some (if edited then out else s) | EPanic => None end.
Definition tok_final (s : bytes) : hstate := r_final (html_tokenize SData s).

(* D13: the comment opener inside a script element body.  After
     <script>var x = [dq]<!--<script>[dq];</script>
   the engine is in the text context (an action here gets the HTML escaper), the text is written
   unchanged, and the tokenizer is in the script data escaped state (it was in the double escaped
   state when it met the end tag, which therefore only ended the double escape): the script element
   is still open, what follows is script source. *)
Definition d13_text : bytes := B "<script>var x = " ++ [34] ++ B "<!--<script>" ++ [34] ++ B ";</script>".

Lemma C01_D13_witness :
  end_state d13_text = Some StText /\ written d13_text = Some d13_text /\
  tok_final d13_text = SScriptDataEscaped /\
  tok_final (B "<script>var x = " ++ [34] ++ B "<!--<script>") = SScriptDataDoubleEscaped /\
  finding_D13 d13_text = true /\
  (* the rest of the author's markup is consumed as script data, and the fragment does not end in data *)
  ends_in_data (d13_text ++ B "zq<b>") = false /\
  placement_ok (d13_text ++ B "zq<b>") [(length d13_text, 2%nat)] = false.
Proof. vm_compute. repeat split; reflexivity. Qed.

(* D41: raw-text elements the engine does not model *)
Lemma C01_D41_witness :
  end_state (B "<b>k</b><xmp>") = Some StText /\ tok_final (B "<b>k</b><xmp>") = SRawtext (B "xmp") /\
  end_state (B "<p>k</p><plaintext>") = Some StText /\ tok_final (B "<p>k</p><plaintext>") = SPlaintext /\
  end_state (B "<iframe><b>") = Some StText /\ tok_final (B "<iframe><b>") = SRawtext (B "iframe") /\
  finding_D41 (B "<b>k</b><XMP>") = true /\ finding_D41 (B "<b>k</b><b>") = false.
Proof. vm_compute. repeat split; reflexivity. Qed.

(* D42: DOCTYPE declarations are passed through as text *)
Lemma C01_D42_witness :
  end_state (B "<!DOCTYPE ") = Some StText /\ written (B "<!DOCTYPE ") = Some (B "<!DOCTYPE ") /\
  tok_final (B "<!DOCTYPE ") = SDoctype /\
  same_structure (B "<!DOCTYPE zq>") (B "<!DOCTYPE a b>") = false /\
  same_structure_mod_doctype (B "<!DOCTYPE zq>") (B "<!DOCTYPE a b>") = true /\
  finding_D42 (B "<!doctype ") = true.
Proof. vm_compute. repeat split; reflexivity. Qed.

(* D1 at the output level: what the real engine writes for the witness template (findings/C01.json) with
   the placeholder and with a hostile value; the skeletons differ in an attribute NAME *)
Lemma C01_D1_outputs :
  skel (B "<b >k</b><b zq>z</b>")
  = ([KStart (B "b") [] false; KEnd (B "b"); KStart (B "b") [B "zq"] false; KEnd (B "b")], SData) /\
  skel (B "<b >k</b><b onmouseover=alert(1)>z</b>")
  = ([KStart (B "b") [] false; KEnd (B "b"); KStart (B "b") [B "onmouseover"] false; KEnd (B "b")], SData) /\
  c01_pair_verdict (B "<b >k</b><b zq>z</b>") (B "<b >k</b><b onmouseover=alert(1)>z</b>")
  = Some (B "structure_changed_by_data").
Proof. vm_compute. repeat split; reflexivity. Qed.
