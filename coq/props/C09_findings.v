(* C09 findings: the full data-race-freedom statement (all eight methods) is false of the faithful model.
   D9: DefinedTemplates reads the Tree field of every associated text template under text/template's
   muTmpl only, while the failure path of escapeTemplate writes it under ns.mu. *)
From V Require Import lib.Base gen.GenLocks model.Conc spec.ConcSpec proofs.ConcFacts props.C09.
From Coq Require Import Arith.
Local Open Scope nat_scope.

Definition d9_exec : op := [Acq NsMu; Wr LTextTree; Rel NsMu].      (* a failing first execution *)
Definition d9_defined : op := [Acq MuTmpl; Rd LTextTree; Rel MuTmpl]. (* DefinedTemplates *)
Definition d9_threads : list thread := [[d9_exec]; [d9_defined]].
Definition d9_sched : list nat := [0; 0; 0; 1; 1; 1].
Definition d9_trace : list (nat * action) :=
  [(0, Acq NsMu); (0, Wr LTextTree); (0, Rel NsMu); (1, Acq MuTmpl); (1, Rd LTextTree); (1, Rel MuTmpl)].

Lemma d9_trace_eq : trace_of d9_threads d9_sched = Some d9_trace.
Proof. vm_compute. reflexivity. Qed.

Lemma d9_conforms : forall th, In th d9_threads -> forall o, In o th ->
  exists n, In n api_methods /\ conforms (method_entries n) o.
Proof.
  intros th [<- | [<- | []]] o [<- | []].
  - exists (B "Template.Execute"). split; [simpl; tauto|]. apply conforms_b_conforms. vm_compute. reflexivity.
  - exists (B "Template.DefinedTemplates"). split; [simpl; tauto|]. apply conforms_b_conforms. vm_compute. reflexivity.
Qed.

Lemma d9_mutex_ok : mutex_ok d9_trace.
Proof.
  intros i e H.
  do 6 (destruct i as [|i]; [inversion H; subst; vm_compute; first [reflexivity | exact I]|]).
  destruct i; discriminate.
Qed.

Lemma d9_publication : publication_order c09_policy d9_trace.
Proof.
  intros i j a t t' l m P Hi Hj Hne Hout Haj Ha Hlast.
  pose proof (c09_published_is_ns _ _ P) as ->.
  exfalso.
  do 6 (destruct a as [|a]; [simpl in Ha; inversion Ha; subst;
        do 6 (destruct j as [|j]; [simpl in Hj; inversion Hj|]); destruct j; discriminate|]).
  destruct a; discriminate.
Qed.

Lemma d9_hb_same_thread : forall i j, hb d9_trace i j ->
  exists t x y, nth_error d9_trace i = Some (t, x) /\ nth_error d9_trace j = Some (t, y).
Proof.
  intros i j H. induction H as [i j t a b Hij Hi Hj | i j t t' m Hij Hi Hj | i j k H1 IH1 H2 IH2].
  - exists t, a, b. split; assumption.
  - exfalso.
    do 6 (destruct i as [|i]; [simpl in Hi; inversion Hi; subst;
          do 6 (destruct j as [|j]; [simpl in Hj; try discriminate; try (inversion Hj; lia)|]); destruct j; discriminate|]).
    destruct i; discriminate.
  - destruct IH1 as [t [x [y [A1 A2]]]]. destruct IH2 as [t' [y' [z [B1 B2]]]].
    rewrite A2 in B1. inversion B1; subst. exists t', x, z. split; assumption.
Qed.

Lemma d9_race : race d9_trace.
Proof.
  exists 1, 4, 0, (Wr LTextTree), 1, (Rd LTextTree), LTextTree.
  split; [lia|]. split; [reflexivity|]. split; [reflexivity|]. split; [discriminate|].
  split; [right; reflexivity|]. split; [left; reflexivity|]. split; [left; exists LTextTree; reflexivity|].
  intros H. apply d9_hb_same_thread in H as [t [x [y [A B]]]]. simpl in A, B. congruence.
Qed.

Lemma C09_drf_refuted : ~ C09_drf_full_statement.
Proof.
  intros H. apply (H d9_threads d9_sched d9_trace d9_conforms).
  - exists d9_trace. split; [exact d9_trace_eq | exact d9_mutex_ok].
  - exact d9_trace_eq.
  - exact d9_publication.
  - exact d9_race.
Qed.
Print Assumptions C09_drf_refuted.
