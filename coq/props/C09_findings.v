(* C09 findings.  D9 (DefinedTemplates read the Tree field of every associated text template under
   text/template's muTmpl only, while the failure path of escapeTemplate wrote it under ns.mu) was
   repaired by a fix: commit; its refutation witness was removed with it: the full statement is now
   the theorem C09_drf_all_methods of props/C09.v. *)
