(* C01 -- template markup structure is never altered by untrusted data.
   Only the property theorems; proofs are in proofs/StructureFacts.v (with proofs/HtmlTokFacts.v,
   SanitizerFacts.v, PolicyFacts.v, HtmlFacts.v).

   The property, whole-template form (DESIGN.md section 4, C01).  For every template set S the engine
   accepts, every member T and every two control-equivalent data environments rho, rho' (same
   truthiness of every tested value, same length of every ranged list, identical safe-typed leaves;
   they differ only in the contents of leaves that do not carry a safehtml type) whose executions
   succeed with outputs o, o':
       skel o = skel o'   (tags, attribute names, comments, DOCTYPE tokens and the final tokenizer state
                           of the WHATWG tokenizer specification spec/HtmlTok.v),
       no_comment_tokens o = true,   r_final (html_tokenize SData o) = SData,
   and every output byte that originates from an untrusted leaf is consumed by the tokenizer in
   position class PText, PRcdata _ or PAttrValue _ _ (Qdq | Qsq).
   This statement is NOT proved, and is false of the unchanged code (findings D1, D13, D41, D42, D43, D44, see
   props/C01_findings.v and findings/C01.json): it needs a simulation between the escaper's context
   and the tokenizer's state over STATIC template text, which the escaper knowingly does not have
   (tag names stop at an underscore, CR is not a tag-end separator, raw-text elements other than
   script and style are treated as ordinary elements, the comment opener inside a script element is
   not tracked, DOCTYPE declarations are passed through as text, a tag name is taken to end where its
   text node ends, the end tag of a special element is also recognised inside its start tag, a template's output context is memoised wrongly when it is called twice).  It is DECIDED on the real engine's outputs by the oracle
   same_structure / no_comments / ends_in_data / placement_ok of spec/StructureSpec.v, whose meaning
   is fixed by C01_oracle_meaning below, on every generated (template, environment pair).

   What is proved, for ALL contexts, ALL sanitizer chains the engine can build and ALL byte strings
   (layer 1 of the DESIGN): whatever an action writes for a value that does not carry a safehtml type
   contains no quote and no angle bracket (C01_action_inert, C01_action_inert_untrusted), and
   therefore the tokenizer, wherever it reads text, RCDATA or a quoted attribute value, consumes it
   without changing state and without emitting a token (C01_action_preserves_tokenizer,
   C01_action_between_static): such a value can never open or close a tag, an attribute, a comment,
   an RCDATA / raw-text element or the fragment. *)
From V Require Import lib.Base model.TContext model.TSanitize model.TSanitizers model.TTree model.TEscapeText model.TEscaper
     spec.HtmlSpec spec.HtmlTok spec.StructureSpec proofs.HtmlTokFacts proofs.StructureFacts.
Local Open Scope N_scope.

(* (a) every context the engine accepts an action in, every chain, every Go string (any bytes:
   invalid UTF-8, NUL, quotes, angle brackets, white space, partial entities): the bytes written
   contain no double quote, no single quote and no angle bracket *)
Theorem C01_action_inert : forall c chain (s : bytes) o,
  sanitizer_for_context c = Some chain -> apply_chain chain (VStr s) = Some o ->
  no_quote_or_angle o = true.
Proof. exact action_inert. Qed.
Print Assumptions C01_action_inert.

(* the same for every value that does not carry a safehtml type, through any pointer depth:
   Stringers, errors, numbers (VOther), nil, pointers to them *)
Theorem C01_action_inert_untrusted : forall c chain v o,
  untrusted v = true ->
  sanitizer_for_context c = Some chain -> apply_chain chain v = Some o ->
  no_quote_or_angle o = true.
Proof. exact action_inert_untrusted. Qed.
Print Assumptions C01_action_inert_untrusted.

(* (b) with the tokenizer specification: from the data state, an RCDATA state, or a quoted attribute
   value state, running over such an output keeps the state, emits no token, leaves the tag under
   construction unchanged but for the current attribute value, and classifies every byte as text /
   RCDATA text / attribute value *)
Theorem C01_action_preserves_tokenizer : forall c chain v o,
  untrusted v = true ->
  sanitizer_for_context c = Some chain -> apply_chain chain v = Some o ->
  (forall t, t_state t = SData ->
     let t' := tok_run t o in
     t_state t' = SData /\ t_toks t' = t_toks t /\ t_tag t' = t_tag t /\
     t_text t' = rev (norm_nl (t_cr t) o) ++ t_text t /\
     t_classes t' = rev (map (fun _ => PText) o) ++ t_classes t) /\
  (forall n t, t_state t = SRcdata n ->
     let t' := tok_run t o in
     t_state t' = SRcdata n /\ t_toks t' = t_toks t /\ t_tag t' = t_tag t /\
     t_text t' = rev (norm_nul (norm_nl (t_cr t) o)) ++ t_text t /\
     t_classes t' = rev (map (fun _ => PRcdata n) o) ++ t_classes t) /\
  (forall t, t_state t = SAttrValueDQ ->
     let t' := tok_run t o in
     t_state t' = SAttrValueDQ /\ t_toks t' = t_toks t /\ t_text t' = t_text t /\
     t_tag t' = with_aval (t_tag t) (rev (norm_nul (norm_nl (t_cr t) o)) ++ g_aval (t_tag t)) /\
     t_classes t' = rev (map (fun _ => aval_class (t_tag t) Qdq) o) ++ t_classes t) /\
  (forall t, t_state t = SAttrValueSQ ->
     let t' := tok_run t o in
     t_state t' = SAttrValueSQ /\ t_toks t' = t_toks t /\ t_text t' = t_text t /\
     t_tag t' = with_aval (t_tag t) (rev (norm_nul (norm_nl (t_cr t) o)) ++ g_aval (t_tag t)) /\
     t_classes t' = rev (map (fun _ => aval_class (t_tag t) Qsq) o) ++ t_classes t).
Proof. exact action_preserves_tokenizer. Qed.
Print Assumptions C01_action_preserves_tokenizer.

(* one action between two pieces of static text: the tokens emitted before the action and the state
   in which the following static text is read do not depend on the value *)
Theorem C01_action_between_static : forall c chain v o (st1 st2 : bytes) init,
  untrusted v = true ->
  sanitizer_for_context c = Some chain -> apply_chain chain v = Some o ->
  let t1 := tok_run (tok_init init) st1 in
  (t_state t1 = SData \/ (exists n, t_state t1 = SRcdata n) \/ t_state t1 = SAttrValueDQ \/ t_state t1 = SAttrValueSQ) ->
  let t2 := tok_run t1 o in
  tok_run (tok_init init) (st1 ++ o ++ st2) = tok_run t2 st2 /\
  t_state t2 = t_state t1 /\ t_toks t2 = t_toks t1.
Proof. exact action_between_static. Qed.
Print Assumptions C01_action_between_static.

(* a first step of the static-text simulation (layer 2), for all element and attribute names of the
   regenerated policy tables and both quote characters: after the static text  <E A=q  the engine is in
   the attribute value context (E, A, that delimiter) and the tokenizer specification is in the matching
   quoted attribute value state of a start tag E with current attribute A *)
Theorem C01_alignment_open_attribute : forall q e a,
  q = 34 \/ q = 39 -> In e policy_elems -> In a policy_attrs ->
  (exists c edited out,
     escape_text false ctx0 (open_attr_text q e a) = EOk c edited out /\
     c_state c = StAttr /\ c_delim c = (if q =? 34 then DDoubleQuote else DSingleQuote) /\
     c_elem c = e /\ c_attr c = a) /\
  (let t := tok_run (tok_init SData) (open_attr_text q e a) in
   t_state t = (if q =? 34 then SAttrValueDQ else SAttrValueSQ) /\
   g_is_end (t_tag t) = false /\ g_name (t_tag t) = e /\ g_aname (t_tag t) = a).
Proof. exact align_open_attr_policy. Qed.
Print Assumptions C01_alignment_open_attribute.

(* The whole-template statement (see the header; spec/StructureSpec.v, section "the whole-template
   statement" for accepted, path_list, run_path, ctl_equiv).  It is NOT a theorem: it is refuted for
   the faithful model in props/C01_findings.v (C01_structure_refuted) and decided on the real engine's
   outputs by the oracle. *)
Definition C01_structure_full_statement : Prop :=
  forall (trees : list (bytes * tree)) (name : bytes) (e : escaper) (root : tree) (segs : list seg)
         (vs vs' : list value) (o o' : bytes),
    accepted trees name e ->
    find_template (ns_of_trees trees) e name = Some (Some root) ->
    path_list (ns_of_trees trees) e name root segs ->
    ctl_equiv vs vs' ->
    run_path segs vs = Some o -> run_path segs vs' = Some o' ->
    skel o = skel o' /\ no_comment_tokens o = true /\ r_final (html_tokenize SData o) = SData.

(* the boolean oracle evaluated on the implementation's outputs decides exactly the conjunction of
   the whole-template statement's clauses *)
Theorem C01_oracle_meaning : forall o o' : bytes,
  c01_pair_verdict o o' = None <->
  (skel o = skel o' /\ no_comment_tokens o = true /\ no_comment_tokens o' = true).
Proof. exact pair_verdict_spec. Qed.
Print Assumptions C01_oracle_meaning.

(* "leaves the tokenizer in the same state as the author's own markup": the final tokenizer state is
   part of the skeleton *)
Theorem C01_oracle_same_final_state : forall o o' : bytes,
  same_structure o o' = true -> r_final (html_tokenize SData o) = r_final (html_tokenize SData o').
Proof. exact same_structure_same_final. Qed.
Print Assumptions C01_oracle_same_final_state.

(* the engine keeps the body of its special elements as text; each of them (regenerated table) is an
   element whose body every HTML tokenizer reads as text, whether scripting is enabled or not *)
Theorem C01_special_elements_have_text_bodies : forall e,
  In e gen.GenTemplate.T_specialElements -> mem_bytes e text_body_elements = true.
Proof. exact special_elements_text_bodies. Qed.
Print Assumptions C01_special_elements_have_text_bodies.
