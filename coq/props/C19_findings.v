(* C19 -- machine-checked records of the recorded findings: the refutations of the *_full_statement
   propositions of props/C19.v on the unchanged tree.  Not part of what gates the check: when a
   finding is repaired the corresponding lemma stops compiling and is deleted.
     D15  conversions between distinct safe types of package safehtml compile
     D20  the ...FromFlag functions accept any client flag.Value
     D21  the patterns parameter of ParseFS is a plain string
     D30  template.Template has the exported field Tree (aliases the executed parse tree)
     D31  a conversion to an inferred type parameter reaches the gate type (client go >= 1.18) *)
From V Require Import lib.Base lib.ApiSyntax gen.GenApi reviewed.ReviewedApi spec.GoAssign spec.ApiSpec
  proofs.ApiFacts props.C19.

Ltac in_list := vm_compute; repeat (first [left; reflexivity | right]).

(* ---- D31: func call[T ~string, R any](f func(T) R, s string) R { return f(T(s)) }
        call(safehtml.ScriptFromConstant, v)   -- the argument of ScriptFromConstant is T(s) ---- *)
Lemma C19_gate_refuted : exists cfg pkg e,
  bytes_eqb pkg (c_pkg cfg) = false /\
  (forall l, In l (c_lib_values cfg) -> identical true l (GDefined pkg (B "stringConstant") GString) = false) /\
  client_wf cfg e = true /\
  arg_ok e (GDefined pkg (B "stringConstant") GString) = true /\
  untyped_string_constant e = false.
Proof.
  exists (mk_cfg (B "main") true []), (B "safehtml"),
         (EConvertTypeParam (GDefined (B "safehtml") (B "stringConstant") GString) (EVar GString)).
  repeat split; try reflexivity. intros l [].
Qed.
Print Assumptions C19_gate_refuted.

Lemma C19_gate_full_statement_false : ~ C19_gate_full_statement.
Proof.
  intros H. destruct C19_gate_refuted as [cfg [pkg [e [H1 [H2 [H3 [H4 H5]]]]]]].
  rewrite (H cfg pkg e H1 H2 H3 H4) in H5. discriminate.
Qed.

(* the same witness against the real API configuration *)
Lemma C19_gate_refuted_real_api :
  client_arg_compiles (real_cfg (B "main") true)
    (EConvertTypeParam (resolve_param (TName (B "safehtml") (B "stringConstant"))) (EVar GString))
    (resolve_param (TName (B "safehtml") (B "stringConstant"))) = true.
Proof. vm_compute. reflexivity. Qed.

(* ---- D15: safehtml.Script(safehtml.URLSanitized(x)) ---- *)
Lemma C19_no_cross_conversion_refuted : exists T U,
  In T safe_types /\ In U safe_types /\ T <> U /\
  convertible_from_client (real_cfg (B "main") false) (resolve_named U) (resolve_named T) = true.
Proof.
  exists (B "safehtml", B "Script"), (B "safehtml", B "URL").
  split; [in_list|]. split; [in_list|]. split.
  - intros E. vm_compute in E. discriminate E.
  - vm_compute. reflexivity.
Qed.
Print Assumptions C19_no_cross_conversion_refuted.

(* every ordered pair of distinct string-wrapping types of package safehtml, by value and by pointer *)
Lemma C19_D15_all_pairs :
  forallb (fun T => forallb (fun U =>
      negb (finding_D15 (T, U))
      || (conv_value (resolve_named U) (resolve_named T)
          && conv_value (GPointer (resolve_named U)) (GPointer (resolve_named T)))) safe_types) safe_types = true.
Proof. vm_compute. reflexivity. Qed.

(* ---- D20: TrustedResourceURLFromFlag(value flag.Value) ---- *)
Lemma C19_surface_refuted_D20 : exists f r pname ty,
  In f gen_funcs /\ lookup_reviewed f = Some r /\ In (pname, ty) (f_params f) /\
  param_role r pname = Some TrustedText /\ r_role r = EscapeHatchFlag /\
  ty = TName (B "flag") (B "Value").
Proof.
  exists (mk_func (B "safehtml") (B "") false (B "TrustedResourceURLFromFlag")
            [(B "value", TName (B "flag") (B "Value"))] [TName (B "safehtml") (B "TrustedResourceURL")]),
         (mk_reviewed (B "safehtml") (B "") (B "TrustedResourceURLFromFlag") EscapeHatchFlag [(B "value", TrustedText)]),
         (B "value"), (TName (B "flag") (B "Value")).
  split; [in_list|]. split; [vm_compute; reflexivity|]. split; [in_list|].
  split; [vm_compute; reflexivity|]. split; reflexivity.
Qed.
Print Assumptions C19_surface_refuted_D20.

(* ---- D21: ParseFS(tfs TrustedFS, patterns ...string): a string variable is accepted ---- *)
Lemma C19_surface_refuted_D21 : exists f r pname ty,
  In f gen_funcs /\ lookup_reviewed f = Some r /\ In (pname, ty) (f_params f) /\
  param_role r pname = Some TrustedText /\
  ty = TVariadic (TName [] (B "string")) /\
  client_arg_compiles (real_cfg (B "main") false) EVarString (resolve_param ty) = true.
Proof.
  exists (mk_func (B "template") (B "") false (B "ParseFS")
            [(B "tfs", TName (B "template") (B "TrustedFS")); (B "patterns", TVariadic (TName (B "") (B "string")))]
            [TPtr (TName (B "template") (B "Template")); TName (B "") (B "error")]),
         (mk_reviewed (B "template") (B "") (B "ParseFS") ConstantGated [(B "tfs", Safe); (B "patterns", TrustedText)]),
         (B "patterns"), (TVariadic (TName [] (B "string"))).
  split; [in_list|]. split; [vm_compute; reflexivity|]. split; [in_list|].
  split; [vm_compute; reflexivity|]. split; [reflexivity|]. vm_compute. reflexivity.
Qed.
Print Assumptions C19_surface_refuted_D21.

Lemma C19_surface_full_statement_false : ~ C19_surface_full_statement.
Proof.
  intros H. destruct C19_surface_refuted_D21 as [f [r [pname [ty [H1 [H2 [H3 [H4 [H5 _]]]]]]]]].
  destruct (H f r pname ty H1 H2 H3 H4) as [E|E]; rewrite H5 in E; discriminate E.
Qed.

(* ---- D30: type Template struct { ...; Tree *parse.Tree; ... } ---- *)
Lemma C19_carrier_fields_refuted : exists d fs emb ft,
  In d gen_types /\ In (t_pkg d, t_name d) carrier_types /\ t_under d = UStruct fs /\
  In (B "Tree", true, emb, ft) fs.
Proof.
  destruct (lookup_type gen_types (B "template") (B "Template")) as [d|] eqn:E;
    [|vm_compute in E; discriminate E].
  vm_compute in E. inversion E as [Ed]. clear E.
  match goal with
  | |- exists d' fs, _ => match type of Ed with mk_type ?p ?n ?e ?fo (UStruct ?fs) = _ => exists d; exists fs end
  end.
  exists false. exists (TPtr (TName (B "text/template/parse") (B "Tree"))).
  subst d. split; [in_list|]. split; [in_list|]. split; [reflexivity|]. in_list.
Qed.
Print Assumptions C19_carrier_fields_refuted.

Lemma C19_carrier_fields_full_statement_false : ~ C19_carrier_fields_full_statement.
Proof.
  intros H. destruct C19_carrier_fields_refuted as [d [fs [emb [ft [H1 [H2 [H3 H4]]]]]]].
  pose proof (H d fs (B "Tree") true emb ft H1 H2 H3 H4) as E. discriminate E.
Qed.
