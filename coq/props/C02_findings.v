(* Recorded findings of C02 (not part of the gate): machine-checked witnesses on the faithful model. *)
From V Require Import lib.Base lib.Utf8 model.GoStrings model.Html model.HtmlUnescape model.Url model.UrlProc
     model.TContext model.TEscapeText model.TSanitize model.TSanitizers.
From V Require Import spec.HtmlTok spec.WhatwgUrl spec.CodeContextSpec spec.CodeContextPolicy props.C02.
Local Open Scope N_scope.

(* the context after  <a href='  : element a, attribute href, double-quoted value, empty prefix *)
Definition d2_ctx : context := mkctx StAttr DDoubleQuote (B "a") [] (B "href") [] false [] None [] [].
Definition d2_chain : list bytes := [B "_sanitizeTrustedResourceURLOrURL"; B "_normalizeURL"; B "_sanitizeHTML"].

(* it is the context the analysis reaches, and an action there does not extend attr.value: the
   next action of the same attribute value is analysed in the very same context *)
Lemma d2_ctx_reached :
  escape_text false ctx0 (B "<a href=" ++ [34]) = EOk d2_ctx false [] /\
  sanitizers_for_attr_value d2_ctx = Some d2_chain.
Proof. split; vm_compute; reflexivity. Qed.

(* D2: <a href='{{.A}}{{.B}}'> with java + script:alert(1): each piece passes as a whole URL, the
   concatenation is a javascript: URL *)
Lemma C02_refuted_concat :
  exists o1 o2,
    apply_chain d2_chain (VStr (B "java")) = Some o1 /\
    apply_chain d2_chain (VStr (B "script:alert(1)")) = Some o2 /\
    whatwg_scheme (decode_runes (html_unescape (o1 ++ o2))) = Some (B "javascript").
Proof. exists (B "java"), (B "script:alert%281%29"). repeat split; vm_compute; reflexivity. Qed.

Lemma C02_no_javascript_url_refuted : ~ C02_no_javascript_url_full_statement.
Proof.
  intros H.
  specialize (H d2_ctx d2_chain (B "_sanitizeTrustedResourceURLOrURL") [B "_normalizeURL"; B "_sanitizeHTML"]
                [VStr (B "java"); VStr (B "script:alert(1)")] [B "java"; B "script:alert%281%29"]).
  apply H.
  - vm_compute; reflexivity.
  - reflexivity.
  - reflexivity.
  - right; reflexivity.
  - repeat constructor; try (intros k s; discriminate); unfold wf_byte; cbv; reflexivity.
  - vm_compute; reflexivity.
  - vm_compute; reflexivity.
Qed.

(* the same with static text after the action:  <a href='{{.}}&colon;alert(1)'>  with javascript *)
Lemma C02_refuted_static_suffix :
  exists o, apply_chain d2_chain (VStr (B "javascript")) = Some o /\
    whatwg_scheme (decode_runes (html_unescape (o ++ B "&colon;alert(1)"))) = Some (B "javascript").
Proof. exists (B "javascript"). split; vm_compute; reflexivity. Qed.

(* D3 (REPAIRED, fix: allow a URL in a link element's href only if every rel value is allow-listed):
   rel='alternate stylesheet' makes the link a style sheet; one allow-listed token used to be enough for
   the engine to accept plain URL strings.  Now the context is TrustedResourceURL only (the engine
   passes the normalised rel with spaces around); the general statement is C02_stylesheet_link_href. *)
Lemma C02_D3_repaired :
  code_loading_url_attr (B "link") (B "href") (B " alternate stylesheet ") = true /\
  sc_for_attr_val (B "link") (B "href") (B " alternate stylesheet ") = Some SC_TRU /\
  sc_sanitizer_name SC_TRU = B "_sanitizeTrustedResourceURL".
Proof. repeat split; vm_compute; reflexivity. Qed.

(* D4: the name under which a helper template is derived ignores the static prefix of the attribute
   value: the copy derived after /foo/ (chain without the URL sanitizer) is reused at the empty prefix *)
Definition d4_ctx_prefix : context := mkctx StAttr DDoubleQuote (B "a") [] (B "href") (B "/foo/") false [] None [] [].
Lemma C02_refuted_mangle :
  escape_text false ctx0 (B "<a href=" ++ [34] ++ B "/foo/") = EOk d4_ctx_prefix false [] /\
  mangle d4_ctx_prefix (B "h") = mangle d2_ctx (B "h") /\
  sanitizers_for_attr_value d4_ctx_prefix = Some [B "_normalizeURL"; B "_sanitizeHTML"] /\
  exists o, apply_chain [B "_normalizeURL"; B "_sanitizeHTML"] (VStr (B "javascript:alert(1)")) = Some o /\
    whatwg_scheme (decode_runes (html_unescape o)) = Some (B "javascript").
Proof.
  split; [vm_compute; reflexivity|]. split; [vm_compute; reflexivity|]. split; [vm_compute; reflexivity|].
  exists (B "javascript:alert%281%29"). split; vm_compute; reflexivity.
Qed.

(* D13: after  <script>var x = '<!--<script>';</script>  the analysis believes it is back in ordinary
   text (chain = HTML escaping, plain strings accepted) while the WHATWG tokenizer is still inside the
   script element (script data escaped state) *)
Definition d13_text : bytes := B "<script>var x = " ++ [34] ++ B "<!--<script>" ++ [34] ++ B ";</script>".
Lemma C02_refuted_script_escape :
  (exists out, escape_text false ctx0 d13_text = EOk ctx0 false out) /\
  sanitizer_for_context ctx0 = Some [B "_sanitizeHTML"] /\
  r_final (html_tokenize SData d13_text) = SScriptDataEscaped /\
  c02_code_clause [B "zQ1x"] (d13_text ++ B "zQ1x") <> None.
Proof.
  split; [eexists; vm_compute; reflexivity|]. split; [vm_compute; reflexivity|].
  split; [vm_compute; reflexivity|]. vm_compute. discriminate.
Qed.
