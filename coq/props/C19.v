(* C19 -- trusted-text parameters accept only compile-time constants; no raw back doors.
   This file holds only the property theorems; proofs are in proofs/ApiFacts.v.
   The statements that are false of the unchanged tree are kept as *_full_statement definitions;
   their refutations (findings D15, D20, D21, D30, D31) are in props/C19_findings.v. *)
From V Require Import lib.Base lib.ApiSyntax gen.GenApi reviewed.ReviewedApi spec.GoAssign spec.ApiSpec
  proofs.ApiFacts.

(* ---- the gate (generic, about the Go type rules) ----
   Whatever a client package can write as an argument for a parameter of another package's type
   "type stringConstant string" type-checks only if it is an untyped string constant -- provided
   the expression contains no conversion to an inferred type parameter (finding D31). *)
Definition C19_gate_full_statement : Prop :=
  forall cfg pkg e,
  bytes_eqb pkg (c_pkg cfg) = false ->
  (forall l, In l (c_lib_values cfg) -> identical true l (GDefined pkg (B "stringConstant") GString) = false) ->
  client_wf cfg e = true ->
  arg_ok e (GDefined pkg (B "stringConstant") GString) = true ->
  untyped_string_constant e = true.

Theorem C19_gate_partial : forall cfg pkg e,
  bytes_eqb pkg (c_pkg cfg) = false ->
  (forall l, In l (c_lib_values cfg) -> identical true l (GDefined pkg (B "stringConstant") GString) = false) ->
  client_wf cfg e = true ->
  uses_type_param e = false ->
  arg_ok e (GDefined pkg (B "stringConstant") GString) = true ->
  untyped_string_constant e = true.
Proof. exact gate_theorem. Qed.
Print Assumptions C19_gate_partial.

(* the full statement holds for client packages whose language version has no type parameters *)
Theorem C19_gate_pre_generics : forall cfg pkg e,
  c_generics cfg = false ->
  bytes_eqb pkg (c_pkg cfg) = false ->
  (forall l, In l (c_lib_values cfg) -> identical true l (GDefined pkg (B "stringConstant") GString) = false) ->
  client_wf cfg e = true ->
  arg_ok e (GDefined pkg (B "stringConstant") GString) = true ->
  untyped_string_constant e = true.
Proof. exact gate_theorem_pre_generics. Qed.
Print Assumptions C19_gate_pre_generics.

(* ---- the surface: every TrustedText parameter of the regenerated API has the gate type ---- *)
Definition C19_surface_full_statement : Prop :=
  forall f r pname ty,
  In f gen_funcs -> lookup_reviewed f = Some r -> In (pname, ty) (f_params f) ->
  param_role r pname = Some TrustedText ->
  (ty = TName (f_pkg f) (B "stringConstant") \/ ty = TVariadic (TName (f_pkg f) (B "stringConstant"))).

Theorem C19_surface_partial : forall f r pname ty,
  In f gen_funcs -> lookup_reviewed f = Some r -> In (pname, ty) (f_params f) ->
  param_role r pname = Some TrustedText ->
  finding_D20 (f_pkg f) (f_recv f) (f_name f) = false ->
  finding_D21 (f_pkg f) (f_recv f) (f_name f) pname = false ->
  (ty = TName (f_pkg f) (B "stringConstant") \/ ty = TVariadic (TName (f_pkg f) (B "stringConstant"))) /\
  (f_pkg f = B "safehtml" \/ f_pkg f = B "template") /\
  exists d, In d gen_types /\ t_pkg d = f_pkg f /\ t_name d = B "stringConstant" /\
            t_exported d = false /\ t_form d = Defined /\ t_under d = UString /\
            (forall d', In d' gen_types -> t_pkg d' = f_pkg f -> t_name d' = B "stringConstant" -> d' = d).
Proof. exact surface_lifted. Qed.
Print Assumptions C19_surface_partial.

(* surface + gate: at a TrustedText parameter of the real API a client outside the two packages
   can supply only an untyped string constant *)
Theorem C19_trusted_text_constant_only_partial : forall f r pname ty client generics e,
  In f gen_funcs -> lookup_reviewed f = Some r -> In (pname, ty) (f_params f) ->
  param_role r pname = Some TrustedText ->
  finding_D20 (f_pkg f) (f_recv f) (f_name f) = false ->
  finding_D21 (f_pkg f) (f_recv f) (f_name f) pname = false ->
  bytes_eqb client (B "safehtml") = false -> bytes_eqb client (B "template") = false ->
  client_wf (real_cfg client generics) e = true ->
  uses_type_param e = false ->
  arg_ok e (resolve_param ty) = true ->
  untyped_string_constant e = true.
Proof. exact trusted_text_constant_only. Qed.
Print Assumptions C19_trusted_text_constant_only_partial.

(* ---- closed world ---- *)
(* every exported function or method whose result mentions a trust-carrying type is in the reviewed
   table with a well-formed role; the escape-hatch role is held only by the functions of finding D20 *)
Theorem C19_closed_world : forall f,
  In f gen_funcs -> yields_tracked f = true ->
  exists r, lookup_reviewed f = Some r /\ role_wellformed r = true /\
            (r_role r = EscapeHatchFlag -> finding_D20 (f_pkg f) (f_recv f) (f_name f) = true).
Proof. exact closed_world_funcs_lifted. Qed.
Print Assumptions C19_closed_world.

Theorem C19_closed_world_vars : forall v, In v gen_vars -> mentions_tracked (v_type v) = false.
Proof. exact closed_world_vars_lifted. Qed.
Print Assumptions C19_closed_world_vars.

(* the safe types are defined struct types without any exported field: no composite literal with
   contents, no field access, nothing to reach by embedding *)
Theorem C19_safe_types_opaque : forall d,
  In d gen_types -> In (t_pkg d, t_name d) safe_types ->
  t_form d = Defined /\
  exists fs, t_under d = UStruct fs /\
             forall n ex emb ft, In (n, ex, emb, ft) fs -> ex = false.
Proof. exact safe_types_opaque_lifted. Qed.
Print Assumptions C19_safe_types_opaque.

(* *Template: no exported field except the one of finding D30 *)
Definition C19_carrier_fields_full_statement : Prop :=
  forall d fs n ex emb ft,
  In d gen_types -> In (t_pkg d, t_name d) carrier_types -> t_under d = UStruct fs ->
  In (n, ex, emb, ft) fs -> ex = false.

Theorem C19_carrier_fields_partial : forall d fs n ex emb ft,
  In d gen_types -> In (t_pkg d, t_name d) carrier_types -> t_under d = UStruct fs ->
  In (n, ex, emb, ft) fs -> ex = true -> finding_D30 (t_pkg d) (t_name d) n = true.
Proof. exact carrier_fields_lifted. Qed.
Print Assumptions C19_carrier_fields_partial.

(* the library never hands the client a value of a gate type *)
Theorem C19_no_gate_value_handed_out : forall client g l,
  In l (c_lib_values (real_cfg client g)) ->
  identical true l (gate_type (B "safehtml")) = false /\ identical true l (gate_type (B "template")) = false.
Proof. exact lib_values_lifted. Qed.
Print Assumptions C19_no_gate_value_handed_out.

(* ---- conversions ---- *)
Definition C19_no_cross_conversion_full_statement : Prop :=
  forall T U client g,
  In T safe_types -> In U safe_types -> T <> U ->
  convertible_from_client (real_cfg client g) (resolve_named U) (resolve_named T) = false.

(* from ANY declared type of the two packages into a safe type, by value or by pointer *)
Theorem C19_no_cross_conversion_partial : forall T U client g,
  In T safe_types -> In U declared_names -> T <> U -> finding_D15 (T, U) = false ->
  convertible_from_client (real_cfg client g) (resolve_named U) (resolve_named T) = false /\
  convertible_from_client (real_cfg client g) (GPointer (resolve_named U)) (GPointer (resolve_named T)) = false.
Proof. exact cross_conversion_lifted. Qed.
Print Assumptions C19_no_cross_conversion_partial.

(* Second-round clauses (spec/ApiSpec.v (v)).  A parameter that the reviewed API marks Safe - the value
   is trusted already - has a type that mentions a tracked type or is embed.FS, which only the
   compiler can fill: the constructor cannot be fed through an interface clients implement. *)
Theorem C19_safe_parameters_keep_trusted_types : forall f r x,
  In f gen_funcs -> lookup_reviewed f = Some r -> In x (f_params f) -> param_role r (fst x) = Some Safe ->
  safe_param_type_ok (snd x) = true.
Proof. exact safe_params_keep_trusted_types. Qed.
Print Assumptions C19_safe_parameters_keep_trusted_types.

(* The safe types are immutable: no exported method of a safe type has a pointer receiver (nothing
   like UnmarshalText / Scan / Set can overwrite the contents of a value). *)
Theorem C19_safe_types_have_no_mutating_methods : forall f,
  In f gen_funcs -> mem_name2 (f_pkg f, f_recv f) safe_types = true -> f_recv_ptr f = false.
Proof. exact safe_types_have_no_pointer_methods. Qed.
Print Assumptions C19_safe_types_have_no_mutating_methods.

(* every exported function or method that is not in the reviewed API has no parameter through which it
   could write a trusted value (no pointer to a safe or carrier type, however nested), and no method
   with an exported name is promoted to an exported type from an embedded unexported type without a
   review entry; exported constants are judged like exported variables (C19_closed_world_vars) *)
Theorem C19_no_unreviewed_writers_or_promoted_methods : forall f, In f gen_funcs ->
  param_ptr_tracked_ok f = true /\ promoted_method_ok f = true.
Proof. exact surface_extra_lifted. Qed.
Print Assumptions C19_no_unreviewed_writers_or_promoted_methods.
