(* Recorded findings of C03 (not part of the gate): machine-checked witnesses. *)
From V Require Import lib.Base model.HtmlUnescape model.TContext model.TSanitize model.TSanitizers
     spec.HtmlSpec spec.SanitizerSpec props.C03.

(* D5: <div title="{{.}}"> with a safehtml.HTML value: the single-step chain emits it verbatim *)
Definition d5_ctx : context := mkctx StAttr DDoubleQuote (B "div") [] (B "title") [] false [] None [] [].
Definition d5_value : value := VSafe KHTML ([34; 62] ++ B "<b onmouseover=" ++ [34] ++ B "alert(1)" ++ [34; 62]).

Lemma C03_attr_escaped_refuted : ~ C03_attr_escaped_full_statement.
Proof.
  intros H.
  specialize (H d5_ctx [N_sanitizeHTML] d5_value (stringify d5_value)).
  assert (E : attr_inert (stringify d5_value) = false) by (vm_compute; reflexivity).
  rewrite H in E; [discriminate | vm_compute; reflexivity | vm_compute; reflexivity].
Qed.
