(* C02 -- untrusted strings never reach code contexts; URLs never become javascript:.
   Only the property theorems; proofs are in proofs/CodeContextFacts.v.
   Vocabulary: model/TSanitize.v (sanitizer_for_context, sanitizers_for_attr_value, sc_for_attr_val,
   sc_for_element_content: which chain an action gets), model/TSanitizers.v (value, indirect, stringify,
   apply_chain: the run-time pipeline; None = execution fails), spec/WhatwgUrl.v (whatwg_scheme: the
   scheme the browser's URL parser finds), spec/Srcset.v (candidates), model/HtmlUnescape.v
   (html_unescape: character-reference decoding of an attribute value), spec/SanitizerSpec.v (own f k:
   sanitizer f emits safe type k verbatim), spec/CodeContextSpec.v (code_loading_url_attr, handler_name,
   from the HTML standard), spec/CodeContextPolicy.v (rel_has_url_token: the rel value has a token of the
   reviewed allow-list).  The reviewed policy enters through the theorems of C04. *)
From V Require Import lib.Base lib.Utf8 model.GoStrings model.Html model.HtmlUnescape model.Url model.UrlProc
     model.UrlSet model.TContext model.TSanitize model.TSanitizers.
From V Require Import spec.HtmlSpec spec.WhatwgUrl spec.Srcset spec.SanitizerSpec spec.CodeContextSpec
     spec.CodeContextPolicy proofs.CodeContextFacts proofs.LinkRelFacts proofs.LinkRelFullFacts.
From V Require Import gen.GenPolicy.
Local Open Scope N_scope.

(* (a) "execution fails instead": each of the six typed-only sanitizers, at the head of any chain,
   fails on every value that is not (a pointer chain to) a value of the safe type it emits verbatim:
   plain strings, other Go values, nil, pointers to them, safe values of other kinds *)
Theorem C02_typed_only_reject : forall f v rest,
  In f [ B "_sanitizeScript"; B "_sanitizeStyleSheet"; B "_sanitizeStyle"; B "_sanitizeHTMLValOnly";
         B "_sanitizeTrustedResourceURL"; B "_sanitizeIdentifier" ] ->
  (forall k s, indirect v = VSafe k s -> own f k = false) ->
  apply_chain (f :: rest) v = None.
Proof. exact typed_only_reject. Qed.
Print Assumptions C02_typed_only_reject.

(* script and style element bodies: the chain is the single typed-only sanitizer, so every value
   without a safe type is refused *)
Theorem C02_script_style_body : forall c chain v,
  c_elem c = B "script" \/ c_elem c = B "style" ->
  c_elem_names c = [] -> c_attr c = [] -> c_attr_names c = [] -> c_state c <> StHTMLCmt ->
  sanitizer_for_context c = Some chain ->
  ((c_elem c = B "script" -> chain = [B "_sanitizeScript"]) /\
   (c_elem c = B "style" -> chain = [B "_sanitizeStyleSheet"])) /\
  ((forall k s, indirect v <> VSafe k s) -> apply_chain chain v = None).
Proof. exact code_body. Qed.
Print Assumptions C02_script_style_body.

(* the style attribute and srcdoc, on every element and for every rel *)
Theorem C02_style_srcdoc_attr : forall c chain v,
  c_attr c = B "style" \/ c_attr c = B "srcdoc" -> c_attr_names c = [] ->
  sanitizers_for_attr_value c = Some chain ->
  (forall k s, indirect v <> VSafe k s) -> apply_chain chain v = None.
Proof. exact code_attr_rejects. Qed.
Print Assumptions C02_style_srcdoc_attr.

(* event handlers: every attribute whose name starts with the letters o n is refused on every element *)
Theorem C02_handlers_refused : forall e a rel c,
  (prefixb (B "on") a = true -> sc_for_attr_val e a rel = None) /\
  (prefixb (B "on") (c_attr c) = true -> c_attr_names c = [] -> sanitizers_for_attr_value c = None).
Proof. exact handlers_refused. Qed.
Print Assumptions C02_handlers_refused.

(* (b) comments: the action prints nothing *)
Theorem C02_comment_empty : forall c,
  c_state c = StHTMLCmt ->
  sanitizer_for_context c = Some [B "_sanitizeHTMLComment"] /\
  forall v, apply_chain [B "_sanitizeHTMLComment"] v = Some [].
Proof. exact comment_empty. Qed.
Print Assumptions C02_comment_empty.

(* URLs that load code or styles.  The full statement: whenever the HTML standard makes
   (element, attribute, rel) a code-loading URL, the engine demands a TrustedResourceURL ... *)
Definition C02_no_code_context_full_statement : Prop :=
  forall e a rel sc,
    code_loading_url_attr e a rel = true -> sc_for_attr_val e a rel = Some sc ->
    sc_sanitizer_name sc = B "_sanitizeTrustedResourceURL" /\ sc_is_url sc = true.

(* ... WAS false of the faithful model (finding D3); since the repair (fix: allow a URL in a link element's
   href only if every rel value is allow-listed) it is the theorem C02_no_code_context at the end of this
   file.  The weaker form that held before the repair: *)
Theorem C02_no_code_context_partial : forall e a rel sc,
  code_loading_url_attr e a rel = true ->
  (e = B "link" -> rel_has_url_token rel = false) ->
  sc_for_attr_val e a rel = Some sc ->
  sc_sanitizer_name sc = B "_sanitizeTrustedResourceURL" /\ sc_is_url sc = true.
Proof. exact code_loading_partial. Qed.
Print Assumptions C02_no_code_context_partial.

(* consequently, at the origin-determining start of such an attribute value (empty static prefix) a
   value without a safe type is refused, and after a static prefix the prefix has been validated as a
   TrustedResourceURL prefix and the data is percent-escaped (C13 / C14 say what that fixes) *)
Theorem C02_code_loading_url : forall c chain,
  In (c_elem c, c_attr c)
     [ (B "script", B "src"); (B "iframe", B "src"); (B "frame", B "src"); (B "embed", B "src");
       (B "object", B "data"); (B "base", B "href"); (B "link", B "href") ] ->
  (c_elem c = B "link" -> rel_has_url_token (c_link_rel c) = false) ->
  c_elem_names c = [] -> c_attr_names c = [] ->
  sanitizers_for_attr_value c = Some chain ->
  (c_attr_value c = [] -> forall v, (forall k s, indirect v <> VSafe k s) -> apply_chain chain v = None) /\
  (c_attr_value c <> [] ->
     chain = [B "_validateTrustedResourceURLSubstitution"; B "_queryEscapeURL"; B "_sanitizeHTML"] /\
     validate_tru_prefix (c_attr_value c) = true).
Proof. exact code_loading_url. Qed.
Print Assumptions C02_code_loading_url.

(* (c) the whole-value URL lemma: the pipeline of a URL attribute at an empty static prefix, applied to
   ANY value without a safe type, yields an attribute value that -- taken as a whole, after
   character-reference decoding -- does not have the javascript scheme for the browser's URL parser *)
Theorem C02_url_whole_value : forall f v o,
  f = B "_sanitizeURL" \/ f = B "_sanitizeTrustedResourceURLOrURL" ->
  (forall k s, indirect v <> VSafe k s) -> wf_bytes (stringify v) ->
  apply_chain [f; B "_normalizeURL"; B "_sanitizeHTML"] v = Some o ->
  whatwg_scheme (decode_runes (html_unescape o)) <> Some (B "javascript").
Proof. exact url_whole_value. Qed.
Print Assumptions C02_url_whole_value.

(* NormalizeURL never turns a URL that URLSanitized keeps into a javascript: URL (all byte strings,
   including the non-ASCII runes that lower-case to ASCII letters) *)
Theorem C02_normalize_keeps_safe : forall u : bytes,
  is_safe_url u = true -> whatwg_scheme (normalize_url u) <> Some (B "javascript").
Proof. exact normalized_safe_no_js. Qed.
Print Assumptions C02_normalize_keeps_safe.

(* the engine-level statement for one attribute value: the pieces vs are written one after the
   other, each through the chain the analysis gives at the empty prefix (an action does not extend
   attr.value, so every piece gets the same chain) ... *)
Definition C02_no_javascript_url_full_statement : Prop :=
  forall c chain f rest vs os,
    sanitizers_for_attr_value c = Some chain -> c_attr_value c = [] -> chain = f :: rest ->
    f = B "_sanitizeURL" \/ f = B "_sanitizeTrustedResourceURLOrURL" ->
    Forall (fun v => (forall k s, indirect v <> VSafe k s) /\ wf_bytes (stringify v)) vs ->
    map (apply_chain chain) vs = map Some os ->
    whatwg_scheme (decode_runes (html_unescape (concat os))) <> Some (B "javascript").

(* ... is false of the faithful model (finding D2); what holds: a value that consists of exactly one
   dynamic piece (the negation of the classifier of D2) *)
Theorem C02_no_javascript_url_partial : forall c chain f rest vs os,
  sanitizers_for_attr_value c = Some chain -> c_attr_value c = [] -> chain = f :: rest ->
  f = B "_sanitizeURL" \/ f = B "_sanitizeTrustedResourceURLOrURL" ->
  Forall (fun v => (forall k s, indirect v <> VSafe k s) /\ wf_bytes (stringify v)) vs ->
  map (apply_chain chain) vs = map Some os ->
  length vs = 1%nat ->
  chain = [f; B "_normalizeURL"; B "_sanitizeHTML"] /\
  whatwg_scheme (decode_runes (html_unescape (concat os))) <> Some (B "javascript").
Proof. exact no_javascript_url_single_piece. Qed.
Print Assumptions C02_no_javascript_url_partial.

(* (d) srcset: the chain output is the escaped sanitized set; every image candidate the WHATWG parser
   sees in the sanitized set is a URL URLSanitized keeps and has no javascript scheme *)
Theorem C02_urlset : forall v o,
  apply_chain [B "_sanitizeURLSet"; B "_sanitizeHTML"] v = Some o ->
  let u := urlset_sanitized (stringify v) in
  o = html_escaped u /\ html_unescape o = coerce_spec u /\
  exists cs, cs <> [] /\
    candidates u = map (fun c => (fst c, descr_tokens (snd c))) cs /\
    Forall (fun c => is_safe_url (fst c) = true /\
                     whatwg_scheme (decode_runes (fst c)) <> Some (B "javascript")) cs.
Proof. exact urlset_chain. Qed.
Print Assumptions C02_urlset.

(* ... and when the sanitized set has no code point that HTMLEscaped replaces, these are the
   candidates of the decoded attribute value itself *)
Theorem C02_urlset_decoded : forall v o,
  apply_chain [B "_sanitizeURLSet"; B "_sanitizeHTML"] v = Some o ->
  coerce_spec (urlset_sanitized (stringify v)) = urlset_sanitized (stringify v) ->
  Forall (fun c => whatwg_scheme (decode_runes (fst c)) <> Some (B "javascript"))
         (candidates (html_unescape o)).
Proof. exact urlset_chain_clean. Qed.
Print Assumptions C02_urlset_decoded.

(* (e) style-sheet links after the repair of D3: whenever the (normalised) rel attribute of a link
   element has the value stylesheet among its values - whatever the other values are - the href is a
   TrustedResourceURL-only context; the same when the link has no rel value at all; and a plain URL
   is admitted only when there is at least one value and EVERY value is allow-listed *)
Theorem C02_stylesheet_link_href : forall rel,
  In (B "stylesheet") (fields rel) -> sc_for_attr_val (B "link") (B "href") rel = Some SC_TRU.
Proof. exact stylesheet_link_href_is_tru_only. Qed.
Print Assumptions C02_stylesheet_link_href.

Theorem C02_bare_link_href : forall rel,
  fields rel = [] -> sc_for_attr_val (B "link") (B "href") rel = Some SC_TRU.
Proof. exact bare_link_href_is_tru_only. Qed.
Print Assumptions C02_bare_link_href.

Theorem C02_link_href_url_only_if_all_listed : forall rel,
  sc_for_attr_val (B "link") (B "href") rel = Some SC_TRUOrURL ->
  fields rel <> [] /\ forall v, In v (fields rel) -> mem_bytes v P_urlLinkRelVals = true.
Proof. exact link_href_url_only_if_all_listed. Qed.
Print Assumptions C02_link_href_url_only_if_all_listed.

(* (f) the FULL statement about URLs that load code or style sheets (it was refuted by finding D3 before the
   repair): for ALL element names, attribute names and rel values - the rel value read as the HTML standard
   reads it (split on ASCII white space, ASCII case-insensitive), the engine reading it with strings.Fields -
   whenever the standard makes (element, attribute, rel) a code-loading URL, the engine's sanitization context
   is TrustedResourceURL *)
Theorem C02_no_code_context : forall e a rel sc,
  code_loading_url_attr e a rel = true -> sc_for_attr_val e a rel = Some sc ->
  sc_sanitizer_name sc = B "_sanitizeTrustedResourceURL" /\ sc_is_url sc = true.
Proof. exact code_loading_full. Qed.
Print Assumptions C02_no_code_context.
