(* C20 -- TrustedSourceFromConstantDir keeps dynamic filenames inside the constant dir.
   This file holds only the property theorems; proofs are in proofs/TrustedSourceFacts.v.
   All statements are for every byte string (no length bound).  Unix path semantics:
   47 = '/' (filepath.Separator), 58 = ':' (filepath.ListSeparator).
   from_constant_dir / go_join / clean are the model of the Go code including Go's own
   filepath.Join / filepath.Clean (lazybuf algorithm); join_clean / clean_stack / child are
   the specification (spec/PathSpec.v: component-stack normal form, direct child). *)
From V Require Import lib.Base model.TrustedSource spec.PathSpec proofs.TrustedSourceFacts.

(* a filename with a path separator, a list separator, or the name ".." is an error *)
Theorem C20_rejects : forall dir src f,
  In 47 f \/ In 58 f \/ f = B ".." -> from_constant_dir dir src f = None.
Proof. exact tsrc_rejects. Qed.
Print Assumptions C20_rejects.

(* whatever is returned is the cleaned join of dir and src itself (exactly for the names ""
   and ".") or the direct child of it named f (exactly for every other accepted name) *)
Theorem C20_confined : forall dir src f r,
  from_constant_dir dir src f = Some r ->
  ~ In 47 f /\ ~ In 58 f /\ f <> B ".." /\
  let base := join_clean [dir; src] in
  (r = base \/ r = child base f) /\
  (f = [] -> r = base) /\
  (f = B "." -> r = base \/ (base = [] /\ r = B ".")) /\
  (f <> [] -> f <> B "." -> r = child base f /\ r <> base).
Proof. exact tsrc_confined. Qed.
Print Assumptions C20_confined.

(* every other filename is accepted (the constructor is not vacuously safe), with this result *)
Theorem C20_accepts : forall dir src f,
  ~ In 47 f -> ~ In 58 f -> f <> B ".." ->
  from_constant_dir dir src f = Some (join_clean [dir; src; f]).
Proof. exact tsrc_accepts. Qed.
Print Assumptions C20_accepts.

(* Go's Clean algorithm (lazybuf transliteration) is the component-stack normal form, and
   Go's Join is the documented Join: the specification side of C20_confined speaks about
   the same paths as the code *)
Theorem C20_clean_is_normal_form : forall p, clean p = clean_stack p.
Proof. exact clean_eq. Qed.
Print Assumptions C20_clean_is_normal_form.

Theorem C20_join_is_join_clean : forall elems, go_join elems = join_clean elems.
Proof. exact go_join_eq. Qed.
Print Assumptions C20_join_is_join_clean.

(* the boolean oracle evaluated by the check on the implementation's real outputs holds of
   everything the model returns *)
Theorem C20_oracle_holds : forall dir src f r,
  from_constant_dir dir src f = Some r -> c20_spec dir src f r = true.
Proof. exact tsrc_spec. Qed.
Print Assumptions C20_oracle_holds.
