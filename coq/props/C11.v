(* C11 -- URLSanitized returns its input or the innocuous URL, and never a javascript: URL.
   This file holds only the property theorems; proofs are in proofs/UrlFacts.v.
   whatwg_scheme, html_decode, charref_decoder_on_*: spec/WhatwgUrl.v (from the standards);
   url_sanitized: model/Url.v (tied to /repo by regeneration + correspondence). *)
From V Require Import lib.Base lib.Utf8 model.Url spec.WhatwgUrl spec.UrlSpec proofs.UrlFacts.

(* the result is the input or the fixed innocuous value *)
Theorem C11_range : forall s : bytes,
  url_sanitized s = s \/ url_sanitized s = B "about:invalid#zGoSafez".
Proof. exact url_sanitized_range. Qed.
Print Assumptions C11_range.

(* a returned input has no javascript scheme for the WHATWG URL parser, neither as it is nor
   after one round of character-reference decoding (text and attribute-value flavour) *)
Theorem C11_no_js : forall s : bytes, url_sanitized s = s ->
  whatwg_scheme (decode_runes s) <> Some (B "javascript") /\
  whatwg_scheme (html_decode false (decode_runes s)) <> Some (B "javascript") /\
  whatwg_scheme (html_decode true (decode_runes s)) <> Some (B "javascript").
Proof. exact url_sanitized_no_js. Qed.
Print Assumptions C11_no_js.

(* the same for EVERY character-reference decoder that leaves text without '&' alone and
   copies everything before the first '&' (on code points, or on the UTF-8 bytes) *)
Theorem C11_no_js_any_decoder : forall s : bytes, url_sanitized s = s ->
  (forall dec : list N -> list N,
     (forall p t, ~ In 38 p -> exists t', dec (p ++ t) = p ++ t' /\ (t = [] -> t' = [])) ->
     whatwg_scheme (dec (decode_runes s)) <> Some (B "javascript")) /\
  (forall decb : bytes -> bytes,
     (forall p t, ~ In 38 p -> exists t', decb (p ++ t) = p ++ t' /\ (t = [] -> t' = [])) ->
     whatwg_scheme (decode_runes (decb s)) <> Some (B "javascript")).
Proof. exact url_sanitized_no_js_any_decoder. Qed.
Print Assumptions C11_no_js_any_decoder.

(* completeness 1: an ASCII scheme other than javascript (any letter case) is kept *)
Theorem C11_keeps_schemes : forall sch rest : bytes,
  sch <> [] -> Forall (fun b => scheme_char b = true) sch ->
  map ascii_lower sch <> B "javascript" ->
  url_sanitized (sch ++ 58 :: rest) = sch ++ 58 :: rest.
Proof. exact keeps_schemes. Qed.
Print Assumptions C11_keeps_schemes.

(* completeness 2: ':' (58) and '&' (38) only after the first '/' (47), '?' (63) or '#' (35) *)
Theorem C11_keeps_relative : forall s : bytes,
  (forall q c r, s = q ++ c :: r -> c = 58 \/ c = 38 ->
     exists d, In d q /\ (d = 47 \/ d = 63 \/ d = 35)) ->
  url_sanitized s = s.
Proof. exact keeps_relative. Qed.
Print Assumptions C11_keeps_relative.

(* the executable recognisers of the two completeness clauses that the check driver applies
   to the implementation's answers are sound *)
Theorem C11_keeps_recognised : forall s : bytes,
  starts_with_safe_scheme s = true \/ colon_amp_only_after_delim s = true -> url_sanitized s = s.
Proof. exact keeps_recognised. Qed.
Print Assumptions C11_keeps_recognised.
