(* C16 -- CSSRule yields exactly one rule: selectors cannot inject blocks, rules or markup.
   This file holds only the property theorems; proofs are in proofs/CssRuleFacts.v.
   Recorded defects: D12 (url( in the selector), D19 (leading -->); witnesses in props/C16_findings.v. *)
From V Require Import lib.Base lib.Utf8 spec.CssSyntax model.CssRule spec.CssRuleSpec proofs.CssRuleFacts.

(* CSSRule either fails or returns exactly selector{style} *)
Theorem C16_layout : forall sel st o,
  css_rule sel st = Some o -> o = sel ++ [123] ++ st ++ [125].
Proof. exact css_rule_layout. Qed.
Print Assumptions C16_layout.

(* rejections *)
Theorem C16_rejects_lt : forall sel st, In 60 sel -> css_rule sel st = None.
Proof. exact css_rule_rejects_lt. Qed.
Print Assumptions C16_rejects_lt.

Theorem C16_rejects_invalid_rune : forall sel st c,
  In c (decode_runes (strip_strings sel)) -> is_allowed_selector_char c = false ->
  css_rule sel st = None.
Proof. exact css_rule_rejects_invalid_rune. Qed.
Print Assumptions C16_rejects_invalid_rune.

Theorem C16_rejects_unbalanced : forall sel st,
  has_balanced_brackets (strip_strings sel) = false -> css_rule sel st = None.
Proof. exact css_rule_rejects_unbalanced. Qed.
Print Assumptions C16_rejects_unbalanced.

(* an accepted selector: no '<'; once its quoted strings are removed every byte is one of the
   documented selector characters  - _ a-z A-Z 0-9 # . : * space , > + ~ [ ] ( ) = ^ $ |
   (so no { } ; @ \ / quote, newline, control or non-ASCII byte), and () [] are balanced *)
Theorem C16_accepts : forall sel st o, css_rule sel st = Some o ->
  ~ In 60 sel /\
  forallb is_allowed_selector_char (strip_strings sel) = true /\
  has_balanced_brackets (strip_strings sel) = true.
Proof. exact css_rule_accepts. Qed.
Print Assumptions C16_accepts.

(* hasBalancedBrackets decides the inductive notion of balanced () [] *)
Theorem C16_balanced : forall s, has_balanced_brackets s = true <-> balanced s.
Proof. exact has_balanced_brackets_spec. Qed.
Print Assumptions C16_balanced.

(* the string scanner: a match starting at a quote q is exactly  q body q  with body in the CSS
   string grammar (4.3.5 over raw bytes); nothing else is removed *)
Theorem C16_scan_string_sound : forall q r rest, q <> 92 ->
  scan_string q r = Some rest -> exists body, r = body ++ q :: rest /\ string_body q body = true.
Proof. exact scan_string_sound. Qed.
Print Assumptions C16_scan_string_sound.

Theorem C16_scan_string_complete : forall q body rest, q <> 92 ->
  string_body q body = true -> scan_string q (body ++ q :: rest) = Some rest.
Proof. exact scan_string_complete. Qed.
Print Assumptions C16_scan_string_complete.

(* The tokenizer-level statement of the property: for a well-formed Style, an accepted selector
   gives a result that a CSS Syntax Level 3 parser sees as exactly one qualified rule whose prelude
   is the selector's token stream and whose block is the style's, and the selector contributes no
   { } ; at-keyword, comment, '<', bad-string, bad-url, unterminated string/url or unbalanced bracket.
   The full statement is FALSE of the faithful model (D12, D19: props/C16_findings.v).  The partial
   statement is NOT proved: it is covered by the oracle search (the extracted predicate is evaluated
   on the implementation's real results; the model is tied to the implementation on the same cases). *)
Definition C16_one_rule_full_statement : Prop := forall sel st o,
  style_wellformed st = true -> css_rule sel st = Some o ->
  css_rule_spec sel st (Some o) = true.
Definition C16_one_rule_partial_statement : Prop := forall sel st o,
  style_wellformed st = true -> finding_D12 sel = false -> finding_D19 sel = false ->
  css_rule sel st = Some o -> css_rule_spec sel st (Some o) = true.
