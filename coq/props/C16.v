(* C16 -- CSSRule yields exactly one rule: selectors cannot inject blocks, rules or markup.
   This file holds only the property theorems; proofs are in proofs/CssRuleFacts.v. *)
From V Require Import lib.Base lib.Utf8 spec.CssSyntax model.CssRule spec.CssRuleSpec proofs.CssRuleFacts.

Theorem C16_layout : forall sel st o,
  css_rule sel st = Some o -> o = sel ++ [123] ++ st ++ [125].
Proof. exact css_rule_layout. Qed.
Print Assumptions C16_layout.
