(* C06 -- execution results depend only on definitions, name and data, not on history.
   Only the property theorems; proofs are in proofs/EngineFacts.v. *)
From V Require Import lib.Base model.TContext model.TTree model.TEscaper model.Engine spec.EngineSpec proofs.EngineFacts.

(* repeating a successful Execute returns the same answer: the analysis is not run again, the
   committed trees are not touched again (contextual rewriting is applied once) *)
Theorem C06_idempotent : forall w h obj,
  handle w h = Some obj -> h_err (get_tmpl w obj) = EEscOK ->
  let '(w1, r1) := step w (OExecute h) in
  let '(w2, r2) := step w1 (OExecute h) in
  r1 = RExec (h_text (get_tmpl w obj)) /\ r2 = r1.
Proof. exact execute_idempotent. Qed.
Print Assumptions C06_idempotent.

(* the full statement: the tree that gets executed for a name does not depend on which other
   templates were executed before.  FALSE of the faithful model (findings D1 and D6,
   props/C06_findings.v); decided on the implementation by the fresh-set oracle. *)
Definition C06_history_independent_full_statement : Prop :=
  forall defs hist name callee,
    Forall (fun o => is_exec_op o = true) hist ->
    tree_of (fst (run (defs ++ hist ++ [OExecuteTemplate 0 name]))) 0 callee =
    tree_of (fst (run (defs ++ [OExecuteTemplate 0 name]))) 0 callee.
