(* C06 -- execution results depend only on definitions, name and data, not on history.
   Only the property theorems; proofs are in proofs/EngineFacts.v. *)
From V Require Import lib.Base model.TContext model.TTree model.TEscaper model.Engine spec.EngineSpec proofs.EngineFacts proofs.EngineHistFacts proofs.EngineInvFacts proofs.EngineOkFacts.

(* repeating a successful Execute returns the same answer: the analysis is not run again, the
   committed trees are not touched again (contextual rewriting is applied once) *)
Theorem C06_idempotent : forall w h obj,
  handle w h = Some obj -> h_err (get_tmpl w obj) = EEscOK ->
  let '(w1, r1) := step w (OExecute h) in
  let '(w2, r2) := step w1 (OExecute h) in
  r1 = RExec (h_text (get_tmpl w obj)) /\ r2 = r1.
Proof. exact execute_idempotent. Qed.
Print Assumptions C06_idempotent.

(* the full statement: the tree that gets executed for a name does not depend on which other
   templates were executed before.  FALSE of the faithful model (findings D1 and D6,
   props/C06_findings.v); decided on the implementation by the fresh-set oracle. *)
Definition C06_history_independent_full_statement : Prop :=
  forall defs hist name callee,
    Forall (fun o => is_exec_op o = true) hist ->
    tree_of (fst (run (defs ++ hist ++ [OExecuteTemplate 0 name]))) 0 callee =
    tree_of (fst (run (defs ++ [OExecuteTemplate 0 name]))) 0 callee.

(* ---- over histories ---- *)
(* in every reachable world: once Execute through a handle has succeeded, every later Execute through
   that handle - after ANY further history of API calls (New, Parse, Clone, Lookup, Execute, ExecuteTemplate
   ... through any handles of any set; t.New only for names its set does not define yet) - answers by
   running the very same text object: the analysis is not repeated, the template is not re-pointed, the
   status is not lost.  (That the TREE of that text object is not rewritten again by later analyses of
   other templates is the part of the property that findings D1 / D6 refute for helpers; it is decided
   by the fresh-set oracle.) *)
Theorem C06_idempotent_forever : forall ops0 h o ops,
  let w0 := run_from world0 ops0 in
  handle w0 h = Some o -> h_err (get_tmpl w0 o) = EEscOK ->
  let w := fst (step w0 (OExecute h)) in
  no_redefine_hist w ops ->
  let w' := run_from w ops in
  snd (step w0 (OExecute h)) = RExec (h_text (get_tmpl w0 o)) /\
  snd (step w' (OExecute h)) = RExec (h_text (get_tmpl w0 o)).
Proof. exact exec_ok_forever. Qed.
Print Assumptions C06_idempotent_forever.
