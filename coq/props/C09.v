(* C09 -- Concurrent execution of a template set is race-free and equals sequential.
   This file holds only the property theorems; proofs are in proofs/ConcFacts.v.
   What is logic here is the locking discipline and the publication protocol of parse trees
   (model/Conc.v, spec/ConcSpec.v); the Go runtime, its memory model and sync.Mutex are not modelled. *)
From V Require Import lib.Base gen.GenLocks model.Conc spec.ConcSpec spec.ConcFullSpec proofs.ConcFacts proofs.ConcFullFacts.

(* Data-race freedom, generically over the programs the threads run: under a valid schedule (a Lock
   blocks while the mutex is held, only the holder unlocks), if every thread obeys the static
   discipline of the policy (lockset for guarded locations; published locations written only inside the
   critical section and read outside it only after a completed critical section; read-only locations
   never written) and the schedule respects the publication order (a published location is not written
   after a reader's last Lock before its outside read), no two conflicting accesses of different
   threads are unordered by happens-before. *)
Theorem C09_drf : forall (pol : policy) (threads : list thread) (sched : list nat) (tr : list (nat * action)),
  valid_schedule threads sched -> trace_of threads sched = Some tr ->
  discipline pol threads -> publication_order pol tr -> ~ race tr.
Proof. exact drf_of_valid. Qed.
Print Assumptions C09_drf.

(* The decidable check over the regenerated summaries: every offending (method, method, location)
   triple is one of the recorded D9 triples (true as well when D9 is repaired). *)
Theorem C09_lock_discipline : lock_discipline_ok_except d9_triples = true.
Proof. exact discipline_ok. Qed.
Print Assumptions C09_lock_discipline.

(* Instantiation with the regenerated summaries: threads whose calls conform to the summaries of the
   API methods other than DefinedTemplates (the reader of D9) are race-free. *)
Theorem C09_drf_partial : forall (threads : list thread) (sched : list nat) (tr : list (nat * action)),
  (forall th, In th threads -> forall o, In o th ->
     exists n, In n [ B "Template.Execute"; B "Template.ExecuteToHTML"; B "Template.ExecuteTemplate";
                      B "Template.ExecuteTemplateToHTML"; B "Template.Lookup"; B "Template.Templates";
                      B "Template.Name" ] /\
               conforms (method_entries n) o) ->
  valid_schedule threads sched -> trace_of threads sched = Some tr ->
  publication_order c09_policy tr -> ~ race tr.
Proof. rewrite <- c09_methods_eq. exact drf_safehtml. Qed.
Print Assumptions C09_drf_partial.

(* The full statement: the same with all eight methods the property allows concurrently.  It holds
   since the repair of D9 (fix: hold the name space mutex in DefinedTemplates); the side condition
   clean_all (every method obeys the discipline) is evaluated by the kernel on the regenerated
   lock summaries. *)
Theorem C09_drf_all_methods :
  forall (threads : list thread) (sched : list nat) (tr : list (nat * action)),
  (forall th, In th threads -> forall o, In o th ->
     exists n, In n api_methods /\ conforms (method_entries n) o) ->
  valid_schedule threads sched -> trace_of threads sched = Some tr ->
  publication_order c09_policy tr -> ~ race tr.
Proof. exact drf_safehtml_full. Qed.
Print Assumptions C09_drf_all_methods.

Theorem C09_lock_discipline_full : lock_discipline_ok = true.
Proof. exact discipline_full_ok. Qed.
Print Assumptions C09_lock_discipline_full.

(* Equals sequential, at the level of critical sections: when every call is one critical section that
   runs [step] on the shared state (followed by reads of published, immutable data, so that its result
   is what the critical section computed), every call returns what it returns when the calls are made
   one after another in the order of the critical sections, and that order keeps each thread's calls
   in program order. *)
Theorem C09_cs_linearisation : forall (St Call Out : Type) (step : Call -> St -> St * Out)
  (cs : list nat) (pcs : list (list Call)) (s : St) (res : list (nat * Call * Out)),
  run_cs St Call Out step pcs cs s = Some res ->
  map (fun r => snd r) res = run_seq St Call Out step (map (fun r => snd (fst r)) res) s /\
  forall t, match nth_error pcs t with
            | Some p => exists rest, p = calls_of Call Out t res ++ rest
            | None => calls_of Call Out t res = []
            end.
Proof. exact cs_order_linearises. Qed.
Print Assumptions C09_cs_linearisation.

(* The premise of the linearisation theorem on the regenerated summaries: every method the property
   allows concurrently takes ns.mu at no more than one Lock site among all the functions it can
   reach, so that what it observes of the shared analysis state and what it does to it happen in
   the same critical section. *)
Theorem C09_one_critical_section_per_call : forall m, In m api_methods -> (lock_site_count m <= 1)%nat.
Proof. exact one_critical_section_per_call. Qed.
Print Assumptions C09_one_critical_section_per_call.

(* What is not proved: that the real API is such a state machine (one critical section per call that
   determines the result), which needs the engine model of DESIGN 4.1.  Stated over an abstract
   interpretation of calls: [prog] the action program of a call, [step] its effect, [observed] what
   the calls of a concurrent run return. *)
Definition C09_linearizable_full_statement : Prop :=
  forall (St Call Out : Type) (prog : Call -> op) (step : Call -> St -> St * Out) (s0 : St)
         (observed : list (list Call) -> list nat -> list (nat * Call * Out)),
  forall (threads : list (list Call)) (sched : list nat),
    valid_schedule (map (map prog) threads) sched ->
    exists cs res, run_cs St Call Out step threads cs s0 = Some res /\
                   (forall t, calls_of Call Out t res = nth t threads []) /\
                   forall r, In r (observed threads sched) <-> In r res.
