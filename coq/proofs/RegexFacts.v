(* Correctness of the derivative matcher of lib/Regex.v with respect to the
   denotational relation M. *)
From V Require Import lib.Base lib.Regex.

(* ---------- the order is sound for equality ---------- *)
Lemma cmp_then_eq c d : cmp_then c d = Eq -> c = Eq /\ d = Eq.
Proof. destruct c; simpl; intros H; try discriminate; auto. Qed.

Lemma ranges_cmp_eq a : forall b, ranges_cmp a b = Eq -> a = b.
Proof.
  induction a as [|[x1 y1] a IH]; intros [|[x2 y2] b]; simpl; intros H;
    try discriminate; try reflexivity.
  apply cmp_then_eq in H as [H1 H2]. apply cmp_then_eq in H2 as [H2 H3].
  apply N.compare_eq_iff in H1. apply N.compare_eq_iff in H2.
  apply IH in H3. congruence.
Qed.

Lemma regex_cmp_eq a : forall b, regex_cmp a b = Eq -> a = b.
Proof.
  induction a as [| |rs|a1 IH1 a2 IH2|a1 IH1 a2 IH2|a1 IH1| | | |]; intros b; destruct b;
    cbn; intros H; try discriminate; try reflexivity.
  - apply ranges_cmp_eq in H. congruence.
  - apply cmp_then_eq in H as [H1 H2]. apply IH1 in H1. apply IH2 in H2. congruence.
  - apply cmp_then_eq in H as [H1 H2]. apply IH1 in H1. apply IH2 in H2. congruence.
  - apply IH1 in H. congruence.
Qed.

Lemma regex_eqb_eq a b : regex_eqb a b = true -> a = b.
Proof.
  unfold regex_eqb. destruct (regex_cmp a b) eqn:E; try discriminate.
  intros _. apply regex_cmp_eq; assumption.
Qed.

(* ---------- inversion lemmas for M ---------- *)
Lemma M_Emp_inv p s n : M Emp p s n -> False.
Proof. inversion 1. Qed.

Lemma M_Eps_inv p s n : M Eps p s n -> s = [].
Proof. inversion 1; reflexivity. Qed.

Lemma M_Cls_inv rs p s n : M (Cls rs) p s n -> exists c, s = [c] /\ in_ranges c rs = true.
Proof. inversion 1; subst. eauto. Qed.

Lemma M_Cat_inv a b p s n :
  M (Cat a b) p s n ->
  exists s1 s2, s = s1 ++ s2 /\ M a p s1 (hd_or s2 n) /\ M b (last_or s1 p) s2 n.
Proof. inversion 1; subst. eauto. Qed.

Lemma M_Alt_inv a b p s n : M (Alt a b) p s n -> M a p s n \/ M b p s n.
Proof. inversion 1; subst; auto. Qed.

Lemma M_Star_inv a p s n :
  M (Star a) p s n ->
  s = [] \/ exists s1 s2, s1 <> [] /\ s = s1 ++ s2 /\ M a p s1 (hd_or s2 n) /\
                          M (Star a) (last_or s1 p) s2 n.
Proof. inversion 1; subst; [left; reflexivity | right; eauto 8]. Qed.

Lemma M_BeginText_inv p s n : M BeginText p s n -> s = [] /\ p = None.
Proof. inversion 1; auto. Qed.
Lemma M_EndText_inv p s n : M EndText p s n -> s = [] /\ n = None.
Proof. inversion 1; auto. Qed.
Lemma M_BeginLine_inv p s n : M BeginLine p s n -> s = [] /\ is_none p || is_nl p = true.
Proof. inversion 1; auto. Qed.
Lemma M_EndLine_inv p s n : M EndLine p s n -> s = [] /\ is_none n || is_nl n = true.
Proof. inversion 1; auto. Qed.

(* ---------- smart constructors preserve meaning ---------- *)
Lemma is_emp_eq r : is_emp r = true -> r = Emp.
Proof. destruct r; simpl; intros; try discriminate; reflexivity. Qed.
Lemma is_eps_eq r : is_eps r = true -> r = Eps.
Proof. destruct r; simpl; intros; try discriminate; reflexivity. Qed.

Lemma cat_M a b p s n : M (cat a b) p s n <-> M (Cat a b) p s n.
Proof.
  unfold cat.
  destruct (is_emp a) eqn:Ea; [apply is_emp_eq in Ea; subst|].
  { simpl. split; intros H; [destruct (M_Emp_inv _ _ _ H)|].
    apply M_Cat_inv in H as (s1 & s2 & _ & H & _). destruct (M_Emp_inv _ _ _ H). }
  destruct (is_emp b) eqn:Eb; [apply is_emp_eq in Eb; subst|].
  { simpl. split; intros H; [destruct (M_Emp_inv _ _ _ H)|].
    apply M_Cat_inv in H as (s1 & s2 & _ & _ & H). destruct (M_Emp_inv _ _ _ H). }
  simpl.
  destruct (is_eps a) eqn:Pa; [apply is_eps_eq in Pa; subst|].
  { split; intros H.
    - change s with ([] ++ s). constructor; [constructor | exact H].
    - apply M_Cat_inv in H as (s1 & s2 & -> & H1 & H2).
      apply M_Eps_inv in H1. subst. exact H2. }
  destruct (is_eps b) eqn:Pb; [apply is_eps_eq in Pb; subst|].
  { split; intros H.
    - rewrite <- (app_nil_r s). constructor; [exact H | constructor].
    - apply M_Cat_inv in H as (s1 & s2 & -> & H1 & H2).
      apply M_Eps_inv in H2. subst. rewrite app_nil_r. exact H1. }
  reflexivity.
Qed.

Lemma alts_M r p s n : (exists x, In x (alts r) /\ M x p s n) <-> M r p s n.
Proof.
  induction r as [| |rs|a1 IH1 a2 IH2|a1 IH1 a2 IH2|a1 IH1| | | |]; simpl;
    try (split; [intros [x [[<-|[]] H]]; exact H | intros H; eexists; split; [left; reflexivity | exact H]]).
  - split; [intros [x [[] _]] | intros H; destruct (M_Emp_inv _ _ _ H)].
  - split.
    + intros [x [Hin H]]. apply in_app_or in Hin as [Hin|Hin].
      * apply MAltL. apply IH1. eauto.
      * apply MAltR. apply IH2. eauto.
    + intros H. apply M_Alt_inv in H as [H|H].
      * apply IH1 in H as [x [Hin H]]. exists x. split; [apply in_or_app; auto | exact H].
      * apply IH2 in H as [x [Hin H]]. exists x. split; [apply in_or_app; auto | exact H].
Qed.

Lemma insert_alt_In x l y : In y (insert_alt x l) <-> y = x \/ In y l.
Proof.
  induction l as [|z l IH]; simpl.
  - intuition.
  - destruct (regex_cmp x z) eqn:E.
    + apply regex_cmp_eq in E. subst. simpl. intuition.
    + simpl. intuition.
    + simpl. rewrite IH. intuition.
Qed.

Lemma fold_insert_In l y : In y (fold_right insert_alt [] l) <-> In y l.
Proof.
  induction l as [|x l IH]; simpl; [reflexivity|].
  rewrite insert_alt_In, IH. intuition.
Qed.

Lemma mk_alt_M l p s n : M (mk_alt l) p s n <-> exists x, In x l /\ M x p s n.
Proof.
  induction l as [|x l IH].
  - simpl. split; [intros H; destruct (M_Emp_inv _ _ _ H) | intros [x [[] _]]].
  - destruct l as [|y l].
    + simpl. split; [intros H; eauto | intros [z [[<-|[]] H]]; exact H].
    + change (mk_alt (x :: y :: l)) with (Alt x (mk_alt (y :: l))). split.
      * intros H. apply M_Alt_inv in H as [H|H].
        -- exists x. split; [left; reflexivity | exact H].
        -- apply IH in H as [z [Hin H]]. exists z. split; [right; exact Hin | exact H].
      * intros [z [[<-|Hin] H]]; [apply MAltL; exact H|].
        apply MAltR. apply IH. eauto.
Qed.

Lemma alt_M a b p s n : M (alt a b) p s n <-> M (Alt a b) p s n.
Proof.
  unfold alt. rewrite mk_alt_M. split.
  - intros [x [Hin H]]. apply (proj1 (fold_insert_In _ _)) in Hin. apply in_app_or in Hin as [Hin|Hin].
    + apply MAltL. apply alts_M. eauto.
    + apply MAltR. apply alts_M. eauto.
  - intros H. apply M_Alt_inv in H as [H|H]; apply alts_M in H as [x [Hin H]];
      exists x; (split; [apply (proj2 (fold_insert_In _ _)); apply in_or_app; auto | exact H]).
Qed.

(* ---------- nullable ---------- *)
Lemma pclass_none p : pclass p = PNone <-> p = None.
Proof.
  destruct p as [c|]; simpl; [|tauto]. destruct (c =? 10); split; intros; discriminate.
Qed.

Lemma nullable_M r : forall p n, nullable (pclass p) n r = true <-> M r p [] n.
Proof.
  induction r as [| |rs|a IHa b IHb|a IHa b IHb|a IHa| | | |]; intros p n; simpl.
  - split; [discriminate | intros H; destruct (M_Emp_inv _ _ _ H)].
  - split; [constructor | reflexivity].
  - split; [discriminate|]. intros H. apply M_Cls_inv in H as (c & H & _). discriminate.
  - rewrite andb_true_iff, IHa, IHb. split.
    + intros [H1 H2]. change (@nil N) with (@nil N ++ []). constructor; assumption.
    + intros H. apply M_Cat_inv in H as (s1 & s2 & E & H1 & H2).
      symmetry in E. apply app_eq_nil in E as [-> ->]. auto.
  - rewrite orb_true_iff, IHa, IHb. split.
    + intros [H|H]; [apply MAltL | apply MAltR]; exact H.
    + apply M_Alt_inv.
  - split; [constructor | reflexivity].
  - split.
    + intros H. destruct (pclass p) eqn:E; try discriminate.
      apply pclass_none in E. subst. constructor.
    + intros H. apply M_BeginText_inv in H as [_ ->]. reflexivity.
  - split.
    + intros H. destruct n; [discriminate | constructor].
    + intros H. apply M_EndText_inv in H as [_ ->]. reflexivity.
  - split.
    + intros H. constructor. destruct p as [c|]; simpl in *; [|reflexivity].
      destruct (c =? 10); [reflexivity | discriminate].
    + intros H. apply M_BeginLine_inv in H as [_ H]. destruct p as [c|]; simpl in *; [|reflexivity].
      destruct (c =? 10); [reflexivity | discriminate].
  - split; [intros H; constructor; exact H | intros H; apply M_EndLine_inv in H as [_ H]; exact H].
Qed.

(* ---------- derivatives ---------- *)
Lemma deriv_M r : forall p c s n,
  M (deriv (pclass p) c r) (Some c) s n <-> M r p (c :: s) n.
Proof.
  induction r as [| |rs|a IHa b IHb|a IHa b IHb|a IHa| | | |]; intros p c s n; simpl.
  - split; intros H; [destruct (M_Emp_inv _ _ _ H) | destruct (M_Emp_inv _ _ _ H)].
  - split; intros H; [destruct (M_Emp_inv _ _ _ H) | apply M_Eps_inv in H; discriminate].
  - destruct (in_ranges c rs) eqn:E; split; intros H.
    + apply M_Eps_inv in H. subst. constructor; exact E.
    + apply M_Cls_inv in H as (c' & E' & _). inversion E'; subst. constructor.
    + destruct (M_Emp_inv _ _ _ H).
    + apply M_Cls_inv in H as (c' & E' & Hc). inversion E'; subst. congruence.
  - rewrite alt_M. split.
    + intros H. apply M_Alt_inv in H as [H|H].
      * apply cat_M in H. apply M_Cat_inv in H as (s1 & s2 & -> & H1 & H2).
        apply IHa in H1.
        change (c :: s1 ++ s2) with ((c :: s1) ++ s2). constructor; [exact H1 | exact H2].
      * destruct (nullable (pclass p) (Some c) a) eqn:En; [|destruct (M_Emp_inv _ _ _ H)].
        apply nullable_M in En. apply IHb in H.
        change (c :: s) with ([] ++ c :: s). constructor; [exact En | exact H].
    + intros H. apply M_Cat_inv in H as (s1 & s2 & E & H1 & H2).
      destruct s1 as [|c1 s1]; simpl in E.
      * subst s2. simpl in H1, H2. apply MAltR.
        apply nullable_M in H1. rewrite H1. apply IHb. exact H2.
      * inversion E; subst. apply MAltL. apply cat_M.
        constructor; [apply IHa; exact H1 | exact H2].
  - rewrite alt_M. split.
    + intros H. apply M_Alt_inv in H as [H|H]; [apply MAltL, IHa | apply MAltR, IHb]; exact H.
    + intros H. apply M_Alt_inv in H as [H|H]; [apply MAltL, IHa | apply MAltR, IHb]; exact H.
  - rewrite cat_M. split.
    + intros H. apply M_Cat_inv in H as (s1 & s2 & -> & H1 & H2).
      apply IHa in H1. change (c :: s1 ++ s2) with ((c :: s1) ++ s2).
      apply MStarS; [discriminate | exact H1 | exact H2].
    + intros H. apply M_Star_inv in H as [H|(s1 & s2 & Hne & E & H1 & H2)]; [discriminate|].
      destruct s1 as [|c1 s1]; [congruence|]. inversion E; subst.
      constructor; [apply IHa; exact H1 | exact H2].
  - split; intros H; [destruct (M_Emp_inv _ _ _ H) | apply M_BeginText_inv in H as [H _]; discriminate].
  - split; intros H; [destruct (M_Emp_inv _ _ _ H) | apply M_EndText_inv in H as [H _]; discriminate].
  - split; intros H; [destruct (M_Emp_inv _ _ _ H) | apply M_BeginLine_inv in H as [H _]; discriminate].
  - split; intros H; [destruct (M_Emp_inv _ _ _ H) | apply M_EndLine_inv in H as [H _]; discriminate].
Qed.

Lemma accepts_from_M w : forall r p, accepts_from (pclass p) r w = true <-> M r p w None.
Proof.
  induction w as [|c w IH]; intros r p; simpl.
  - apply nullable_M.
  - rewrite (IH (deriv (pclass p) c r) (Some c)). apply deriv_M.
Qed.

Theorem accepts_M r w : accepts r w = true <-> M r None w None.
Proof. unfold accepts. change PNone with (pclass None). apply accepts_from_M. Qed.

(* ---------- any*, search ---------- *)
Definition wf_runes (w : list N) : Prop := Forall (fun c => c <= max_rune) w.

Lemma in_ranges_any c : in_ranges c [(0, max_rune)] = true <-> c <= max_rune.
Proof.
  unfold in_ranges, in_range; simpl. rewrite orb_false_r, andb_true_iff.
  rewrite N.leb_le, N.leb_le. lia.
Qed.

Lemma M_any_star_intro w : wf_runes w -> forall p n, M any_star p w n.
Proof.
  induction 1 as [|c w Hc Hw IH]; intros p n; [constructor|].
  change (c :: w) with ([c] ++ w). apply MStarS; [discriminate | | apply IH].
  constructor. apply in_ranges_any; exact Hc.
Qed.

Lemma wf_runes_app a b : wf_runes (a ++ b) <-> wf_runes a /\ wf_runes b.
Proof. apply Forall_app. Qed.

Theorem go_match_M r w : wf_runes w ->
  (go_match r w = true <->
   exists a m b, w = a ++ m ++ b /\ M r (last_or a None) m (hd_or b None)).
Proof.
  intros Hw. unfold go_match. rewrite accepts_M. unfold search. split.
  - intros H. apply M_Cat_inv in H as (a & t & -> & _ & H).
    apply M_Cat_inv in H as (m & b & -> & H & _). exists a, m, b. split; [reflexivity | exact H].
  - intros (a & m & b & -> & H).
    apply wf_runes_app in Hw as [Ha Hmb]. apply wf_runes_app in Hmb as [Hm Hb].
    constructor; [apply M_any_star_intro; exact Ha|].
    constructor; [exact H | apply M_any_star_intro; exact Hb].
Qed.
