(* Soundness of lib/RegexDecide.v: a closed state set proves language inclusion. *)
From V Require Import lib.Base lib.Regex lib.RegexDecide proofs.RegexFacts.

(* ---- representatives ---- *)
Lemma rep_fold_le bs c : forall acc, acc <= c ->
  fold_left (fun acc b => if (b <=? c) && (acc <? b) then b else acc) bs acc <= c.
Proof.
  induction bs as [|b bs IH]; intros acc H; simpl; [exact H|].
  apply IH. destruct (b <=? c) eqn:E1; simpl; [|exact H].
  destruct (acc <? b); [apply N.leb_le; exact E1 | exact H].
Qed.

Lemma rep_fold_ge_acc bs c : forall acc,
  acc <= fold_left (fun acc b => if (b <=? c) && (acc <? b) then b else acc) bs acc.
Proof.
  induction bs as [|b bs IH]; intros acc; simpl; [lia|].
  etransitivity; [|apply IH].
  destruct (b <=? c); simpl; [|lia]. destruct (acc <? b) eqn:E; [apply N.ltb_lt in E; lia | lia].
Qed.

Lemma rep_fold_ge bs c b0 : forall acc, In b0 bs -> b0 <= c ->
  b0 <= fold_left (fun acc b => if (b <=? c) && (acc <? b) then b else acc) bs acc.
Proof.
  induction bs as [|b bs IH]; intros acc Hin Hle; simpl; [destruct Hin|].
  destruct Hin as [->|Hin]; [|apply IH; assumption].
  etransitivity; [|apply rep_fold_ge_acc].
  apply N.leb_le in Hle. rewrite Hle. simpl.
  destruct (acc <? b0) eqn:E; [lia | apply N.ltb_ge in E; exact E].
Qed.

Lemma rep_le bs c : rep bs c <= c.
Proof. apply rep_fold_le. lia. Qed.

Lemma rep_ge bs c b : In b bs -> b <= c -> b <= rep bs c.
Proof. apply rep_fold_ge. Qed.

Lemma rep_fold_in bs c : forall acc,
  let r := fold_left (fun acc b => if (b <=? c) && (acc <? b) then b else acc) bs acc in
  r = acc \/ In r bs.
Proof.
  induction bs as [|b bs IH]; intros acc; simpl; [left; reflexivity|].
  destruct (IH (if (b <=? c) && (acc <? b) then b else acc)) as [E|E].
  - rewrite E. destruct ((b <=? c) && (acc <? b)); [right; left; reflexivity | left; reflexivity].
  - right; right; exact E.
Qed.

Lemma rep_in bs c : rep bs c = 0 \/ In (rep bs c) bs.
Proof. apply rep_fold_in. Qed.

Lemma in_range_rep bs c lo hi :
  In lo bs -> In (hi + 1) bs -> in_range c (lo, hi) = in_range (rep bs c) (lo, hi).
Proof.
  intros Hlo Hhi. unfold in_range; simpl.
  pose proof (rep_le bs c) as Hle.
  destruct (lo <=? c) eqn:E1; destruct (c <=? hi) eqn:E2; simpl.
  - apply N.leb_le in E1, E2. pose proof (rep_ge bs c lo Hlo E1).
    symmetry. apply andb_true_iff. rewrite !N.leb_le. lia.
  - apply N.leb_le in E1. apply N.leb_gt in E2.
    assert (hi + 1 <= rep bs c) by (apply rep_ge; [exact Hhi | lia]).
    symmetry. apply andb_false_iff. right. apply N.leb_gt. lia.
  - apply N.leb_gt in E1. symmetry. apply andb_false_iff. left. apply N.leb_gt. lia.
  - apply N.leb_gt in E1. symmetry. apply andb_false_iff. left. apply N.leb_gt. lia.
Qed.

Lemma in_ranges_rep bs c rs :
  forallb (fun x => mem_N (fst x) bs && mem_N (snd x + 1) bs) rs = true ->
  in_ranges c rs = in_ranges (rep bs c) rs.
Proof.
  induction rs as [|[lo hi] rs IH]; simpl; intros H; [reflexivity|].
  apply andb_true_iff in H as [H1 H2]. apply andb_true_iff in H1 as [Ha Hb].
  apply mem_N_In in Ha, Hb. simpl in Ha, Hb.
  unfold in_ranges in *. simpl. rewrite (in_range_rep bs c lo hi Ha Hb), (IH H2). reflexivity.
Qed.

Lemma pclass_rep bs c : In 10 bs -> In 11 bs -> pclass (Some c) = pclass (Some (rep bs c)).
Proof.
  intros H10 H11. simpl.
  pose proof (rep_le bs c). 
  destruct (c =? 10) eqn:E.
  - apply N.eqb_eq in E. subst. assert (10 <= rep bs 10) by (apply rep_ge; [exact H10 | lia]).
    replace (rep bs 10) with 10 by lia. reflexivity.
  - apply N.eqb_neq in E. destruct (rep bs c =? 10) eqn:E2; [|reflexivity].
    apply N.eqb_eq in E2. assert (11 <= c -> 11 <= rep bs c) by (intros; apply rep_ge; assumption). lia.
Qed.

Lemma nullable_rep bs p c r : In 10 bs -> In 11 bs ->
  nullable p (Some c) r = nullable p (Some (rep bs c)) r.
Proof.
  intros H10 H11. induction r; simpl; try reflexivity; try congruence.
  assert (E : is_nl (Some c) = is_nl (Some (rep bs c))).
  { pose proof (pclass_rep bs c H10 H11) as E. simpl in *.
    destruct (c =? 10); destruct (rep bs c =? 10); try reflexivity; discriminate. }
  simpl in E. rewrite E. reflexivity.
Qed.

Lemma deriv_rep bs p c r : In 10 bs -> In 11 bs -> ranges_ok bs r = true ->
  deriv p c r = deriv p (rep bs c) r.
Proof.
  intros H10 H11. induction r as [| |rs|a IHa b IHb|a IHa b IHb|a IHa| | | |]; simpl; intros H;
    try reflexivity.
  - rewrite (in_ranges_rep bs c rs H). reflexivity.
  - apply andb_true_iff in H as [Ha Hb].
    rewrite (IHa Ha), (IHb Hb), (nullable_rep bs p c a H10 H11). reflexivity.
  - apply andb_true_iff in H as [Ha Hb]. rewrite (IHa Ha), (IHb Hb). reflexivity.
  - rewrite (IHa H). reflexivity.
Qed.

(* ---- state membership ---- *)
Lemma pctx_eqb_eq a b : pctx_eqb a b = true -> a = b.
Proof. destruct a, b; simpl; intros; try discriminate; reflexivity. Qed.

Lemma st_mem_spec x l : st_mem x l = true ->
  exists y, In y l /\ st_p y = st_p x /\ st_a y = st_a x /\ st_b y = st_b x.
Proof.
  unfold st_mem. rewrite existsb_exists. intros [y [Hin E]]. exists y. split; [exact Hin|].
  unfold st_eqb in E. apply andb_true_iff in E as [E E3]. apply andb_true_iff in E as [E1 E2].
  apply pctx_eqb_eq in E1. apply regex_eqb_eq in E2, E3. auto.
Qed.

(* ---- the main induction ---- *)
Lemma closed_sound bs reps S0 l : closed bs reps S0 l = true ->
  forall w x, In x l -> accepts_from (st_p x) (st_a x) w = true ->
              accepts_from (st_p x) (st_b x) w = true.
Proof.
  unfold closed. intros H.
  repeat (apply andb_true_iff in H as [H ?]).
  match goal with H : forallb _ l = true |- _ => rename H into Hall end.
  match goal with H : mem_N 0 reps = true |- _ => apply mem_N_In in H; rename H into H0 end.
  match goal with H : forallb _ bs = true |- _ => rename H into Hbs end.
  match goal with H : mem_N 11 bs = true |- _ => apply mem_N_In in H; rename H into H11 end.
  apply mem_N_In in H. rename H into H10.
  rewrite forallb_forall in Hall. rewrite forallb_forall in Hbs.
  induction w as [|c w IH]; intros x Hin Hacc; cbn [accepts_from] in *.
  - specialize (Hall x Hin). repeat (apply andb_true_iff in Hall as [Hall ?]).
    match goal with H : negb (bad x) = true |- _ => unfold bad in H; rewrite Hacc in H; simpl in H end.
    match goal with H : negb (negb _) = true |- _ => rewrite negb_involutive in H; exact H end.
  - pose proof (Hall x Hin) as Hx. repeat (apply andb_true_iff in Hx as [Hx ?]).
    match goal with H : forallb _ reps = true |- _ => rename H into Hsucc end.
    match goal with H : ranges_ok bs (st_b x) = true |- _ => rename H into Hrb end.
    rename Hx into Hra.
    rewrite forallb_forall in Hsucc.
    assert (Hrep : In (rep bs c) reps).
    { destruct (rep_in bs c) as [E|E]; [rewrite E; exact H0 | apply mem_N_In, Hbs, E]. }
    specialize (Hsucc _ Hrep). apply st_mem_spec in Hsucc as (y & Hy & Ep & Ea & Eb).
    unfold succ in Ep, Ea, Eb; cbn [st_p st_a st_b] in Ep, Ea, Eb.
    rewrite (deriv_rep bs _ c _ H10 H11 Hrb), (pclass_rep bs c H10 H11).
    rewrite (deriv_rep bs _ c _ H10 H11 Hra), (pclass_rep bs c H10 H11) in Hacc.
    rewrite <- Ep, <- Eb. apply IH; [exact Hy|].
    rewrite Ep, Ea. exact Hacc.
Qed.

Theorem incl_check_sound fuel r1 r2 :
  incl_check fuel r1 r2 = Included ->
  forall w, accepts r1 w = true -> accepts r2 w = true.
Proof.
  unfold incl_check.
  destruct (explore _ _ _ _) as [l|]; [|discriminate].
  destruct (find bad l); [destruct (_ && _); discriminate|].
  destruct (closed _ _ _ l) eqn:Hc; [|discriminate].
  intros _ w Hw.
  pose proof Hc as Hc'. unfold closed in Hc'.
  repeat (apply andb_true_iff in Hc' as [Hc' ?]).
  match goal with H : st_mem _ l = true |- _ => apply st_mem_spec in H as (y & Hy & Ep & Ea & Eb) end.
  simpl in Ep, Ea, Eb.
  pose proof (closed_sound _ _ _ _ Hc w y Hy) as Hs.
  rewrite Ep, Ea, Eb in Hs. apply Hs. exact Hw.
Qed.

Theorem incl_check_cex fuel r1 r2 w :
  incl_check fuel r1 r2 = Counterexample w ->
  accepts r1 w = true /\ accepts r2 w = false.
Proof.
  unfold incl_check.
  destruct (explore _ _ _ _) as [l|]; [|discriminate].
  destruct (find bad l) as [x|].
  - destruct (accepts r1 (rev (st_w x)) && negb (accepts r2 (rev (st_w x)))) eqn:E; [|discriminate].
    intros H. inversion H; subst. apply andb_true_iff in E as [E1 E2].
    apply negb_true_iff in E2. auto.
  - destruct (closed _ _ _ l); discriminate.
Qed.

Corollary incl_ok_sound r1 r2 : incl_ok r1 r2 = true ->
  forall w, accepts r1 w = true -> accepts r2 w = true.
Proof.
  unfold incl_ok. destruct (incl_check 5000 r1 r2) eqn:E; simpl; try discriminate.
  intros _. eapply incl_check_sound; exact E.
Qed.

Corollary equiv_ok_sound r1 r2 : equiv_ok r1 r2 = true ->
  forall w, accepts r1 w = accepts r2 w.
Proof.
  unfold equiv_ok. intros H. apply andb_true_iff in H as [H1 H2]. intros w.
  pose proof (incl_ok_sound _ _ H1 w). pose proof (incl_ok_sound _ _ H2 w).
  destruct (accepts r1 w), (accepts r2 w); auto; try (symmetry; auto).
Qed.

(* go_match versions, what the models use *)
Corollary go_incl r1 r2 : incl_ok (search r1) (search r2) = true ->
  forall w, go_match r1 w = true -> go_match r2 w = true.
Proof. intros H w. apply incl_ok_sound; exact H. Qed.

Corollary go_equiv r1 r2 : equiv_ok (search r1) (search r2) = true ->
  forall w, go_match r1 w = go_match r2 w.
Proof. intros H w. apply equiv_ok_sound; exact H. Qed.
