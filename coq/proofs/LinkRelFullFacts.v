(* C02: the full statement about code-loading URL attributes, for all rel values: the HTML standard's
   splitting of the rel value (ASCII white space, ASCII case-insensitive) against the engine's
   (strings.Fields on the lower-cased, decoded value). *)
From V Require Import lib.Base lib.Regex lib.Utf8 gen.GenRegex gen.GenPolicy gen.GenTemplate.
From V Require Import model.GoStrings model.HtmlUnescape model.TContext model.TSanitize.
From V Require Import spec.CodeContextSpec spec.CodeContextPolicy proofs.Utf8Facts proofs.Utf8AsciiFacts proofs.LinkRelFacts proofs.CodeContextFacts.
From Coq Require Import Lia ZifyBool ZifyN.
Local Open Scope N_scope.

(* ---- the tokens of the HTML standard's rel splitting are fields of Go's strings.Fields when they are ASCII words ---- *)

(* a token found by cc_split_aux: where it stands in the input *)
Lemma cc_split_In t : forall s cur, Forall (fun c => cc_ws c = false) cur -> In t (cc_split_aux cur s) ->
  exists pre post, rev cur ++ s = pre ++ t ++ post /\
    (pre = [] \/ exists p w, pre = p ++ [w] /\ cc_ws w = true) /\
    (post = [] \/ exists w q, post = w :: q /\ cc_ws w = true) /\
    Forall (fun c => cc_ws c = false) t /\ t <> [].
Proof.
  induction s as [|c s IH]; intros cur Hcur Hin; cbn [cc_split_aux] in Hin.
  - destruct cur as [|x cur']; [contradiction|]. destruct Hin as [<-|[]].
    exists [], []. rewrite !app_nil_r. cbn [app]. split; [reflexivity|]. split; [left; reflexivity|]. split; [left; reflexivity|].
    split; [apply Forall_rev; exact Hcur|]. intros E. apply (f_equal (@length N)) in E. rewrite rev_length in E. discriminate E.
  - destruct (cc_ws c) eqn:Ec.
    + destruct cur as [|x cur'].
      * destruct (IH [] (Forall_nil _) Hin) as (pre & post & E & Hp & Hq & Ht & Hn).
        cbn [rev app] in *. exists (c :: pre), post. split; [rewrite E; reflexivity|].
        split; [right|auto].
        destruct Hp as [->|(p & w & -> & Hw)]; [exists [], c; auto | exists (c :: p), w; auto].
      * destruct Hin as [<-|Hin].
        -- exists [], (c :: s). cbn [app]. split; [reflexivity|]. split; [left; reflexivity|]. split; [right; exists c, s; auto|].
           split; [apply Forall_rev; exact Hcur|]. intros E. apply (f_equal (@length N)) in E. rewrite rev_length in E. discriminate E.
        -- destruct (IH [] (Forall_nil _) Hin) as (pre & post & E & Hp & Hq & Ht & Hn).
           cbn [rev app] in E. exists (rev (x :: cur') ++ c :: pre), post. split; [rewrite E, <- !app_assoc; reflexivity|].
           split; [right|auto].
           destruct Hp as [->|(p & w & -> & Hw)].
           ++ exists (rev (x :: cur')), c. split; [reflexivity | exact Ec].
           ++ exists (rev (x :: cur') ++ c :: p), w. split; [rewrite <- app_assoc; reflexivity | exact Hw].
    + destruct (IH (c :: cur) (Forall_cons _ Ec Hcur) Hin) as (pre & post & E & Hp & Hq & Ht & Hn).
      exists pre, post. split; [|auto]. rewrite <- E. cbn [rev]. rewrite <- app_assoc. reflexivity.
Qed.

(* strings.Fields: a run of non-space runes between spaces (or the ends) is a field *)
Lemma fields_aux_run t : forall cur post, Forall (fun r => is_unicode_space r = false) t ->
  (post = [] \/ exists w q, post = w :: q /\ is_unicode_space w = true) -> (cur <> [] \/ t <> []) ->
  In (rev cur ++ t) (fields_aux cur (t ++ post)).
Proof.
  induction t as [|r t IH]; intros cur post Ht Hq Hne.
  - cbn [app]. rewrite app_nil_r. destruct Hne as [Hne|Hne]; [|congruence].
    destruct Hq as [->|(w & q & -> & Hw)]; cbn [fields_aux].
    + destruct cur; [congruence | left; reflexivity].
    + rewrite Hw. destruct cur; [congruence | left; reflexivity].
  - inversion Ht as [|? ? Hr Ht']; subst. cbn [app fields_aux]. rewrite Hr.
    replace (rev cur ++ r :: t) with (rev (r :: cur) ++ t) by (cbn [rev]; rewrite <- app_assoc; reflexivity).
    apply IH; [exact Ht' | exact Hq | left; discriminate].
Qed.

Lemma fields_aux_skip x rest : In x (fields_aux [] rest) -> forall pre cur w,
  is_unicode_space w = true -> In x (fields_aux cur (pre ++ w :: rest)).
Proof.
  intros Hin. induction pre as [|p pre IH]; intros cur w Hw; cbn [app fields_aux].
  - rewrite Hw. destruct cur; [exact Hin | right; exact Hin].
  - destruct (is_unicode_space p).
    + destruct cur; [apply IH; exact Hw | right; apply IH; exact Hw].
    + apply IH. exact Hw.
Qed.

Lemma decode_ascii_run t : Forall (fun c => c < 128) t -> forall rest, decode_runes (t ++ rest) = t ++ decode_runes rest.
Proof.
  induction 1 as [|c t Hc Ht IH]; intros rest; [reflexivity|]. cbn [app]. rewrite decode_ascii by exact Hc. rewrite IH. reflexivity.
Qed.

Lemma encode_ascii_run t : Forall (fun c => c < 128) t -> encode_runes t = t.
Proof.
  induction 1 as [|c t Hc Ht IH]; [reflexivity|]. unfold encode_runes in *. cbn [flat_map]. rewrite encode_rune_ascii by exact Hc. rewrite IH. reflexivity.
Qed.

Lemma cc_ws_space w : cc_ws w = true -> is_unicode_space w = true /\ w < 128.
Proof. unfold cc_ws, is_unicode_space. intros H. split; lia. Qed.

(* an ASCII word that is a token of the HTML standard's splitting is a field of strings.Fields *)
Lemma token_is_field rel t : In t (cc_split_aux [] rel) ->
  Forall (fun c => c < 128 /\ is_unicode_space c = false) t -> In t (fields rel).
Proof.
  intros Hin Hascii. destruct (cc_split_In t rel [] (Forall_nil _) Hin) as (pre & post & E & Hp & Hq & Ht & Hn).
  cbn [rev app] in E. subst rel.
  assert (Ha : Forall (fun c => c < 128) t) by (eapply Forall_impl; [|exact Hascii]; intros a [H _]; exact H).
  assert (Hs : Forall (fun r => is_unicode_space r = false) t) by (eapply Forall_impl; [|exact Hascii]; intros a [_ H]; exact H).
  unfold fields. apply in_map_iff. exists t. split; [apply encode_ascii_run; exact Ha|].
  unfold fields_runes.
  assert (Hpost : exists post', decode_runes (t ++ post) = t ++ post' /\ (post' = [] \/ exists w q, post' = w :: q /\ is_unicode_space w = true)).
  { rewrite decode_ascii_run by exact Ha. exists (decode_runes post). split; [reflexivity|].
    destruct Hq as [->|(w & q & -> & Hw)]; [left; reflexivity|]. destruct (cc_ws_space w Hw) as [Hu Hl].
    right. exists w, (decode_runes q). split; [apply decode_ascii; exact Hl | exact Hu]. }
  destruct Hpost as (post' & Ed & Hq').
  destruct Hp as [->|(p & w & -> & Hw)].
  - cbn [app]. rewrite Ed. apply (fields_aux_run t [] post' Hs Hq'). right. exact Hn.
  - destruct (cc_ws_space w Hw) as [Hu Hl]. rewrite <- app_assoc. cbn [app].
    rewrite decode_app_ascii by exact Hl. rewrite Ed.
    apply fields_aux_skip; [|exact Hu]. apply (fields_aux_run t [] post' Hs Hq'). right. exact Hn.
Qed.

Lemma cc_lower_letter b l : cc_lower b = l -> (97 <= l <= 122) -> b < 128 /\ is_unicode_space b = false.
Proof. unfold cc_lower, is_unicode_space. intros H Hl. destruct ((65 <=? b) && (b <=? 90)) eqn:E; lia. Qed.

Lemma stylesheet_word_ascii t : map cc_lower t = B "stylesheet" -> Forall (fun c => c < 128 /\ is_unicode_space c = false) t.
Proof.
  intros H. change (B "stylesheet") with [115; 116; 121; 108; 101; 115; 104; 101; 101; 116] in H.
  do 10 (destruct t as [|? t]; [discriminate H|]). destruct t; [|discriminate H].
  cbn [map] in H. inversion H.
  repeat constructor; eapply cc_lower_letter; try eassumption; lia.
Qed.

Lemma no_listed_value_is_stylesheet :
  forallb (fun v => negb (bytes_eqb (map cc_lower v) (B "stylesheet"))) P_urlLinkRelVals = true.
Proof. vm_compute. reflexivity. Qed.

(* the standard's reading of the rel value makes the link a style sheet  =>  the engine's reading has a
   value that is not allow-listed  =>  TrustedResourceURL only *)
Theorem stylesheet_rel_not_all_listed rel : rel_is_stylesheet rel = true -> all_url_rel_vals rel = false.
Proof.
  unfold rel_is_stylesheet, cc_mem, cc_tokens. intros H. apply existsb_exists in H. destruct H as (x & Hin & Hx).
  apply bytes_eqb_eq in Hx. apply in_map_iff in Hin. destruct Hin as (t & Ht & Hin). subst x.
  pose proof (stylesheet_word_ascii t (eq_sym Hx)) as Ha.
  apply (some_value_not_listed rel t (token_is_field rel t Hin Ha)).
  destruct (mem_bytes t P_urlLinkRelVals) eqn:Em; [|reflexivity]. exfalso.
  unfold mem_bytes in Em. apply existsb_exists in Em. destruct Em as (v & Hv & Ev). apply bytes_eqb_eq in Ev. subst v.
  pose proof no_listed_value_is_stylesheet as Hn. rewrite forallb_forall in Hn. specialize (Hn t Hv).
  rewrite <- Hx in Hn. rewrite bytes_eqb_refl in Hn. discriminate Hn.
Qed.

(* C02, the full statement about code-loading URL attributes (after the repair of D3): whenever the
   HTML standard makes (element, attribute, rel) a URL that loads code or a style sheet, the engine's
   context is TrustedResourceURL - for ALL element names, attribute names and rel values *)
Theorem code_loading_full e a rel sc :
  code_loading_url_attr e a rel = true -> sc_for_attr_val e a rel = Some sc ->
  sc_sanitizer_name sc = B "_sanitizeTrustedResourceURL" /\ sc_is_url sc = true.
Proof.
  intros H Hsc. destruct (bytes_eqb e (B "link")) eqn:El.
  - apply bytes_eqb_eq in El. subst e.
    assert (Hl : bytes_eqb a (B "href") = true /\ rel_is_stylesheet rel = true).
    { unfold code_loading_url_attr in H.
      assert (Z1 : cc_mem (B "link") [B "script"; B "iframe"; B "frame"; B "embed"] = false) by (vm_compute; reflexivity).
      assert (Z2 : bytes_eqb (B "link") (B "object") = false) by (vm_compute; reflexivity).
      assert (Z3 : bytes_eqb (B "link") (B "base") = false) by (vm_compute; reflexivity).
      rewrite Z1, Z2, Z3, bytes_eqb_refl in H. rewrite andb_false_r in H. cbn [andb orb] in H.
      apply andb_true_iff in H. exact H. }
    destruct Hl as (Ha & Hr). apply bytes_eqb_eq in Ha. subst a.
    rewrite (link_href_tables rel (stylesheet_rel_not_all_listed rel Hr)) in Hsc. inversion Hsc; subst sc.
    split; vm_compute; reflexivity.
  - apply (code_loading_partial e a rel sc H); [|exact Hsc].
    intros ->. rewrite bytes_eqb_refl in El. discriminate El.
Qed.
