(* More facts about Go's UTF-8 decoding (lib/Utf8.v): an ASCII byte is a synchronisation
   point.  Decoding splits at every ASCII byte, and the ASCII bytes of a string are exactly
   the ASCII runes of its decoding, in the same order. *)
From V Require Import lib.Base lib.Utf8 proofs.Utf8Facts.
From Coq Require Import ZifyBool ZifyN.
Local Open Scope N_scope.

Lemma decode_unfold b0 r0 :
  decode_runes (b0 :: r0) =
  if b0 <? 128 then b0 :: decode_runes r0
  else if (194 <=? b0) && (b0 <=? 223) then
    match r0 with
    | b1 :: r1 =>
        if cont b1 then ((b0 - 192) * 64 + (b1 - 128)) :: decode_runes r1
        else FFFD :: decode_runes r0
    | _ => FFFD :: decode_runes r0
    end
  else if (224 <=? b0) && (b0 <=? 239) then
    match r0 with
    | b1 :: b2 :: r2 =>
        if acc3 b0 b1 && cont b2
        then ((b0 - 224) * 4096 + (b1 - 128) * 64 + (b2 - 128)) :: decode_runes r2
        else FFFD :: decode_runes r0
    | _ => FFFD :: decode_runes r0
    end
  else if (240 <=? b0) && (b0 <=? 244) then
    match r0 with
    | b1 :: b2 :: b3 :: r3 =>
        if acc4 b0 b1 && cont b2 && cont b3
        then ((b0 - 240) * 262144 + (b1 - 128) * 4096 + (b2 - 128) * 64 + (b3 - 128))
               :: decode_runes r3
        else FFFD :: decode_runes r0
    | _ => FFFD :: decode_runes r0
    end
  else FFFD :: decode_runes r0.
Proof. reflexivity. Qed.

Lemma cont_ascii c : c < 128 -> cont c = false.
Proof. unfold cont. lia. Qed.
Lemma acc3_ascii b0 c : c < 128 -> acc3 b0 c = false.
Proof. unfold acc3, cont. destruct (b0 =? 224); [lia|]. destruct (b0 =? 237); lia. Qed.
Lemma acc4_ascii b0 c : c < 128 -> acc4 b0 c = false.
Proof. unfold acc4, cont. destruct (b0 =? 240); [lia|]. destruct (b0 =? 244); lia. Qed.

(* decoding splits at an ASCII byte *)
Lemma decode_app_ascii a c b : c < 128 ->
  decode_runes (a ++ c :: b) = decode_runes a ++ c :: decode_runes b.
Proof.
  intros Hc.
  assert (H : forall n (a : bytes), (length a <= n)%nat ->
            decode_runes (a ++ c :: b) = decode_runes a ++ c :: decode_runes b).
  { induction n as [|n IH]; intros [|b0 a'] Hl; simpl in Hl; try lia;
      try (cbn [app]; rewrite decode_ascii by exact Hc; reflexivity).
    pose proof (cont_ascii c Hc) as Hcc.
    assert (IH0 : decode_runes (c :: b) = c :: decode_runes b) by (apply decode_ascii; exact Hc).
    cbn [app]. rewrite (decode_unfold b0 (a' ++ c :: b)), (decode_unfold b0 a').
    destruct (b0 <? 128).
    { rewrite IH by lia. reflexivity. }
    destruct ((194 <=? b0) && (b0 <=? 223)).
    { destruct a' as [|b1 a'']; cbn [app].
      - rewrite Hcc, IH0. reflexivity.
      - simpl in Hl. destruct (cont b1).
        + rewrite IH by lia. reflexivity.
        + change (b1 :: a'' ++ c :: b) with ((b1 :: a'') ++ c :: b); rewrite (IH (b1 :: a'')) by (simpl in *; lia). reflexivity. }
    destruct ((224 <=? b0) && (b0 <=? 239)).
    { destruct a' as [|b1 [|b2 a'']]; cbn [app].
      - destruct b as [|b2 r2].
        + rewrite IH0. reflexivity.
        + rewrite (acc3_ascii b0 c Hc). cbn [andb]. rewrite IH0. reflexivity.
      - rewrite Hcc, andb_false_r. change (b1 :: c :: b) with ([b1] ++ c :: b); rewrite (IH [b1]) by (simpl in *; lia). reflexivity.
      - simpl in Hl. destruct (acc3 b0 b1 && cont b2).
        + rewrite IH by lia. reflexivity.
        + change (b1 :: b2 :: a'' ++ c :: b) with ((b1 :: b2 :: a'') ++ c :: b); rewrite (IH (b1 :: b2 :: a'')) by (simpl in *; lia). reflexivity. }
    destruct ((240 <=? b0) && (b0 <=? 244)).
    { destruct a' as [|b1 [|b2 [|b3 a'']]]; cbn [app].
      - destruct b as [|b2 [|b3 r3]]; try (rewrite IH0; reflexivity).
        rewrite (acc4_ascii b0 c Hc). cbn [andb]. rewrite IH0. reflexivity.
      - destruct b as [|b3 r3].
        + change (b1 :: [c]) with ([b1] ++ [c]). rewrite (IH [b1]) by (simpl in *; lia). reflexivity.
        + rewrite Hcc, andb_false_r. cbn [andb].
          change (b1 :: c :: b3 :: r3) with ([b1] ++ c :: b3 :: r3).
          rewrite (IH [b1]) by (simpl in *; lia). reflexivity.
      - rewrite Hcc, andb_false_r. change (b1 :: b2 :: c :: b) with ([b1; b2] ++ c :: b); rewrite (IH [b1; b2]) by (simpl in *; lia). reflexivity.
      - simpl in Hl. destruct (acc4 b0 b1 && cont b2 && cont b3).
        + rewrite IH by lia. reflexivity.
        + change (b1 :: b2 :: b3 :: a'' ++ c :: b) with ((b1 :: b2 :: b3 :: a'') ++ c :: b); rewrite (IH (b1 :: b2 :: b3 :: a'')) by (simpl in *; lia). reflexivity. }
    rewrite IH by lia. reflexivity. }
  apply (H (length a)). lia.
Qed.

(* conversely, an ASCII rune of the decoding comes from that very byte *)
Lemma decode_split_ascii (s : bytes) : forall q c r, c < 128 ->
  decode_runes s = q ++ c :: r ->
  exists a b, s = a ++ c :: b /\ decode_runes a = q /\ decode_runes b = r.
Proof.
  assert (H : forall n (s : bytes), (length s <= n)%nat -> forall q c r, c < 128 ->
            decode_runes s = q ++ c :: r ->
            exists a b, s = a ++ c :: b /\ decode_runes a = q /\ decode_runes b = r).
  { induction n as [|n IH]; intros s0 Hl q c r Hc E.
    - destruct s0; [|simpl in Hl; lia]. destruct q; discriminate.
    - destruct q as [|x q'].
      + cbn [app] in E. destruct (decode_cons_ascii _ _ _ E Hc) as (s' & -> & ->).
        exists [], s'. repeat split; reflexivity.
      + destruct s0 as [|b0 r0]; [discriminate|]. simpl in Hl.
        destruct (decode_step b0 r0) as (x' & k & Ek & _ & _).
        pose proof E as E'. rewrite Ek in E'. cbn [app] in E'. inversion E' as [[Ex Et]].
        assert (Hlen : (length (skipn k r0) <= n)%nat) by (rewrite skipn_length; lia).
        destruct (IH _ Hlen q' c r Hc Et) as (a' & b & Es & Ea & Eb).
        exists (b0 :: firstn k r0 ++ a'), b.
        assert (Es0 : b0 :: r0 = (b0 :: firstn k r0 ++ a') ++ c :: b).
        { cbn [app]. rewrite <- app_assoc, <- Es, firstn_skipn. reflexivity. }
        split; [exact Es0|]. split; [|exact Eb].
        rewrite Es0, (decode_app_ascii _ c b Hc), Eb in E.
        change ((x :: q') ++ c :: r) with ((x :: q') ++ (c :: r)) in E.
        apply app_inv_tail in E. exact E. }
  intros q c r. apply (H (length s)). lia.
Qed.

Lemma decode_in_ascii (s : bytes) c : c < 128 -> (In c s <-> In c (decode_runes s)).
Proof.
  intros Hc. split; intros H.
  - apply in_split in H as (a & b & ->). rewrite decode_app_ascii by exact Hc.
    apply in_or_app. right. left. reflexivity.
  - apply in_split in H as (q & r & E).
    destruct (decode_split_ascii s q c r Hc E) as (a & b & -> & _ & _).
    apply in_or_app. right. left. reflexivity.
Qed.
