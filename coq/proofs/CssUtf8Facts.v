(* UTF-8 facts needed for the CSS string round trip: decoded runes are valid scalar values,
   and decoding the encoding of a valid rune gives the rune back. *)
From V Require Import lib.Base lib.Utf8 proofs.Utf8Facts.
From Coq Require Import ZArith ZifyBool ZifyN.
Local Open Scope N_scope.
Ltac Zify.zify_post_hook ::= Z.div_mod_to_equations.

Definition valid_rune (c : N) : Prop := c <= 1114111 /\ is_surrogate c = false.

Lemma decode_step_valid b0 r0 :
  exists c k, decode_runes (b0 :: r0) = c :: decode_runes (skipn k r0) /\ valid_rune c.
Proof.
  unfold valid_rune, is_surrogate.
  destruct (N.lt_ge_cases b0 128) as [Hb|Hb].
  { exists b0, O. rewrite decode_ascii by exact Hb. simpl. split; [reflexivity|lia]. }
  cbn [decode_runes].
  destruct (b0 <? 128) eqn:E0; [lia|].
  assert (HF : exists c k, FFFD :: decode_runes r0 = c :: decode_runes (skipn k r0) /\
                            (c <= 1114111 /\ (55296 <=? c) && (c <=? 57343) = false)).
  { exists FFFD, O. simpl. unfold FFFD. split; [reflexivity|lia]. }
  destruct ((194 <=? b0) && (b0 <=? 223)) eqn:E2.
  { destruct r0 as [|b1 r1]; [exact HF|].
    destruct (cont b1) eqn:C1; [|exact HF].
    eexists; exists 1%nat; split; [reflexivity|]. unfold cont in C1. lia. }
  destruct ((224 <=? b0) && (b0 <=? 239)) eqn:E3.
  { destruct r0 as [|b1 [|b2 r2]]; try exact HF.
    destruct (acc3 b0 b1 && cont b2) eqn:C; [|exact HF].
    eexists; exists 2%nat; split; [reflexivity|].
    unfold acc3, cont in C.
    destruct (b0 =? 224) eqn:Ea; [lia|]. destruct (b0 =? 237) eqn:Eb; lia. }
  destruct ((240 <=? b0) && (b0 <=? 244)) eqn:E4.
  { destruct r0 as [|b1 [|b2 [|b3 r3]]]; try exact HF.
    destruct (acc4 b0 b1 && cont b2 && cont b3) eqn:C; [|exact HF].
    eexists; exists 3%nat; split; [reflexivity|].
    unfold acc4, cont in C.
    destruct (b0 =? 240) eqn:Ea; [lia|]. destruct (b0 =? 244) eqn:Eb; lia. }
  exact HF.
Qed.

Lemma decode_runes_valid s : Forall valid_rune (decode_runes s).
Proof.
  assert (H : forall n (s : bytes), (length s <= n)%nat -> Forall valid_rune (decode_runes s)).
  { induction n as [|n IH]; intros [|b0 r0] Hl; try (simpl; constructor); simpl in Hl; try lia.
    destruct (decode_step_valid b0 r0) as (c & k & E & Hc). rewrite E. constructor; [exact Hc|].
    apply IH. rewrite skipn_length. lia. }
  apply (H (length s)). lia.
Qed.

Lemma decode_encode c r : valid_rune c -> decode_runes (encode_rune c ++ r) = c :: decode_runes r.
Proof.
  intros [Hm Hs]. unfold encode_rune.
  destruct (c <? 128) eqn:E1.
  { cbn [app]. apply decode_ascii. lia. }
  destruct (c <? 2048) eqn:E2.
  { cbn [app decode_runes].
    destruct (192 + c / 64 <? 128) eqn:A1; [lia|].
    destruct ((194 <=? 192 + c / 64) && (192 + c / 64 <=? 223)) eqn:A2; [|lia].
    destruct (cont (128 + c mod 64)) eqn:A3; [|unfold cont in A3; lia].
    f_equal. lia. }
  rewrite Hs. cbn [orb].
  destruct (1114111 <? c) eqn:E3; [lia|].
  unfold is_surrogate in Hs.
  destruct (c <? 65536) eqn:E4.
  { cbn [app decode_runes].
    destruct (224 + c / 4096 <? 128) eqn:A1; [lia|].
    destruct ((194 <=? 224 + c / 4096) && (224 + c / 4096 <=? 223)) eqn:A2; [lia|].
    destruct ((224 <=? 224 + c / 4096) && (224 + c / 4096 <=? 239)) eqn:A3; [|lia].
    destruct (acc3 (224 + c / 4096) (128 + (c / 64) mod 64) && cont (128 + c mod 64)) eqn:A4.
    - f_equal. lia.
    - exfalso. unfold acc3, cont in A4.
      destruct (224 + c / 4096 =? 224) eqn:B1; [lia|].
      destruct (224 + c / 4096 =? 237) eqn:B2; lia. }
  cbn [app decode_runes].
  destruct (240 + c / 262144 <? 128) eqn:A1; [lia|].
  destruct ((194 <=? 240 + c / 262144) && (240 + c / 262144 <=? 223)) eqn:A2; [lia|].
  destruct ((224 <=? 240 + c / 262144) && (240 + c / 262144 <=? 239)) eqn:A3; [lia|].
  destruct ((240 <=? 240 + c / 262144) && (240 + c / 262144 <=? 244)) eqn:A4; [|lia].
  destruct (acc4 (240 + c / 262144) (128 + (c / 4096) mod 64) && cont (128 + (c / 64) mod 64) && cont (128 + c mod 64)) eqn:A5.
  - f_equal. lia.
  - exfalso. unfold acc4, cont in A5.
    destruct (240 + c / 262144 =? 240) eqn:B1; [lia|].
    destruct (240 + c / 262144 =? 244) eqn:B2; lia.
Qed.

(* bytes of the encoding of a non-ASCII rune are all >= 128 *)
Lemma encode_nonascii c : 128 <= c -> Forall (fun b => 128 <= b) (encode_rune c).
Proof.
  intros Hc. unfold encode_rune.
  destruct (c <? 128) eqn:E1; [lia|].
  destruct (c <? 2048); [repeat constructor; lia|].
  destruct (is_surrogate c || (1114111 <? c)); [repeat constructor; lia|].
  destruct (c <? 65536); repeat constructor; lia.
Qed.
