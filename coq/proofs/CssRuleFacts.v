(* C16: proofs about model/CssRule.v against spec/CssRuleSpec.v. *)
From V Require Import lib.Base lib.Regex lib.RegexDecide lib.Utf8 gen.GenRegex gen.GenTables gen.GenStyle
  spec.CssSyntax model.CssRule spec.CssRuleSpec.
From V Require Import proofs.RegexFacts proofs.RegexDecideFacts proofs.RegexSpecs proofs.Utf8Facts.
From Coq Require Import ZifyBool ZifyN.
Local Open Scope N_scope.

(* ------------------------------------------------------------------ side conditions on regenerated data *)
Lemma layout_ok_ok : layout_ok = true. Proof. vm_compute. reflexivity. Qed.
Lemma brackets_ok_ok : brackets_ok = true. Proof. vm_compute. reflexivity. Qed.
Lemma bridge_string_ok : bridge_string = true. Proof. vm_compute. reflexivity. Qed.
Lemma bridge_string_rev_ok : bridge_string_rev = true. Proof. vm_compute. reflexivity. Qed.
Lemma bridge_invalid_rune_ok : bridge_invalid_rune = true. Proof. vm_compute. reflexivity. Qed.

(* ------------------------------------------------------------------ layout *)
Lemma layout_parts : cssrule_pre = [] /\ cssrule_mid = [123] /\ cssrule_post = [125].
Proof.
  pose proof layout_ok_ok as H. unfold layout_ok in H.
  apply andb_true_iff in H as [H H3]. apply andb_true_iff in H as [H H2]. apply andb_true_iff in H as [_ H1].
  apply bytes_eqb_eq in H1, H2, H3. auto.
Qed.

Theorem css_rule_layout sel st o : css_rule sel st = Some o -> o = sel ++ [123] ++ st ++ [125].
Proof.
  unfold css_rule. destruct layout_parts as (-> & -> & ->).
  destruct (existsb (N.eqb 60) sel); [discriminate|].
  destruct (has_invalid_selector_rune (strip_strings sel)); [discriminate|].
  destruct (negb (has_balanced_brackets (strip_strings sel))); [discriminate|].
  intros H. inversion H. reflexivity.
Qed.
