(* C16: proofs about model/CssRule.v against spec/CssRuleSpec.v. *)
From V Require Import lib.Base lib.Regex lib.RegexDecide lib.Utf8 gen.GenRegex gen.GenTables gen.GenStyle
  spec.CssSyntax model.CssRule spec.CssRuleSpec.
From V Require Import proofs.RegexFacts proofs.RegexDecideFacts proofs.RegexSpecs proofs.Utf8Facts.
From Coq Require Import ZifyBool ZifyN ZifyNat.
Local Open Scope N_scope.

(* ------------------------------------------------------------------ side conditions on regenerated data *)
Lemma layout_ok_ok : layout_ok = true. Proof. vm_compute. reflexivity. Qed.
Lemma brackets_ok_ok : brackets_ok = true. Proof. vm_compute. reflexivity. Qed.
Lemma bridge_string_ok : bridge_string = true. Proof. vm_compute. reflexivity. Qed.
Lemma bridge_string_rev_ok : bridge_string_rev = true. Proof. vm_compute. reflexivity. Qed.
Lemma bridge_invalid_rune_ok : bridge_invalid_rune = true. Proof. vm_compute. reflexivity. Qed.

(* ------------------------------------------------------------------ layout *)
Lemma layout_parts : cssrule_pre = [] /\ cssrule_mid = [123] /\ cssrule_post = [125].
Proof.
  pose proof layout_ok_ok as H. unfold layout_ok in H.
  apply andb_true_iff in H as [H H3]. apply andb_true_iff in H as [H H2]. apply andb_true_iff in H as [_ H1].
  apply bytes_eqb_eq in H1, H2, H3. auto.
Qed.

Theorem css_rule_layout sel st o : css_rule sel st = Some o -> o = sel ++ [123] ++ st ++ [125].
Proof.
  unfold css_rule. destruct layout_parts as (-> & -> & ->).
  destruct (existsb (N.eqb 60) sel); [discriminate|].
  destruct (has_invalid_selector_rune (strip_strings sel)); [discriminate|].
  destruct (negb (has_balanced_brackets (strip_strings sel))); [discriminate|].
  intros H. inversion H. reflexivity.
Qed.

(* ------------------------------------------------------------------ rejections *)
Theorem css_rule_rejects_lt sel st : In 60 sel -> css_rule sel st = None.
Proof.
  intros H. unfold css_rule.
  replace (existsb (N.eqb 60) sel) with true; [reflexivity|].
  symmetry. apply existsb_exists. exists 60. split; [exact H | reflexivity].
Qed.

Lemma disallowed_spec c : c <= 1114111 ->
  in_ranges c disallowed_selector_cls = negb (is_allowed_selector_char c).
Proof.
  intros Hc. unfold in_ranges, in_range, disallowed_selector_cls, is_allowed_selector_char. simpl.
  lia.
Qed.

(* a rune outside the documented class anywhere in w makes the code's pattern match *)
Lemma invalid_rune_found w c : wf_runes w -> In c w -> is_allowed_selector_char c = false ->
  go_match G_invalidCSSSelectorRune w = true.
Proof.
  intros Hw Hc Ha. apply (go_incl _ _ bridge_invalid_rune_ok).
  apply (go_match_M _ _ Hw). apply in_split in Hc as (a & b & ->).
  exists a, [c], b. split; [reflexivity|]. constructor.
  rewrite disallowed_spec, Ha; [reflexivity|].
  unfold wf_runes in Hw. rewrite Forall_forall in Hw. apply Hw. apply in_or_app. right. left. reflexivity.
Qed.

Theorem css_rule_rejects_invalid_rune sel st c :
  In c (decode_runes (strip_strings sel)) -> is_allowed_selector_char c = false ->
  css_rule sel st = None.
Proof.
  intros Hc Ha. unfold css_rule. destruct (existsb (N.eqb 60) sel); [reflexivity|].
  unfold has_invalid_selector_rune.
  rewrite (invalid_rune_found _ c (decode_runes_bounded _) Hc Ha). reflexivity.
Qed.

Theorem css_rule_rejects_unbalanced sel st :
  has_balanced_brackets (strip_strings sel) = false -> css_rule sel st = None.
Proof.
  intros H. unfold css_rule. destruct (existsb (N.eqb 60) sel); [reflexivity|].
  destruct (has_invalid_selector_rune (strip_strings sel)); [reflexivity|]. rewrite H. reflexivity.
Qed.

Lemma allowed_ascii c : is_allowed_selector_char c = true -> c < 128.
Proof. unfold is_allowed_selector_char. lia. Qed.

(* what an accepted selector looks like once its strings are removed: every BYTE is one of the
   documented selector characters (so none of { } ; @ \ / quotes < newlines controls non-ASCII), and
   the () [] brackets are balanced; and the selector itself has no '<' *)
Theorem css_rule_accepts sel st o : css_rule sel st = Some o ->
  ~ In 60 sel /\
  forallb is_allowed_selector_char (strip_strings sel) = true /\
  has_balanced_brackets (strip_strings sel) = true.
Proof.
  unfold css_rule. destruct (existsb (N.eqb 60) sel) eqn:E1; [discriminate|].
  destruct (has_invalid_selector_rune (strip_strings sel)) eqn:E2; [discriminate|].
  destruct (has_balanced_brackets (strip_strings sel)) eqn:E3; [|discriminate]. intros _.
  split; [|split; [|reflexivity]].
  - intros Hin. assert (existsb (N.eqb 60) sel = true) as C; [|congruence].
    apply existsb_exists. exists 60. split; [exact Hin | reflexivity].
  - assert (Hall : Forall (fun c => is_allowed_selector_char c = true) (decode_runes (strip_strings sel))).
    { apply Forall_forall. intros c Hc. destruct (is_allowed_selector_char c) eqn:Ea; [reflexivity|].
      unfold has_invalid_selector_rune in E2.
      rewrite (invalid_rune_found _ c (decode_runes_bounded _) Hc Ea) in E2. discriminate. }
    assert (Hd : decode_runes (strip_strings sel) = strip_strings sel).
    { apply decode_all_ascii. eapply Forall_impl; [|exact Hall]. intros c Hc. apply allowed_ascii. exact Hc. }
    rewrite Hd in Hall. apply forallb_forall. rewrite Forall_forall in Hall. exact Hall.
Qed.

(* ------------------------------------------------------------------ hasBalancedBrackets *)
Lemma pair_eqb_eq a b : pair_eqb a b = true <-> a = b.
Proof.
  destruct a as [a1 a2], b as [b1 b2]. unfold pair_eqb. simpl.
  rewrite andb_true_iff, !N.eqb_eq. split; [intros [-> ->]; reflexivity | intros E; inversion E; auto].
Qed.

Lemma brackets_eq : T_matchingBrackets = documented_brackets.
Proof. apply (list_eqb_eq pair_eqb pair_eqb_eq). exact brackets_ok_ok. Qed.

Lemma balanced_from_step st c r :
  balanced_from st (c :: r) =
  if c =? 41 then match st with v :: st' => if v =? 40 then balanced_from st' r else false | [] => false end
  else if c =? 93 then match st with v :: st' => if v =? 91 then balanced_from st' r else false | [] => false end
  else if (c =? 40) || (c =? 91) then balanced_from (c :: st) r
  else balanced_from st r.
Proof.
  cbn [balanced_from]. rewrite brackets_eq. unfold documented_brackets.
  cbn [bracket_opening is_opening_bracket existsb snd].
  rewrite (N.eqb_sym 41 c), (N.eqb_sym 93 c), (N.eqb_sym 40 c), (N.eqb_sym 91 c), orb_false_r.
  destruct (c =? 41); [reflexivity|]. destruct (c =? 93); reflexivity.
Qed.

Lemma balanced_app a b : balanced a -> balanced b -> balanced (a ++ b).
Proof.
  intros Ha Hb. induction Ha as [|c s H1 H2 H3 H4 Hs IH|a1 b1 Ha1 IH1 Hb1 IH2|a1 b1 Ha1 IH1 Hb1 IH2].
  - exact Hb.
  - cbn [app]. apply bal_char; assumption.
  - cbn [app]. rewrite <- app_assoc. cbn [app]. apply bal_paren; assumption.
  - cbn [app]. rewrite <- app_assoc. cbn [app]. apply bal_brack; assumption.
Qed.

Definition closer (o : N) : N := if o =? 40 then 41 else 93.
Fixpoint unwind (st : list N) (s : bytes) : Prop :=
  match st with
  | [] => balanced s
  | o :: st' => exists a r, s = a ++ closer o :: r /\ balanced a /\ unwind st' r
  end.

Lemma unwind_prepend x st s : balanced x -> unwind st s -> unwind st (x ++ s).
Proof.
  intros Hx. destruct st as [|o st]; cbn [unwind].
  - apply balanced_app. exact Hx.
  - intros (a & r & -> & Ha & Hu). exists (x ++ a), r. rewrite <- app_assoc.
    split; [reflexivity|]. split; [apply balanced_app; assumption | exact Hu].
Qed.

Lemma balanced_from_unwind s : forall st,
  Forall (fun o => o = 40 \/ o = 91) st -> balanced_from st s = true -> unwind st s.
Proof.
  induction s as [|c r IH]; intros st Hst H.
  - destruct st; [constructor | discriminate].
  - rewrite balanced_from_step in H.
    destruct (c =? 41) eqn:E1.
    { apply N.eqb_eq in E1. subst c. destruct st as [|v st']; [discriminate|].
      destruct (v =? 40) eqn:Ev; [|discriminate]. apply N.eqb_eq in Ev. subst v.
      inversion Hst; subst. cbn [unwind]. exists [], r. split; [reflexivity|].
      split; [constructor | apply IH; assumption]. }
    destruct (c =? 93) eqn:E2.
    { apply N.eqb_eq in E2. subst c. destruct st as [|v st']; [discriminate|].
      destruct (v =? 91) eqn:Ev; [|discriminate]. apply N.eqb_eq in Ev. subst v.
      inversion Hst; subst. cbn [unwind]. exists [], r. split; [reflexivity|].
      split; [constructor | apply IH; assumption]. }
    destruct ((c =? 40) || (c =? 91)) eqn:E3.
    { assert (Hc : c = 40 \/ c = 91) by lia.
      specialize (IH (c :: st) (Forall_cons _ Hc Hst) H). cbn [unwind] in IH.
      destruct IH as (a & r' & -> & Ha & Hu).
      replace (c :: a ++ closer c :: r') with ((c :: a ++ [closer c]) ++ r')
        by (cbn [app]; rewrite <- app_assoc; reflexivity).
      apply unwind_prepend; [|exact Hu].
      destruct Hc as [-> | ->]; unfold closer; cbn.
      - rewrite <- (app_nil_r (a ++ [41])). rewrite <- app_assoc. apply bal_paren; [exact Ha | constructor].
      - rewrite <- (app_nil_r (a ++ [93])). rewrite <- app_assoc. apply bal_brack; [exact Ha | constructor]. }
    change (c :: r) with ([c] ++ r). apply unwind_prepend; [|apply IH; assumption].
    apply bal_char; try lia. constructor.
Qed.

Lemma balanced_from_skip a : balanced a -> forall st rest,
  balanced_from st (a ++ rest) = balanced_from st rest.
Proof.
  induction 1 as [|c s H1 H2 H3 H4 Hs IH|a1 b1 Ha1 IH1 Hb1 IH2|a1 b1 Ha1 IH1 Hb1 IH2]; intros st rest.
  - reflexivity.
  - cbn [app]. rewrite balanced_from_step.
    replace (c =? 41) with false by lia. replace (c =? 93) with false by lia.
    replace ((c =? 40) || (c =? 91)) with false by lia. apply IH.
  - cbn [app]. rewrite balanced_from_step. cbn. rewrite <- app_assoc. rewrite IH1.
    cbn [app]. rewrite balanced_from_step. cbn. apply IH2.
  - cbn [app]. rewrite balanced_from_step. cbn. rewrite <- app_assoc. rewrite IH1.
    cbn [app]. rewrite balanced_from_step. cbn. apply IH2.
Qed.

Theorem has_balanced_brackets_spec s : has_balanced_brackets s = true <-> balanced s.
Proof.
  unfold has_balanced_brackets. split.
  - intros H. apply (balanced_from_unwind s [] (Forall_nil _) H).
  - intros H. rewrite <- (app_nil_r s). rewrite (balanced_from_skip s H). reflexivity.
Qed.

(* ------------------------------------------------------------------ the string scanner *)
Lemma scan_string_sound_n q n : q <> 92 -> forall r rest, (length r <= n)%nat ->
  scan_string q r = Some rest -> exists body, r = body ++ q :: rest /\ string_body q body = true.
Proof.
  intros Hq. induction n as [|n IH]; intros r rest Hl H.
  { destruct r; [discriminate | simpl in Hl; lia]. }
  destruct r as [|c r]; [discriminate|]. cbn [scan_string] in H.
  destruct (c =? q) eqn:Eq.
  { inversion H; subst. apply N.eqb_eq in Eq. subst c. exists []. split; reflexivity. }
  destruct ((c =? 13) || (c =? 10) || (c =? 12)) eqn:En; [discriminate|].
  destruct (c =? 92) eqn:E92.
  - destruct r as [|d r']; [discriminate|].
    destruct (IH r' rest) as (body & -> & Hb); [simpl in Hl; lia | exact H |].
    exists (c :: d :: body). split; [reflexivity|]. cbn [string_body]. rewrite E92. exact Hb.
  - destruct (IH r rest) as (body & -> & Hb); [simpl in Hl; lia | exact H |].
    exists (c :: body). split; [reflexivity|]. cbn [string_body]. rewrite E92.
    replace ((c =? q) || (c =? 13) || (c =? 10) || (c =? 12)) with false by lia. exact Hb.
Qed.

Theorem scan_string_sound q r rest : q <> 92 ->
  scan_string q r = Some rest -> exists body, r = body ++ q :: rest /\ string_body q body = true.
Proof. intros Hq. apply (scan_string_sound_n q (length r) Hq). lia. Qed.

Lemma scan_string_complete_n q n : q <> 92 -> forall body rest, (length body <= n)%nat ->
  string_body q body = true -> scan_string q (body ++ q :: rest) = Some rest.
Proof.
  intros Hq. induction n as [|n IH]; intros body rest Hl H.
  { destruct body; [|simpl in Hl; lia]. cbn. rewrite N.eqb_refl. reflexivity. }
  destruct body as [|c r]; [cbn; rewrite N.eqb_refl; reflexivity|].
  cbn [string_body] in H. cbn [app scan_string].
  destruct (c =? 92) eqn:E92.
  - destruct r as [|d r']; [discriminate|].
    replace (c =? q) with false by lia. replace ((c =? 13) || (c =? 10) || (c =? 12)) with false by lia.
    cbn [app]. apply IH; [simpl in Hl; lia | exact H].
  - apply andb_true_iff in H as [H1 H2].
    replace (c =? q) with false by lia. replace ((c =? 13) || (c =? 10) || (c =? 12)) with false by lia.
    apply IH; [simpl in Hl; lia | exact H2].
Qed.

Theorem scan_string_complete q body rest : q <> 92 ->
  string_body q body = true -> scan_string q (body ++ q :: rest) = Some rest.
Proof. intros Hq. apply (scan_string_complete_n q (length body) Hq). lia. Qed.

(* non-vacuity *)
Example css_rule_accepts_example :
  css_rule (B "a[x='}']:not(.b) > c") (B "color:red;") = Some (B "a[x='}']:not(.b) > c{color:red;}").
Proof. vm_compute. reflexivity. Qed.
Example css_rule_spec_example :
  css_rule_spec (B "a[x='}']:not(.b) > c") (B "color:red;") (Some (B "a[x='}']:not(.b) > c{color:red;}")) = true.
Proof. vm_compute. reflexivity. Qed.
Example css_rule_spec_rejects_injection :
  css_rule_spec (B "a{}b") (B "color:red;") (Some (B "a{}b{color:red;}")) = false.
Proof. vm_compute. reflexivity. Qed.
Example css_rule_rejects_examples :
  css_rule (B "a{") [] = None /\ css_rule (B "a(") [] = None /\ css_rule [97; 34; 98] [] = None /\
  css_rule (B "a<") [] = None /\ css_rule [97; 10] [] = None /\ css_rule (B "a\b") [] = None.
Proof. vm_compute. repeat split; reflexivity. Qed.
