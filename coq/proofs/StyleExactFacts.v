(* C15 after the repair of D11 (fix: escape the hyphen in safeRegularPropertyValuePattern): the
   regenerated pattern now lies within the documented language exactly, so the plain-value
   theorem holds without the D11 hypothesis. *)
From V Require Import lib.Base lib.Regex lib.RegexDecide lib.Utf8 gen.GenRegex spec.CssSyntax model.Url model.Style spec.StyleSpec.
From V Require Import proofs.RegexFacts proofs.RegexDecideFacts proofs.StyleFacts.
From Coq Require Import ZifyBool ZifyN.
Local Open Scope N_scope.

Lemma bridge_regular_exact_ok : bridge_regular_exact = true. Proof. vm_compute. reflexivity. Qed.

Lemma doc_cls_safe c : in_ranges c doc_safe_cls = true -> is_slash_star c = false.
Proof. unfold in_ranges, in_range, doc_safe_cls, is_slash_star; simpl. lia. Qed.

Lemma sigma_doc_spec c : sigma_of doc_safe_cls c = true -> is_doc_regular_char c = true /\ c < 128.
Proof.
  unfold sigma_of, in_ranges, in_range, doc_safe_cls, is_doc_regular_char, is_slash_star, is_alnum; simpl.
  lia.
Qed.

(* what the repaired pattern lets through is exactly documented *)
Lemma regular_match_exact v :
  go_match G_safeRegularPropertyValuePattern (decode_runes v) = true -> doc_regular v = true.
Proof.
  intros H. apply (incl_ok_sound _ _ bridge_regular_exact_ok) in H.
  apply (doc_lang_good _ doc_cls_safe) in H as [H1 H2].
  assert (E : decode_runes v = v).
  { eapply forallb_ascii_decode; [|exact H1]. intros c Hc. apply sigma_doc_spec in Hc. tauto. }
  rewrite E in *. unfold doc_regular. rewrite H2, andb_true_r.
  apply forallb_forall. intros c Hc. rewrite forallb_forall in H1. apply sigma_doc_spec. auto.
Qed.

Theorem regular_value_spec_full p fname css v :
  field_by_name p fname = Some (PStr v) -> v <> [] ->
  (doc_emit p (fname, css, 3) = css ++ [58] ++ v ++ [59] /\ doc_regular v = true)
  \/ doc_emit p (fname, css, 3) = css ++ [58] ++ documented_innocuous ++ [59].
Proof.
  intros Hf Hv.
  destruct (regular_value_spec p fname css v Hf Hv) as [(E & _ & _ & _)|E]; [|right; exact E].
  left. split; [exact E|].
  (* the value was emitted verbatim: the filter accepted it *)
  unfold doc_emit in E. rewrite Hf in E. unfold field_value in E.
  destruct v as [|b v]; [congruence|]. cbn [is_nil] in E.
  change (3 =? 2) with false in E. change (3 =? 3) with true in E. cbv iota in E.
  unfold filter_value in E.
  destruct (go_match G_safeRegularPropertyValuePattern (decode_runes (b :: v))) eqn:Em.
  - apply regular_match_exact; exact Em.
  - exfalso. apply app_inv_head in E. apply app_inv_head in E.
    (* innocuous ++ [59] = (b :: v) ++ [59] would make the value the innocuous constant, which the
       filter accepts; contradiction with Em *)
    apply app_inv_tail in E. rewrite <- E in Em. vm_compute in Em. discriminate Em.
Qed.
