(* C07, isolation of template SETS between name spaces (model/Engine.v).

   EngineIsoFacts.v shows that an operation through a handle of one name space never touches a template
   OBJECT of another.  This file shows the same for everything else a set consists of: the text templates
   (trees) of its association, the association itself and its name-space record.  The key is an ownership
   invariant of every reachable world (J):
     - OwnT: a text template listed in association c carries the number c, and associations are allocated
             before the text templates that name them;
     - TT:   name spaces and associations are allocated in lock step (so a set's association has the number
             of its name space), and the text template of every template object belongs to the association
             of the object's name space.
   Every operation writes only to texts/associations/records carrying the number of the name space it goes
   through, or to freshly allocated ones (step_other_set_frame). *)
From V Require Import lib.Base gen.GenTemplate model.GoStrings model.TContext model.TTransition
     model.TEscapeText model.TSanitize model.TTree model.TEscaper model.Engine proofs.EngineFacts proofs.EngineHistFacts proofs.EngineInvFacts proofs.EngineOkFacts proofs.EngineIsoFacts.
From Coq Require Import Arith PeanoNat Lia.
Local Open Scope N_scope.

(* what the isolation theorem says about one step: the texts, the association and the name-space record of
   another set are untouched *)
Definition set_frame (c : nat) (b : nat) (w w' : world) : Prop :=
  (forall tid, (tid < length (w_text w))%nat -> x_common (get_text w tid) = c -> get_text w' tid = get_text w tid) /\
  get_common w' c = get_common w c /\ get_ns w' b = get_ns w b /\
  (length (w_text w) <= length (w_text w'))%nat.
Lemma sf_refl c b w : set_frame c b w w. Proof. repeat split; auto. Qed.
Lemma sf_trans c b w1 w2 w3 : set_frame c b w1 w2 -> set_frame c b w2 w3 -> set_frame c b w1 w3.
Proof.
  intros (A1 & A2 & A3 & A4) (B1 & B2 & B3 & B4). split; [|split; [|split]].
  - intros tid Hl Hc. rewrite B1; [apply A1; assumption | lia | rewrite A1 by assumption; exact Hc].
  - rewrite B2. exact A2.
  - rewrite B3. exact A3.
  - lia.
Qed.

(* ---- the association of a text template never changes; text heaps only grow ---- *)
Definition text_keep (w w' : world) : Prop :=
  (length (w_text w) <= length (w_text w'))%nat /\ (length (w_common w) <= length (w_common w'))%nat /\
  forall t, (t < length (w_text w))%nat -> x_common (get_text w' t) = x_common (get_text w t).
Lemma tk_refl w : text_keep w w. Proof. repeat split; auto. Qed.
Lemma tk_trans a b c : text_keep a b -> text_keep b c -> text_keep a c.
Proof. intros (A1 & A2 & A3) (B1 & B2 & B3). split; [lia|]. split; [lia|]. intros t Ht. rewrite B3 by lia. apply A3. exact Ht. Qed.
Lemma tk_same w w' : w_text w' = w_text w -> w_common w' = w_common w -> text_keep w w'.
Proof. intros H1 H2. unfold text_keep, get_text. rewrite H1, H2. auto. Qed.
Lemma tk_new_text w x : text_keep w (fst (new_text w x)).
Proof. split; [cbn; rewrite app_length; lia|]. split; [cbn; lia|]. intros t Ht. rewrite get_text_new_text_old by exact Ht. reflexivity. Qed.
Lemma tk_new_common w : text_keep w (fst (new_common w)).
Proof. split; [cbn; lia|]. split; [cbn; rewrite app_length; lia|]. intros t Ht. reflexivity. Qed.
Lemma length_set_nth_common w c m : (length (w_common w) <= length (w_common (put_common w c m)))%nat.
Proof. cbn. apply length_set_nth. Qed.
Lemma tk_put_common w c m : text_keep w (put_common w c m).
Proof. split; [cbn; lia|]. split; [apply length_set_nth_common|]. intros t Ht. reflexivity. Qed.
Lemma tk_put_text w tid x : (tid < length (w_text w))%nat -> x_common x = x_common (get_text w tid) -> text_keep w (put_text w tid x).
Proof.
  intros Hl Hx. split; [rewrite length_put_text by exact Hl; lia|]. split; [cbn; lia|].
  intros t Ht. destruct (Nat.eq_dec tid t) as [->|Hne]; [rewrite get_text_put_text_same; exact Hx | rewrite get_text_put_text_other by exact Hne; reflexivity].
Qed.
Lemma tk_fold {A} (f : world -> A -> world) (l : list A) :
  (forall w a, text_keep w (f w a)) -> forall w, text_keep w (fold_left f l w).
Proof. intros Hf. induction l as [|a l IH]; intros w; simpl; [apply tk_refl | eapply tk_trans; [apply Hf | apply IH]]. Qed.

Lemma tk_add_parse_tree w tid name tr : (tid < length (w_text w))%nat -> text_keep w (add_parse_tree w tid name tr).
Proof.
  intros Hl. unfold add_parse_tree. set (t := get_text w tid).
  assert (S1 : exists w1 nt, (if bytes_eqb name (x_name t) then (w, tid) else new_text w (mktext name None (x_common t))) = (w1, nt) /\
               text_keep w w1 /\ (nt < length (w_text w1))%nat).
  { destruct (bytes_eqb name (x_name t)).
    - exists w, tid. split; [reflexivity|]. split; [apply tk_refl | exact Hl].
    - exists (fst (new_text w (mktext name None (x_common t)))), (length (w_text w)).
      split; [reflexivity|]. split; [apply tk_new_text | cbn; rewrite app_length; cbn; lia]. }
  destruct S1 as (w1 & nt & -> & K1 & Hnt).
  set (cm := get_common w1 (x_common t)).
  set (keep := match assoc_get name cm with Some old => is_empty_tree tr && match x_tree (get_text w1 old) with Some _ => true | None => false end | None => false end).
  set (w2 := if keep then w1 else put_common w1 (x_common t) (assoc_set name nt cm)).
  assert (K2 : text_keep w1 w2) by (unfold w2; destruct keep; [apply tk_refl | apply tk_put_common]).
  assert (L2 : length (w_text w2) = length (w_text w1)) by (unfold w2; destruct keep; reflexivity).
  destruct (negb keep || match x_tree (get_text w2 nt) with None => true | Some _ => false end).
  - eapply tk_trans; [exact K1|]. eapply tk_trans; [exact K2|]. apply tk_put_text; [rewrite L2; exact Hnt | reflexivity].
  - eapply tk_trans; [exact K1 | exact K2].
Qed.

Lemma tk_commit w nsid : Inv w -> text_keep w (commit w nsid).
Proof.
  intros HI. unfold commit. destruct (n_set (get_ns w nsid)) as [|[nm o] rest] eqn:Es; [apply tk_refl|].
  assert (Hm : assoc_get nm (n_set (get_ns w nsid)) = Some o) by (rewrite Es; cbn; rewrite bytes_eqb_refl; reflexivity).
  destruct HI as (Hsc & Hcc & Hhb). destruct (Hsc nsid nm o Hm) as ((O1 & O2) & _).
  set (tid := h_text (get_tmpl w o)) in *.
  set (f1 := fun (w0 : world) (kv : bytes * option tree) => _).
  assert (K1 : forall l w0, (tid < length (w_text w0))%nat -> text_keep w0 (fold_left f1 l w0)).
  { induction l as [|[k v] l IH]; intros w0 H0; cbn [fold_left]; [apply tk_refl|].
    assert (Hs : text_keep w0 (f1 w0 (k, v))).
    { unfold f1. cbn [fst snd]. destruct v as [tr|]; [|apply tk_refl]. destruct (assoc_get k _); [apply tk_refl | apply tk_add_parse_tree; exact H0]. }
    eapply tk_trans; [exact Hs | apply IH; destruct Hs; lia]. }
  set (w1 := fold_left f1 _ w).
  assert (T1 : text_keep w w1) by (apply K1; exact O2).
  set (f2 := fun (w0 : world) (name : bytes) => _).
  assert (K2 : forall l w0, text_keep w0 (fold_left f2 l w0)).
  { induction l as [|name l IH]; intros w0; cbn [fold_left]; [apply tk_refl|].
    eapply tk_trans; [|apply IH]. unfold f2.
    destruct (assoc_get name (get_common w0 _)) as [xt|] eqn:Ea; [|apply tk_refl].
    destruct (x_tree (get_text w0 xt)) as [tr|] eqn:Et; [|apply tk_refl].
    destruct (Nat.lt_ge_cases xt (length (w_text w0))) as [Hl|Hl].
    - apply tk_put_text; [exact Hl | reflexivity].
    - unfold get_text in Et. rewrite nth_overflow in Et by exact Hl. discriminate Et. }
  eapply tk_trans; [exact T1|]. eapply tk_trans; [apply K2|]. apply tk_same; reflexivity.
Qed.

Lemma tk_escape_template w nsid name : Inv w -> text_keep w (fst (escape_template w nsid name)).
Proof.
  intros HI. unfold escape_template.
  destruct (ns_view w nsid) as [view|]; [|apply tk_refl].
  destruct (escape_tree view analysis_fuel ctx0 name (n_esc (get_ns w nsid))) as [[[c dn] e1]|p]; [|apply tk_refl].
  set (w1 := put_ns w nsid _).
  assert (I1 : Inv w1) by (apply Inv_put_ns_same_set; [exact HI | reflexivity]).
  assert (S1 : n_set (get_ns w1 nsid) = n_set (get_ns w nsid)) by (unfold w1; rewrite get_ns_put_ns_same; reflexivity).
  assert (E1 : text_keep w w1) by (apply tk_same; reflexivity).
  destruct (match c_err c with Some code => Some code | None => if state_eqb (c_state c) StText then None else Some ErrEndContext end) as [code|].
  - destruct (assoc_get name (n_set (get_ns w nsid))) as [o|] eqn:Em; cbn [fst]; [|exact E1].
    assert (Em1 : assoc_get name (n_set (get_ns w1 nsid)) = Some o) by (rewrite S1; exact Em).
    destruct I1 as (Hsc & _ & _). destruct (Hsc nsid name o Em1) as ((O1 & O2) & _).
    eapply tk_trans; [exact E1|]. eapply tk_trans; [apply tk_same with (w' := put_tmpl w1 o (mktmpl (EErr code) (h_text (get_tmpl w1 o)) true (h_ns (get_tmpl w1 o)))); reflexivity|].
    apply tk_put_text; [exact O2 | reflexivity].
  - destruct (assoc_get name (n_set (get_ns w nsid))) as [o|]; cbn [fst].
    + eapply tk_trans; [exact E1|]. eapply tk_trans; [apply tk_commit; exact I1|]. apply tk_same; reflexivity.
    + eapply tk_trans; [exact E1 | apply tk_commit; exact I1].
Qed.

(* ---- the text-level half of the ownership invariant ---- *)
Definition OwnT (w : world) : Prop :=
  (forall c nm tid, In (nm, tid) (get_common w c) -> x_common (get_text w tid) = c) /\
  (forall tid, (tid < length (w_text w))%nat -> (x_common (get_text w tid) < length (w_common w))%nat).

(* entries of associations point to existing texts (from Inv) *)
Lemma cc_bound w c nm tid : Inv w -> In (nm, tid) (get_common w c) -> (tid < length (w_text w))%nat.
Proof. intros (_ & Hcc & _) H. exact (proj1 (Hcc c nm tid H)). Qed.

Lemma OwnT_keep w w' : Inv w -> OwnT w -> text_keep w w' ->
  (forall c, get_common w' c = get_common w c) -> length (w_text w') = length (w_text w) -> OwnT w'.
Proof.
  intros HI (T1 & T2) (K1 & K2 & K3) Hc Hl. split.
  - intros c nm tid H. rewrite Hc in H. rewrite K3 by (eapply cc_bound; eassumption). exact (T1 c nm tid H).
  - intros tid Ht. rewrite Hl in Ht. rewrite K3 by exact Ht. specialize (T2 tid Ht). lia.
Qed.

Lemma OwnT_new_text w x : Inv w -> OwnT w -> (x_common x < length (w_common w))%nat -> OwnT (fst (new_text w x)).
Proof.
  intros HI (T1 & T2) Hx. split.
  - intros c nm tid H. change (get_common (fst (new_text w x)) c) with (get_common w c) in H.
    rewrite get_text_new_text_old by (eapply cc_bound; eassumption). exact (T1 c nm tid H).
  - intros tid Ht. cbn in Ht. rewrite app_length in Ht. cbn in Ht. change (w_common (fst (new_text w x))) with (w_common w).
    destruct (Nat.eq_dec tid (length (w_text w))) as [->|Hne].
    + rewrite get_text_new_text_new. exact Hx.
    + rewrite get_text_new_text_old by lia. apply T2. lia.
Qed.

Lemma OwnT_new_common w : OwnT w -> OwnT (fst (new_common w)).
Proof.
  intros (T1 & T2). split.
  - intros c nm tid H. rewrite get_common_new_common in H. exact (T1 c nm tid H).
  - intros tid Ht. change (get_text (fst (new_common w)) tid) with (get_text w tid). cbn. rewrite app_length. cbn.
    specialize (T2 tid Ht). lia.
Qed.

Lemma OwnT_put_common w c m : OwnT w -> (forall nm tid, In (nm, tid) m -> x_common (get_text w tid) = c) -> OwnT (put_common w c m).
Proof.
  intros (T1 & T2) Hm. split.
  - intros c' nm tid H. destruct (Nat.eq_dec c c') as [<-|Hne].
    + rewrite get_common_put_common_same in H. exact (Hm nm tid H).
    + rewrite get_common_put_common_other in H by exact Hne. exact (T1 c' nm tid H).
  - intros tid Ht. specialize (T2 tid Ht). pose proof (length_set_nth_common w c m). change (get_text (put_common w c m) tid) with (get_text w tid). lia.
Qed.

Lemma OwnT_put_text w tid x : Inv w -> OwnT w -> (tid < length (w_text w))%nat -> x_common x = x_common (get_text w tid) -> OwnT (put_text w tid x).
Proof.
  intros HI HT Hl Hx. apply (OwnT_keep w _ HI HT); [apply tk_put_text; assumption | reflexivity | apply length_put_text; exact Hl].
Qed.

Lemma OwnT_same w w' : w_text w' = w_text w -> w_common w' = w_common w -> OwnT w -> OwnT w'.
Proof. intros H1 H2. unfold OwnT, get_common, get_text. rewrite H1, H2. auto. Qed.

Lemma OwnT_add_parse_tree w tid name tr : Inv w -> OwnT w -> (tid < length (w_text w))%nat -> OwnT (add_parse_tree w tid name tr).
Proof.
  intros HI HT Hl. unfold add_parse_tree. set (t := get_text w tid).
  assert (Hct : (x_common t < length (w_common w))%nat) by (apply (proj2 HT); exact Hl).
  assert (S1 : exists w1 nt, (if bytes_eqb name (x_name t) then (w, tid) else new_text w (mktext name None (x_common t))) = (w1, nt) /\
               Inv w1 /\ OwnT w1 /\ (nt < length (w_text w1))%nat /\ x_common (get_text w1 nt) = x_common t /\ x_name (get_text w1 nt) = name).
  { destruct (bytes_eqb name (x_name t)) eqn:E.
    - exists w, tid. apply bytes_eqb_eq in E. split; [reflexivity|]. split; [exact HI|]. split; [exact HT|]. split; [exact Hl|]. split; [reflexivity | symmetry; exact E].
    - exists (fst (new_text w (mktext name None (x_common t)))), (length (w_text w)).
      split; [reflexivity|]. split; [apply Inv_new_text; exact HI|]. split; [apply OwnT_new_text; assumption|].
      split; [cbn; rewrite app_length; cbn; lia|]. rewrite get_text_new_text_new. split; reflexivity. }
  destruct S1 as (w1 & nt & -> & I1 & T1 & Hnt & Hcn & Hnm).
  set (cm := get_common w1 (x_common t)).
  set (keep := match assoc_get name cm with Some old => is_empty_tree tr && match x_tree (get_text w1 old) with Some _ => true | None => false end | None => false end).
  set (w2 := if keep then w1 else put_common w1 (x_common t) (assoc_set name nt cm)).
  assert (I2 : Inv w2).
  { unfold w2. destruct keep; [exact I1|]. apply Inv_put_common; [exact I1|].
    intros k2 v2 Hin. apply In_assoc_set in Hin. destruct Hin as [Hin|[Hk ->]].
    - destruct I1 as (_ & Hcc & _). exact (Hcc _ _ _ Hin).
    - split; [exact Hnt|]. destruct Hk as [->|Hk]; [exact Hnm | apply bytes_eqb_eq in Hk; subst k2; exact Hnm]. }
  assert (T2 : OwnT w2).
  { unfold w2. destruct keep; [exact T1|]. apply OwnT_put_common; [exact T1|].
    intros k2 v2 Hin. apply In_assoc_set in Hin. destruct Hin as [Hin|[_ ->]]; [exact (proj1 T1 _ _ _ Hin) | exact Hcn]. }
  assert (L2 : length (w_text w2) = length (w_text w1)) by (unfold w2; destruct keep; reflexivity).
  destruct (negb keep || match x_tree (get_text w2 nt) with None => true | Some _ => false end); [|exact T2].
  apply OwnT_put_text; [exact I2 | exact T2 | rewrite L2; exact Hnt | reflexivity].
Qed.

Definition IT (w : world) : Prop := Inv w /\ OwnT w.

Lemma fold_IT {A} (f : world -> A -> world) (l : list A) (P : world -> Prop) :
  (forall w a, IT w -> P w -> IT (f w a) /\ P (f w a)) ->
  forall w, IT w -> P w -> IT (fold_left f l w) /\ P (fold_left f l w).
Proof.
  intros Hf. induction l as [|a l IH]; intros w HI HP; simpl; [split; assumption|].
  destruct (Hf w a HI HP) as (I1 & P1). exact (IH _ I1 P1).
Qed.

Lemma IT_commit w nsid : IT w -> IT (commit w nsid).
Proof.
  intros (HI & HT). split; [apply (Inv_commit w nsid HI)|].
  unfold commit. destruct (n_set (get_ns w nsid)) as [|[nm o] rest] eqn:Es; [exact HT|].
  assert (Hm : assoc_get nm (n_set (get_ns w nsid)) = Some o) by (rewrite Es; cbn; rewrite bytes_eqb_refl; reflexivity).
  destruct HI as (Hsc & Hcc & Hhb). destruct (Hsc nsid nm o Hm) as ((O1 & O2) & _). pose proof (conj Hsc (conj Hcc Hhb)) as HI.
  set (tid := h_text (get_tmpl w o)) in *.
  set (f1 := fun (w0 : world) (kv : bytes * option tree) => _).
  destruct (fold_IT f1 (e_derived (n_esc (get_ns w nsid))) (fun w0 => (tid < length (w_text w0))%nat)) with (w := w) as ((I1 & T1) & P1); [| split; assumption | exact O2 |].
  { intros w0 [k v] (I0 & T0) P0. unfold f1. cbn [fst snd]. destruct v as [tr|]; [|split; [split; assumption | exact P0]].
    destruct (assoc_get k _); [split; [split; assumption | exact P0]|].
    destruct (Inv_add_parse_tree w0 tid k tr I0 P0) as (Ia & Ea).
    split; [split; [exact Ia | apply OwnT_add_parse_tree; assumption] | destruct Ea; lia]. }
  set (w1 := fold_left f1 _ w) in *.
  set (f2 := fun (w0 : world) (name : bytes) => _).
  destruct (fold_IT f2 (edited_names (n_esc (get_ns w nsid))) (fun _ => True)) with (w := w1) as ((I2 & T2) & _); [| split; assumption | exact I |].
  { intros w0 name (I0 & T0) _. unfold f2.
    destruct (assoc_get name (get_common w0 _)) as [xt|] eqn:Ea; [|split; [split; assumption | exact I]].
    destruct (x_tree (get_text w0 xt)) as [tr|]; [|split; [split; assumption | exact I]].
    destruct (assoc_get_In _ _ _ Ea) as (k' & _ & Hin). pose proof (cc_bound w0 _ _ _ I0 Hin) as B1.
    split; [split; [apply Inv_put_text; [exact I0 | exact B1 | reflexivity] | apply OwnT_put_text; [exact I0 | exact T0 | exact B1 | reflexivity]] | exact I]. }
  set (w2 := fold_left f2 _ w1) in *.
  apply (OwnT_same w2); [reflexivity | reflexivity | exact T2].
Qed.

Lemma IT_put_ns_same_set w n x : IT w -> n_set x = n_set (get_ns w n) -> IT (put_ns w n x).
Proof. intros (HI & HT) H. split; [apply Inv_put_ns_same_set; assumption | apply (OwnT_same w); [reflexivity | reflexivity | exact HT]]. Qed.

Lemma IT_escape_template w nsid name : IT w -> IT (fst (escape_template w nsid name)).
Proof.
  intros (HI & HT). split; [apply (Inv_escape_template w nsid name HI)|].
  unfold escape_template.
  destruct (ns_view w nsid) as [view|]; [|exact HT].
  destruct (escape_tree view analysis_fuel ctx0 name (n_esc (get_ns w nsid))) as [[[c dn] e1]|p]; [|exact HT].
  set (w1 := put_ns w nsid _).
  assert (IT1 : IT w1) by (apply IT_put_ns_same_set; [split; assumption | reflexivity]).
  assert (S1 : n_set (get_ns w1 nsid) = n_set (get_ns w nsid)) by (unfold w1; rewrite get_ns_put_ns_same; reflexivity).
  destruct (match c_err c with Some code => Some code | None => if state_eqb (c_state c) StText then None else Some ErrEndContext end) as [code|].
  - destruct (assoc_get name (n_set (get_ns w nsid))) as [o|] eqn:Em; cbn [fst]; [|exact (proj2 IT1)].
    assert (Em1 : assoc_get name (n_set (get_ns w1 nsid)) = Some o) by (rewrite S1; exact Em).
    destruct IT1 as (I1 & T1).
    destruct I1 as (Hsc & Hcc & Hhb). destruct (Hsc nsid name o Em1) as ((O1 & O2) & O3 & O4). pose proof (conj Hsc (conj Hcc Hhb)) as I1.
    set (t := get_tmpl w1 o) in *.
    set (w2 := put_tmpl w1 o (mktmpl (EErr code) (h_text t) true (h_ns t))).
    assert (I2 : Inv w2) by (apply (Inv_put_tmpl_member w1 o _ nsid name I1 Em1); [exact O3 | exact O2 | exact O4]).
    assert (T2 : OwnT w2) by (apply (OwnT_same w1); [reflexivity | reflexivity | exact T1]).
    apply OwnT_put_text; [exact I2 | exact T2 | exact O2 | reflexivity].
  - destruct (IT_commit w1 nsid IT1) as (Ic & Tc).
    destruct (assoc_get name (n_set (get_ns w nsid))) as [o|]; cbn [fst]; [|exact Tc].
    apply (OwnT_same (commit w1 nsid)); [reflexivity | reflexivity | exact Tc].
Qed.

Lemma IT_alloc_new w name : IT w -> IT (fst (alloc_new w name)).
Proof.
  intros (HI & HT). split; [apply (Inv_alloc_new w name HI)|].
  unfold alloc_new. cbn [new_common new_text new_ns new_tmpl fst snd].
  set (w1 := fst (new_common w)). assert (T1 : OwnT w1) by (apply OwnT_new_common; exact HT).
  assert (I1 : Inv w1) by (apply Inv_new_common; exact HI).
  set (w2 := fst (new_text w1 (mktext name None (length (w_common w))))).
  assert (T2 : OwnT w2) by (apply OwnT_new_text; [exact I1 | exact T1 | unfold w1; cbn; rewrite app_length; cbn; lia]).
  eapply OwnT_same; [| |exact T2]; reflexivity.
Qed.

(* ---- name spaces and associations are allocated in lock step, and every template object's text
        template belongs to the association whose number is the object's name space ---- *)
Definition TT (w : world) : Prop :=
  length (w_common w) = length (w_ns w) /\
  forall o, (o < length (w_tmpl w))%nat ->
    (h_text (get_tmpl w o) < length (w_text w))%nat /\ x_common (get_text w (h_text (get_tmpl w o))) = h_ns (get_tmpl w o).

Lemma length_set_nth_lt {A} (d : A) n x l : (n < length l)%nat -> length (set_nth d n x l) = length l.
Proof. revert l. induction n as [|n IH]; intros [|h t] H; simpl in *; try lia. rewrite IH by lia. reflexivity. Qed.

Lemma TT_world0 : TT world0.
Proof. split; [reflexivity|]. intros o H. cbn in H. lia. Qed.

Lemma TT_same w w' : w_text w' = w_text w -> w_tmpl w' = w_tmpl w -> length (w_common w') = length (w_common w) ->
  length (w_ns w') = length (w_ns w) -> TT w -> TT w'.
Proof. intros H1 H2 H3 H4 (L & T). unfold TT, get_tmpl, get_text. rewrite H1, H2, H3, H4. split; [exact L | exact T]. Qed.

Lemma TT_keep w w' : text_keep w w' -> w_tmpl w' = w_tmpl w -> length (w_common w') = length (w_common w) ->
  length (w_ns w') = length (w_ns w) -> TT w -> TT w'.
Proof.
  intros (K1 & K2 & K3) H2 H3 H4 (L & T). split; [lia|]. intros o Ho. unfold get_tmpl in *. rewrite H2 in *.
  destruct (T o Ho) as (A & B). split; [lia|]. rewrite K3 by exact A. exact B.
Qed.

Lemma TT_new_text w x : TT w -> TT (fst (new_text w x)).
Proof. apply TT_keep; [apply tk_new_text | reflexivity | reflexivity | reflexivity]. Qed.

Lemma TT_put_text w tid x : (tid < length (w_text w))%nat -> x_common x = x_common (get_text w tid) -> TT w -> TT (put_text w tid x).
Proof. intros Hl Hx. apply TT_keep; [apply tk_put_text; assumption | reflexivity | reflexivity | reflexivity]. Qed.

Lemma TT_put_common w c m : (c < length (w_common w))%nat -> TT w -> TT (put_common w c m).
Proof. intros Hc. apply TT_keep; [apply tk_put_common | reflexivity | cbn; apply length_set_nth_lt; exact Hc | reflexivity]. Qed.

Lemma TT_put_ns w n x : (n < length (w_ns w))%nat -> TT w -> TT (put_ns w n x).
Proof. intros Hn. apply TT_same; [reflexivity | reflexivity | reflexivity | cbn; apply length_set_nth_lt; exact Hn]. Qed.

Lemma TT_new_tmpl w t : (h_text t < length (w_text w))%nat -> x_common (get_text w (h_text t)) = h_ns t -> TT w -> TT (fst (new_tmpl w t)).
Proof.
  intros H1 H2 (L & T). split; [exact L|]. intros o Ho. cbn [new_tmpl fst w_tmpl] in Ho. rewrite app_length in Ho. cbn in Ho.
  destruct (Nat.eq_dec o (length (w_tmpl w))) as [->|Hne].
  - rewrite get_tmpl_new_tmpl_new. split; [exact H1 | exact H2].
  - rewrite get_tmpl_new_tmpl_old by lia. apply T. lia.
Qed.

Lemma TT_put_tmpl w o t : (o < length (w_tmpl w))%nat -> (h_text t < length (w_text w))%nat -> x_common (get_text w (h_text t)) = h_ns t -> TT w -> TT (put_tmpl w o t).
Proof.
  intros Hl H1 H2 (L & T). split; [exact L|]. intros o' Ho. rewrite length_put_tmpl in Ho by exact Hl.
  destruct (Nat.eq_dec o o') as [->|Hne].
  - rewrite get_tmpl_put_tmpl_same. split; [exact H1 | exact H2].
  - rewrite get_tmpl_put_tmpl_other by exact Hne. apply T. exact Ho.
Qed.

Lemma TT_add_handle w h : TT w -> TT (add_handle w h).
Proof. apply TT_same; reflexivity. Qed.

Lemma TT_add_parse_tree w tid name tr : Inv w -> OwnT w -> (tid < length (w_text w))%nat -> TT w -> TT (add_parse_tree w tid name tr).
Proof.
  intros HI HT Hl HTT. pose proof (tk_add_parse_tree w tid name tr Hl) as K. revert K.
  unfold add_parse_tree. set (t := get_text w tid).
  assert (Hct : (x_common t < length (w_common w))%nat) by (apply (proj2 HT); exact Hl).
  assert (S1 : exists w1 nt, (if bytes_eqb name (x_name t) then (w, tid) else new_text w (mktext name None (x_common t))) = (w1, nt) /\
               w_tmpl w1 = w_tmpl w /\ w_common w1 = w_common w /\ w_ns w1 = w_ns w).
  { destruct (bytes_eqb name (x_name t)); [exists w, tid; auto | eexists; eexists; split; [reflexivity|]; auto]. }
  destruct S1 as (w1 & nt & -> & E1 & E2 & E3).
  set (cm := get_common w1 (x_common t)).
  set (keep := match assoc_get name cm with Some old => is_empty_tree tr && match x_tree (get_text w1 old) with Some _ => true | None => false end | None => false end).
  set (w2 := if keep then w1 else put_common w1 (x_common t) (assoc_set name nt cm)).
  assert (F : w_tmpl w2 = w_tmpl w /\ length (w_common w2) = length (w_common w) /\ length (w_ns w2) = length (w_ns w)).
  { unfold w2. destruct keep; [rewrite E1, E2, E3; auto|]. cbn. rewrite E1, E2, E3. repeat split. apply length_set_nth_lt. exact Hct. }
  destruct F as (F1 & F2 & F3).
  destruct (negb keep || match x_tree (get_text w2 nt) with None => true | Some _ => false end); intros K;
    (apply (TT_keep w); [exact K | exact F1 | exact F2 | exact F3 | exact HTT]).
Qed.

Lemma ns_nonempty_lt w n : n_set (get_ns w n) <> [] -> (n < length (w_ns w))%nat.
Proof.
  intros H. destruct (Nat.lt_ge_cases n (length (w_ns w))) as [L|L]; [exact L|].
  exfalso. apply H. unfold get_ns. rewrite nth_overflow by lia. reflexivity.
Qed.

Lemma TT_commit w nsid : IT w -> TT w -> TT (commit w nsid).
Proof.
  intros (HI & HT) HTT.
  unfold commit. destruct (n_set (get_ns w nsid)) as [|[nm o] rest] eqn:Es; [exact HTT|].
  assert (Hn : (nsid < length (w_ns w))%nat) by (apply ns_nonempty_lt; rewrite Es; discriminate).
  assert (Hm : assoc_get nm (n_set (get_ns w nsid)) = Some o) by (rewrite Es; cbn; rewrite bytes_eqb_refl; reflexivity).
  destruct HI as (Hsc & Hcc & Hhb). destruct (Hsc nsid nm o Hm) as ((O1 & O2) & _). pose proof (conj Hsc (conj Hcc Hhb)) as HI.
  set (tid := h_text (get_tmpl w o)) in *.
  set (f1 := fun (w0 : world) (kv : bytes * option tree) => _).
  destruct (fold_IT f1 (e_derived (n_esc (get_ns w nsid))) (fun w0 => (tid < length (w_text w0))%nat /\ TT w0 /\ length (w_ns w0) = length (w_ns w))) with (w := w)
    as ((I1 & T1) & P1 & TT1 & L1); [| split; assumption | auto |].
  { intros w0 [k v] (I0 & T0) (P0 & TT0 & L0). unfold f1. cbn [fst snd]. destruct v as [tr|]; [|split; [split; assumption | auto]].
    destruct (assoc_get k _); [split; [split; assumption | auto]|].
    destruct (Inv_add_parse_tree w0 tid k tr I0 P0) as (Ia & Ea).
    pose proof (TT_add_parse_tree w0 tid k tr I0 T0 P0 TT0) as TTa.
    split; [split; [exact Ia | apply OwnT_add_parse_tree; assumption] |].
    split; [destruct Ea; lia|]. split; [exact TTa|]. rewrite <- (proj1 TTa), <- L0, <- (proj1 TT0).
    pose proof (tk_add_parse_tree w0 tid k tr P0) as (_ & K2 & _).
    (* the association heap does not grow: TT's first clause before and after, and name spaces untouched *)
    assert (w_ns (add_parse_tree w0 tid k tr) = w_ns w0) as Ens.
    { unfold add_parse_tree. destruct (bytes_eqb k _); cbn [new_text fst snd];
      repeat match goal with |- context [if ?b then _ else _] => destruct b end; reflexivity. }
    rewrite (proj1 TTa), Ens. symmetry. exact (proj1 TT0). }
  set (w1 := fold_left f1 _ w) in *.
  set (f2 := fun (w0 : world) (name : bytes) => _).
  destruct (fold_IT f2 (edited_names (n_esc (get_ns w nsid))) (fun w0 => TT w0 /\ length (w_ns w0) = length (w_ns w))) with (w := w1)
    as ((I2 & T2) & TT2 & L2); [| split; assumption | auto |].
  { intros w0 name (I0 & T0) (TT0 & L0). unfold f2.
    destruct (assoc_get name (get_common w0 _)) as [xt|] eqn:Ea; [|split; [split; assumption | auto]].
    destruct (x_tree (get_text w0 xt)) as [tr|]; [|split; [split; assumption | auto]].
    destruct (assoc_get_In _ _ _ Ea) as (k' & _ & Hin). pose proof (cc_bound w0 _ _ _ I0 Hin) as B1.
    split; [split; [apply Inv_put_text; [exact I0 | exact B1 | reflexivity] | apply OwnT_put_text; [exact I0 | exact T0 | exact B1 | reflexivity]] |].
    split; [apply TT_put_text; [exact B1 | reflexivity | exact TT0] | exact L0]. }
  set (w2 := fold_left f2 _ w1) in *.
  apply TT_put_ns; [lia | exact TT2].
Qed.

Lemma TT_escape_template w nsid name : IT w -> TT w -> TT (fst (escape_template w nsid name)).
Proof.
  intros (HI & HT) HTT.
  unfold escape_template, ns_view.
  destruct (n_set (get_ns w nsid)) as [|[nm0 o0] rest] eqn:Es; [exact HTT|].
  assert (Hn : (nsid < length (w_ns w))%nat) by (apply ns_nonempty_lt; rewrite Es; discriminate).
  rewrite <- Es.
  destruct (escape_tree _ analysis_fuel ctx0 name (n_esc (get_ns w nsid))) as [[[c dn] e1]|p]; [|exact HTT].
  set (w1 := put_ns w nsid _).
  assert (IT1 : IT w1) by (apply IT_put_ns_same_set; [split; assumption | reflexivity]).
  assert (TT1 : TT w1) by (apply TT_put_ns; assumption).
  assert (S1 : n_set (get_ns w1 nsid) = n_set (get_ns w nsid)) by (unfold w1; rewrite get_ns_put_ns_same; reflexivity).
  destruct (match c_err c with Some code => Some code | None => if state_eqb (c_state c) StText then None else Some ErrEndContext end) as [code|].
  - destruct (assoc_get name (n_set (get_ns w nsid))) as [o|] eqn:Em; cbn [fst]; [|exact TT1].
    assert (Em1 : assoc_get name (n_set (get_ns w1 nsid)) = Some o) by (rewrite S1; exact Em).
    destruct IT1 as (I1 & T1).
    destruct I1 as (Hsc & Hcc & Hhb). destruct (Hsc nsid name o Em1) as ((O1 & O2) & O3 & O4).
    set (t := get_tmpl w1 o) in *.
    destruct (proj2 TT1 o O1) as (Q1 & Q2). fold t in Q1, Q2.
    set (w2 := put_tmpl w1 o (mktmpl (EErr code) (h_text t) true (h_ns t))).
    assert (TT2 : TT w2) by (apply TT_put_tmpl; [exact O1 | exact Q1 | exact Q2 | exact TT1]).
    apply TT_put_text; [exact O2 | reflexivity | exact TT2].
  - pose proof (IT_commit w1 nsid IT1) as (Ic & Tc). pose proof (TT_commit w1 nsid IT1 TT1) as TTc.
    destruct (assoc_get name (n_set (get_ns w nsid))) as [o|] eqn:Em; cbn [fst]; [|exact TTc].
    set (wc := commit w1 nsid) in *.
    assert (Emc : assoc_get name (n_set (get_ns wc nsid)) = Some o).
    { unfold wc. destruct (commit_frame w1 nsid) as (_ & _ & _ & Cs & _). rewrite Cs, S1. exact Em. }
    destruct Ic as (Hsc & Hcc & Hhb). destruct (Hsc nsid name o Emc) as ((O1 & O2) & O3 & O4).
    destruct (proj2 TTc o O1) as (Q1 & Q2).
    apply TT_put_tmpl; [exact O1 | exact Q1 | exact Q2 | exact TTc].
Qed.

Definition J (w : world) : Prop := IT w /\ TT w.

Lemma TT_alloc_new w name : TT w -> TT (fst (alloc_new w name)).
Proof.
  intros (L & T). unfold alloc_new. cbn [new_common new_text new_ns new_tmpl fst snd].
  split.
  - cbn. rewrite length_set_nth_lt by (rewrite app_length; cbn; lia). rewrite !app_length. cbn. lia.
  - intros o Ho. cbn [put_ns w_tmpl] in Ho. rewrite app_length in Ho. cbn [length] in Ho.
    unfold get_tmpl, get_text. cbn [put_ns w_tmpl w_text].
    destruct (Nat.eq_dec o (length (w_tmpl w))) as [->|Hne].
    + rewrite app_nth2 by lia. rewrite Nat.sub_diag. cbn [nth h_text h_ns]. rewrite app_length. cbn [length].
      split; [lia|]. rewrite app_nth2 by lia. rewrite Nat.sub_diag. cbn. exact L.
    + rewrite app_nth1 by lia. destruct (T o) as (A & B); [lia|]. unfold get_tmpl, get_text in A, B.
      rewrite app_length. split; [lia|]. rewrite app_nth1 by exact A. exact B.
Qed.

Lemma length_ns_alloc_new w name : length (w_ns (fst (alloc_new w name))) = S (length (w_ns w)).
Proof. unfold alloc_new. cbn. rewrite length_set_nth_lt by (rewrite app_length; cbn; lia). rewrite app_length. cbn. lia. Qed.

Lemma J_alloc_new w name : J w -> J (fst (alloc_new w name)).
Proof. intros (HIT & HTT). split; [apply IT_alloc_new; exact HIT | apply TT_alloc_new; exact HTT]. Qed.

Lemma J_sub_new w obj name : J w -> tmpl_ok w obj -> J (fst (sub_new w obj name)).
Proof.
  intros ((HI & HT) & HTT) (Ok1 & Ok2).
  pose proof (Inv_sub_new w obj name HI) as HS. cbv zeta in HS. destruct HS as (IS & _).
  split; [split; [exact IS|]|]; rewrite sub_new_eq; cbv zeta; cbn [fst].
  - (* OwnT *)
    eapply OwnT_same; [reflexivity | reflexivity |].
    unfold sn_w4.
    assert (T2 : OwnT (sn_w2 w obj name)).
    { unfold sn_w2. eapply OwnT_same; [reflexivity | reflexivity |]. apply OwnT_new_text; [exact HI | exact HT|].
      apply (proj2 HT). exact Ok2. }
    assert (I2 : Inv (sn_w2 w obj name)) by (unfold sn_w2; apply Inv_new_tmpl; apply Inv_new_text; exact HI).
    destruct (assoc_get name _) as [existing|]; [|exact T2].
    eapply OwnT_same; [reflexivity | reflexivity |]. apply IT_alloc_new. split; assumption.
  - (* TT *)
    set (n := h_ns (get_tmpl w obj)).
    destruct (proj2 HTT obj Ok1) as (Q1 & Q2). fold n in Q2.
    assert (Hn : (n < length (w_ns w))%nat) by (rewrite <- Q2, <- (proj1 HTT); apply (proj2 HT); exact Ok2).
    assert (TT2 : TT (sn_w2 w obj name)).
    { unfold sn_w2. apply TT_new_tmpl; [cbn; rewrite app_length; cbn; lia | | apply TT_new_text; exact HTT].
      cbn [h_text h_ns]. rewrite get_text_new_text_new. cbn [x_common]. exact Q2. }
    assert (I2 : Inv (sn_w2 w obj name)) by (unfold sn_w2; apply Inv_new_tmpl; apply Inv_new_text; exact HI).
    assert (L2 : length (w_ns (sn_w2 w obj name)) = length (w_ns w)) by reflexivity.
    unfold sn_w4. set (w2 := sn_w2 w obj name) in *. fold n.
    destruct (assoc_get name (n_set (get_ns w2 n))) as [existing|] eqn:Ex.
    + pose proof (TT_alloc_new w2 (x_name (get_text w2 (h_text (get_tmpl w2 existing)))) TT2) as TT3.
      destruct (Inv_alloc_new w2 (x_name (get_text w2 (h_text (get_tmpl w2 existing)))) I2)
        as (I3 & F1 & F2 & F3 & F4 & F5 & F6 & F7 & F8 & F9 & F10 & F11 & F12 & F13).
      pose proof (length_ns_alloc_new w2 (x_name (get_text w2 (h_text (get_tmpl w2 existing))))) as L3.
      destruct (alloc_new w2 _) as [w3 fresh]. cbn [fst snd] in *.
      destruct I2 as (Hsc2 & _ & _). destruct (Hsc2 n name existing Ex) as ((B1 & B2) & B3 & B4).
      destruct F1 as (G1 & G2).
      destruct (proj2 TT3 fresh G1) as (R1 & R2).
      apply TT_put_ns; [cbn [put_tmpl w_ns]; rewrite L3, L2; lia|].
      apply TT_put_tmpl; [lia | exact R1 | exact R2 | exact TT3].
    + apply TT_put_ns; [lia | exact TT2].
Qed.

(* ---- Clone ---- *)
Definition ct_keep (cid : nat) (w w' : world) : Prop :=
  w_tmpl w' = w_tmpl w /\ w_ns w' = w_ns w /\ length (w_common w') = length (w_common w) /\
  (forall c, c <> cid -> get_common w' c = get_common w c) /\
  (length (w_text w) <= length (w_text w'))%nat /\
  (forall t, (t < length (w_text w))%nat -> get_text w' t = get_text w t).
Lemma ctk_refl cid w : ct_keep cid w w. Proof. repeat split; auto. Qed.
Lemma ctk_trans cid a b c : ct_keep cid a b -> ct_keep cid b c -> ct_keep cid a c.
Proof.
  intros (A1 & A2 & A3 & A4 & A5 & A6) (B1 & B2 & B3 & B4 & B5 & B6).
  split; [congruence|]. split; [congruence|]. split; [congruence|].
  split; [intros c0 Hc; rewrite B4 by exact Hc; apply A4; exact Hc|]. split; [lia|].
  intros t Ht. rewrite B6 by lia. apply A6. exact Ht.
Qed.

Lemma ct_f_step cid xn w0 k t : Inv w0 -> OwnT w0 -> (cid < length (w_common w0))%nat ->
  (t < length (w_text w0))%nat -> x_name (get_text w0 t) = k ->
  (forall nm tid, In (nm, tid) (get_common w0 cid) -> x_common (get_text w0 tid) = cid) ->
  let w' := ct_f cid xn w0 (k, t) in Inv w' /\ OwnT w' /\ ct_keep cid w0 w'.
Proof.
  intros I0 T0 Hc Ht Hk Hents. unfold ct_f. cbn [fst snd].
  destruct (bytes_eqb k xn); [split; [exact I0 | split; [exact T0 | apply ctk_refl]]|].
  cbn [new_text].
  set (x1 := mktext (x_name (get_text w0 t)) (x_tree (get_text w0 t)) cid).
  set (w0a := mkworld (w_text w0 ++ [x1]) (w_common w0) (w_tmpl w0) (w_ns w0) (w_handles w0)).
  assert (I0a : Inv w0a) by (apply (Inv_new_text w0 x1 I0)).
  assert (T0a : OwnT w0a) by (apply (OwnT_new_text w0 x1 I0 T0); exact Hc).
  assert (X0a : get_text w0a (length (w_text w0)) = x1) by (apply (get_text_new_text_new w0)).
  assert (Xold : forall q, (q < length (w_text w0))%nat -> get_text w0a q = get_text w0 q) by (intros q Hq; apply (get_text_new_text_old w0 x1 q Hq)).
  split; [|split].
  - apply Inv_put_common; [exact I0a|].
    intros k2 v2 Hin2. apply In_assoc_set in Hin2. destruct Hin2 as [Hin2|[Hk2 ->]].
    + destruct I0a as (_ & Hcc & _). exact (Hcc _ _ _ Hin2).
    + split; [unfold w0a; cbn; rewrite app_length; cbn; lia|]. rewrite X0a. cbn [x_name x1]. rewrite Hk.
      destruct Hk2 as [->|Hk2]; [reflexivity | apply bytes_eqb_eq in Hk2; exact Hk2].
  - apply OwnT_put_common; [exact T0a|].
    intros k2 v2 Hin2. apply In_assoc_set in Hin2. destruct Hin2 as [Hin2|[_ ->]].
    + exact (proj1 T0a _ _ _ Hin2).
    + rewrite X0a. reflexivity.
  - split; [reflexivity|]. split; [reflexivity|]. split; [cbn; apply length_set_nth_lt; exact Hc|].
    split; [intros c0 Hc0; rewrite get_common_put_common_other by congruence; reflexivity|].
    split; [cbn; rewrite app_length; lia|]. intros q Hq. exact (Xold q Hq).
Qed.

Lemma own_clone_text w x : IT w -> (x_common x < length (w_common w))%nat ->
  let w1 := fst (fst (clone_text w x)) in
  OwnT w1 /\ w_tmpl w1 = w_tmpl w /\ w_ns w1 = w_ns w /\ length (w_common w1) = S (length (w_common w)) /\
  (forall c, c <> length (w_common w) -> get_common w1 c = get_common w c) /\
  (length (w_text w) <= length (w_text w1))%nat /\
  (forall t, (t < length (w_text w))%nat -> get_text w1 t = get_text w t) /\
  get_text w1 (length (w_text w)) = mktext (x_name x) (x_tree x) (length (w_common w)).
Proof.
  intros (HI & HT) Hxc. rewrite clone_text_eq. cbn [fst snd]. unfold ct_wc.
  set (cid := length (w_common w)). set (ntid := length (w_text w)).
  set (wa := fst (new_common w)). assert (Ia : Inv wa) by (apply Inv_new_common; exact HI).
  assert (Ta : OwnT wa) by (apply OwnT_new_common; exact HT).
  assert (La : length (w_common wa) = S cid) by (unfold wa, cid; cbn; rewrite app_length; cbn; lia).
  set (x1 := mktext (x_name x) (x_tree x) cid).
  set (wb := fst (new_text wa x1)). assert (Ib : Inv wb) by (apply Inv_new_text; exact Ia).
  assert (Tb : OwnT wb) by (apply OwnT_new_text; [exact Ia | exact Ta | cbn [x_common x1]; lia]).
  assert (Xb : get_text wb ntid = x1) by (apply (get_text_new_text_new wa)).
  assert (Lb : (ntid < length (w_text wb))%nat) by (unfold wb, wa, ntid; cbn; rewrite app_length; cbn; lia).
  assert (Kb : ct_keep cid (mkworld (w_text w) (w_common w ++ [[]]) (w_tmpl w) (w_ns w) (w_handles w)) wb).
  { split; [reflexivity|]. split; [reflexivity|]. split; [reflexivity|]. split; [reflexivity|].
    split; [unfold wb; cbn; rewrite app_length; lia|]. intros t Ht. apply (get_text_new_text_old wa x1 t Ht). }
  fold wa in Kb.
  set (wc := match assoc_get (x_name x) (get_common wb (x_common x)) with Some _ => put_common wb cid [(x_name x, ntid)] | None => wb end).
  assert (Ic : Inv wc).
  { unfold wc. destruct (assoc_get _ _); [|exact Ib]. apply Inv_put_common; [exact Ib|].
    intros k t [H|[]]. inversion H; subst. split; [exact Lb | rewrite Xb; reflexivity]. }
  assert (Tc : OwnT wc).
  { unfold wc. destruct (assoc_get _ _); [|exact Tb]. apply OwnT_put_common; [exact Tb|].
    intros k t [H|[]]. inversion H; subst. rewrite Xb. reflexivity. }
  assert (Kc : ct_keep cid wb wc).
  { unfold wc. destruct (assoc_get _ _); [|apply ctk_refl].
    split; [reflexivity|]. split; [reflexivity|]. split; [unfold put_common; cbn [w_common]; apply length_set_nth_lt; change (w_common wb) with (w_common wa); rewrite La; lia|].
    split; [intros c0 Hc0; rewrite get_common_put_common_other by congruence; reflexivity|]. split; [cbn; lia|]. reflexivity. }
  set (src := get_common w (x_common x)).
  assert (Hsrc : forall k t, In (k, t) src -> (t < length (w_text w))%nat /\ x_name (get_text w t) = k).
  { destruct HI as (_ & Hcc & _). intros k t Hin. exact (Hcc _ _ _ Hin). }
  fold wa. fold wb. fold wc. fold src. set (f0 := ct_f cid (x_name x)).
  assert (Lwb : length (w_common wb) = S cid) by exact La.
  assert (HF : forall l w0, Inv w0 -> OwnT w0 -> ct_keep cid wb w0 -> incl l src ->
               OwnT (fold_left f0 l w0) /\ ct_keep cid wb (fold_left f0 l w0)).
  { induction l as [|[k t] l IH]; intros w0 I0 T0 K0 Hincl; cbn [fold_left]; [split; assumption|].
    assert (Hin : In (k, t) src) by (apply Hincl; left; reflexivity).
    assert (Hl' : incl l src) by (intros z Hz; apply Hincl; right; exact Hz).
    destruct (Hsrc k t Hin) as (S1 & S2).
    destruct K0 as (K1 & K2 & K3 & K4 & K5 & K6).
    destruct Kb as (_ & _ & _ & _ & Kb5 & Kb6).
    assert (Lw : length (w_text wa) = length (w_text w)) by reflexivity.
    assert (Gw : forall q, get_text wa q = get_text w q) by reflexivity.
    destruct (ct_f_step cid (x_name x) w0 k t I0 T0) as (Is & Ts & Ks).
    - rewrite K3, Lwb. lia.
    - lia.
    - rewrite K6 by lia. rewrite Kb6 by exact S1. rewrite Gw. exact S2.
    - intros nm tid Hin2. exact (proj1 T0 _ _ _ Hin2).
    - apply IH; [exact Is | exact Ts | eapply ctk_trans; [exact (conj K1 (conj K2 (conj K3 (conj K4 (conj K5 K6))))) | exact Ks] | exact Hl']. }
  destruct (HF src wc Ic Tc Kc (incl_refl src)) as (Tf & Kf).
  pose proof (ctk_trans cid wa wb _ Kb Kf) as (F1 & F2 & F3 & F4 & F5 & F6).
  split; [exact Tf|]. split; [exact F1|]. split; [exact F2|]. split; [rewrite F3; exact La|].
  split; [intros c0 Hc0; rewrite F4 by exact Hc0; apply get_common_new_common|].
  split; [exact F5|]. split; [exact F6|].
  destruct Kf as (_ & _ & _ & _ & _ & G6). rewrite G6 by exact Lb. exact Xb.
Qed.

Lemma cm_fold_none ns nsid l : fold_left (clone_member ns nsid) l None = None.
Proof. induction l as [|a l IH]; simpl; [reflexivity | exact IH]. Qed.

Lemma cm_fold ns nsid : forall l w0 w',
  (forall k t, In (k, t) l -> (t < length (w_text w0))%nat /\ x_common (get_text w0 t) = nsid) ->
  TT w0 -> (nsid < length (w_ns w0))%nat ->
  fold_left (clone_member ns nsid) l (Some w0) = Some w' ->
  TT w' /\ w_text w' = w_text w0 /\ w_common w' = w_common w0 /\ w_handles w' = w_handles w0 /\
  (forall m, m <> nsid -> get_ns w' m = get_ns w0 m).
Proof.
  induction l as [|[k t] l IH]; intros w0 w' Hl HTT Hn H; cbn [fold_left] in H.
  - inversion H; subst. auto.
  - destruct (clone_member ns nsid (Some w0) (k, t)) as [w0b|] eqn:Er; [|rewrite cm_fold_none in H; discriminate].
    unfold clone_member in Er. cbn [fst snd] in Er.
    destruct (assoc_get k (n_set ns)) as [srcm|]; [|discriminate].
    destruct (h_err (get_tmpl w0 srcm)); try discriminate.
    cbn [new_tmpl] in Er.
    set (tm := mktmpl ENotYet t (match x_tree (get_text w0 t) with None => true | Some _ => false end) nsid) in *.
    set (w0a := mkworld (w_text w0) (w_common w0) (w_tmpl w0 ++ [tm]) (w_ns w0) (w_handles w0)) in *.
    destruct (Hl k t (or_introl eq_refl)) as (B1 & B2).
    assert (TTa : TT w0a) by (apply (TT_new_tmpl w0 tm); [exact B1 | exact B2 | exact HTT]).
    inversion Er as [Er']. clear Er. 
    assert (TTb : TT w0b) by (rewrite <- Er'; apply TT_put_ns; [exact Hn | exact TTa]).
    assert (Eb : w_text w0b = w_text w0 /\ w_common w0b = w_common w0 /\ w_handles w0b = w_handles w0 /\ length (w_ns w0b) = length (w_ns w0)
                 /\ (forall m, m <> nsid -> get_ns w0b m = get_ns w0 m)).
    { rewrite <- Er'. split; [reflexivity|]. split; [reflexivity|]. split; [reflexivity|]. split; [cbn; apply length_set_nth_lt; exact Hn|].
      intros m Hm. rewrite get_ns_put_ns_other by congruence. reflexivity. }
    destruct Eb as (Eb1 & Eb2 & Eb3 & Eb4 & Eb5).
    destruct (IH w0b w') as (R1 & R2 & R3 & R4 & R5); [| exact TTb | rewrite Eb4; exact Hn | exact H |].
    + intros k2 t2 Hin. unfold get_text. rewrite Eb1. exact (Hl k2 t2 (or_intror Hin)).
    + split; [exact R1|]. split; [congruence|]. split; [congruence|]. split; [congruence|].
      intros m Hm. rewrite (R5 m Hm). apply Eb5. exact Hm.
Qed.

Lemma J_step_clone w h : J w -> J (fst (step w (OClone h))).
Proof.
  intros ((HI & HT) & HTT). pose proof (Inv_step_clone w h HI) as IS. revert IS.
  cbn [step]. destruct (handle w h) as [obj|] eqn:Eh; [|intros _; split; [split|]; assumption].
  destruct (h_err (get_tmpl w obj)); try (intros _; split; [split|]; assumption).
  set (x := get_text w (h_text (get_tmpl w obj))).
  destruct HI as (Hsc & Hcc & Hhb). destruct (Hhb h obj Eh) as ((Ok1 & Ok2) & _). pose proof (conj Hsc (conj Hcc Hhb)) as HI.
  assert (Hxc : (x_common x < length (w_common w))%nat) by (apply (proj2 HT); exact Ok2).
  destruct (Inv_clone_text w x HI) as (I1 & E1 & L1 & X1 & C1).
  destruct (own_clone_text w x (conj HI HT) Hxc) as (T1 & F1 & F2 & F3 & F4 & F5 & F6 & F7).
  rewrite clone_text_eq in *. cbn [fst snd] in *.
  set (w1 := fold_left _ _ _) in *. set (cid := length (w_common w)) in *. set (ntid := length (w_text w)) in *.
  cbn [new_ns new_tmpl].
  set (nsid := length (w_ns w1)). set (ret := length (w_tmpl w1)).
  set (w2 := mkworld (w_text w1) (w_common w1) (w_tmpl w1) (w_ns w1 ++ [mknsp [] false false esc_empty]) (w_handles w1)).
  set (t0 := mktmpl ENotYet ntid (match x_tree x with None => true | Some _ => false end) nsid).
  set (w3 := mkworld (w_text w2) (w_common w2) (w_tmpl w2 ++ [t0]) (w_ns w2) (w_handles w2)).
  change (length (w_tmpl w2)) with ret.
  set (w4 := put_ns w3 nsid (mknsp [(x_name x, ret)] false false esc_empty)).
  assert (Ecn : cid = nsid) by (unfold nsid, cid; rewrite F2; exact (proj1 HTT)).
  assert (Lns1 : length (w_ns w1) = length (w_ns w)) by (rewrite F2; reflexivity).
  assert (TT2 : TT w2).
  { split; [unfold w2; cbn [w_common w_ns]; rewrite app_length, F3; cbn [length]; rewrite Lns1; pose proof (proj1 HTT) as Q; unfold cid; lia|].
    intros o Ho. change (w_tmpl w2) with (w_tmpl w1) in Ho. rewrite F1 in Ho.
    destruct (proj2 HTT o Ho) as (A & B).
    assert (G : get_tmpl w2 o = get_tmpl w o) by (unfold get_tmpl; change (w_tmpl w2) with (w_tmpl w1); rewrite F1; reflexivity).
    rewrite G. change (get_text w2) with (get_text w1). change (w_text w2) with (w_text w1).
    split; [lia|]. rewrite F6 by exact A. exact B. }
  assert (TT3 : TT w3).
  { apply (TT_new_tmpl w2 t0); [exact L1 | | exact TT2]. cbn [h_text h_ns t0]. change (get_text w2 ntid) with (get_text w1 ntid).
    rewrite F7. cbn [x_common]. exact Ecn. }
  assert (Ln3 : (nsid < length (w_ns w3))%nat) by (unfold w3, w2, nsid; cbn; rewrite app_length; cbn; lia).
  assert (TT4 : TT w4) by (apply TT_put_ns; [exact Ln3 | exact TT3]).
  assert (T4 : OwnT w4) by (apply (OwnT_same w1); [reflexivity | reflexivity | exact T1]).
  destruct (fold_left (clone_member (get_ns w (h_ns (get_tmpl w obj))) nsid) (get_common w4 cid) (Some w4)) as [w5|] eqn:Ef;
    [|intros _; split; [split|]; assumption].
  cbn [fst]. intros I5.
  destruct (cm_fold (get_ns w (h_ns (get_tmpl w obj))) nsid (get_common w4 cid) w4 w5) as (R1 & R2 & R3 & R4 & R5); [| exact TT4 | unfold w4; cbn; rewrite length_set_nth_lt by exact Ln3; exact Ln3 | exact Ef |].
  { intros k t Hin. destruct (C1 k t Hin) as (B1 & _). split; [exact B1|].
    change (get_text w4 t) with (get_text w1 t). rewrite <- Ecn. exact (proj1 T1 _ _ _ Hin). }
  split; [split; [exact I5|]|].
  - apply (OwnT_same w4); [cbn; exact R2 | cbn; exact R3 | exact T4].
  - apply TT_add_handle. exact R1.
Qed.

(* ---- Parse ---- *)
Lemma tk_alloc_new w name : text_keep w (fst (alloc_new w name)).
Proof.
  unfold alloc_new. cbn [new_common new_text new_ns new_tmpl fst snd].
  eapply tk_trans; [apply (tk_new_common w)|]. eapply tk_trans; [apply tk_new_text|]. apply tk_same; reflexivity.
Qed.

Lemma tk_sub_new w obj name : text_keep w (fst (sub_new w obj name)).
Proof.
  rewrite sub_new_eq. cbv zeta. cbn [fst]. eapply tk_trans; [|apply tk_same; reflexivity].
  unfold sn_w4.
  assert (K2 : text_keep w (sn_w2 w obj name)) by (unfold sn_w2; eapply tk_trans; [apply tk_new_text | apply tk_same; reflexivity]).
  destruct (assoc_get name _); [|exact K2].
  eapply tk_trans; [exact K2|]. eapply tk_trans; [apply tk_alloc_new | apply tk_same; reflexivity].
Qed.

Lemma J_step_parse w h p : J w -> J (fst (step w (OParse h p))).
Proof.
  intros ((HI & HT) & HTT). cbn [step]. destruct (handle w h) as [obj|] eqn:Eh; [|split; [split|]; assumption].
  destruct (n_escaped _); [split; [split|]; assumption|]. destruct p as [|trees]; [split; [split|]; assumption|]. cbn [fst].
  set (t := get_tmpl w obj). set (nsid0 := h_ns t).
  assert (Hok : tmpl_ok w obj) by (destruct HI as (_ & _ & Hhb); destruct (Hhb h obj Eh) as (A & _); exact A).
  destruct Hok as (Hobj & Htid). fold t in Htid.
  match goal with |- J (fold_left ?f2 (get_common (fold_left ?f1 trees w) ?c) (fold_left ?f1 trees w)) => set (F1 := f1); set (F2 := f2) end.
  destruct (fold_IT F1 trees (fun w0 => (h_text t < length (w_text w0))%nat /\ w_tmpl w0 = w_tmpl w /\ TT w0)) with (w := w)
    as ((I1 & T1) & P1 & M1 & TT1); [| split; assumption | auto |].
  { intros w0 kv (I0 & T0) (P0 & M0 & TT0). unfold F1. destruct (Inv_add_parse_tree w0 (h_text t) (fst kv) (snd kv) I0 P0) as (Ia & Ea).
    split; [split; [exact Ia | apply OwnT_add_parse_tree; assumption]|]. split; [destruct Ea; lia|].
    split; [|apply TT_add_parse_tree; assumption].
    destruct (add_parse_tree_frame w0 (h_text t) (fst kv) (snd kv)) as (_ & B2 & _). rewrite B2. exact M0. }
  set (w1 := fold_left F1 trees w) in *.
  set (L := get_common w1 (x_common (get_text w1 (h_text t)))).
  assert (HL : entries_ok w1 L) by (destruct I1 as (_ & Hcc & _); intros k x Hin; exact (Hcc _ _ _ Hin)).
  assert (G1 : get_tmpl w1 obj = t) by (unfold get_tmpl; rewrite M1; reflexivity).
  assert (Hobj1 : h_ns (get_tmpl w1 obj) = nsid0) by (rewrite G1; reflexivity).
  assert (Hc1 : x_common (get_text w1 (h_text t)) = nsid0).
  { destruct (proj2 TT1 obj) as (_ & B); [rewrite M1; exact Hobj|]. rewrite G1 in B. exact B. }
  assert (HLc : forall k x, In (k, x) L -> x_common (get_text w1 x) = nsid0).
  { intros k x Hin. rewrite (proj1 T1 _ _ _ Hin). exact Hc1. }
  assert (HF : forall l w0, incl l L -> J w0 -> text_ext w1 w0 -> text_keep w1 w0 -> h_ns (get_tmpl w0 obj) = nsid0 -> tmpl_ok w0 obj -> J (fold_left F2 l w0)).
  { induction l as [|[name xt] l IH]; intros w0 Hincl J0 E0 K0 Ho Hk; cbn [fold_left]; [exact J0|].
    assert (Hin : In (name, xt) L) by (apply Hincl; left; reflexivity).
    assert (Hl' : incl l L) by (intros z Hz; apply Hincl; right; exact Hz).
    destruct (entries_ok_ext w1 w0 L E0 HL name xt Hin) as (X1 & X2).
    destruct (HL name xt Hin) as (X0 & _).
    assert (Xc : x_common (get_text w0 xt) = nsid0) by (destruct K0 as (_ & _ & K3); rewrite K3 by exact X0; exact (HLc name xt Hin)).
    destruct J0 as ((I0 & T0) & TT0).
    assert (Hstep : J (F2 w0 (name, xt)) /\ text_ext w0 (F2 w0 (name, xt)) /\ text_keep w0 (F2 w0 (name, xt)) /\
                    h_ns (get_tmpl (F2 w0 (name, xt)) obj) = nsid0 /\ tmpl_ok (F2 w0 (name, xt)) obj).
    { unfold F2. cbn [fst snd]. fold t. fold nsid0.
      destruct (assoc_get name (n_set (get_ns w0 nsid0))) as [m|] eqn:Em.
      - destruct I0 as (Hsc & Hcc & Hhb). destruct (Hsc nsid0 name m Em) as ((M1a & M1b) & M3 & _). pose proof (conj Hsc (conj Hcc Hhb)) as I0.
        split; [split; [split|]|].
        + apply (Inv_put_tmpl_member w0 m _ nsid0 name I0 Em); [exact M3 | exact X1 | exact X2].
        + apply (OwnT_same w0); [reflexivity | reflexivity | exact T0].
        + apply TT_put_tmpl; [exact M1a | exact X1 | cbn [h_text h_ns]; rewrite M3; exact Xc | exact TT0].
        + split; [apply text_ext_same; reflexivity|]. split; [apply tk_same; reflexivity|].
          destruct Hk as (Hk1 & Hk2). unfold tmpl_ok. rewrite length_put_tmpl by exact M1a.
          destruct (Nat.eq_dec m obj) as [->|Hne]; [rewrite get_tmpl_put_tmpl_same; cbn [h_ns h_text]; auto | rewrite get_tmpl_put_tmpl_other by exact Hne; auto].
      - assert (Hn : assoc_get name (n_set (get_ns w0 (h_ns (get_tmpl w0 obj)))) = None) by (rewrite Ho; exact Em).
        destruct (Inv_sub_new w0 obj name I0) as (Is & _).
        pose proof (J_sub_new w0 obj name (conj (conj I0 T0) TT0) Hk) as ((_ & Ts) & TTs).
        pose proof (sub_new_lookup w0 obj name) as Hlk. rewrite Ho in Hlk.
        pose proof (sub_new_fresh_text_ext w0 obj name Hn) as Es.
        pose proof (sub_new_fresh_h_ns w0 obj name Hn obj) as Hh.
        pose proof (tk_sub_new w0 obj name) as Ks.
        pose proof (tf_sub_new_fresh obj w0 obj name Hn) as Fs.
        destruct (sub_new w0 obj name) as [w' member]. cbn [fst snd] in *.
        destruct (entries_ok_ext w1 w' L (text_ext_trans _ _ _ E0 Es) HL name xt Hin) as (Y1 & Y2).
        destruct Is as (Hsc & Hcc & Hhb). destruct (Hsc nsid0 name member Hlk) as ((M1a & M1b) & M3 & _). pose proof (conj Hsc (conj Hcc Hhb)) as Is.
        assert (Ho' : h_ns (get_tmpl w' obj) = nsid0) by (destruct Hh as [E|E]; rewrite E; exact Ho).
        assert (Yc : x_common (get_text w' xt) = nsid0) by (destruct Ks as (_ & _ & K3); rewrite K3 by exact X1; exact Xc).
        assert (Hk' : tmpl_ok w' obj).
        { destruct Hk as (Hk1 & Hk2). destruct Fs as (Fs1 & Fs2). destruct Ks as (Ks1 & _). split; [lia|]. rewrite Fs2 by exact Hk1. lia. }
        split; [split; [split|]|].
        + apply (Inv_put_tmpl_member w' member _ nsid0 name Is Hlk); [exact M3 | exact Y1 | exact Y2].
        + apply (OwnT_same w'); [reflexivity | reflexivity | exact Ts].
        + apply TT_put_tmpl; [exact M1a | exact Y1 | cbn [h_text h_ns]; rewrite M3; exact Yc | exact TTs].
        + split; [eapply text_ext_trans; [exact Es | apply text_ext_same; reflexivity]|].
          split; [eapply tk_trans; [exact Ks | apply tk_same; reflexivity]|].
          destruct Hk' as (Hk1 & Hk2). unfold tmpl_ok. rewrite length_put_tmpl by exact M1a.
          destruct (Nat.eq_dec member obj) as [->|Hne]; [rewrite get_tmpl_put_tmpl_same; cbn [h_ns h_text]; auto | rewrite get_tmpl_put_tmpl_other by exact Hne; auto]. }
    destruct Hstep as (Js & Es & Ks & Hs & Hks).
    apply IH; [exact Hl' | exact Js | eapply text_ext_trans; [exact E0 | exact Es] | eapply tk_trans; [exact K0 | exact Ks] | exact Hs | exact Hks]. }
  apply HF; [apply incl_refl | split; [split|]; assumption | apply text_ext_refl | apply tk_refl | exact Hobj1 |].
  split; [rewrite M1; exact Hobj | rewrite G1; exact P1].
Qed.

(* ---- every operation preserves the three invariants ---- *)
Lemma handle_ns_lt w h obj : J w -> handle w h = Some obj -> tmpl_ok w obj /\ (h_ns (get_tmpl w obj) < length (w_ns w))%nat.
Proof.
  intros ((HI & HT) & HTT) Eh. destruct HI as (_ & _ & Hhb). destruct (Hhb h obj Eh) as ((A1 & A2) & _).
  split; [split; assumption|]. destruct (proj2 HTT obj A1) as (_ & B). rewrite <- B, <- (proj1 HTT). apply (proj2 HT). exact A2.
Qed.

Lemma OT_put_ns w n x : (n < length (w_ns w))%nat -> OwnT w /\ TT w -> OwnT (put_ns w n x) /\ TT (put_ns w n x).
Proof. intros Hn (A & B). split; [apply (OwnT_same w); [reflexivity | reflexivity | exact A] | apply TT_put_ns; assumption]. Qed.

Lemma J_set_escaped w n : (n < length (w_ns w))%nat -> J w -> J (set_escaped w n).
Proof.
  intros Hn ((HI & HT) & HTT). unfold set_escaped. split; [apply IT_put_ns_same_set; [split; assumption | reflexivity] | apply TT_put_ns; assumption].
Qed.

Lemma J_escape_template w nsid name : J w -> J (fst (escape_template w nsid name)).
Proof. intros (HIT & HTT). split; [apply IT_escape_template; exact HIT | apply TT_escape_template; assumption]. Qed.

Theorem J_step w op : J w -> J (fst (step w op)).
Proof.
  intros HJ. pose proof HJ as ((HI & HT) & HTT).
  destruct op as [name|h name|h p|h|h name|h|h name|h|h].
  - (* New *) pose proof (Inv_step w (ONew name) HI) as IS. revert IS. cbn [step].
    pose proof (J_alloc_new w name HJ) as ((_ & T1) & TT1).
    destruct (alloc_new w name) as [w1 obj]. cbn [fst snd] in *. intros IS.
    split; [split; [exact IS | apply (OwnT_same w1); [reflexivity | reflexivity | exact T1]] | apply TT_add_handle; exact TT1].
  - (* t.New *) pose proof (Inv_step w (OSubNew h name) HI) as IS. revert IS. cbn [step].
    destruct (handle w h) as [obj|] eqn:Eh; [|intros _; exact HJ].
    destruct (handle_ns_lt w h obj HJ Eh) as (Hok & _).
    pose proof (J_sub_new w obj name HJ Hok) as ((_ & T1) & TT1).
    destruct (sub_new w obj name) as [w1 o']. cbn [fst snd] in *. intros IS.
    split; [split; [exact IS | apply (OwnT_same w1); [reflexivity | reflexivity | exact T1]] | apply TT_add_handle; exact TT1].
  - apply J_step_parse. exact HJ.
  - apply J_step_clone. exact HJ.
  - (* Lookup *) pose proof (Inv_step w (OLookup h name) HI) as IS. revert IS. cbn [step].
    destruct (handle w h) as [obj|]; [|intros _; exact HJ]. cbn [fst]. intros IS.
    split; [split; [exact IS | apply (OwnT_same w); [reflexivity | reflexivity | exact HT]] | apply TT_add_handle; exact HTT].
  - (* Execute *) cbn [step]. destruct (handle w h) as [obj|] eqn:Eh; [|exact HJ].
    destruct (handle_ns_lt w h obj HJ Eh) as (_ & Hn).
    pose proof (J_set_escaped w (h_ns (get_tmpl w obj)) Hn HJ) as JS.
    destruct (h_err (get_tmpl w obj)); cbn [fst]; try exact JS.
    destruct (h_tree_nil (get_tmpl w obj)); cbn [fst]; [exact JS|].
    match goal with |- context [escape_template ?a ?b ?c] =>
      pose proof (J_escape_template a b c JS) as JE; destruct (escape_template a b c) as [w2 [[[code|]|pp]|]] end; cbn [fst] in *; exact JE.
  - (* ExecuteTemplate *) cbn [step]. destruct (handle w h) as [obj|] eqn:Eh; [|exact HJ].
    destruct (handle_ns_lt w h obj HJ Eh) as (_ & Hn).
    pose proof (J_set_escaped w (h_ns (get_tmpl w obj)) Hn HJ) as JS.
    destruct (assoc_get name _) as [m|]; cbn [fst]; [|exact JS].
    destruct (h_err (get_tmpl _ m)); cbn [fst]; try exact JS;
      destruct (x_tree _); cbn [fst]; try exact JS;
      destruct (assoc_get name (get_common _ _)); cbn [fst]; try exact JS.
    match goal with |- context [escape_template ?a ?b ?c] =>
      pose proof (J_escape_template a b c JS) as JE; destruct (escape_template a b c) as [w2 [[[code|]|pp]|]] end; cbn [fst] in *; exact JE.
  - cbn [step]. destruct (handle w h); exact HJ.
  - cbn [step]. destruct (handle w h) as [obj|] eqn:Eh; [|exact HJ]. cbn [fst].
    destruct (handle_ns_lt w h obj HJ Eh) as (_ & Hn).
    split; [apply IT_put_ns_same_set; [split; assumption | reflexivity] | apply TT_put_ns; assumption].
Qed.

Lemma OwnT_world0 : OwnT world0.
Proof. split; [intros c nm tid H; unfold get_common in H; cbn in H; destruct c; contradiction | intros tid H; cbn in H; lia]. Qed.

Lemma J_world0 : J world0.
Proof. split; [split; [apply Inv_world0 | apply OwnT_world0] | apply TT_world0]. Qed.

Lemma J_run_from ops : forall w, J w -> J (run_from w ops).
Proof. induction ops as [|op ops IH]; intros w HJ; cbn [run_from]; [exact HJ | apply IH; apply J_step; exact HJ]. Qed.

Theorem J_reachable ops : J (run_from world0 ops).
Proof. apply J_run_from. apply J_world0. Qed.

(* ================= the frame: what an operation through another name space leaves alone ================= *)
Definition sfr (b : nat) (w w' : world) : Prop := set_frame b b w w'.
Lemma sfr_refl b w : sfr b w w. Proof. apply sf_refl. Qed.
Lemma sfr_trans b w1 w2 w3 : sfr b w1 w2 -> sfr b w2 w3 -> sfr b w1 w3. Proof. apply sf_trans. Qed.
Lemma sfr_same b w w' : w_text w' = w_text w -> w_common w' = w_common w -> get_ns w' b = get_ns w b -> sfr b w w'.
Proof. intros H1 H2 H3. unfold sfr, set_frame, get_text, get_common. rewrite H1, H2. auto. Qed.
Lemma sfr_new_text b w x : sfr b w (fst (new_text w x)).
Proof.
  split; [intros tid Hl _; apply get_text_new_text_old; exact Hl|]. split; [reflexivity|]. split; [reflexivity|]. cbn. rewrite app_length. lia.
Qed.
Lemma sfr_new_common b w : sfr b w (fst (new_common w)).
Proof. split; [intros tid Hl _; reflexivity|]. split; [apply get_common_new_common|]. split; [reflexivity|]. cbn. lia. Qed.
Lemma sfr_new_ns b w x : (b < length (w_ns w))%nat -> sfr b w (fst (new_ns w x)).
Proof. intros Hb. split; [intros tid Hl _; reflexivity|]. split; [reflexivity|]. split; [apply get_ns_new_ns_other; lia|]. cbn. lia. Qed.
Lemma sfr_put_ns b w n x : n <> b -> sfr b w (put_ns w n x).
Proof. intros Hn. apply sfr_same; [reflexivity | reflexivity | apply get_ns_put_ns_other; exact Hn]. Qed.
Lemma sfr_put_common b w c m : c <> b -> sfr b w (put_common w c m).
Proof. intros Hc. split; [intros tid Hl _; reflexivity|]. split; [apply get_common_put_common_other; exact Hc|]. split; [reflexivity|]. cbn. lia. Qed.
Lemma sfr_put_text b w tid x : (tid < length (w_text w))%nat -> x_common (get_text w tid) <> b -> sfr b w (put_text w tid x).
Proof.
  intros Hl Hc. split.
  - intros t Ht Hb. destruct (Nat.eq_dec tid t) as [->|Hne]; [contradiction | apply get_text_put_text_other; exact Hne].
  - split; [reflexivity|]. split; [reflexivity|]. rewrite length_put_text by exact Hl. lia.
Qed.
Lemma sfr_fold {A} b (f : world -> A -> world) (l : list A) (P : world -> Prop) :
  (forall w a, P w -> P (f w a) /\ sfr b w (f w a)) -> forall w, P w -> P (fold_left f l w) /\ sfr b w (fold_left f l w).
Proof.
  intros Hf. induction l as [|a l IH]; intros w HP; simpl; [split; [exact HP | apply sfr_refl]|].
  destruct (Hf w a HP) as (P1 & S1). destruct (IH _ P1) as (P2 & S2). split; [exact P2 | eapply sfr_trans; eassumption].
Qed.

Lemma sfr_add_parse_tree b w tid name tr : OwnT w -> (tid < length (w_text w))%nat -> x_common (get_text w tid) <> b ->
  sfr b w (add_parse_tree w tid name tr).
Proof.
  intros HT Hl Hc. unfold add_parse_tree. set (t := get_text w tid) in *.
  assert (S1 : exists w1 nt, (if bytes_eqb name (x_name t) then (w, tid) else new_text w (mktext name None (x_common t))) = (w1, nt) /\
               sfr b w w1 /\ (nt < length (w_text w1))%nat /\ x_common (get_text w1 nt) = x_common t).
  { destruct (bytes_eqb name (x_name t)).
    - exists w, tid. split; [reflexivity|]. split; [apply sfr_refl|]. split; [exact Hl | reflexivity].
    - exists (fst (new_text w (mktext name None (x_common t)))), (length (w_text w)).
      split; [reflexivity|]. split; [apply sfr_new_text|]. split; [cbn; rewrite app_length; cbn; lia|]. rewrite get_text_new_text_new. reflexivity. }
  destruct S1 as (w1 & nt & -> & F1 & Hnt & Hcn).
  set (cm := get_common w1 (x_common t)).
  set (keep := match assoc_get name cm with Some old => is_empty_tree tr && match x_tree (get_text w1 old) with Some _ => true | None => false end | None => false end).
  set (w2 := if keep then w1 else put_common w1 (x_common t) (assoc_set name nt cm)).
  assert (F2 : sfr b w1 w2) by (unfold w2; destruct keep; [apply sfr_refl | apply sfr_put_common; exact Hc]).
  assert (X2 : get_text w2 nt = get_text w1 nt) by (unfold w2; destruct keep; reflexivity).
  assert (L2 : length (w_text w2) = length (w_text w1)) by (unfold w2; destruct keep; reflexivity).
  eapply sfr_trans; [exact F1|]. 
  destruct (negb keep || match x_tree (get_text w2 nt) with None => true | Some _ => false end); [|exact F2].
  eapply sfr_trans; [exact F2|]. apply sfr_put_text; [rewrite L2; exact Hnt | rewrite X2, Hcn; exact Hc].
Qed.

Lemma sfr_commit b w nsid : J w -> nsid <> b -> sfr b w (commit w nsid).
Proof.
  intros ((HI & HT) & HTT) Hb.
  unfold commit. destruct (n_set (get_ns w nsid)) as [|[nm o] rest] eqn:Es; [apply sfr_refl|].
  assert (Hm : assoc_get nm (n_set (get_ns w nsid)) = Some o) by (rewrite Es; cbn; rewrite bytes_eqb_refl; reflexivity).
  destruct HI as (Hsc & Hcc & Hhb). destruct (Hsc nsid nm o Hm) as ((O1 & O2) & O3 & _). pose proof (conj Hsc (conj Hcc Hhb)) as HI.
  destruct (proj2 HTT o O1) as (_ & Q2). rewrite O3 in Q2.
  set (tid := h_text (get_tmpl w o)) in *.
  set (f1 := fun (w0 : world) (kv : bytes * option tree) => _).
  destruct (fold_IT f1 (e_derived (n_esc (get_ns w nsid))) (fun w0 => (tid < length (w_text w0))%nat /\ x_common (get_text w0 tid) = nsid /\ sfr b w w0)) with (w := w)
    as ((I1 & T1) & P1 & C1 & S1); [| split; assumption | split; [exact O2 | split; [exact Q2 | apply sfr_refl]] |].
  { intros w0 [k v] (I0 & T0) (P0 & C0 & S0). unfold f1. cbn [fst snd]. destruct v as [tr|]; [|split; [split; assumption | auto]].
    destruct (assoc_get k _); [split; [split; assumption | auto]|].
    destruct (Inv_add_parse_tree w0 tid k tr I0 P0) as (Ia & Ea).
    pose proof (tk_add_parse_tree w0 tid k tr P0) as (K1 & _ & K3).
    split; [split; [exact Ia | apply OwnT_add_parse_tree; assumption] |].
    split; [lia|]. split; [rewrite K3 by exact P0; exact C0|].
    eapply sfr_trans; [exact S0|]. apply sfr_add_parse_tree; [exact T0 | exact P0 | rewrite C0; exact Hb]. }
  set (w1 := fold_left f1 _ w) in *.
  set (f2 := fun (w0 : world) (name : bytes) => _).
  destruct (fold_IT f2 (edited_names (n_esc (get_ns w nsid))) (fun w0 => sfr b w w0)) with (w := w1)
    as (_ & S2); [| split; assumption | exact S1 |].
  { intros w0 name (I0 & T0) S0. unfold f2. rewrite C1.
    destruct (assoc_get name (get_common w0 nsid)) as [xt|] eqn:Ea; [|split; [split; assumption | exact S0]].
    destruct (x_tree (get_text w0 xt)) as [tr|]; [|split; [split; assumption | exact S0]].
    destruct (assoc_get_In _ _ _ Ea) as (k' & _ & Hin). pose proof (cc_bound w0 _ _ _ I0 Hin) as B1.
    split; [split; [apply Inv_put_text; [exact I0 | exact B1 | reflexivity] | apply OwnT_put_text; [exact I0 | exact T0 | exact B1 | reflexivity]] |].
    eapply sfr_trans; [exact S0|]. apply sfr_put_text; [exact B1 | rewrite (proj1 T0 _ _ _ Hin); exact Hb]. }
  eapply sfr_trans; [exact S2|]. apply sfr_put_ns. exact Hb.
Qed.

Lemma sfr_escape_template b w nsid name : J w -> nsid <> b -> sfr b w (fst (escape_template w nsid name)).
Proof.
  intros ((HI & HT) & HTT) Hb.
  unfold escape_template, ns_view.
  destruct (n_set (get_ns w nsid)) as [|[nm0 o0] rest] eqn:Es; [apply sfr_refl|].
  assert (Hn : (nsid < length (w_ns w))%nat) by (apply ns_nonempty_lt; rewrite Es; discriminate).
  rewrite <- Es.
  destruct (escape_tree _ analysis_fuel ctx0 name (n_esc (get_ns w nsid))) as [[[c dn] e1]|p]; [|apply sfr_refl].
  set (w1 := put_ns w nsid _).
  assert (S01 : sfr b w w1) by (apply sfr_put_ns; exact Hb).
  assert (IT1 : IT w1) by (apply IT_put_ns_same_set; [split; assumption | reflexivity]).
  assert (TT1 : TT w1) by (apply TT_put_ns; assumption).
  assert (S1 : n_set (get_ns w1 nsid) = n_set (get_ns w nsid)) by (unfold w1; rewrite get_ns_put_ns_same; reflexivity).
  eapply sfr_trans; [exact S01|].
  destruct (match c_err c with Some code => Some code | None => if state_eqb (c_state c) StText then None else Some ErrEndContext end) as [code|].
  - destruct (assoc_get name (n_set (get_ns w nsid))) as [o|] eqn:Em; cbn [fst]; [|apply sfr_refl].
    assert (Em1 : assoc_get name (n_set (get_ns w1 nsid)) = Some o) by (rewrite S1; exact Em).
    destruct IT1 as (I1 & T1).
    destruct I1 as (Hsc & Hcc & Hhb). destruct (Hsc nsid name o Em1) as ((O1 & O2) & O3 & O4).
    set (t := get_tmpl w1 o) in *.
    destruct (proj2 TT1 o O1) as (Q1 & Q2). fold t in Q1, Q2.
    eapply sfr_trans; [apply (sfr_same b w1 (put_tmpl w1 o (mktmpl (EErr code) (h_text t) true (h_ns t)))); reflexivity|].
    apply sfr_put_text; [exact O2|]. change (get_text (put_tmpl w1 o _) (h_text t)) with (get_text w1 (h_text t)). rewrite Q2, O3. exact Hb.
  - pose proof (sfr_commit b w1 nsid (conj IT1 TT1) Hb) as Sc.
    destruct (assoc_get name (n_set (get_ns w nsid))) as [o|] eqn:Em; cbn [fst]; [|exact Sc].
    eapply sfr_trans; [exact Sc|]. apply sfr_same; reflexivity.
Qed.

Lemma sfr_alloc_new b w name : (b < length (w_ns w))%nat -> sfr b w (fst (alloc_new w name)).
Proof.
  intros Hb. unfold alloc_new. cbn [new_common new_text new_ns new_tmpl fst snd].
  eapply sfr_trans; [apply (sfr_new_common b w)|].
  eapply sfr_trans; [apply sfr_new_text|].
  eapply sfr_trans; [apply sfr_new_ns; exact Hb|].
  eapply sfr_trans; [|apply sfr_put_ns; cbn; lia].
  apply sfr_same; reflexivity.
Qed.

Lemma sfr_sub_new b w obj name : (b < length (w_ns w))%nat -> h_ns (get_tmpl w obj) <> b -> sfr b w (fst (sub_new w obj name)).
Proof.
  intros Hb Hn. rewrite sub_new_eq. cbv zeta. cbn [fst]. eapply sfr_trans; [|apply sfr_put_ns; exact Hn].
  unfold sn_w4.
  assert (S2 : sfr b w (sn_w2 w obj name)) by (unfold sn_w2; eapply sfr_trans; [apply sfr_new_text | apply sfr_same; reflexivity]).
  destruct (assoc_get name _); [|exact S2].
  eapply sfr_trans; [exact S2|]. eapply sfr_trans; [apply sfr_alloc_new; exact Hb | apply sfr_same; reflexivity].
Qed.

Lemma sfr_step_parse b w h p : J w -> (b < length (w_ns w))%nat -> (forall a, op_ns w (OParse h p) = Some a -> a <> b) ->
  J (fst (step w (OParse h p))) /\ sfr b w (fst (step w (OParse h p))).
Proof.
  intros ((HI & HT) & HTT) Hb Hns. cbn [op_ns] in Hns. cbn [step]. destruct (handle w h) as [obj|] eqn:Eh; [|split; [split; [split|]; assumption | apply sfr_refl]].
  destruct (n_escaped _); [split; [split; [split|]; assumption | apply sfr_refl]|]. destruct p as [|trees]; [split; [split; [split|]; assumption | apply sfr_refl]|]. cbn [fst].
  assert (Hab : h_ns (get_tmpl w obj) <> b) by (apply Hns; reflexivity).
  set (t := get_tmpl w obj). set (nsid0 := h_ns t).
  assert (Hok : tmpl_ok w obj) by (destruct HI as (_ & _ & Hhb); destruct (Hhb h obj Eh) as (A & _); exact A).
  destruct Hok as (Hobj & Htid). fold t in Htid.
  match goal with |- J (fold_left ?f2 (get_common (fold_left ?f1 trees w) ?c) (fold_left ?f1 trees w)) /\ _ => set (F1 := f1); set (F2 := f2) end.
  assert (Hc0 : x_common (get_text w (h_text t)) = nsid0) by (destruct (proj2 HTT obj Hobj) as (_ & B); exact B).
  destruct (fold_IT F1 trees (fun w0 => (h_text t < length (w_text w0))%nat /\ w_tmpl w0 = w_tmpl w /\ TT w0 /\ x_common (get_text w0 (h_text t)) = nsid0 /\ sfr b w w0 /\ w_ns w0 = w_ns w)) with (w := w)
    as ((I1 & T1) & P1 & M1 & TT1 & Hc1' & S1 & N1); [| split; assumption | split; [exact Htid | split; [reflexivity | split; [exact HTT | split; [exact Hc0 | split; [apply sfr_refl | reflexivity]]]]] |].
  { intros w0 kv (I0 & T0) (P0 & M0 & TT0 & C0 & S0 & N0). unfold F1. destruct (Inv_add_parse_tree w0 (h_text t) (fst kv) (snd kv) I0 P0) as (Ia & Ea).
    split; [split; [exact Ia | apply OwnT_add_parse_tree; assumption]|]. split; [destruct Ea; lia|].
    destruct (add_parse_tree_frame w0 (h_text t) (fst kv) (snd kv)) as (B1 & B2 & _).
    split; [rewrite B2; exact M0|]. split; [apply TT_add_parse_tree; assumption|].
    pose proof (tk_add_parse_tree w0 (h_text t) (fst kv) (snd kv) P0) as (_ & _ & K3).
    split; [rewrite K3 by exact P0; exact C0|]. split; [|rewrite B1; exact N0].
    eapply sfr_trans; [exact S0|]. apply sfr_add_parse_tree; [exact T0 | exact P0 | rewrite C0; exact Hab]. }
  set (w1 := fold_left F1 trees w) in *.
  set (L := get_common w1 (x_common (get_text w1 (h_text t)))).
  assert (HL : entries_ok w1 L) by (destruct I1 as (_ & Hcc & _); intros k x Hin; exact (Hcc _ _ _ Hin)).
  assert (G1 : get_tmpl w1 obj = t) by (unfold get_tmpl; rewrite M1; reflexivity).
  assert (Hobj1 : h_ns (get_tmpl w1 obj) = nsid0) by (rewrite G1; reflexivity).
  assert (Hc1 : x_common (get_text w1 (h_text t)) = nsid0).
  { destruct (proj2 TT1 obj) as (_ & B); [rewrite M1; exact Hobj|]. rewrite G1 in B. exact B. }
  assert (HLc : forall k x, In (k, x) L -> x_common (get_text w1 x) = nsid0).
  { intros k x Hin. rewrite (proj1 T1 _ _ _ Hin). exact Hc1. }
  assert (HF : forall l w0, incl l L -> J w0 -> text_ext w1 w0 -> text_keep w1 w0 -> h_ns (get_tmpl w0 obj) = nsid0 -> tmpl_ok w0 obj -> sfr b w w0 -> (b < length (w_ns w0))%nat -> J (fold_left F2 l w0) /\ sfr b w (fold_left F2 l w0)).
  { induction l as [|[name xt] l IH]; intros w0 Hincl J0 E0 K0 Ho Hk S0 Hb0; cbn [fold_left]; [split; [exact J0 | exact S0]|].
    assert (Hin : In (name, xt) L) by (apply Hincl; left; reflexivity).
    assert (Hl' : incl l L) by (intros z Hz; apply Hincl; right; exact Hz).
    destruct (entries_ok_ext w1 w0 L E0 HL name xt Hin) as (X1 & X2).
    destruct (HL name xt Hin) as (X0 & _).
    assert (Xc : x_common (get_text w0 xt) = nsid0) by (destruct K0 as (_ & _ & K3); rewrite K3 by exact X0; exact (HLc name xt Hin)).
    destruct J0 as ((I0 & T0) & TT0).
    assert (Hstep : J (F2 w0 (name, xt)) /\ text_ext w0 (F2 w0 (name, xt)) /\ text_keep w0 (F2 w0 (name, xt)) /\
                    h_ns (get_tmpl (F2 w0 (name, xt)) obj) = nsid0 /\ tmpl_ok (F2 w0 (name, xt)) obj /\ sfr b w0 (F2 w0 (name, xt))).
    { unfold F2. cbn [fst snd]. fold t. fold nsid0.
      destruct (assoc_get name (n_set (get_ns w0 nsid0))) as [m|] eqn:Em.
      - destruct I0 as (Hsc & Hcc & Hhb). destruct (Hsc nsid0 name m Em) as ((M1a & M1b) & M3 & _). pose proof (conj Hsc (conj Hcc Hhb)) as I0.
        split; [split; [split|]|].
        + apply (Inv_put_tmpl_member w0 m _ nsid0 name I0 Em); [exact M3 | exact X1 | exact X2].
        + apply (OwnT_same w0); [reflexivity | reflexivity | exact T0].
        + apply TT_put_tmpl; [exact M1a | exact X1 | cbn [h_text h_ns]; rewrite M3; exact Xc | exact TT0].
        + split; [apply text_ext_same; reflexivity|]. split; [apply tk_same; reflexivity|].
          destruct Hk as (Hk1 & Hk2). unfold tmpl_ok. rewrite length_put_tmpl by exact M1a.
          split; [|split; [|apply sfr_same; reflexivity]];
          (destruct (Nat.eq_dec m obj) as [->|Hne]; [rewrite get_tmpl_put_tmpl_same; cbn [h_ns h_text]; auto | rewrite get_tmpl_put_tmpl_other by exact Hne; auto]).
      - assert (Hn : assoc_get name (n_set (get_ns w0 (h_ns (get_tmpl w0 obj)))) = None) by (rewrite Ho; exact Em).
        destruct (Inv_sub_new w0 obj name I0) as (Is & _).
        pose proof (J_sub_new w0 obj name (conj (conj I0 T0) TT0) Hk) as ((_ & Ts) & TTs).
        pose proof (sub_new_lookup w0 obj name) as Hlk. rewrite Ho in Hlk.
        pose proof (sub_new_fresh_text_ext w0 obj name Hn) as Es.
        pose proof (sub_new_fresh_h_ns w0 obj name Hn obj) as Hh.
        pose proof (tk_sub_new w0 obj name) as Ks.
        pose proof (tf_sub_new_fresh obj w0 obj name Hn) as Fs.
        assert (Ss : sfr b w0 (fst (sub_new w0 obj name))) by (apply sfr_sub_new; [exact Hb0 | rewrite Ho; exact Hab]).
        destruct (sub_new w0 obj name) as [w' member]. cbn [fst snd] in *.
        destruct (entries_ok_ext w1 w' L (text_ext_trans _ _ _ E0 Es) HL name xt Hin) as (Y1 & Y2).
        destruct Is as (Hsc & Hcc & Hhb). destruct (Hsc nsid0 name member Hlk) as ((M1a & M1b) & M3 & _). pose proof (conj Hsc (conj Hcc Hhb)) as Is.
        assert (Ho' : h_ns (get_tmpl w' obj) = nsid0) by (destruct Hh as [E|E]; rewrite E; exact Ho).
        assert (Yc : x_common (get_text w' xt) = nsid0) by (destruct Ks as (_ & _ & K3); rewrite K3 by exact X1; exact Xc).
        assert (Hk' : tmpl_ok w' obj).
        { destruct Hk as (Hk1 & Hk2). destruct Fs as (Fs1 & Fs2). destruct Ks as (Ks1 & _). split; [lia|]. rewrite Fs2 by exact Hk1. lia. }
        split; [split; [split|]|].
        + apply (Inv_put_tmpl_member w' member _ nsid0 name Is Hlk); [exact M3 | exact Y1 | exact Y2].
        + apply (OwnT_same w'); [reflexivity | reflexivity | exact Ts].
        + apply TT_put_tmpl; [exact M1a | exact Y1 | cbn [h_text h_ns]; rewrite M3; exact Yc | exact TTs].
        + split; [eapply text_ext_trans; [exact Es | apply text_ext_same; reflexivity]|].
          split; [eapply tk_trans; [exact Ks | apply tk_same; reflexivity]|].
          destruct Hk' as (Hk1 & Hk2). unfold tmpl_ok. rewrite length_put_tmpl by exact M1a.
          split; [|split; [|eapply sfr_trans; [exact Ss | apply sfr_same; reflexivity]]];
          (destruct (Nat.eq_dec member obj) as [->|Hne]; [rewrite get_tmpl_put_tmpl_same; cbn [h_ns h_text]; auto | rewrite get_tmpl_put_tmpl_other by exact Hne; auto]). }
    destruct Hstep as (Js & Es & Ks & Hs & Hks & Sst).
    apply IH; [exact Hl' | exact Js | eapply text_ext_trans; [exact E0 | exact Es] | eapply tk_trans; [exact K0 | exact Ks] | exact Hs | exact Hks | eapply sfr_trans; [exact S0 | exact Sst] |].
    destruct Js as ((_ & Tj) & TTj). destruct Ks as (_ & Kc & _). rewrite <- (proj1 TTj). rewrite <- (proj1 TT0) in Hb0. lia. }
  apply HF; [apply incl_refl | split; [split|]; assumption | apply text_ext_refl | apply tk_refl | exact Hobj1 | | exact S1 | rewrite N1; exact Hb].
  split; [rewrite M1; exact Hobj | rewrite G1; exact P1].
Qed.


Lemma sfr_step_clone b w h : J w -> (b < length (w_ns w))%nat -> sfr b w (fst (step w (OClone h))).
Proof.
  intros ((HI & HT) & HTT) Hb. cbn [step]. destruct (handle w h) as [obj|] eqn:Eh; [|apply sfr_refl].
  destruct (h_err (get_tmpl w obj)); try apply sfr_refl.
  set (x := get_text w (h_text (get_tmpl w obj))).
  destruct HI as (Hsc & Hcc & Hhb). destruct (Hhb h obj Eh) as ((Ok1 & Ok2) & _). pose proof (conj Hsc (conj Hcc Hhb)) as HI.
  assert (Hxc : (x_common x < length (w_common w))%nat) by (apply (proj2 HT); exact Ok2).
  destruct (Inv_clone_text w x HI) as (I1 & E1 & L1 & X1 & C1).
  destruct (own_clone_text w x (conj HI HT) Hxc) as (T1 & F1 & F2 & F3 & F4 & F5 & F6 & F7).
  rewrite clone_text_eq in *. cbn [fst snd] in *.
  set (w1 := fold_left _ _ _) in *. set (cid := length (w_common w)) in *. set (ntid := length (w_text w)) in *.
  cbn [new_ns new_tmpl].
  set (nsid := length (w_ns w1)). set (ret := length (w_tmpl w1)).
  set (w2 := mkworld (w_text w1) (w_common w1) (w_tmpl w1) (w_ns w1 ++ [mknsp [] false false esc_empty]) (w_handles w1)).
  set (t0 := mktmpl ENotYet ntid (match x_tree x with None => true | Some _ => false end) nsid).
  set (w3 := mkworld (w_text w2) (w_common w2) (w_tmpl w2 ++ [t0]) (w_ns w2) (w_handles w2)).
  change (length (w_tmpl w2)) with ret.
  set (w4 := put_ns w3 nsid (mknsp [(x_name x, ret)] false false esc_empty)).
  assert (Ecn : cid = nsid) by (unfold nsid, cid; rewrite F2; exact (proj1 HTT)).
  assert (Hbn : b <> nsid) by (unfold nsid; rewrite F2; lia).
  assert (S1 : sfr b w w1).
  { split; [intros tid Hl _; apply F6; exact Hl|]. split; [apply F4; rewrite Ecn; exact Hbn|]. split; [unfold get_ns; rewrite F2; reflexivity | exact F5]. }
  assert (S4 : sfr b w1 w4).
  { eapply sfr_trans; [apply (sfr_new_ns b w1 (mknsp [] false false esc_empty)); rewrite F2; exact Hb|].
    eapply sfr_trans; [apply (sfr_same b w2 w3); reflexivity|]. apply sfr_put_ns. congruence. }
  destruct (fold_left (clone_member (get_ns w (h_ns (get_tmpl w obj))) nsid) (get_common w4 cid) (Some w4)) as [w5|] eqn:Ef; [|apply sfr_refl].
  cbn [fst].
  assert (Lns1 : length (w_ns w1) = length (w_ns w)) by (rewrite F2; reflexivity).
  assert (TT2 : TT w2).
  { split; [unfold w2; cbn [w_common w_ns]; rewrite app_length, F3; cbn [length]; rewrite Lns1; pose proof (proj1 HTT) as Q; unfold cid; lia|].
    intros o Ho. change (w_tmpl w2) with (w_tmpl w1) in Ho. rewrite F1 in Ho.
    destruct (proj2 HTT o Ho) as (A & B).
    assert (G : get_tmpl w2 o = get_tmpl w o) by (unfold get_tmpl; change (w_tmpl w2) with (w_tmpl w1); rewrite F1; reflexivity).
    rewrite G. change (get_text w2) with (get_text w1). change (w_text w2) with (w_text w1).
    split; [lia|]. rewrite F6 by exact A. exact B. }
  assert (TT3 : TT w3).
  { apply (TT_new_tmpl w2 t0); [exact L1 | | exact TT2]. cbn [h_text h_ns t0]. change (get_text w2 ntid) with (get_text w1 ntid).
    rewrite F7. cbn [x_common]. exact Ecn. }
  assert (Ln3 : (nsid < length (w_ns w3))%nat) by (unfold w3, w2, nsid; cbn; rewrite app_length; cbn; lia).
  assert (TT4 : TT w4) by (apply TT_put_ns; [exact Ln3 | exact TT3]).
  destruct (cm_fold (get_ns w (h_ns (get_tmpl w obj))) nsid (get_common w4 cid) w4 w5) as (R1 & R2 & R3 & R4 & R5); [| exact TT4 | unfold w4; cbn; rewrite length_set_nth_lt by exact Ln3; exact Ln3 | exact Ef |].
  { intros k t Hin. destruct (C1 k t Hin) as (B1 & _). split; [exact B1|].
    change (get_text w4 t) with (get_text w1 t). rewrite <- Ecn. exact (proj1 T1 _ _ _ Hin). }
  eapply sfr_trans; [exact S1|]. eapply sfr_trans; [exact S4|].
  apply sfr_same; [cbn; exact R2 | cbn; exact R3 |]. change (get_ns (add_handle w5 _) b) with (get_ns w5 b). apply R5. exact Hbn.
Qed.

(* C07, sets: an operation through a handle of one name space leaves the text templates, the association and
   the name-space record of every OTHER name space exactly as they were *)
Theorem step_other_set_frame b w op : J w -> (b < length (w_ns w))%nat ->
  (forall a, op_ns w op = Some a -> a <> b) -> sfr b w (fst (step w op)).
Proof.
  intros HJ Hb Hns. pose proof HJ as ((HI & HT) & HTT).
  destruct op as [name|h name|h p|h|h name|h|h name|h|h]; cbn [op_ns] in Hns.
  - cbn [step]. pose proof (sfr_alloc_new b w name Hb) as S. destruct (alloc_new w name) as [w1 obj]. cbn [fst] in *.
    eapply sfr_trans; [exact S | apply sfr_same; reflexivity].
  - cbn [step]. destruct (handle w h) as [obj|] eqn:Eh; [|apply sfr_refl].
    pose proof (sfr_sub_new b w obj name Hb (Hns _ eq_refl)) as S. destruct (sub_new w obj name) as [w1 o']. cbn [fst] in *.
    eapply sfr_trans; [exact S | apply sfr_same; reflexivity].
  - apply sfr_step_parse; assumption.
  - apply sfr_step_clone; assumption.
  - cbn [step]. destruct (handle w h) as [obj|]; [|apply sfr_refl]. apply sfr_same; reflexivity.
  - cbn [step]. destruct (handle w h) as [obj|] eqn:Eh; [|apply sfr_refl].
    destruct (handle_ns_lt w h obj HJ Eh) as (_ & Hn). pose proof (Hns _ eq_refl) as Hab.
    pose proof (J_set_escaped w (h_ns (get_tmpl w obj)) Hn HJ) as JS.
    assert (S0 : sfr b w (set_escaped w (h_ns (get_tmpl w obj)))) by (apply sfr_put_ns; exact Hab).
    destruct (h_err (get_tmpl w obj)); cbn [fst]; try exact S0.
    destruct (h_tree_nil (get_tmpl w obj)); cbn [fst]; [exact S0|].
    match goal with |- context [escape_template ?wa ?na ?nm] =>
      pose proof (sfr_escape_template b wa na nm JS Hab) as SE; destruct (escape_template wa na nm) as [w2 [[[code|]|pp]|]] end; cbn [fst] in *;
      (eapply sfr_trans; [exact S0 | exact SE]).
  - cbn [step]. destruct (handle w h) as [obj|] eqn:Eh; [|apply sfr_refl].
    destruct (handle_ns_lt w h obj HJ Eh) as (_ & Hn). pose proof (Hns _ eq_refl) as Hab.
    pose proof (J_set_escaped w (h_ns (get_tmpl w obj)) Hn HJ) as JS.
    assert (S0 : sfr b w (set_escaped w (h_ns (get_tmpl w obj)))) by (apply sfr_put_ns; exact Hab).
    destruct (assoc_get name _) as [m|]; cbn [fst]; [|exact S0].
    destruct (h_err (get_tmpl _ m)); cbn [fst]; try exact S0;
      destruct (x_tree _); cbn [fst]; try exact S0;
      destruct (assoc_get name (get_common _ _)); cbn [fst]; try exact S0.
    match goal with |- context [escape_template ?wa ?na ?nm] =>
      pose proof (sfr_escape_template b wa na nm JS Hab) as SE; destruct (escape_template wa na nm) as [w2 [[[code|]|pp]|]] end; cbn [fst] in *;
      (eapply sfr_trans; [exact S0 | exact SE]).
  - cbn [step]. destruct (handle w h); apply sfr_refl.
  - cbn [step]. destruct (handle w h) as [obj|] eqn:Eh; [|apply sfr_refl]. cbn [fst]. apply sfr_put_ns. apply Hns. reflexivity.
Qed.

(* the same in the terms a client sees: the members registered in the other set, the text templates its
   association lists and the tree of each of them are what they were *)
Theorem other_sets_trees_untouched b w op : J w -> (b < length (w_ns w))%nat ->
  (forall a, op_ns w op = Some a -> a <> b) ->
  let w' := fst (step w op) in
  get_ns w' b = get_ns w b /\ get_common w' b = get_common w b /\
  (forall nm tid, In (nm, tid) (get_common w b) -> get_text w' tid = get_text w tid).
Proof.
  intros HJ Hb Hns. destruct (step_other_set_frame b w op HJ Hb Hns) as (S1 & S2 & S3 & _).
  cbv zeta. split; [exact S3|]. split; [exact S2|]. intros nm tid Hin.
  destruct HJ as ((HI & HT) & _). apply S1; [eapply cc_bound; eassumption | exact (proj1 HT _ _ _ Hin)].
Qed.

(* ... and through every history of operations none of which goes through a handle of that name space *)
Theorem other_sets_untouched_hist b ops : forall w, J w -> (b < length (w_ns w))%nat ->
  other_ns_hist w b ops -> sfr b w (run_from w ops).
Proof.
  induction ops as [|op ops IH]; intros w HJ Hb Hh; cbn [run_from fold_left]; [apply sfr_refl|].
  destruct Hh as [H1 H2].
  change (fold_left (fun w0 o0 => fst (step w0 o0)) ops (fst (step w op))) with (run_from (fst (step w op)) ops).
  eapply sfr_trans; [apply step_other_set_frame; [exact HJ | exact Hb | exact H1]|].
  apply IH; [apply J_step; exact HJ | | exact H2].
  destruct (step_keeps_frozen (S b) w op) as (L & _); [lia|]. lia.
Qed.

Theorem other_sets_trees_untouched_hist b ops0 ops : let w := run_from world0 ops0 in
  (b < length (w_ns w))%nat -> other_ns_hist w b ops ->
  let w' := run_from w ops in
  get_ns w' b = get_ns w b /\ get_common w' b = get_common w b /\
  (forall nm tid, In (nm, tid) (get_common w b) -> get_text w' tid = get_text w tid).
Proof.
  cbv zeta. intros Hb Hh. pose proof (J_reachable ops0) as HJ.
  destruct (other_sets_untouched_hist b ops _ HJ Hb Hh) as (S1 & S2 & S3 & _).
  split; [exact S3|]. split; [exact S2|]. intros nm tid Hin.
  destruct HJ as ((HI & HT) & _). apply S1; [eapply cc_bound; eassumption | exact (proj1 HT _ _ _ Hin)].
Qed.

(* the premises are satisfiable: a set and its clone, then Parse and Execute through the clone *)
Definition own_tree : tree := [NText 1 (B "<b>x</b>")].
Definition own_hist : list op := [ONew (B "t"); OParse 0 (Parsed [(B "t", own_tree)]); OClone 0].
Example set_isolation_premises_satisfiable :
  let w := run_from world0 own_hist in
  (0 < length (w_ns w))%nat /\ get_common w 0 <> [] /\
  other_ns_hist w 0 [OParse 1 (Parsed [(B "u", own_tree)]); OExecute 1].
Proof.
  cbv zeta. split; [vm_compute; lia|]. split; [vm_compute; discriminate|].
  cbn [other_ns_hist]. split; [intros a Ha; vm_compute in Ha; inversion Ha; discriminate|].
  split; [intros a Ha; vm_compute in Ha; inversion Ha; discriminate | exact I].
Qed.
