(* Proofs for property C19.
   Part 1: the gate theorem, generic, about the Go type-rule model of spec/GoAssign.v.
   Part 2: the kernel-evaluated checks over the regenerated API table (lemmas *_ok) and their
           lifting to statements quantified over the table. *)
From V Require Import lib.Base lib.ApiSyntax gen.GenApi reviewed.ReviewedApi spec.GoAssign spec.ApiSpec.
Local Open Scope N_scope.

(* ================================================================ Part 1: the gate *)

Lemma bytes_eqb_sym a b : bytes_eqb a b = bytes_eqb b a.
Proof.
  destruct (bytes_eqb a b) eqn:E1; destruct (bytes_eqb b a) eqn:E2; try reflexivity.
  - apply bytes_eqb_eq in E1. subst. rewrite bytes_eqb_refl in E2. discriminate.
  - apply bytes_eqb_eq in E2. subst. rewrite bytes_eqb_refl in E1. discriminate.
Qed.

(* t comes from the declaration of the gate type of package pkg *)
Definition same_decl_as_gate (t : gotype) (pkg : bytes) : bool :=
  match t with
  | GDefined p n _ => bytes_eqb p pkg && bytes_eqb n gate_name
  | _ => false
  end.

Lemma identical_gate tags t pkg : identical tags t (gate_type pkg) = same_decl_as_gate t pkg.
Proof. destruct t; reflexivity. Qed.

Lemma identical_defined_under tags l p n u u' :
  identical tags l (GDefined p n u) = identical tags l (GDefined p n u').
Proof. destruct l; reflexivity. Qed.

Lemma gate_name_unexported : is_exported_name gate_name = false.
Proof. reflexivity. Qed.

Lemma denotable_not_gate client pkg t :
  bytes_eqb pkg client = false -> denotable client t = true -> same_decl_as_gate t pkg = false.
Proof.
  intros Hpkg Hd. destruct t as [| |p n u| | | | |]; try reflexivity.
  cbn [same_decl_as_gate]. cbn [denotable] in Hd.
  destruct (bytes_eqb p pkg) eqn:Ep; [|reflexivity].
  destruct (bytes_eqb n gate_name) eqn:En; [|reflexivity].
  apply bytes_eqb_eq in Ep. apply bytes_eqb_eq in En. subst p n.
  rewrite gate_name_unexported, Hpkg in Hd. discriminate.
Qed.

Lemma obtainable_not_gate cfg pkg t :
  bytes_eqb pkg (c_pkg cfg) = false ->
  (forall l, In l (c_lib_values cfg) -> identical true l (gate_type pkg) = false) ->
  value_obtainable cfg t = true -> same_decl_as_gate t pkg = false.
Proof.
  intros Hpkg Hlib Hob. unfold value_obtainable in Hob.
  apply orb_true_iff in Hob as [Hd | Hl].
  - eapply denotable_not_gate; eassumption.
  - apply existsb_exists in Hl as [l [Hin Hid]].
    destruct (same_decl_as_gate t pkg) eqn:Es; [|reflexivity].
    destruct t as [| |p n u| | | | |]; try discriminate.
    cbn [same_decl_as_gate] in Es. apply andb_true_iff in Es as [Ep En].
    apply bytes_eqb_eq in Ep. apply bytes_eqb_eq in En. subst p n.
    rewrite (identical_defined_under true l pkg gate_name u GString) in Hid.
    specialize (Hlib l Hin). unfold gate_type in Hlib. congruence.
Qed.

Lemma add_result_typed x y t :
  add_result x y = TyConst t \/ add_result x y = TyValue t ->
  x = TyConst t \/ x = TyValue t \/ y = TyConst t \/ y = TyValue t.
Proof.
  destruct x as [k|u|u|]; destruct y as [k'|u'|u'|];
    try destruct k; try destruct k'; cbn [add_result];
    repeat match goal with |- context [if ?c then _ else _] => destruct c end;
    intros [H|H]; inversion H; subst; auto.
Qed.

Lemma add_result_untyped_string x y :
  add_result x y = TyUntyped KString -> x = TyUntyped KString /\ y = TyUntyped KString.
Proof.
  destruct x as [k|u|u|]; destruct y as [k'|u'|u'|];
    try destruct k; try destruct k'; cbn [add_result];
    repeat match goal with |- context [if ?c then _ else _] => destruct c end;
    intros H; inversion H; auto.
Qed.

Lemma convert_result_typed x T t :
  convert_result x T = TyConst t \/ convert_result x T = TyValue t -> t = T.
Proof.
  destruct x as [k|u|u|]; cbn [convert_result];
    repeat match goal with |- context [if ?c then _ else _] => destruct c end;
    intros [H|H]; inversion H; reflexivity.
Qed.

Lemma convert_result_not_untyped x T k : convert_result x T <> TyUntyped k.
Proof.
  destruct x as [k0|u|u|]; cbn [convert_result];
    repeat match goal with |- context [if ?c then _ else _] => destruct c end; discriminate.
Qed.

(* every typed expression the client can write has a type whose values the client can hold *)
Lemma typed_obtainable cfg e :
  client_wf cfg e = true -> uses_type_param e = false ->
  forall t, type_of e = TyConst t \/ type_of e = TyValue t -> value_obtainable cfg t = true.
Proof.
  induction e as [s0|r|n|d i IH|t0|t0|T i IH|inst i IH|a IHa b IHb]; intros Hwf Htp t Ht.
  - destruct Ht as [H|H]; discriminate.
  - destruct Ht as [H|H]; discriminate.
  - destruct Ht as [H|H]; discriminate.
  - destruct d as [T|].
    + cbn [client_wf] in Hwf. apply andb_true_iff in Hwf as [Hden Hwfi].
      assert (Et : t = T).
      { cbn [type_of] in Ht. destruct (negb (is_const_type T)).
        - destruct Ht as [H|H]; discriminate.
        - destruct (type_of i) as [k|u|u|].
          + destruct (representable k T); destruct Ht as [H|H]; inversion H; reflexivity.
          + destruct (assignable u T); destruct Ht as [H|H]; inversion H; reflexivity.
          + destruct Ht as [H|H]; discriminate.
          + destruct Ht as [H|H]; discriminate. }
      subst t. unfold value_obtainable. rewrite Hden. reflexivity.
    + cbn [client_wf] in Hwf. cbn [uses_type_param] in Htp. cbn [type_of] in Ht.
      destruct (type_of i) as [k|u|u|] eqn:Ei.
      * destruct Ht as [H|H]; discriminate.
      * apply (IH Hwf Htp). left. destruct Ht as [H|H]; inversion H; reflexivity.
      * destruct Ht as [H|H]; discriminate.
      * destruct Ht as [H|H]; discriminate.
  - cbn [client_wf] in Hwf. cbn [type_of] in Ht. destruct Ht as [H|H]; inversion H; subst; assumption.
  - cbn [client_wf] in Hwf. cbn [type_of] in Ht. destruct Ht as [H|H]; inversion H; subst; assumption.
  - cbn [client_wf] in Hwf. apply andb_true_iff in Hwf as [Hden Hwfi].
    cbn [type_of] in Ht. apply convert_result_typed in Ht. subst t.
    unfold value_obtainable. rewrite Hden. reflexivity.
  - cbn [uses_type_param] in Htp. discriminate.
  - cbn [client_wf] in Hwf. apply andb_true_iff in Hwf as [Hwa Hwb].
    cbn [uses_type_param] in Htp. apply orb_false_iff in Htp as [Hta Htb].
    cbn [type_of] in Ht. apply add_result_typed in Ht as [H|[H|[H|H]]].
    + apply (IHa Hwa Hta). left; assumption.
    + apply (IHa Hwa Hta). right; assumption.
    + apply (IHb Hwb Htb). left; assumption.
    + apply (IHb Hwb Htb). right; assumption.
Qed.

(* an expression whose static type is "untyped string constant" is syntactically one *)
Lemma untyped_string_syntactic e :
  type_of e = TyUntyped KString -> untyped_string_constant e = true.
Proof.
  induction e as [s0|r|n|d i IH|t0|t0|T i IH|inst i IH|a IHa b IHb]; intros Ht; cbn [type_of] in Ht.
  - reflexivity.
  - discriminate.
  - discriminate.
  - destruct d as [T|].
    + destruct (negb (is_const_type T)); [discriminate|].
      destruct (type_of i) as [k|u|u|].
      * destruct (representable k T); discriminate.
      * destruct (assignable u T); discriminate.
      * discriminate.
      * discriminate.
    + cbn [untyped_string_constant]. apply IH.
      destruct (type_of i) as [k|u|u|]; try discriminate. assumption.
  - discriminate.
  - discriminate.
  - exfalso. exact (convert_result_not_untyped _ _ _ Ht).
  - destruct (type_of i) as [k|u|u|].
    + destruct k; discriminate.
    + destruct (is_string_t (underlying u)); discriminate.
    + destruct (is_string_t (underlying u)); discriminate.
    + discriminate.
  - apply add_result_untyped_string in Ht as [Ha Hb].
    cbn [untyped_string_constant]. rewrite (IHa Ha), (IHb Hb). reflexivity.
Qed.

Lemma identical_string_r u : identical true u GString = true -> u = GString.
Proof. destruct u; try discriminate. reflexivity. Qed.

(* a value of an obtainable type is not assignable to the gate *)
Lemma not_assignable_to_gate t pkg :
  same_decl_as_gate t pkg = false -> assignable t (gate_type pkg) = false.
Proof.
  intros Hs. unfold assignable. rewrite identical_gate, Hs. cbn [orb].
  unfold gate_type at 1. cbn [underlying].
  destruct (identical true (underlying t) GString) eqn:E; [|reflexivity].
  apply identical_string_r in E.
  destruct t; cbn [underlying] in E; try discriminate; reflexivity.
Qed.

Lemma representable_gate k pkg : representable k (gate_type pkg) = true -> k = KString.
Proof. destruct k; cbn; intros H; try discriminate; reflexivity. Qed.

Theorem gate_theorem : forall cfg pkg e,
  bytes_eqb pkg (c_pkg cfg) = false ->
  (forall l, In l (c_lib_values cfg) -> identical true l (GDefined pkg (B "stringConstant") GString) = false) ->
  client_wf cfg e = true ->
  uses_type_param e = false ->
  arg_ok e (GDefined pkg (B "stringConstant") GString) = true ->
  untyped_string_constant e = true.
Proof.
  intros cfg pkg e Hpkg Hlib Hwf Htp Harg.
  change (GDefined pkg (B "stringConstant") GString) with (gate_type pkg) in *.
  unfold arg_ok in Harg. destruct (type_of e) as [k|t|t|] eqn:Et.
  - apply representable_gate in Harg. subst k. apply untyped_string_syntactic; assumption.
  - assert (Hob : value_obtainable cfg t = true) by (apply (typed_obtainable cfg e Hwf Htp); left; assumption).
    rewrite (not_assignable_to_gate t pkg (obtainable_not_gate cfg pkg t Hpkg Hlib Hob)) in Harg. discriminate.
  - assert (Hob : value_obtainable cfg t = true) by (apply (typed_obtainable cfg e Hwf Htp); right; assumption).
    rewrite (not_assignable_to_gate t pkg (obtainable_not_gate cfg pkg t Hpkg Hlib Hob)) in Harg. discriminate.
  - discriminate.
Qed.

Lemma wf_pre_generics cfg e : c_generics cfg = false -> client_wf cfg e = true -> uses_type_param e = false.
Proof.
  intros Hg. induction e as [s0|r|n|d i IH|t0|t0|T i IH|inst i IH|a IHa b IHb]; intros Hwf;
    cbn [uses_type_param]; try reflexivity.
  - destruct d as [T|]; cbn [client_wf] in Hwf.
    + apply andb_true_iff in Hwf as [_ Hwf]. auto.
    + auto.
  - cbn [client_wf] in Hwf. apply andb_true_iff in Hwf as [_ Hwf]. auto.
  - cbn [client_wf] in Hwf. rewrite Hg in Hwf. discriminate.
  - cbn [client_wf] in Hwf. apply andb_true_iff in Hwf as [Ha Hb]. rewrite (IHa Ha), (IHb Hb). reflexivity.
Qed.

Theorem gate_theorem_pre_generics : forall cfg pkg e,
  c_generics cfg = false ->
  bytes_eqb pkg (c_pkg cfg) = false ->
  (forall l, In l (c_lib_values cfg) -> identical true l (GDefined pkg (B "stringConstant") GString) = false) ->
  client_wf cfg e = true ->
  arg_ok e (GDefined pkg (B "stringConstant") GString) = true ->
  untyped_string_constant e = true.
Proof.
  intros cfg pkg e Hg Hpkg Hlib Hwf Harg.
  apply (gate_theorem cfg pkg e Hpkg Hlib Hwf (wf_pre_generics cfg e Hg Hwf) Harg).
Qed.

(* non-vacuity: the forms of the property text, against the gate of package safehtml, client main *)
Definition ex_cfg (g : bool) : client_cfg := mk_cfg (B "main") g [].
Definition ex_gate : gotype := gate_type (B "safehtml").
Example gate_accepts_literal : client_arg_compiles (ex_cfg false) (EUntypedConst (B "x")) ex_gate = true.
Proof. reflexivity. Qed.
Example gate_accepts_const_concat :
  client_arg_compiles (ex_cfg false) (EConcat (ENamedConst None (EStrLit (B "a"))) (EStrLit (B "b"))) ex_gate = true.
Proof. reflexivity. Qed.
Example gate_rejects_var : client_arg_compiles (ex_cfg false) EVarString ex_gate = false.
Proof. reflexivity. Qed.
Example gate_rejects_typed_const : client_arg_compiles (ex_cfg false) (ETypedConst (B "x")) ex_gate = false.
Proof. reflexivity. Qed.
Example gate_rejects_conversion : client_arg_compiles (ex_cfg false) (EConvert GString EVarString) ex_gate = false.
Proof. reflexivity. Qed.
Example gate_rejects_call : client_arg_compiles (ex_cfg false) ECallString ex_gate = false.
Proof. reflexivity. Qed.
Example gate_rejects_concat_var : client_arg_compiles (ex_cfg false) (EConcatVar (B "a")) ex_gate = false.
Proof. reflexivity. Qed.
Example gate_rejects_naming_the_gate : client_arg_compiles (ex_cfg false) (EConvert ex_gate EVarString) ex_gate = false.
Proof. reflexivity. Qed.
Example gate_rejects_type_param_before_generics :
  client_arg_compiles (ex_cfg false) (EConvertTypeParam ex_gate EVarString) ex_gate = false.
Proof. reflexivity. Qed.
Example gate_accepts_type_param_with_generics :
  client_arg_compiles (ex_cfg true) (EConvertTypeParam ex_gate EVarString) ex_gate = true.
Proof. reflexivity. Qed.

(* ================================================================ Part 2: the API table *)

Lemma texpr_eqb_eq a : forall b, texpr_eqb a b = true -> a = b.
Proof.
  induction a as [p n|x IH|x IH|x IH|k IHk v IHv| | |x]; intros b H; destruct b; cbn [texpr_eqb] in H;
    try discriminate; try reflexivity.
  - apply andb_true_iff in H as [H1 H2]. apply bytes_eqb_eq in H1. apply bytes_eqb_eq in H2. congruence.
  - f_equal. apply IH; assumption.
  - f_equal. apply IH; assumption.
  - f_equal. apply IH; assumption.
  - apply andb_true_iff in H as [H1 H2]. f_equal; [apply IHk | apply IHv]; assumption.
  - apply bytes_eqb_eq in H. congruence.
Qed.

Lemma name2_eqb_eq a b : name2_eqb a b = true -> a = b.
Proof.
  destruct a as [a1 a2], b as [b1 b2]. unfold name2_eqb. cbn [fst snd]. intros H.
  apply andb_true_iff in H as [H1 H2]. apply bytes_eqb_eq in H1. apply bytes_eqb_eq in H2. congruence.
Qed.

Lemma mem_name2_In x l : In x l -> mem_name2 x l = true.
Proof.
  intros H. unfold mem_name2. apply existsb_exists. exists x. split; [assumption|].
  destruct x as [a b]. unfold name2_eqb. cbn [fst snd]. rewrite !bytes_eqb_refl. reflexivity.
Qed.

(* ---- the obligations on the regenerated table, evaluated by the kernel ---- *)

Lemma surface_ok : api_surface_check = true.
Proof. vm_compute. reflexivity. Qed.

Lemma api_surface_extra_ok : api_surface_extra_check = true.
Proof. vm_compute. reflexivity. Qed.

Lemma surface_extra_lifted : forall f, In f gen_funcs -> param_ptr_tracked_ok f = true /\ promoted_method_ok f = true.
Proof.
  pose proof api_surface_extra_ok as H. unfold api_surface_extra_check in H.
  apply andb_true_iff in H. destruct H as [H1 H2]. rewrite forallb_forall in H1, H2.
  intros f Hf. split; [apply H1 | apply H2]; exact Hf.
Qed.

Lemma closed_world_ok : api_closed_world_check = true.
Proof. vm_compute. reflexivity. Qed.

Lemma cross_conversion_ok : cross_conversion_check = true.
Proof. vm_compute. reflexivity. Qed.

Lemma lib_values_no_gate_ok : lib_values_no_gate = true.
Proof. vm_compute. reflexivity. Qed.

Lemma gate_resolves_safehtml_ok : resolve_t (TName P_safehtml gate_name) = gate_type P_safehtml.
Proof. vm_compute. reflexivity. Qed.

Lemma gate_resolves_template_ok : resolve_t (TName P_template gate_name) = gate_type P_template.
Proof. vm_compute. reflexivity. Qed.

(* the frozen table alone *)
Lemma reviewed_wellformed_ok : reviewed_wellformed = true.
Proof. vm_compute. reflexivity. Qed.

(* ---- lifting ---- *)

(* the lifting lemmas never need to look inside the fuelled traversals: tell the conversion
   oracle to unfold them last (a heuristic only; nothing becomes opaque to the kernel) *)
Strategy opaque [resolve mentions].

Lemma surface_parts :
  gate_decl_ok P_safehtml = true /\ gate_decl_ok P_template = true /\
  forallb (fun f => pkg_known (f_pkg f)) gen_funcs = true /\
  forallb func_surface_ok gen_funcs = true.
Proof.
  pose proof surface_ok as H. unfold api_surface_check in H.
  repeat (apply andb_true_iff in H as [H ?]). repeat split; assumption.
Qed.

Lemma gate_decl_spec p :
  gate_decl_ok p = true ->
  exists d, In d gen_types /\ t_pkg d = p /\ t_name d = B "stringConstant" /\
            t_exported d = false /\ t_form d = Defined /\ t_under d = UString /\
            (forall d', In d' gen_types -> t_pkg d' = p -> t_name d' = B "stringConstant" -> d' = d).
Proof.
  unfold gate_decl_ok. intros H.
  destruct (filter (is_gate_decl p) gen_types) as [|d [|d2 rest]] eqn:Ef; try discriminate.
  assert (Hin : In d (filter (is_gate_decl p) gen_types)) by (rewrite Ef; left; reflexivity).
  apply filter_In in Hin as [Hin Hg]. unfold is_gate_decl in Hg.
  apply andb_true_iff in Hg as [Hp Hn]. apply bytes_eqb_eq in Hp. apply bytes_eqb_eq in Hn.
  apply andb_true_iff in H as [H Hu]. apply andb_true_iff in H as [He Hf].
  exists d. repeat split; try assumption.
  - destruct (t_exported d); [discriminate | reflexivity].
  - destruct (t_form d); [reflexivity | discriminate].
  - destruct (t_under d); try discriminate; reflexivity.
  - intros d' Hin' Hp' Hn'.
    assert (Hf' : In d' (filter (is_gate_decl p) gen_types)).
    { apply filter_In. split; [assumption|]. unfold is_gate_decl. rewrite Hp', Hn'.
      unfold gate_name. rewrite !bytes_eqb_refl. reflexivity. }
    rewrite Ef in Hf'. destruct Hf' as [E|[]]. symmetry; assumption.
Qed.

Lemma surface_lifted : forall f r pname ty,
  In f gen_funcs -> lookup_reviewed f = Some r -> In (pname, ty) (f_params f) ->
  param_role r pname = Some TrustedText ->
  finding_D20 (f_pkg f) (f_recv f) (f_name f) = false ->
  finding_D21 (f_pkg f) (f_recv f) (f_name f) pname = false ->
  (ty = TName (f_pkg f) (B "stringConstant") \/ ty = TVariadic (TName (f_pkg f) (B "stringConstant"))) /\
  (f_pkg f = B "safehtml" \/ f_pkg f = B "template") /\
  exists d, In d gen_types /\ t_pkg d = f_pkg f /\ t_name d = B "stringConstant" /\
            t_exported d = false /\ t_form d = Defined /\ t_under d = UString /\
            (forall d', In d' gen_types -> t_pkg d' = f_pkg f -> t_name d' = B "stringConstant" -> d' = d).
Proof.
  intros f r pname ty Hf Hr Hp Hrole H20 H21.
  destruct surface_parts as [Hg1 [Hg2 [Hk Hs]]].
  rewrite forallb_forall in Hk, Hs. specialize (Hk f Hf). specialize (Hs f Hf).
  unfold func_surface_ok in Hs. rewrite Hr in Hs.
  apply andb_true_iff in Hs as [Hs _]. apply andb_true_iff in Hs as [_ Hs].
  rewrite forallb_forall in Hs. specialize (Hs (pname, ty) Hp).
  unfold param_surface_ok in Hs. cbn [fst snd] in Hs.
  unfold is_trusted_text in Hs. rewrite Hrole, H20, H21 in Hs. cbn [negb orb] in Hs.
  rewrite orb_false_r, orb_false_r in Hs.
  assert (Hpk : f_pkg f = B "safehtml" \/ f_pkg f = B "template").
  { unfold pkg_known in Hk. apply orb_true_iff in Hk as [E|E]; apply bytes_eqb_eq in E; auto. }
  split; [|split; [assumption|]].
  - unfold is_gate_texpr in Hs. apply orb_true_iff in Hs as [E|E]; apply texpr_eqb_eq in E; auto.
  - destruct Hpk as [E|E]; rewrite E; apply gate_decl_spec; assumption.
Qed.

Lemma closed_parts :
  forallb func_closed_ok gen_funcs = true /\ forallb var_closed_ok gen_vars = true /\
  forallb safe_type_decl_ok gen_types = true /\ forallb carrier_type_decl_ok gen_types = true /\
  no_gate_leak = true.
Proof.
  pose proof closed_world_ok as H. unfold api_closed_world_check in H.
  repeat (apply andb_true_iff in H as [H ?]). repeat split; assumption.
Qed.

Lemma closed_world_funcs_lifted : forall f,
  In f gen_funcs -> yields_tracked f = true ->
  exists r, lookup_reviewed f = Some r /\ role_wellformed r = true /\
            (r_role r = EscapeHatchFlag -> finding_D20 (f_pkg f) (f_recv f) (f_name f) = true).
Proof.
  intros f Hf Hy. destruct closed_parts as [Hc _].
  rewrite forallb_forall in Hc. specialize (Hc f Hf). unfold func_closed_ok in Hc.
  rewrite Hy in Hc. cbn [negb orb] in Hc.
  destruct (lookup_reviewed f) as [r|]; [|discriminate].
  apply andb_true_iff in Hc as [Hw Hd]. exists r. repeat split; try assumption.
  intros Er. rewrite Er in Hd. cbn [is_escape_hatch negb orb] in Hd. assumption.
Qed.

Lemma closed_world_vars_lifted : forall v, In v gen_vars -> mentions_tracked (v_type v) = false.
Proof.
  intros v Hv. destruct closed_parts as [_ [Hc _]].
  rewrite forallb_forall in Hc. specialize (Hc v Hv). unfold var_closed_ok in Hc.
  destruct (mentions_tracked (v_type v)); [discriminate | reflexivity].
Qed.

Lemma safe_types_opaque_lifted : forall d,
  In d gen_types -> In (t_pkg d, t_name d) safe_types ->
  t_form d = Defined /\
  exists fs, t_under d = UStruct fs /\
             forall n ex emb ft, In (n, ex, emb, ft) fs -> ex = false.
Proof.
  intros d Hd Hs. destruct closed_parts as [_ [_ [Hc _]]].
  rewrite forallb_forall in Hc. specialize (Hc d Hd). unfold safe_type_decl_ok in Hc.
  rewrite (mem_name2_In _ _ Hs) in Hc. cbn [negb orb] in Hc.
  apply andb_true_iff in Hc as [Hform Hu]. split.
  - destruct (t_form d); [reflexivity | discriminate].
  - destruct (t_under d) as [|fs|]; try discriminate. exists fs. split; [reflexivity|].
    intros n ex emb ft Hin. rewrite forallb_forall in Hu. specialize (Hu _ Hin). cbn in Hu.
    destruct ex; [discriminate | reflexivity].
Qed.

Lemma carrier_fields_lifted : forall d fs n ex emb ft,
  In d gen_types -> In (t_pkg d, t_name d) carrier_types -> t_under d = UStruct fs ->
  In (n, ex, emb, ft) fs -> ex = true -> finding_D30 (t_pkg d) (t_name d) n = true.
Proof.
  intros d fs n ex emb ft Hd Hc Hu Hin Hex. destruct closed_parts as [_ [_ [_ [Hk _]]]].
  rewrite forallb_forall in Hk. specialize (Hk d Hd). unfold carrier_type_decl_ok in Hk.
  rewrite (mem_name2_In _ _ Hc) in Hk. cbn [negb orb] in Hk. rewrite Hu in Hk.
  rewrite forallb_forall in Hk. specialize (Hk _ Hin). cbn in Hk. rewrite Hex in Hk. exact Hk.
Qed.

Lemma lib_values_lifted : forall client g l,
  In l (c_lib_values (real_cfg client g)) ->
  identical true l (gate_type P_safehtml) = false /\ identical true l (gate_type P_template) = false.
Proof.
  intros client g l Hin. cbn [real_cfg c_lib_values] in Hin.
  pose proof lib_values_no_gate_ok as H. unfold lib_values_no_gate in H.
  rewrite forallb_forall in H. specialize (H l Hin).
  apply andb_true_iff in H as [H1 H2].
  destruct (identical true l (gate_type P_safehtml)); [discriminate|].
  destruct (identical true l (gate_type P_template)); [discriminate|]. split; reflexivity.
Qed.

(* surface + gate: what a client can write at a TrustedText parameter of the real API *)
Lemma trusted_text_constant_only : forall f r pname ty client generics e,
  In f gen_funcs -> lookup_reviewed f = Some r -> In (pname, ty) (f_params f) ->
  param_role r pname = Some TrustedText ->
  finding_D20 (f_pkg f) (f_recv f) (f_name f) = false ->
  finding_D21 (f_pkg f) (f_recv f) (f_name f) pname = false ->
  bytes_eqb client (B "safehtml") = false -> bytes_eqb client (B "template") = false ->
  client_wf (real_cfg client generics) e = true ->
  uses_type_param e = false ->
  arg_ok e (resolve_param ty) = true ->
  untyped_string_constant e = true.
Proof.
  intros f r pname ty client generics e Hf Hr Hp Hrole H20 H21 Hc1 Hc2 Hwf Htp Harg.
  destruct (surface_lifted f r pname ty Hf Hr Hp Hrole H20 H21) as [Hty [Hpk _]].
  assert (Hres : resolve_param ty = gate_type (f_pkg f)).
  { assert (E : resolve_param ty = resolve_t (TName (f_pkg f) gate_name))
      by (destruct Hty as [E|E]; rewrite E; reflexivity).
    rewrite E. destruct Hpk as [E2|E2]; rewrite E2.
    - exact gate_resolves_safehtml_ok.
    - exact gate_resolves_template_ok. }
  rewrite Hres in Harg.
  apply (gate_theorem (real_cfg client generics) (f_pkg f) e); try assumption.
  - cbn [real_cfg c_pkg]. rewrite bytes_eqb_sym. destruct Hpk as [E|E]; rewrite E; assumption.
  - intros l Hl. destruct (lib_values_lifted client generics l Hl) as [H1 H2].
    destruct Hpk as [E|E]; rewrite E; assumption.
Qed.

Lemma cross_conversion_lifted : forall T U client g,
  In T safe_types -> In U declared_names -> T <> U -> finding_D15 (T, U) = false ->
  convertible_from_client (real_cfg client g) (resolve_named U) (resolve_named T) = false /\
  convertible_from_client (real_cfg client g) (GPointer (resolve_named U)) (GPointer (resolve_named T)) = false.
Proof.
  intros T U client g HT HU Hne H15.
  pose proof cross_conversion_ok as H. unfold cross_conversion_check in H.
  rewrite forallb_forall in H. specialize (H T HT). rewrite forallb_forall in H. specialize (H U HU).
  unfold cross_pair_ok in H. rewrite H15, orb_false_r in H.
  apply orb_true_iff in H as [E|E].
  - apply name2_eqb_eq in E. contradiction.
  - unfold cross_convertible in E. apply negb_true_iff in E. apply orb_false_iff in E as [E1 E2].
    unfold convertible_from_client. rewrite E1, E2, !andb_false_r. split; reflexivity.
Qed.

(* non-vacuity: there are TrustedText parameters, tracked constructors and non-convertible pairs *)
Example surface_nonvacuous :
  existsb (fun f => match lookup_reviewed f with
                    | Some r => existsb (fun x => is_trusted_text r (fst x) && is_gate_texpr (f_pkg f) (snd x)) (f_params f)
                    | None => false
                    end) gen_funcs = true.
Proof. vm_compute. reflexivity. Qed.
Example closed_world_nonvacuous : existsb yields_tracked gen_funcs = true.
Proof. vm_compute. reflexivity. Qed.
Example cross_nonvacuous :
  cross_convertible (B "template", B "TrustedSource") (B "template", B "TrustedTemplate") = false
  /\ cross_convertible (B "safehtml", B "URL") (B "template", B "TrustedSource") = false.
Proof. vm_compute. split; reflexivity. Qed.

(* ---- second-round clauses: Safe parameters keep a trusted / compiler-filled type; no mutating methods on safe types ---- *)
Lemma second_round_ok : api_second_round_check = true.
Proof. vm_compute. reflexivity. Qed.

Theorem safe_params_keep_trusted_types f r x :
  In f gen_funcs -> lookup_reviewed f = Some r -> In x (f_params f) -> param_role r (fst x) = Some Safe ->
  safe_param_type_ok (snd x) = true.
Proof.
  intros Hf Hr Hx Hrole. pose proof second_round_ok as H. unfold api_second_round_check in H.
  apply andb_true_iff in H as [H _]. rewrite forallb_forall in H. specialize (H f Hf).
  unfold func_safe_params_ok in H. rewrite Hr in H. rewrite forallb_forall in H. specialize (H x Hx).
  unfold param_safe_ok in H. rewrite Hrole in H. exact H.
Qed.

Theorem safe_types_have_no_pointer_methods f :
  In f gen_funcs -> mem_name2 (f_pkg f, f_recv f) safe_types = true -> f_recv_ptr f = false.
Proof.
  intros Hf Hs. pose proof second_round_ok as H. unfold api_second_round_check in H.
  apply andb_true_iff in H as [_ H]. rewrite forallb_forall in H. specialize (H f Hf).
  unfold func_not_mutator_ok in H. rewrite Hs, andb_true_r in H. apply negb_true_iff in H. exact H.
Qed.
