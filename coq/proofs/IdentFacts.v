(* C18: what the Identifier constructors admit. *)
From V Require Import lib.Base lib.Regex lib.RegexDecide lib.Utf8 gen.GenRegex model.Ident spec.IdentSpec.
From V Require Import proofs.RegexFacts proofs.RegexDecideFacts proofs.RegexSpecs proofs.Utf8Facts.
From Coq Require Import ZifyBool ZifyN.
Local Open Scope N_scope.

Lemma bridge_start_ok : bridge_start = true. Proof. vm_compute. reflexivity. Qed.
Lemma bridge_chars_ok : bridge_chars = true. Proof. vm_compute. reflexivity. Qed.

Lemma alpha_cls_spec c : in_ranges c alpha_cls = true -> is_alpha c = true /\ c < 128.
Proof. unfold in_ranges, in_range, alpha_cls, is_alpha; simpl. lia. Qed.

Lemma ident_cls_spec c : in_ranges c ident_cls = true -> is_ident_char c = true /\ c < 128.
Proof. unfold in_ranges, in_range, ident_cls, is_ident_char, is_alpha; simpl. lia. Qed.

Lemma valid_chars_spec v : valid_ident_chars v = true ->
  decode_runes v = v /\ forallb is_ident_char v = true.
Proof.
  unfold valid_ident_chars. intros H.
  apply (incl_ok_sound _ _ bridge_chars_ok) in H. apply accepts_all_cls in H.
  assert (Ha : Forall (fun c => c < 128) (decode_runes v)).
  { eapply Forall_impl; [|exact H]. intros c Hc. apply ident_cls_spec in Hc. tauto. }
  apply decode_all_ascii in Ha. rewrite Ha in H. split; [exact Ha|].
  apply forallb_forall. intros c Hc. rewrite Forall_forall in H. apply ident_cls_spec. auto.
Qed.

Lemma valid_start_spec v : valid_ident_start v = true -> decode_runes v = v ->
  exists b t, v = b :: t /\ is_alpha b = true.
Proof.
  unfold valid_ident_start. intros H E. rewrite E in H.
  apply (incl_ok_sound _ _ bridge_start_ok) in H. apply accepts_begin_cls in H as (c & t & -> & Hc).
  apply alpha_cls_spec in Hc. exists c, t. tauto.
Qed.

Lemma valid_both_spec v : valid_ident_start v = true -> valid_ident_chars v = true ->
  ident_spec v = true.
Proof.
  intros Hs Hc. apply valid_chars_spec in Hc as [E Hall].
  destruct (valid_start_spec v Hs E) as (b & t & -> & Hb).
  simpl in *. apply andb_true_iff in Hall as [_ Hall]. rewrite Hb, Hall. reflexivity.
Qed.

Lemma ident_const_spec v r :
  identifier_from_constant v = Some r -> r = v /\ ident_spec r = true.
Proof.
  unfold identifier_from_constant.
  destruct (valid_ident_start v) eqn:Hs; destruct (valid_ident_chars v) eqn:Hc; simpl;
    intros H; try discriminate.
  inversion H; subst. split; [reflexivity | apply valid_both_spec; assumption].
Qed.

Lemma ident_spec_app p v : ident_spec p = true -> forallb is_ident_char v = true ->
  ident_spec (p ++ [45] ++ v) = true.
Proof.
  destruct p as [|b t]; [discriminate|]. simpl. intros H Hv.
  apply andb_true_iff in H as [Hb Ht]. rewrite Hb. simpl.
  rewrite forallb_app. rewrite Ht. simpl. exact Hv.
Qed.

Lemma ident_prefix_spec p v r :
  identifier_from_constant_prefix p v = Some r ->
  r = p ++ [45] ++ v /\ ident_spec r = true /\ ident_spec p = true /\
  forallb is_ident_char v = true.
Proof.
  unfold identifier_from_constant_prefix.
  destruct (valid_ident_start p) eqn:Hs; destruct (valid_ident_chars p) eqn:Hc; simpl;
    try discriminate.
  destruct (valid_ident_chars v) eqn:Hv; simpl; intros H; try discriminate.
  inversion H; subst.
  pose proof (valid_both_spec p Hs Hc) as Hp.
  apply valid_chars_spec in Hv as [_ Hv].
  repeat split; try assumption. apply ident_spec_app; assumption.
Qed.

(* completeness direction: everything the specification admits is accepted (no panic) *)
Lemma bridge_start_rev_ok : bridge_start_rev = true. Proof. vm_compute. reflexivity. Qed.
Lemma bridge_chars_rev_ok : bridge_chars_rev = true. Proof. vm_compute. reflexivity. Qed.

(* non-vacuity: the constructors do accept something, and reject the classic traps *)
Example ident_accepts : identifier_from_constant_prefix (B "my-id") (B "x_9") = Some (B "my-id-x_9").
Proof. vm_compute. reflexivity. Qed.
Example ident_rejects_newline : identifier_from_constant_prefix (B "a") [97; 10] = None.
Proof. vm_compute. reflexivity. Qed.
Example ident_rejects_e_acute : identifier_from_constant [97; 195; 169] = None.
Proof. vm_compute. reflexivity. Qed.
