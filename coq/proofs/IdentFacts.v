(* C18: what the Identifier constructors admit. *)
From V Require Import lib.Base lib.Regex lib.RegexDecide lib.Utf8 gen.GenRegex model.Ident spec.IdentSpec.
From V Require Import proofs.RegexFacts proofs.RegexDecideFacts proofs.RegexSpecs proofs.Utf8Facts.
From Coq Require Import ZifyBool ZifyN Lia.
Local Open Scope N_scope.

Lemma bridge_start_ok : bridge_start = true. Proof. vm_compute. reflexivity. Qed.
Lemma bridge_chars_ok : bridge_chars = true. Proof. vm_compute. reflexivity. Qed.

Lemma alpha_cls_spec c : in_ranges c alpha_cls = true -> is_alpha c = true /\ c < 128.
Proof. unfold in_ranges, in_range, alpha_cls, is_alpha; simpl. lia. Qed.

Lemma ident_cls_spec c : in_ranges c ident_cls = true -> is_ident_char c = true /\ c < 128.
Proof. unfold in_ranges, in_range, ident_cls, is_ident_char, is_alpha; simpl. lia. Qed.

Lemma valid_chars_spec v : valid_ident_chars v = true ->
  decode_runes v = v /\ forallb is_ident_char v = true.
Proof.
  unfold valid_ident_chars. intros H.
  apply (incl_ok_sound _ _ bridge_chars_ok) in H. apply accepts_all_cls in H.
  assert (Ha : Forall (fun c => c < 128) (decode_runes v)).
  { eapply Forall_impl; [|exact H]. intros c Hc. apply ident_cls_spec in Hc. tauto. }
  apply decode_all_ascii in Ha. rewrite Ha in H. split; [exact Ha|].
  apply forallb_forall. intros c Hc. rewrite Forall_forall in H. apply ident_cls_spec. auto.
Qed.

Lemma valid_start_spec v : valid_ident_start v = true -> decode_runes v = v ->
  exists b t, v = b :: t /\ is_alpha b = true.
Proof.
  unfold valid_ident_start. intros H E. rewrite E in H.
  apply (incl_ok_sound _ _ bridge_start_ok) in H. apply accepts_begin_cls in H as (c & t & -> & Hc).
  apply alpha_cls_spec in Hc. exists c, t. tauto.
Qed.

Lemma valid_both_spec v : valid_ident_start v = true -> valid_ident_chars v = true ->
  ident_spec v = true.
Proof.
  intros Hs Hc. apply valid_chars_spec in Hc as [E Hall].
  destruct (valid_start_spec v Hs E) as (b & t & -> & Hb).
  simpl in *. apply andb_true_iff in Hall as [_ Hall]. rewrite Hb, Hall. reflexivity.
Qed.

Lemma ident_const_spec v r :
  identifier_from_constant v = Some r -> r = v /\ ident_spec r = true.
Proof.
  unfold identifier_from_constant.
  destruct (valid_ident_start v) eqn:Hs; destruct (valid_ident_chars v) eqn:Hc; simpl;
    intros H; try discriminate.
  inversion H; subst. split; [reflexivity | apply valid_both_spec; assumption].
Qed.

Lemma ident_spec_app p v : ident_spec p = true -> forallb is_ident_char v = true ->
  ident_spec (p ++ [45] ++ v) = true.
Proof.
  destruct p as [|b t]; [discriminate|]. simpl. intros H Hv.
  apply andb_true_iff in H as [Hb Ht]. rewrite Hb. simpl.
  rewrite forallb_app. rewrite Ht. simpl. exact Hv.
Qed.

Lemma ident_prefix_spec p v r :
  identifier_from_constant_prefix p v = Some r ->
  r = p ++ [45] ++ v /\ ident_spec r = true /\ ident_spec p = true /\
  forallb is_ident_char v = true.
Proof.
  unfold identifier_from_constant_prefix.
  destruct (valid_ident_start p) eqn:Hs; destruct (valid_ident_chars p) eqn:Hc; simpl;
    try discriminate.
  destruct (valid_ident_chars v) eqn:Hv; simpl; intros H; try discriminate.
  inversion H; subst.
  pose proof (valid_both_spec p Hs Hc) as Hp.
  apply valid_chars_spec in Hv as [_ Hv].
  repeat split; try assumption. apply ident_spec_app; assumption.
Qed.

(* completeness direction: everything the specification admits is accepted (no panic) *)
Lemma bridge_start_rev_ok : bridge_start_rev = true. Proof. vm_compute. reflexivity. Qed.
Lemma bridge_chars_rev_ok : bridge_chars_rev = true. Proof. vm_compute. reflexivity. Qed.

(* non-vacuity: the constructors do accept something, and reject the classic traps *)
Example ident_accepts : identifier_from_constant_prefix (B "my-id") (B "x_9") = Some (B "my-id-x_9").
Proof. vm_compute. reflexivity. Qed.
Example ident_rejects_newline : identifier_from_constant_prefix (B "a") [97; 10] = None.
Proof. vm_compute. reflexivity. Qed.
Example ident_rejects_e_acute : identifier_from_constant [97; 195; 169] = None.
Proof. vm_compute. reflexivity. Qed.

(* ---- completeness: the constructors accept exactly the specified identifiers ---- *)
(* completeness of the two specification expressions *)
Lemma M_star_cls rs w : Forall (fun c => in_ranges c rs = true) w -> forall p n, M (Star (Cls rs)) p w n.
Proof.
  induction w as [|c t IH]; intros H p n; [apply MStar0|].
  inversion H as [|c' t' Hc Ht]; subst.
  change (c :: t) with ([c] ++ t). apply MStarS; [discriminate | apply MCls; exact Hc | apply IH; exact Ht].
Qed.

Lemma all_cls_accepts rs w : Forall (fun c => in_ranges c rs = true) w ->
  accepts (Cat BeginText (Cat (Star (Cls rs)) EndText)) w = true.
Proof.
  intros H. apply accepts_M. change w with ([] ++ w). apply MCat; [apply MBeginText|].
  rewrite <- (app_nil_r w). apply MCat; [apply M_star_cls; exact H | apply MEndText].
Qed.

Lemma begin_cls_accepts rs c t : in_ranges c rs = true -> wf_runes t ->
  accepts (Cat BeginText (Cat (Cls rs) any_star)) (c :: t) = true.
Proof.
  intros Hc Ht. apply accepts_M. change (c :: t) with ([] ++ ([c] ++ t)). apply MCat; [apply MBeginText|].
  apply MCat; [apply MCls; exact Hc | apply M_any_star_intro; exact Ht].
Qed.

Lemma ascii_decode_id n : Forall (fun c => c < 128) n -> decode_runes n = n.
Proof. induction 1 as [|c n Hc Hn IH]; [reflexivity|]. rewrite decode_ascii by exact Hc. f_equal. exact IH. Qed.

Lemma is_ident_char_cls c : is_ident_char c = true -> in_ranges c ident_cls = true /\ c < 128.
Proof. unfold in_ranges, in_range, ident_cls, is_ident_char, is_alpha; simpl. lia. Qed.
Lemma is_alpha_cls c : is_alpha c = true -> in_ranges c alpha_cls = true /\ is_ident_char c = true.
Proof. unfold in_ranges, in_range, alpha_cls, is_ident_char, is_alpha; simpl. lia. Qed.

Lemma ident_chars_complete v : forallb is_ident_char v = true ->
  decode_runes v = v /\ valid_ident_chars v = true.
Proof.
  intros H. rewrite forallb_forall in H.
  assert (Ha : Forall (fun c => c < 128) v) by (apply Forall_forall; intros c Hc; apply is_ident_char_cls, H, Hc).
  pose proof (ascii_decode_id v Ha) as E. split; [exact E|].
  unfold valid_ident_chars, go_match. rewrite E.
  apply (incl_ok_sound _ _ bridge_chars_rev_ok). apply all_cls_accepts.
  apply Forall_forall. intros c Hc. apply is_ident_char_cls, H, Hc.
Qed.

Lemma ident_spec_complete v : ident_spec v = true -> valid_ident_start v = true /\ valid_ident_chars v = true.
Proof.
  destruct v as [|b t]; [discriminate|]. cbn [ident_spec]. intros H. apply andb_true_iff in H as [Hb Ht].
  destruct (is_alpha_cls b Hb) as (Hcls & Hic).
  assert (Hall : forallb is_ident_char (b :: t) = true) by (cbn [forallb]; rewrite Hic, Ht; reflexivity).
  destruct (ident_chars_complete (b :: t) Hall) as (E & Hc). split; [|exact Hc].
  unfold valid_ident_start, go_match. rewrite E.
  apply (incl_ok_sound _ _ bridge_start_rev_ok). apply begin_cls_accepts; [exact Hcls|].
  apply Forall_forall. intros c Hc'. rewrite forallb_forall in Ht. pose proof (is_ident_char_cls c (Ht c Hc')) as (_ & L).
  unfold max_rune. lia.
Qed.

(* the constructors accept EXACTLY the specified identifiers (no panic on any of them) *)
Theorem ident_const_complete v : ident_spec v = true -> identifier_from_constant v = Some v.
Proof.
  intros H. destruct (ident_spec_complete v H) as (Hs & Hc). unfold identifier_from_constant. rewrite Hs, Hc. reflexivity.
Qed.

Theorem ident_prefix_complete p v : ident_spec p = true -> forallb is_ident_char v = true ->
  identifier_from_constant_prefix p v = Some (p ++ [45] ++ v).
Proof.
  intros Hp Hv. destruct (ident_spec_complete p Hp) as (Hs & Hc). destruct (ident_chars_complete v Hv) as (_ & Hvc).
  unfold identifier_from_constant_prefix. rewrite Hs, Hc, Hvc. reflexivity.
Qed.

Theorem ident_const_exact v : identifier_from_constant v = (if ident_spec v then Some v else None).
Proof.
  destruct (ident_spec v) eqn:E; [apply ident_const_complete; exact E|].
  destruct (identifier_from_constant v) as [r|] eqn:R; [|reflexivity].
  destruct (ident_const_spec v r R) as (-> & S). congruence.
Qed.

Theorem ident_prefix_exact p v :
  identifier_from_constant_prefix p v = (if ident_spec p && forallb is_ident_char v then Some (p ++ [45] ++ v) else None).
Proof.
  destruct (ident_spec p && forallb is_ident_char v) eqn:E.
  - apply andb_true_iff in E as [A B]. apply ident_prefix_complete; assumption.
  - destruct (identifier_from_constant_prefix p v) as [r|] eqn:R; [|reflexivity].
    destruct (ident_prefix_spec p v r R) as (_ & _ & A & B). rewrite A, B in E. discriminate.
Qed.
