(* C09 after the repair of D9: data-race freedom for all eight methods. *)
From V Require Import lib.Base gen.GenLocks model.Conc spec.ConcSpec spec.ConcFullSpec proofs.ConcFacts.

Lemma clean_all_ok : clean_all = true. Proof. vm_compute. reflexivity. Qed.
Lemma discipline_full_ok : lock_discipline_ok = true. Proof. vm_compute. reflexivity. Qed.
Lemma one_cs_all_ok : one_cs_all = true. Proof. vm_compute. reflexivity. Qed.

Lemma all_methods_clean n : In n api_methods -> clean_method n = true.
Proof.
  intros H. pose proof clean_all_ok as Hc. unfold clean_all in Hc.
  rewrite forallb_forall in Hc. exact (Hc n H).
Qed.

Lemma conforming_threads_disciplined_full threads :
  (forall th, In th threads -> thread_conforms api_methods th) -> discipline c09_policy threads.
Proof.
  intros H th Hin. apply discipline_concat. intros o Ho.
  destruct (H th Hin o Ho) as [n [Hn Hc]].
  eapply clean_method_sound; [apply all_methods_clean; exact Hn | exact Hc].
Qed.

Theorem drf_safehtml_full : forall (threads : list thread) (sched : list nat) (tr : list event),
  (forall th, In th threads -> forall o, In o th ->
     exists n, In n api_methods /\ conforms (method_entries n) o) ->
  valid_schedule threads sched -> trace_of threads sched = Some tr ->
  publication_order c09_policy tr -> ~ race tr.
Proof.
  intros threads sched tr Hconf [tr' [Htr' Hok]] Htr Hpub.
  rewrite Htr in Htr'. inversion Htr'; subst tr'.
  eapply drf_generic; try eassumption. apply conforming_threads_disciplined_full. exact Hconf.
Qed.

Lemma leb1 n : Nat.leb n 1 = true -> (n <= 1)%nat.
Proof. destruct n as [|[|n]]; intros Hn; [auto | auto | discriminate Hn]. Qed.

Lemma one_cs_methods m : In m api_methods -> one_cs_method m = true.
Proof.
  intros H. pose proof one_cs_all_ok as Hc. unfold one_cs_all in Hc.
  rewrite forallb_forall in Hc. exact (Hc m H).
Qed.

(* lock_site_count m with m a variable must not be unfolded by the conversion check (it would
   walk the call graph symbolically); one_cs_method is unfolded instead *)
Strategy opaque [lock_site_count].
Theorem one_critical_section_per_call m : In m api_methods -> (lock_site_count m <= 1)%nat.
Proof.
  intros H. pose proof (one_cs_methods m H) as Ht. unfold one_cs_method in Ht. apply leb1. exact Ht.
Qed.
