(* C08: the template API is total -- problems are returned as errors, never panics or hangs.
   All proofs.  Layout:
     1. list utilities and the scanners of transition.go (eatWhiteSpace, eatAttrName, eatTagName, the Index functions)
     2. every transition function is total; the progress measure 2*remaining + phi
     3. html.UnescapeString never grows its input; the attribute-value loop of contextAfterText
     4. contextAfterText from a well-formed context: progress, preservation of wf_ctx
     5. escapeText: the "infinite loop" guard is dead, every slice is in range, the fuel suffices
     6. isJsTemplateBalanced
     7. the analysis: which panics are possible; contexts stay well-formed
     8. the API state machine: non-exec ops never panic; the text-level panic is unreachable *)
From Coq Require Import Arith PeanoNat ZifyBool ZifyN ZifyNat.
From V Require Import lib.Base lib.Utf8 gen.GenTemplate gen.GenEntities model.GoStrings model.HtmlUnescape model.TContext
     model.TTransition model.TEscapeText model.TSanitize model.TTree model.TEscaper model.Engine spec.TotalSpec.
Local Open Scope N_scope.

(* ------------------------------------------------------------------ lists *)

Lemma hd_error_skipn {A} (l : list A) i : hd_error (skipn i l) = nth_error l i.
Proof. revert l; induction i as [|i IH]; intros [|x l]; simpl; auto. Qed.

Lemma nth_error_skipn {A} (l : list A) i k : nth_error (skipn i l) k = nth_error l (i + k).
Proof. revert l; induction i as [|i IH]; intros [|x l]; simpl; auto. destruct k; reflexivity. Qed.

Lemma skipn_length_le {A} (l : list A) i : (length (skipn i l) <= length l)%nat.
Proof. rewrite skipn_length. lia. Qed.

Lemma skipn_nil_iff {A} (l : list A) i : skipn i l = [] <-> (length l <= i)%nat.
Proof.
  split; intro H.
  - assert (E : length (skipn i l) = O) by (rewrite H; reflexivity). rewrite skipn_length in E. lia.
  - apply length_zero_iff_nil. rewrite skipn_length. lia.
Qed.

Lemma skipn_firstn_app {A} (l : list A) n i : (n <= i)%nat ->
  skipn n (firstn i l) ++ skipn i l = skipn n l.
Proof.
  intros H. rewrite <- (firstn_skipn i l) at 3.
  rewrite skipn_app. f_equal. rewrite firstn_length.
  destruct (le_lt_dec i (length l)) as [Hl|Hl].
  - replace (n - Nat.min i (length l))%nat with O by lia. reflexivity.
  - rewrite (proj2 (skipn_nil_iff l i)) by lia. destruct (n - _)%nat; reflexivity.
Qed.

Lemma hd_error_app_ne {A} (a b : list A) : a <> [] -> hd_error (a ++ b) = hd_error a.
Proof. destruct a; [congruence | reflexivity]. Qed.

Lemma hd_error_firstn {A} (l : list A) i : (0 < i)%nat -> hd_error (firstn i l) = hd_error l.
Proof. destruct i; [lia|]. destruct l; reflexivity. Qed.

Lemma firstn_nil_iff {A} (l : list A) i : firstn i l = [] <-> i = O \/ l = [].
Proof.
  destruct i, l; simpl; split; intros H; auto; try discriminate; destruct H; discriminate.
Qed.

(* ------------------------------------------------------------------ scanners *)

Lemma index_any_spec set (s : bytes) d : index_any set s = Some d ->
  (d < length s)%nat /\ exists ch, nth_error s d = Some ch /\ mem_N ch set = true.
Proof.
  revert d; induction s as [|c t IH]; intros d H; simpl in H; [discriminate|].
  destruct (mem_N c set) eqn:E.
  - inversion H; subst. simpl. split; [lia | eauto].
  - destruct (index_any set t) as [i|] eqn:Ei; [|discriminate]. inversion H; subst.
    destruct (IH i eq_refl) as [H1 H2]. simpl. split; [lia | exact H2].
Qed.

Lemma index_of_spec sep (s : bytes) i : index_of sep s = Some i ->
  (i + length sep <= length s)%nat /\ prefixb sep (skipn i s) = true.
Proof.
  revert i; induction s as [|c t IH]; intros i H; simpl in H.
  - destruct (prefixb sep []) eqn:E; [|discriminate]. inversion H; subst.
    destruct sep; [simpl; split; [lia|reflexivity] | discriminate].
  - destruct (prefixb sep (c :: t)) eqn:E.
    + inversion H; subst. split; [|exact E].
      apply prefixb_spec in E as [r Hr]. rewrite Hr, app_length. lia.
    + destruct (index_of sep t) as [j|] eqn:Ej; [|discriminate]. inversion H; subst.
      destruct (IH j eq_refl) as [H1 H2]. simpl. split; [lia | exact H2].
Qed.

Lemma prefixb_length p (s : bytes) : prefixb p s = true -> (length p <= length s)%nat.
Proof. intros H. apply prefixb_spec in H as [r ->]. rewrite app_length. lia. Qed.

Lemma prefixb_firstn p (s : bytes) : prefixb p s = true -> firstn (length p) s = p.
Proof. intros H. apply prefixb_spec in H as [r ->]. rewrite firstn_app, Nat.sub_diag, firstn_all. simpl. apply app_nil_r. Qed.

Lemma prefixb_hd p0 p (s : bytes) : prefixb (p0 :: p) s = true -> hd_error s = Some p0.
Proof. intros H. apply prefixb_spec in H as [r ->]. reflexivity. Qed.

Lemma eat_ws_list_le l : (eat_ws_list l <= length l)%nat.
Proof. induction l as [|c t IH]; simpl; [lia|]. destruct (is_ws c); simpl; lia. Qed.

(* the byte where the white space ends is not white space *)
Lemma eat_ws_list_stop l : (eat_ws_list l < length l)%nat ->
  exists ch, nth_error l (eat_ws_list l) = Some ch /\ is_ws ch = false.
Proof.
  induction l as [|c t IH]; simpl; [lia|]. destruct (is_ws c) eqn:E; simpl.
  - intros H. apply IH. lia.
  - intros _. eauto.
Qed.

Lemma eat_ws_list_hd l : (0 < eat_ws_list l)%nat -> exists ch, hd_error l = Some ch /\ is_ws ch = true.
Proof. destruct l as [|c t]; simpl; [lia|]. destruct (is_ws c) eqn:E; [eauto | lia]. Qed.

Lemma is_ws_not_lt ch : is_ws ch = true -> (ch =? 60) = false.
Proof. unfold is_ws, mem_N. cbn [existsb]. intros H. lia. Qed.

Lemma eat_white_space_0 (s : bytes) : eat_white_space s 0 = eat_ws_list s.
Proof. reflexivity. Qed.

Definition attr_stop : bytes := [32; 9; 10; 12; 13; 61; 62].

Lemma eat_attr_list_spec l j : eat_attr_list l = Some j ->
  (j <= length l)%nat /\
  ((j < length l)%nat -> exists ch, nth_error l j = Some ch /\ mem_N ch attr_stop = true).
Proof.
  revert j; induction l as [|c t IH]; intros j H; cbn [eat_attr_list] in H.
  - inversion H; subst. simpl. split; lia.
  - fold attr_stop in H. destruct (mem_N c attr_stop) eqn:E1.
    + inversion H; subst. simpl. split; [lia | eauto].
    + destruct (mem_N c [39; 34; 60]); [discriminate|].
      destruct (eat_attr_list t) as [k|] eqn:Ek; [|discriminate]. inversion H; subst.
      destruct (IH k eq_refl) as [H1 H2]. simpl. split; [lia|]. intros Hlt. apply H2. lia.
Qed.

Lemma attr_stop_not_lt ch : mem_N ch attr_stop = true -> (ch =? 60) = false.
Proof. unfold attr_stop, mem_N. cbn [existsb]. intros H. lia. Qed.

(* a name that starts with '<' is an error; a name of length 0 starts with a stop byte *)
Lemma eat_attr_list_hd_lt t : eat_attr_list (60 :: t) = None.
Proof. reflexivity. Qed.

Lemma eat_attr_name_spec (s : bytes) i j : eat_attr_name s i = Some j ->
  (i <= j)%nat /\ (j <= Nat.max i (length s))%nat /\
  ((j < length s)%nat -> exists ch, nth_error s j = Some ch /\ mem_N ch attr_stop = true).
Proof.
  unfold eat_attr_name. destruct (eat_attr_list (skipn i s)) as [k|] eqn:E; [|discriminate].
  intros H; inversion H; subst. destruct (eat_attr_list_spec _ _ E) as [H1 H2].
  rewrite skipn_length in H1, H2. split; [lia|]. split; [lia|].
  intros Hlt. destruct H2 as [ch [Hn Hm]]; [lia|]. exists ch. split; [|exact Hm].
  rewrite nth_error_skipn in Hn. exact Hn.
Qed.

Lemma eat_tag_tail_le f l : (eat_tag_tail f l <= length l)%nat.
Proof.
  revert l; induction f as [|f IH]; intros l; simpl; [lia|].
  destruct l as [|x t]; [simpl; lia|].
  destruct (ascii_alnum x).
  - specialize (IH t). simpl. lia.
  - destruct ((x =? 58) || (x =? 45)); [|lia].
    destruct t as [|y t']; [lia|]. destruct (ascii_alnum y); [|lia].
    specialize (IH t'). simpl. lia.
Qed.

Lemma eat_tag_name_spec (s : bytes) i j e : eat_tag_name s i = (j, e) ->
  j = i \/ ((i < j)%nat /\ (j <= length s)%nat).
Proof.
  unfold eat_tag_name. destruct (skipn i s) as [|c t] eqn:E.
  - intros H; inversion H; auto.
  - destruct (ascii_alpha c).
    + intros H; inversion H; subst. right.
      pose proof (eat_tag_tail_le (length t) t) as Hle.
      assert (Hl : length (skipn i s) = S (length t)) by (rewrite E; reflexivity).
      rewrite skipn_length in Hl. lia.
    + intros H; inversion H; auto.
Qed.

(* ------------------------------------------------------------------ the progress measure *)

(* phi st b: how many further steps without consuming input a context in state st may need when
   the next input byte is b.  2 * remaining + phi strictly decreases along every step. *)
Definition is_lt (b : option N) : bool := match b with Some x => x =? 60 | None => false end.

Definition phi (st : state) (b : option N) : nat :=
  match st with
  | StText => 0
  | StSpecialElementBody => 1
  | StTag => if is_lt b then 1 else 0
  | StAttrName => if is_lt b then 1 else 2
  | StAfterName => if is_lt b then 2 else 1
  | StBeforeValue => 2
  | StHTMLCmt => 1
  | StAttr => 1
  | StError => 1
  end.

Lemma phi_le_2 st b : (phi st b <= 2)%nat.
Proof. destruct st; simpl; try destruct (is_lt b); lia. Qed.

(* the tail z that follows the chunk handed to a transition function is empty or starts with '<' *)
Definition tail_ok (z : bytes) : Prop := z = [] \/ hd_error z = Some 60.

(* what every transition function guarantees on a non-empty chunk u followed by z *)
Definition tr_good (st : state) (c : context) (u z : bytes) (r : tres) : Prop :=
  exists c1 n, r = TOk c1 n /\ (n <= length u)%nat /\
   (c_state c = st ->
    (skipn n u ++ z = [] \/
     (phi (c_state c1) (hd_error (skipn n u ++ z)) + 1 <= 2 * n + phi st (hd_error u))%nat) /\
    (wf_ctx c -> c_delim c = DNone -> wf_ctx c1) /\
    (c_state c1 = StHTMLCmt -> st = StHTMLCmt \/
       (st = StText /\ (4 <= n)%nat /\ firstn 4 (skipn (n - 4) u) = B "<!--"))).

Lemma tail_ok_hd z : tail_ok z -> z = [] \/ is_lt (hd_error z) = true.
Proof. intros [->|H]; [auto | right; rewrite H; reflexivity]. Qed.

(* when everything is consumed *)
Lemma measure_all st1 st (u z : bytes) : tail_ok z -> u <> [] ->
  (phi st1 (Some 60%N) + 1 <= 2 * length u + phi st (hd_error u))%nat ->
  skipn (length u) u ++ z = [] \/
  (phi st1 (hd_error (skipn (length u) u ++ z)) + 1 <= 2 * length u + phi st (hd_error u))%nat.
Proof.
  intros Hz Hu H. rewrite skipn_all. simpl. destruct Hz as [->|Hz]; [left; reflexivity|].
  right. rewrite Hz. exact H.
Qed.

Lemma wf_ctx0 : wf_ctx ctx0. Proof. reflexivity. Qed.
Lemma wf_ctx_error code : wf_ctx (ctx_error code). Proof. reflexivity. Qed.
Lemma wf_ctx_state st : wf_ctx (ctx_state st).
Proof. destruct st; reflexivity. Qed.

Lemma wf_set_state c st : wf_ctx c -> c_delim c = DNone -> st <> StText -> wf_ctx (set_state c st).
Proof.
  unfold wf_ctx, wf_ctxb, set_state. cbn. intros H Hd Hs. rewrite Hd.
  destruct st; try reflexivity. congruence.
Qed.

Lemma wf_set_state_delim c d : wf_ctx (set_state_delim c StAttr d).
Proof. unfold wf_ctx, wf_ctxb, set_state_delim. cbn. destruct d; reflexivity. Qed.

Lemma length_pos_ne {A} (l : list A) : l <> [] -> (0 < length l)%nat.
Proof. destruct l; [congruence | simpl; lia]. Qed.

Ltac nat_eqb :=
  repeat match goal with
         | H : Nat.eqb _ _ = true |- _ => apply Nat.eqb_eq in H
         | H : Nat.eqb _ _ = false |- _ => apply Nat.eqb_neq in H
         | H : Nat.leb _ _ = true |- _ => apply Nat.leb_le in H
         | H : Nat.leb _ _ = false |- _ => apply Nat.leb_gt in H
         | H : Nat.ltb _ _ = true |- _ => apply Nat.ltb_lt in H
         | H : Nat.ltb _ _ = false |- _ => apply Nat.ltb_ge in H
         end.

(* ------------------------------------------------------------------ tText *)

Lemma t_text_loop_spec f c (s : bytes) k : (k <= length s)%nat -> (length s - k < f)%nat -> s <> [] ->
  exists c1 n, t_text_loop f c s k = TOk c1 n /\ (n <= length s)%nat /\
    ((n = length s /\ c1 = c) \/
     (c1 = ctx_state StHTMLCmt /\ (4 <= n)%nat /\ firstn 4 (skipn (n - 4) s) = B "<!--") \/
     (c_state c1 = StTag /\ c_delim c1 = DNone /\ (2 <= n)%nat)).
Proof.
  revert k; induction f as [|f IH]; intros k Hk Hf Hs; [lia|].
  cbn [t_text_loop]. unfold index_byte.
  destruct (index_any [60] (skipn k s)) as [d|] eqn:Ed.
  2:{ exists c, (length s). split; [reflexivity|]. split; [lia|]. left; auto. }
  apply index_any_spec in Ed as [Hd _]. rewrite skipn_length in Hd.
  destruct (Nat.eqb (k + d + 1) (length s)) eqn:E1; nat_eqb.
  { exists c, (length s). split; [reflexivity|]. split; [lia|]. left; auto. }
  destruct (Nat.leb (k + d + 4) (length s) && bytes_eqb (firstn 4 (skipn (k + d) s)) (B "<!--")) eqn:E2.
  { apply andb_true_iff in E2 as [E2 E3]. nat_eqb. apply bytes_eqb_eq in E3.
    exists (ctx_state StHTMLCmt), (k + d + 4)%nat. split; [reflexivity|]. split; [lia|].
    right; left. split; [reflexivity|]. split; [lia|].
    replace (k + d + 4 - 4)%nat with (k + d)%nat by lia. exact E3. }
  clear E2.
  destruct (byte_at s (S (k + d))) as [ch|] eqn:Eb.
  2:{ unfold byte_at in Eb. apply nth_error_None in Eb. lia. }
  destruct (ch =? 47) eqn:Ech.
  - destruct (Nat.eqb (S (k + d) + 1) (length s)) eqn:E3; nat_eqb.
    { exists c, (length s). split; [reflexivity|]. split; [lia|]. left; auto. }
    destruct (eat_tag_name s (S (S (k + d)))) as [j e] eqn:Ee.
    destruct (eat_tag_name_spec _ _ _ _ Ee) as [->|[Hj1 Hj2]].
    + rewrite Nat.eqb_refl. cbn [negb]. apply IH; [lia | lia | exact Hs].
    + destruct (Nat.eqb j (S (S (k + d)))) eqn:E4; nat_eqb; [lia|]. cbn [negb].
      exists (ctx_state StTag), j. split; [reflexivity|]. split; [lia|].
      right; right. cbn. split; [reflexivity|]. split; [reflexivity|lia].
  - destruct (eat_tag_name s (S (k + d))) as [j e] eqn:Ee.
    destruct (eat_tag_name_spec _ _ _ _ Ee) as [->|[Hj1 Hj2]].
    + rewrite Nat.eqb_refl. cbn [negb]. apply IH; [lia | lia | exact Hs].
    + destruct (Nat.eqb j (S (k + d))) eqn:E4; nat_eqb; [lia|]. cbn [negb].
      exists (set_elem (ctx_state StTag) e), j. split; [reflexivity|]. split; [lia|].
      right; right. cbn. split; [reflexivity|]. split; [reflexivity|lia].
Qed.

Lemma measure_part (st1 st : state) (u z : bytes) n :
  (n <= length u)%nat -> (phi st1 (Some 60%N) + 1 <= 2 * n + phi st (hd_error u))%nat ->
  (forall b, phi st1 b <= phi st1 (Some 60%N))%nat ->
  skipn n u ++ z = [] \/
  (phi st1 (hd_error (skipn n u ++ z)) + 1 <= 2 * n + phi st (hd_error u))%nat.
Proof. intros _ H Hm. right. specialize (Hm (hd_error (skipn n u ++ z))). lia. Qed.

Lemma t_text_good c (u z : bytes) : tail_ok z -> u <> [] -> tr_good StText c u z (t_text c u).
Proof.
  intros Hz Hu. unfold t_text.
  destruct (t_text_loop_spec (S (length u)) c u 0) as (c1 & n & E & Hn & Hcase); [lia | lia | exact Hu |].
  pose proof (length_pos_ne _ Hu) as Hlen.
  exists c1, n. split; [exact E|]. split; [exact Hn|]. intros Hst.
  destruct Hcase as [[-> ->] | [(-> & H4 & Hcm) | (Hs1 & Hdl & H2)]].
  - split; [apply measure_all; [exact Hz | exact Hu | rewrite ?Hst; cbn; lia]|].
    split; [intros Hw _; exact Hw|]. intros Hc. congruence.
  - split; [right; cbn; lia|]. split; [intros _ _; reflexivity|].
    intros _. right. auto.
  - split; [right; rewrite Hs1; cbn; destruct (is_lt _); lia|].
    split; [| rewrite Hs1; discriminate].
    intros _ _. unfold wf_ctx, wf_ctxb. rewrite Hs1, Hdl. reflexivity.
Qed.
(* ------------------------------------------------------------------ the other transition functions *)

Lemma hd_error_0 {A} (l : list A) : hd_error l = nth_error l 0.
Proof. destruct l; reflexivity. Qed.

Lemma hd_skip_app {A} (u z : list A) n : (n < length u)%nat -> hd_error (skipn n u ++ z) = nth_error u n.
Proof.
  intros H. rewrite hd_error_app_ne; [apply hd_error_skipn|].
  intros E. apply skipn_nil_iff in E. lia.
Qed.

Lemma skipn_skipn' {A} (l : list A) a b : skipn a (skipn b l) = skipn (b + a) l.
Proof. revert l; induction b as [|b IH]; intros l; simpl; [reflexivity|]. destruct l; [destruct a; reflexivity | apply IH]. Qed.

Lemma slice_some (s : bytes) a b : (a <= b)%nat -> (b <= length s)%nat -> exists r, slice s a b = Some r.
Proof.
  intros H1 H2. unfold slice.
  destruct (Nat.leb a b) eqn:E1; [|apply Nat.leb_gt in E1; lia].
  destruct (Nat.leb b (length s)) eqn:E2; [|apply Nat.leb_gt in E2; lia]. simpl. eauto.
Qed.

Lemma byte_at_some (s : bytes) i : (i < length s)%nat -> exists ch, byte_at s i = Some ch.
Proof.
  intros H. unfold byte_at. destruct (nth_error s i) eqn:E; [eauto|]. apply nth_error_None in E. lia.
Qed.

Lemma special_nil : is_special [] = false. Proof. reflexivity. Qed.

Lemma t_tag_good c (u z : bytes) : tail_ok z -> u <> [] -> tr_good StTag c u z (t_tag c u).
Proof.
  intros Hz Hu. unfold t_tag. rewrite eat_white_space_0.
  pose proof (length_pos_ne _ Hu) as Hlen. pose proof (eat_ws_list_le u) as Hi.
  set (i := eat_ws_list u) in *. unfold tr_good.
  destruct (Nat.eqb i (length u)) eqn:E1; nat_eqb.
  { exists c, (length u). split; [reflexivity|]. split; [lia|]. intros Hst; rewrite ?Hst.
    split; [apply measure_all; [exact Hz | exact Hu | rewrite ?Hst; cbn; lia]|].
    split; [intros Hw _; exact Hw | congruence]. }
  destruct (byte_at_some u i) as [ch Eb]; [lia|]. rewrite Eb.
  destruct (ch =? 62) eqn:Ech.
  { eexists _, (i + 1)%nat. split; [reflexivity|]. split; [lia|]. intros Hst; rewrite ?Hst.
    split; [right; cbn [c_state]; destruct (mem_bytes (c_elem c) T_specialElements); cbn; lia|].
    split.
    - intros _ _. unfold wf_ctx, wf_ctxb. cbn [c_state c_delim c_elem].
      destruct (mem_bytes (c_elem c) T_specialElements) eqn:Esp; [reflexivity|].
      destruct (negb (bytes_eqb (c_elem c) []) && mem_bytes (c_elem c) T_voidElements).
      + reflexivity.
      + unfold is_special. rewrite Esp. reflexivity.
    - cbn [c_state]. destruct (mem_bytes (c_elem c) T_specialElements); discriminate. }
  assert (Herr : tr_good StTag c u z (TOk (ctx_error ErrBadHTML) (length u))).
  { exists (ctx_error ErrBadHTML), (length u). split; [reflexivity|]. split; [lia|]. intros Hst; rewrite ?Hst.
    split; [apply measure_all; [exact Hz | exact Hu | cbn; lia]|].
    split; [intros _ _; reflexivity | discriminate]. }
  destruct (eat_attr_name u i) as [j|] eqn:Ej; [|exact Herr].
  destruct (Nat.eqb i j) eqn:E2; nat_eqb; [exact Herr|]. clear Herr.
  destruct (eat_attr_name_spec _ _ _ Ej) as (Hj1 & Hj2 & Hj3).
  destruct (slice_some u i j) as [nm Es]; [lia | lia |]. rewrite Es.
  eexists _, j. split; [reflexivity|]. split; [lia|]. intros Hst; rewrite ?Hst. cbn [c_state].
  destruct (Nat.eqb j (length u)) eqn:E3; nat_eqb.
  - subst j. split; [apply measure_all; [exact Hz | exact Hu | cbn; lia]|].
    split; [intros _ _; reflexivity | discriminate].
  - split.
    + right. rewrite hd_skip_app by lia. destruct Hj3 as (ch' & -> & Hm); [lia|].
      cbn [phi is_lt]. rewrite (attr_stop_not_lt _ Hm). lia.
    + split; [intros _ _; reflexivity | discriminate].
Qed.

Lemma t_attr_name_good c (u z : bytes) : tail_ok z -> u <> [] -> tr_good StAttrName c u z (t_attr_name c u).
Proof.
  intros Hz Hu. unfold t_attr_name, tr_good.
  pose proof (length_pos_ne _ Hu) as Hlen.
  destruct (eat_attr_name u 0) as [i|] eqn:Ei.
  2:{ exists (ctx_error ErrBadHTML), (length u). split; [reflexivity|]. split; [lia|]. intros Hst; rewrite ?Hst.
      split; [apply measure_all; [exact Hz | exact Hu | cbn; lia]|].
      split; [intros _ _; reflexivity | discriminate]. }
  destruct (eat_attr_name_spec _ _ _ Ei) as (_ & Hi2 & Hi3).
  destruct (Nat.eqb i (length u)) eqn:E1; nat_eqb; cbn [negb].
  - subst i. exists c, (length u). split; [reflexivity|]. split; [lia|]. intros Hst; rewrite ?Hst.
    split; [apply measure_all; [exact Hz | exact Hu | rewrite ?Hst; cbn; lia]|].
    split; [intros Hw _; exact Hw | congruence].
  - exists (set_state c StAfterName), i. split; [reflexivity|]. split; [lia|]. intros Hst; rewrite ?Hst.
    destruct Hi3 as (ch & Hn & Hm); [lia|].
    split.
    + right. rewrite hd_skip_app by lia. rewrite Hn. cbn [set_state c_state phi is_lt].
      rewrite (attr_stop_not_lt _ Hm). destruct i as [|i]; [|lia].
      rewrite hd_error_0, Hn. cbn [is_lt]. rewrite (attr_stop_not_lt _ Hm). lia.
    + split; [intros Hw Hd; apply wf_set_state; [exact Hw | exact Hd | discriminate] | discriminate].
Qed.

Lemma t_after_name_good c (u z : bytes) : tail_ok z -> u <> [] -> tr_good StAfterName c u z (t_after_name c u).
Proof.
  intros Hz Hu. unfold t_after_name, tr_good. rewrite eat_white_space_0.
  pose proof (length_pos_ne _ Hu) as Hlen. pose proof (eat_ws_list_le u) as Hi.
  destruct (Nat.eqb (eat_ws_list u) (length u)) eqn:E1; nat_eqb.
  { exists c, (length u). split; [reflexivity|]. split; [lia|]. intros Hst; rewrite ?Hst.
    destruct (eat_ws_list_hd u) as (ch & Hh & Hw); [lia|].
    split; [apply measure_all; [exact Hz | exact Hu |]|].
    - rewrite ?Hst, Hh. cbn [phi is_lt]. rewrite (is_ws_not_lt _ Hw). cbn. lia.
    - split; [intros Hw' _; exact Hw' | congruence]. }
  set (i := eat_ws_list u) in *.
  destruct (byte_at_some u i) as [ch Eb]; [lia|]. rewrite Eb. unfold byte_at in Eb.
  destruct (ch =? 61) eqn:Ech; cbn [negb].
  - exists (set_state c StBeforeValue), (i + 1)%nat. split; [reflexivity|]. split; [lia|]. intros Hst; rewrite ?Hst.
    split; [right; cbn [set_state c_state phi]; destruct (is_lt (hd_error u)); lia|].
    split; [intros Hw Hd; apply wf_set_state; [exact Hw | exact Hd | discriminate] | discriminate].
  - exists (set_state c StTag), i. split; [reflexivity|]. split; [lia|]. intros Hst; rewrite ?Hst.
    split.
    + right. rewrite hd_skip_app by lia. rewrite Eb. cbn [set_state c_state phi is_lt].
      destruct i as [|i].
      * rewrite hd_error_0, Eb. cbn [is_lt]. destruct (ch =? 60); lia.
      * destruct (ch =? 60); lia.
    + split; [intros Hw Hd; apply wf_set_state; [exact Hw | exact Hd | discriminate] | discriminate].
Qed.

Lemma t_before_value_good c (u z : bytes) : tail_ok z -> u <> [] -> tr_good StBeforeValue c u z (t_before_value c u).
Proof.
  intros Hz Hu. unfold t_before_value, tr_good. rewrite eat_white_space_0.
  pose proof (length_pos_ne _ Hu) as Hlen. pose proof (eat_ws_list_le u) as Hi.
  destruct (Nat.eqb (eat_ws_list u) (length u)) eqn:E1; nat_eqb.
  { exists c, (length u). split; [reflexivity|]. split; [lia|]. intros Hst; rewrite ?Hst.
    split; [apply measure_all; [exact Hz | exact Hu | rewrite ?Hst; cbn; lia]|].
    split; [intros Hw' _; exact Hw' | congruence]. }
  set (i := eat_ws_list u) in *.
  destruct (byte_at_some u i) as [ch Eb]; [lia|]. rewrite Eb.
  destruct (ch =? 39).
  { eexists _, (i + 1)%nat. split; [reflexivity|]. split; [lia|]. intros Hst; rewrite ?Hst.
    split; [right; cbn; lia|]. split; [intros _ _; apply wf_set_state_delim | discriminate]. }
  destruct (ch =? 34).
  { eexists _, (i + 1)%nat. split; [reflexivity|]. split; [lia|]. intros Hst; rewrite ?Hst.
    split; [right; cbn; lia|]. split; [intros _ _; apply wf_set_state_delim | discriminate]. }
  eexists _, i. split; [reflexivity|]. split; [lia|]. intros Hst; rewrite ?Hst.
  split; [right; cbn; lia|]. split; [intros _ _; apply wf_set_state_delim | discriminate].
Qed.

Lemma t_html_cmt_good c (u z : bytes) : tail_ok z -> u <> [] -> tr_good StHTMLCmt c u z (t_html_cmt c u).
Proof.
  intros Hz Hu. unfold t_html_cmt, tr_good.
  pose proof (length_pos_ne _ Hu) as Hlen.
  destruct (index_of (B "-->") u) as [i|] eqn:Ei.
  - apply index_of_spec in Ei as [Hi _]. cbn [length B map] in Hi. simpl length in Hi.
    exists ctx0, (i + 3)%nat. split; [reflexivity|]. split; [lia|]. intros Hst; rewrite ?Hst.
    split; [right; cbn; lia|]. split; [intros _ _; reflexivity | discriminate].
  - exists c, (length u). split; [reflexivity|]. split; [lia|]. intros Hst; rewrite ?Hst.
    split; [apply measure_all; [exact Hz | exact Hu | rewrite ?Hst; cbn; lia]|].
    split; [intros Hw' _; exact Hw' | auto].
Qed.

(* ---- indexTagEnd ---- *)

Lemma itel_unfold f (s : bytes) tag res : s <> [] ->
  index_tag_end_loop (S f) s tag res =
  match index_of (B "</") s with
  | None => None
  | Some i =>
      let s1 := skipn (i + 2) s in
      if Nat.leb (length tag) (length s1) && prefix_fold tag s1 &&
         Nat.eqb (length tag) (length (firstn (length tag) s1)) then
        let s2 := skipn (length tag) s1 in
        match s2 with
        | ch :: _ => if mem_N ch T_tagEndSeparators then Some (res + i)%nat
                     else index_tag_end_loop f s2 tag (res + length tag + i + 2)
        | [] => index_tag_end_loop f s2 tag (res + length tag + i + 2)
        end
      else index_tag_end_loop f s1 tag (res + i + 2)
  end.
Proof. destruct s; [congruence | reflexivity]. Qed.

Lemma itel_nil f tag res : index_tag_end_loop f [] tag res = None.
Proof. destruct f; reflexivity. Qed.

Lemma itel_spec f : forall (s : bytes) tag res r, index_tag_end_loop f s tag res = Some r ->
  (res <= r)%nat /\ (r + 2 <= res + length s)%nat /\ prefixb (B "</") (skipn (r - res) s) = true.
Proof.
  induction f as [|f IH]; intros s tag res r H; [discriminate|].
  destruct s as [|c0 t0] eqn:Es; [discriminate|]. rewrite <- Es in *.
  rewrite itel_unfold in H by (rewrite Es; discriminate).
  destruct (index_of (B "</") s) as [i|] eqn:Ei; [|discriminate].
  apply index_of_spec in Ei as [Hi Hp]. simpl length in Hi.
  cbv zeta in H.
  destruct (Nat.leb (length tag) (length (skipn (i + 2) s)) && prefix_fold tag (skipn (i + 2) s) &&
            Nat.eqb (length tag) (length (firstn (length tag) (skipn (i + 2) s)))) eqn:Ec.
  - apply andb_true_iff in Ec as [Ec _]. apply andb_true_iff in Ec as [Ec _]. nat_eqb.
    rewrite skipn_length in Ec.
    assert (Hrec : forall r, index_tag_end_loop f (skipn (length tag) (skipn (i + 2) s)) tag (res + length tag + i + 2) = Some r ->
                             (res <= r)%nat /\ (r + 2 <= res + length s)%nat /\ prefixb (B "</") (skipn (r - res) s) = true).
    { intros r' Hr. apply IH in Hr as (H1 & H2 & H3). rewrite !skipn_length in H2.
      split; [lia|]. split; [lia|]. rewrite skipn_skipn', skipn_skipn' in H3.
      match type of H3 with context [skipn ?k s] => replace k with (r' - res)%nat in H3 by lia end. exact H3. }
    destruct (skipn (length tag) (skipn (i + 2) s)) as [|ch rest] eqn:E2.
    + apply Hrec. exact H.
    + destruct (mem_N ch T_tagEndSeparators).
      * inversion H; subst. split; [lia|]. split; [lia|].
        replace (res + i - res)%nat with i by lia. exact Hp.
      * apply Hrec. exact H.
  - apply IH in H as (H1 & H2 & H3). rewrite skipn_length in H2.
    split; [lia|]. split; [lia|]. rewrite skipn_skipn' in H3.
    match type of H3 with context [skipn ?k s] => replace k with (r - res)%nat in H3 by lia end. exact H3.
Qed.

(* the fuel of indexTagEnd's loop is never exhausted: any fuel above the length gives the same answer *)
Lemma itel_fuel f1 : forall f2 (s : bytes) tag res, (length s < f1)%nat -> (length s < f2)%nat ->
  index_tag_end_loop f1 s tag res = index_tag_end_loop f2 s tag res.
Proof.
  induction f1 as [|f1 IH]; intros f2 s tag res H1 H2; [lia|].
  destruct f2 as [|f2]; [lia|].
  destruct s as [|c0 t0] eqn:Es; [reflexivity|]. rewrite <- Es in *.
  assert (Hne : s <> []) by (rewrite Es; discriminate).
  rewrite !itel_unfold by exact Hne.
  destruct (index_of (B "</") s) as [i|] eqn:Ei; [|reflexivity].
  apply index_of_spec in Ei as [Hi _]. simpl length in Hi. cbv zeta.
  destruct (Nat.leb (length tag) (length (skipn (i + 2) s)) && prefix_fold tag (skipn (i + 2) s) &&
            Nat.eqb (length tag) (length (firstn (length tag) (skipn (i + 2) s)))) eqn:Ec.
  - assert (Hl : (length (skipn (length tag) (skipn (i + 2) s)) < length s)%nat)
      by (rewrite !skipn_length; lia).
    destruct (skipn (length tag) (skipn (i + 2) s)) as [|ch rest] eqn:E2.
    + rewrite !itel_nil. reflexivity.
    + destruct (mem_N ch T_tagEndSeparators); [reflexivity|]. apply IH; lia.
  - apply IH; rewrite skipn_length; lia.
Qed.

Lemma index_tag_end_spec (s : bytes) tag r : index_tag_end s tag = Some r ->
  (r + 2 <= length s)%nat /\ prefixb (B "</") (skipn r s) = true.
Proof.
  unfold index_tag_end. intros H. apply itel_spec in H as (_ & H2 & H3).
  rewrite Nat.sub_0_r in H3. split; [lia | exact H3].
Qed.

Lemma t_special_good c (u z : bytes) : tail_ok z -> u <> [] -> tr_good StSpecialElementBody c u z (t_special_tag_end c u).
Proof.
  intros Hz Hu. unfold t_special_tag_end, tr_good.
  pose proof (length_pos_ne _ Hu) as Hlen.
  assert (Hall : tr_good StSpecialElementBody c u z (TOk c (length u))).
  { exists c, (length u). split; [reflexivity|]. split; [lia|]. intros Hst; rewrite ?Hst.
    split; [apply measure_all; [exact Hz | exact Hu | rewrite ?Hst; cbn; lia]|].
    split; [intros Hw' _; exact Hw' | congruence]. }
  destruct (special_applies c); [|exact Hall].
  destruct (index_tag_end u (c_elem c)) as [k|] eqn:Ek; [|exact Hall].
  apply index_tag_end_spec in Ek as [Hk _].
  exists ctx0, k. split; [reflexivity|]. split; [lia|]. intros Hst; rewrite ?Hst.
  split; [right; cbn; lia|]. split; [intros _ _; reflexivity | discriminate].
Qed.

Lemma t_attr_good c (u z : bytes) : tail_ok z -> u <> [] -> tr_good StAttr c u z (t_attr c u).
Proof.
  intros Hz Hu. unfold t_attr, tr_good. pose proof (length_pos_ne _ Hu) as Hlen.
  exists c, (length u). split; [reflexivity|]. split; [lia|]. intros Hst; rewrite ?Hst.
  split; [apply measure_all; [exact Hz | exact Hu | rewrite ?Hst; cbn; lia]|].
  split; [intros Hw' _; exact Hw' | congruence].
Qed.

Lemma t_error_good c (u z : bytes) : tail_ok z -> u <> [] -> tr_good StError c u z (t_error c u).
Proof.
  intros Hz Hu. unfold t_error, tr_good. pose proof (length_pos_ne _ Hu) as Hlen.
  exists c, (length u). split; [reflexivity|]. split; [lia|]. intros Hst; rewrite ?Hst.
  split; [apply measure_all; [exact Hz | exact Hu | rewrite ?Hst; cbn; lia]|].
  split; [intros Hw' _; exact Hw' | congruence].
Qed.

Lemma transition_good c (u z : bytes) : tail_ok z -> u <> [] -> tr_good (c_state c) c u z (transition (c_state c) c u).
Proof.
  intros Hz Hu. destruct (c_state c) eqn:Hst; cbn [transition].
  - apply t_text_good; assumption.
  - apply t_special_good; assumption.
  - apply t_tag_good; assumption.
  - apply t_attr_name_good; assumption.
  - apply t_after_name_good; assumption.
  - apply t_before_value_good; assumption.
  - apply t_html_cmt_good; assumption.
  - apply t_attr_good; assumption.
  - apply t_error_good; assumption.
Qed.
(* ------------------------------------------------------------------ all transition functions are total *)

Definition total_fn (f : context -> bytes -> tres) : Prop :=
  forall c (s : bytes), exists c1 n, f c s = TOk c1 n /\ (n <= length s)%nat.

Lemma tr_good_total st c (u z : bytes) r : tr_good st c u z r -> exists c1 n, r = TOk c1 n /\ (n <= length u)%nat.
Proof. intros (c1 & n & H1 & H2 & _). eauto. Qed.

Lemma tail_ok_nil : tail_ok []. Proof. left; reflexivity. Qed.

Lemma transitions_total :
  total_fn t_text /\ total_fn t_tag /\ total_fn t_attr_name /\ total_fn t_after_name /\
  total_fn t_before_value /\ total_fn t_html_cmt /\ total_fn t_special_tag_end /\
  total_fn t_attr /\ total_fn t_error.
Proof.
  repeat split; intros c s; (destruct s as [|b s'] eqn:Es;
    [ try (exists c, O; split; [reflexivity | simpl; lia])
    | rewrite <- Es; assert (Hne : s <> []) by (rewrite Es; discriminate) ]).
  - eapply tr_good_total. apply t_text_good; [apply tail_ok_nil | exact Hne].
  - eapply tr_good_total. apply t_tag_good; [apply tail_ok_nil | exact Hne].
  - eapply tr_good_total. apply t_attr_name_good; [apply tail_ok_nil | exact Hne].
  - eapply tr_good_total. apply t_after_name_good; [apply tail_ok_nil | exact Hne].
  - eapply tr_good_total. apply t_before_value_good; [apply tail_ok_nil | exact Hne].
  - eapply tr_good_total. apply t_html_cmt_good; [apply tail_ok_nil | exact Hne].
  - exists c, O. unfold t_special_tag_end. destruct (special_applies c); split; try reflexivity; simpl; lia.
  - eapply tr_good_total. apply t_special_good; [apply tail_ok_nil | exact Hne].
  - eapply tr_good_total. apply t_attr_good; [apply tail_ok_nil | exact Hne].
  - eapply tr_good_total. apply t_error_good; [apply tail_ok_nil | exact Hne].
Qed.

Lemma transition_total st : total_fn (transition st).
Proof.
  destruct transitions_total as (H1 & H2 & H3 & H4 & H5 & H6 & H7 & H8 & H9).
  destruct st; cbn [transition]; assumption.
Qed.

(* ------------------------------------------------------------------ html.UnescapeString never grows its input *)

Lemma encode_rune_len r : (length (encode_rune r) <= 4)%nat.
Proof.
  unfold encode_rune. destruct (r <? 128); [simpl; lia|]. destruct (r <? 2048); [simpl; lia|].
  destruct (is_surrogate r || (1114111 <? r)); [simpl; lia|]. destruct (r <? 65536); simpl; lia.
Qed.

Definition entity_len_ok (kv : bytes * N) : bool :=
  Nat.leb (length (encode_rune (snd kv))) (S (length (fst kv))).
Definition entity2_len_ok (kv : bytes * (N * N)) : bool :=
  Nat.leb (length (encode_rune (fst (snd kv)) ++ encode_rune (snd (snd kv)))) (S (length (fst kv))).

(* side conditions on the regenerated entity tables: the expansion of &name is never longer than the reference *)
Lemma entity_lengths_ok : forallb entity_len_ok entity_table = true.
Proof. vm_compute. reflexivity. Qed.
Lemma entity2_lengths_ok : forallb entity2_len_ok entity2_table = true.
Proof. vm_compute. reflexivity. Qed.

Lemma lookup_bytes_in {A} k (t : list (bytes * A)) v : lookup_bytes k t = Some v -> In (k, v) t.
Proof.
  induction t as [|[k' v'] t IH]; simpl; [discriminate|].
  destruct (bytes_eqb k k') eqn:E.
  - intros H; inversion H; subst. apply bytes_eqb_eq in E. subst. left; reflexivity.
  - intros H. right. apply IH. exact H.
Qed.

Lemma entity_len k x : lookup_bytes k entity_table = Some x -> (length (encode_rune x) <= S (length k))%nat.
Proof.
  intros H. apply lookup_bytes_in in H. pose proof entity_lengths_ok as Hok.
  rewrite forallb_forall in Hok. apply Hok in H. unfold entity_len_ok in H. simpl in H.
  apply Nat.leb_le in H. exact H.
Qed.

Lemma entity2_len k x1 x2 : lookup_bytes k entity2_table = Some (x1, x2) ->
  (length (encode_rune x1 ++ encode_rune x2) <= S (length k))%nat.
Proof.
  intros H. apply lookup_bytes_in in H. pose proof entity2_lengths_ok as Hok.
  rewrite forallb_forall in Hok. apply Hok in H. unfold entity2_len_ok in H. simpl in H.
  apply Nat.leb_le in H. exact H.
Qed.

Lemma parse_digits_bound hex l : forall x i x' i', parse_digits hex l x i = (x', i') ->
  (i <= i')%nat /\ (i' <= i + length l)%nat.
Proof.
  induction l as [|c l IH]; intros x i x' i' H; simpl in H.
  - inversion H; subst. simpl. lia.
  - destruct hex.
    + destruct (is_digit c); [apply IH in H; simpl; lia|].
      destruct (is_lower_hex c); [apply IH in H; simpl; lia|].
      destruct (is_upper_hex c); [apply IH in H; simpl; lia|].
      destruct (c =? 59); inversion H; subst; simpl; lia.
    + destruct (is_digit c); [apply IH in H; simpl; lia|].
      destruct (c =? 59); inversion H; subst; simpl; lia.
Qed.

Lemma alnum_run_le l : (alnum_run l <= length l)%nat.
Proof. induction l as [|c l IH]; simpl; [lia|]. destruct (is_alnum_byte c); [lia|]. destruct (c =? 59); lia. Qed.

Lemma prefix_entity_spec name j x k : prefix_entity name j = Some (x, k) ->
  (k <= j)%nat /\ lookup_bytes (firstn k name) entity_table = Some x.
Proof.
  induction j as [|j IH]; [discriminate|]. destruct j as [|j]; [discriminate|].
  cbn [prefix_entity]. destruct (lookup_bytes (firstn (S (S j)) name) entity_table) as [y|] eqn:E.
  - intros H; inversion H; subst. split; [lia | exact E].
  - intros H. apply IH in H as [H1 H2]. split; [lia | exact H2].
Qed.

Lemma unescape_entity_len (s : bytes) out n : s <> [] -> unescape_entity s = (out, n) ->
  (1 <= n)%nat /\ (n <= length s)%nat /\ (length out <= n)%nat.
Proof.
  intros Hne. unfold unescape_entity.
  destruct s as [|amp [|c1 t]]; [congruence | |].
  { intros H; apply pair_equal_spec in H as [<- <-]. simpl. lia. }
  set (s := amp :: c1 :: t) in *. assert (Hl : (2 <= length s)%nat) by (simpl; lia).
  destruct (c1 =? 35).
  - destruct (Nat.leb (length s) 3) eqn:E3; nat_eqb.
    { intros H; apply pair_equal_spec in H as [<- <-]. simpl. lia. }
    set (hex := (nth 2 s 0 =? 120) || (nth 2 s 0 =? 88)).
    set (start := if hex then 3%nat else 2%nat).
    assert (Hs : (2 <= start <= 3)%nat) by (unfold start; destruct hex; lia).
    destruct (parse_digits hex (skipn start s) 0 start) as [x i] eqn:Ep.
    apply parse_digits_bound in Ep as [Hp1 Hp2]. rewrite skipn_length in Hp2.
    destruct (Nat.leb i 3) eqn:E4; nat_eqb.
    { intros H; apply pair_equal_spec in H as [<- <-]. simpl. lia. }
    intros H; apply pair_equal_spec in H as [<- <-]. pose proof (encode_rune_len (charref_rune x)). lia.
  - set (i := S (alnum_run (skipn 1 s))).
    pose proof (alnum_run_le (skipn 1 s)) as Ha. rewrite skipn_length in Ha.
    assert (Hi : (1 <= i <= length s)%nat) by (unfold i; lia).
    set (name := firstn (i - 1) (skipn 1 s)).
    assert (Hname : length name = (i - 1)%nat).
    { unfold name. rewrite firstn_length, skipn_length. unfold i. lia. }
    assert (Hdef : forall out n, (firstn i s, i) = (out, n) -> (1 <= n)%nat /\ (n <= length s)%nat /\ (length out <= n)%nat).
    { intros o m H; apply pair_equal_spec in H as [<- <-]. rewrite firstn_length. lia. }
    destruct name as [|n0 name'] eqn:En; [apply Hdef|]. rewrite <- En in *. clear En n0 name'.
    destruct (lookup_bytes name entity_table) as [x|] eqn:E1.
    { intros H; apply pair_equal_spec in H as [<- <-]. apply entity_len in E1. lia. }
    destruct (lookup_bytes name entity2_table) as [[x1 x2]|] eqn:E2.
    { intros H; apply pair_equal_spec in H as [<- <-]. apply entity2_len in E2. lia. }
    destruct (prefix_entity name (Nat.min (length name - 1) longest_entity_without_semicolon)) as [[x j]|] eqn:E5; [|apply Hdef].
    apply prefix_entity_spec in E5 as [Hj1 Hj2]. apply entity_len in Hj2. rewrite firstn_length in Hj2.
    intros H; apply pair_equal_spec in H as [<- <-]. lia.
Qed.

Lemma unescape_fuel_len f : forall s : bytes, (length (unescape_fuel f s) <= length s)%nat.
Proof.
  induction f as [|f IH]; intros s; [simpl; lia|].
  destruct s as [|c t]; [simpl; lia|]. cbn [unescape_fuel].
  destruct (c =? 38).
  - destruct (unescape_entity (c :: t)) as [out n] eqn:E.
    apply unescape_entity_len in E as (H1 & H2 & H3); [|discriminate].
    rewrite app_length. specialize (IH (skipn n (c :: t))). rewrite skipn_length in IH. lia.
  - specialize (IH t). simpl. lia.
Qed.

Lemma html_unescape_len (s : bytes) : (length (html_unescape s) <= length s)%nat.
Proof. apply unescape_fuel_len. Qed.

(* the fuel of the unescape loop is never exhausted: more fuel gives the same result *)
Lemma unescape_fuel_enough f1 : forall f2 (s : bytes), (length s <= f1)%nat -> (length s <= f2)%nat ->
  unescape_fuel f1 s = unescape_fuel f2 s.
Proof.
  induction f1 as [|f1 IH]; intros f2 s H1 H2.
  - destruct s; [|simpl in H1; lia]. destruct f2; reflexivity.
  - destruct s as [|c t]; [destruct f2; reflexivity|]. destruct f2 as [|f2]; [simpl in H2; lia|].
    cbn [unescape_fuel]. destruct (c =? 38).
    + destruct (unescape_entity (c :: t)) as [out n] eqn:E.
      apply unescape_entity_len in E as (Hn1 & Hn2 & Hn3); [|discriminate].
      f_equal. apply IH; rewrite skipn_length; cbn [length] in *; lia.
    + f_equal. apply IH; cbn [length] in *; lia.
Qed.

(* ------------------------------------------------------------------ the attribute-value loop of contextAfterText *)

Lemma run_transitions_some f : forall c (u : bytes),
  (u = [] \/ (2 * length u + phi (c_state c) (hd_error u) <= f)%nat) -> run_transitions f c u <> None.
Proof.
  induction f as [|f IH]; intros c u H.
  - destruct u as [|b u']; [simpl; discriminate|]. destruct H as [H|H]; [discriminate | simpl in H; lia].
  - destruct u as [|b u'] eqn:Eu; [simpl; discriminate|]. rewrite <- Eu in *.
    assert (Hne : u <> []) by (rewrite Eu; discriminate).
    destruct H as [H|H]; [congruence|].
    assert (E : run_transitions (S f) c u =
                match transition (c_state c) c u with TPanic => None | TOk c1 n => run_transitions f c1 (skipn n u) end)
      by (rewrite Eu; reflexivity).
    rewrite E.
    destruct (transition_good c u [] tail_ok_nil Hne) as (c1 & n & -> & Hn & Hrest).
    destruct (Hrest eq_refl) as (Hm & _ & _). rewrite app_nil_r in Hm.
    apply IH. destruct Hm as [Hm|Hm]; [left; exact Hm|]. right. rewrite skipn_length. lia.
Qed.

Lemma run_transitions_attr f c (u : bytes) : c_state c = StAttr -> run_transitions (S f) c u = Some c.
Proof.
  intros Hst. destruct u as [|b u']; [reflexivity|]. cbn [run_transitions]. rewrite Hst. cbn [transition t_attr].
  rewrite skipn_all. destruct f; reflexivity.
Qed.

(* ------------------------------------------------------------------ contextAfterText *)

Definition cat_delim (d : delim) (c : context) (s : bytes) : tres :=
      let i := match index_any (delim_ends d) s with Some i => i | None => length s end in
      let bad :=
          match d with
          | DSpaceOrTagEnd => match index_any [34; 39; 60; 61; 96] (firstn i s) with Some _ => true | None => false end
          | _ => false
          end in
      if bad then TOk (ctx_error ErrBadHTML) (length s)
      else if Nat.eqb i (length s) then
        let c := set_attr_value c (c_attr_value c ++ s) in
        match run_transitions (2 * length s + 2) c (html_unescape s) with
        | Some c' => TOk c' (length s)
        | None => TPanic
        end
      else
        let v := firstn i s in
        let in_attr := match c_state c with StAttr => true | _ => false end in
        let st := if in_attr && bytes_eqb (c_elem c) (B "script") && bytes_eqb (c_attr c) (B "type")
                  then to_lower_bytes v else c_script_type c in
        let lr := if in_attr && bytes_eqb (c_elem c) (B "link") && bytes_eqb (c_attr c) (B "rel")
                  then link_rel_of v else c_link_rel c in
        TOk (mkctx StTag DNone (c_elem c) (c_elem_names c) [] [] false [] None st lr)
            (match d with DSpaceOrTagEnd => i | _ => S i end).

Lemma cat_delim_eq c (s : bytes) : c_delim c <> DNone -> context_after_text c s = cat_delim (c_delim c) c s.
Proof. unfold context_after_text. destruct (c_delim c); [congruence | reflexivity | reflexivity | reflexivity]. Qed.

Lemma slice_0 (s : bytes) i : (i <= length s)%nat -> slice s 0 i = Some (firstn i s).
Proof.
  intros H. unfold slice. cbn [Nat.leb andb]. destruct (Nat.leb i (length s)) eqn:E; [|apply Nat.leb_gt in E; lia].
  rewrite Nat.sub_0_r. reflexivity.
Qed.

Lemma cat_delim_total d c (s : bytes) : exists c1 n, cat_delim d c s = TOk c1 n /\ (n <= length s)%nat.
Proof.
  unfold cat_delim. cbv zeta.
  set (i := match index_any (delim_ends d) s with Some i => i | None => length s end).
  assert (Hi : (i <= length s)%nat).
  { unfold i. destruct (index_any (delim_ends d) s) as [k|] eqn:Ek; [apply index_any_spec in Ek as [Hk _]; lia | lia]. }
  match goal with |- context [if ?b then TOk (ctx_error ErrBadHTML) _ else _] => destruct b end.
  { exists (ctx_error ErrBadHTML), (length s). split; [reflexivity | lia]. }
  destruct (Nat.eqb i (length s)) eqn:E1; nat_eqb.
  - match goal with |- context [run_transitions ?f ?c ?u] => destruct (run_transitions f c u) as [c'|] eqn:Er end.
    + exists c', (length s). split; [reflexivity | lia].
    + exfalso. revert Er. apply run_transitions_some. right.
      pose proof (html_unescape_len s) as Hl.
      match goal with |- (2 * _ + phi ?st ?b <= _)%nat => pose proof (phi_le_2 st b) end. lia.
  - eexists _, _. split; [reflexivity|]. destruct d; lia.
Qed.

Theorem context_after_text_total c (s : bytes) :
  exists c1 n, context_after_text c s = TOk c1 n /\ (n <= length s)%nat.
Proof.
  destruct (c_delim c) eqn:Ed.
  - unfold context_after_text. rewrite Ed.
    destruct transitions_total as (_ & _ & _ & _ & _ & _ & Hsp & _).
    destruct (Hsp c s) as (c1 & i & -> & Hi).
    destruct (Nat.eqb i 0) eqn:E0; [exists c1, O; split; [reflexivity | lia]|].
    rewrite slice_0 by exact Hi.
    destruct (transition_total (c_state c) c (firstn i s)) as (c2 & n & -> & Hn).
    exists c2, n. split; [reflexivity|]. rewrite firstn_length in Hn. lia.
  - rewrite cat_delim_eq by congruence. apply cat_delim_total.
  - rewrite cat_delim_eq by congruence. apply cat_delim_total.
  - rewrite cat_delim_eq by congruence. apply cat_delim_total.
Qed.
(* ------------------------------------------------------------------ contextAfterText from a well-formed context *)

Lemma wf_text_not_special c : wf_ctx c -> c_state c = StText -> mem_bytes (c_elem c) T_specialElements = false.
Proof.
  unfold wf_ctx, wf_ctxb, is_special. intros H Hs. rewrite Hs in H.
  apply andb_true_iff in H as [H _]. destruct (mem_bytes (c_elem c) T_specialElements); [discriminate | reflexivity].
Qed.

Lemma wf_delim_attr c : wf_ctx c -> c_delim c <> DNone -> c_state c = StAttr.
Proof.
  unfold wf_ctx, wf_ctxb. intros H Hd. apply andb_true_iff in H as [_ H].
  destruct (c_delim c); [congruence | | |]; destruct (c_state c); try discriminate; reflexivity.
Qed.

Lemma phi_pos_lt st : st <> StText -> (1 <= phi st (Some 60%N))%nat.
Proof. destruct st; cbn; try lia. congruence. Qed.

Lemma wf_set_attr_value c v : wf_ctx c -> wf_ctx (set_attr_value c v).
Proof. unfold wf_ctx, wf_ctxb, set_attr_value. cbn. auto. Qed.

(* one step of the escapeText loop *)
Definition step_ok (c : context) (s : bytes) (r : tres) : Prop :=
  exists c1 n, r = TOk c1 n /\ (n <= length s)%nat /\ wf_ctx c1 /\
    (skipn n s = [] \/
     (phi (c_state c1) (hd_error (skipn n s)) + 1 <= 2 * n + phi (c_state c) (hd_error s))%nat) /\
    (c_state c1 = StHTMLCmt -> c_state c = StHTMLCmt \/
       (c_state c = StText /\ (4 <= n)%nat /\ firstn 4 (skipn (n - 4) s) = B "<!--")).

Definition cat_none (c : context) (s : bytes) (r : tres) : tres :=
  match r with
  | TPanic => TPanic
  | TOk c1 i =>
      if Nat.eqb i 0 then TOk c1 0
      else match slice s 0 i with
           | None => TPanic
           | Some pre => transition (c_state c) c pre
           end
  end.

Lemma cat_none_eq c (s : bytes) : c_delim c = DNone -> context_after_text c s = cat_none c s (t_special_tag_end c s).
Proof. intros H. unfold context_after_text. rewrite H. reflexivity. Qed.

Lemma firstn_skipn_firstn {A} (l : list A) a b k : (a + b <= k)%nat ->
  firstn b (skipn a (firstn k l)) = firstn b (skipn a l).
Proof.
  intros H. rewrite skipn_firstn_comm, firstn_firstn. f_equal. lia.
Qed.

Lemma cat_none_whole c (s : bytes) : wf_ctx c -> c_delim c = DNone -> s <> [] ->
  step_ok c s (cat_none c s (TOk c (length s))).
Proof.
  intros Hw Hd Hs. pose proof (length_pos_ne _ Hs) as Hl. unfold cat_none.
  destruct (Nat.eqb (length s) 0) eqn:E0; nat_eqb; [lia|].
  rewrite slice_0 by lia. rewrite firstn_all.
  destruct (transition_good c s [] tail_ok_nil Hs) as (c1 & n & -> & Hn & Hrest).
  destruct (Hrest eq_refl) as (Hm & Hwf & Hc). rewrite app_nil_r in Hm.
  exists c1, n. split; [reflexivity|]. split; [exact Hn|]. split; [apply Hwf; assumption|].
  split; [exact Hm | exact Hc].
Qed.

Lemma cat_none_end c (s : bytes) k : wf_ctx c -> c_delim c = DNone -> s <> [] ->
  mem_bytes (c_elem c) T_specialElements = true -> index_tag_end s (c_elem c) = Some k ->
  step_ok c s (cat_none c s (TOk ctx0 k)).
Proof.
  intros Hw Hd Hs Hsp Hk. apply index_tag_end_spec in Hk as [Hk Hp].
  apply prefixb_hd in Hp. unfold cat_none.
  destruct (Nat.eqb k 0) eqn:E0; nat_eqb.
  - subst k. simpl in Hp. exists ctx0, O. split; [reflexivity|]. split; [lia|]. split; [reflexivity|].
    split; [|discriminate]. right. simpl skipn. rewrite Hp. cbn [c_state ctx0].
    assert (Hst : c_state c <> StText).
    { intros E. rewrite (wf_text_not_special c Hw E) in Hsp. discriminate. }
    pose proof (phi_pos_lt _ Hst). cbn [phi]. lia.
  - rewrite slice_0 by lia.
    assert (Hne : firstn k s <> []).
    { intros E. apply firstn_nil_iff in E as [E|E]; [lia | congruence]. }
    assert (Hz : tail_ok (skipn k s)) by (right; exact Hp).
    destruct (transition_good c (firstn k s) (skipn k s) Hz Hne) as (c1 & n & -> & Hn & Hrest).
    destruct (Hrest eq_refl) as (Hm & Hwf & Hc).
    rewrite firstn_length in Hn. assert (Hnk : (n <= k)%nat) by lia.
    rewrite skipn_firstn_app in Hm by exact Hnk. rewrite hd_error_firstn in Hm by lia.
    exists c1, n. split; [reflexivity|]. split; [lia|]. split; [apply Hwf; assumption|].
    split; [exact Hm|]. intros E. destruct (Hc E) as [Hc1|(Hc1 & Hc2 & Hc3)]; [left; exact Hc1|].
    right. split; [exact Hc1|]. split; [exact Hc2|]. rewrite firstn_skipn_firstn in Hc3 by lia. exact Hc3.
Qed.

Lemma run_transitions_attr' f c (u : bytes) : (1 <= f)%nat -> c_state c = StAttr -> run_transitions f c u = Some c.
Proof. intros H. destruct f; [lia|]. apply run_transitions_attr. Qed.

Lemma delim_ends_not_lt ch : mem_N ch (delim_ends DSpaceOrTagEnd) = true -> (ch =? 60) = false.
Proof. change (delim_ends DSpaceOrTagEnd) with [32; 9; 10; 12; 13; 62]. unfold mem_N. cbn [existsb]. intros H. lia. Qed.

Lemma cat_delim_step c (s : bytes) : wf_ctx c -> c_delim c <> DNone -> s <> [] ->
  step_ok c s (cat_delim (c_delim c) c s).
Proof.
  intros Hw Hd Hs. pose proof (wf_delim_attr c Hw Hd) as Hst. pose proof (length_pos_ne _ Hs) as Hl.
  unfold cat_delim, step_ok. cbv zeta. rewrite Hst.
  set (d := c_delim c) in *.
  set (i := match index_any (delim_ends d) s with Some i => i | None => length s end).
  assert (Hi : (i <= length s)%nat).
  { unfold i. destruct (index_any (delim_ends d) s) as [k|] eqn:Ek; [apply index_any_spec in Ek as [Hk _]; lia | lia]. }
  match goal with |- context [if ?b then TOk (ctx_error ErrBadHTML) _ else _] => destruct b end.
  { exists (ctx_error ErrBadHTML), (length s). split; [reflexivity|]. split; [lia|]. split; [reflexivity|].
    split; [left; apply skipn_all | discriminate]. }
  destruct (Nat.eqb i (length s)) eqn:E1; nat_eqb.
  - rewrite run_transitions_attr' by (try lia; exact Hst).
    eexists _, (length s). split; [reflexivity|]. split; [lia|].
    split; [apply wf_set_attr_value; exact Hw|]. split; [left; apply skipn_all|].
    cbn [set_attr_value c_state]. rewrite Hst. discriminate.
  - set (n := match d with DSpaceOrTagEnd => i | _ => S i end).
    eexists _, n. split; [reflexivity|]. split; [unfold n; destruct d; lia|]. split; [reflexivity|].
    split; [|discriminate]. right. cbn [c_state phi].
    destruct (Nat.eq_dec n 0) as [En|En].
    + assert (Hd' : d = DSpaceOrTagEnd /\ i = O) by (unfold n in En; destruct d; try lia; auto).
      destruct Hd' as [Hd' Hi0]. rewrite En. simpl skipn.
      unfold i in Hi0. rewrite Hd' in Hi0.
      destruct (index_any (delim_ends DSpaceOrTagEnd) s) as [k|] eqn:Ek; [|lia]. subst k.
      apply index_any_spec in Ek as (_ & ch & Hn & Hm). rewrite hd_error_0, Hn. cbn [is_lt].
      rewrite (delim_ends_not_lt _ Hm). lia.
    + destruct (is_lt _); lia.
Qed.

Theorem cat_step c (s : bytes) : wf_ctx c -> s <> [] -> step_ok c s (context_after_text c s).
Proof.
  intros Hw Hs. destruct (c_delim c) eqn:Ed.
  - rewrite cat_none_eq by exact Ed. unfold t_special_tag_end.
    destruct (special_applies c) eqn:Esp; [|apply cat_none_whole; assumption].
    destruct (index_tag_end s (c_elem c)) as [k|] eqn:Ek; [|apply cat_none_whole; assumption].
    unfold special_applies in Esp. apply andb_true_iff in Esp as [Esp _].
    apply cat_none_end; assumption.
  - rewrite cat_delim_eq by congruence. apply cat_delim_step; [exact Hw | congruence | exact Hs].
  - rewrite cat_delim_eq by congruence. apply cat_delim_step; [exact Hw | congruence | exact Hs].
  - rewrite cat_delim_eq by congruence. apply cat_delim_step; [exact Hw | congruence | exact Hs].
Qed.

Lemma phi_drop_state st1 st b : (phi st1 b + 1 <= phi st b)%nat -> st1 <> st.
Proof. intros H E. subst. lia. Qed.

(* the "infinite loop" guard of escapeText is dead: a step consumes input or changes the state *)
Theorem cat_progress c (s : bytes) c1 n : wf_ctx c -> s <> [] -> context_after_text c s = TOk c1 n ->
  (0 < n)%nat \/ c_state c1 <> c_state c.
Proof.
  intros Hw Hs E. destruct (cat_step c s Hw Hs) as (c1' & n' & E' & _ & _ & Hm & _).
  rewrite E in E'. inversion E'; subst c1' n'.
  destruct n as [|n]; [|left; lia]. right. simpl skipn in Hm. destruct Hm as [Hm|Hm]; [congruence|].
  eapply phi_drop_state. rewrite Nat.mul_0_r, Nat.add_0_l in Hm. exact Hm.
Qed.

Theorem cat_preserves_wf c (s : bytes) c1 n : wf_ctx c -> context_after_text c s = TOk c1 n -> wf_ctx c1.
Proof.
  intros Hw E. destruct s as [|b s'] eqn:Es.
  - (* the empty text: every transition returns c or a fixed context *)
    destruct (c_delim c) eqn:Ed.
    + rewrite cat_none_eq in E by exact Ed. unfold t_special_tag_end, cat_none in E.
      destruct (special_applies c); cbn in E; inversion E; subst; exact Hw.
    + rewrite cat_delim_eq in E by congruence. rewrite Ed in E. cbn in E. inversion E; subst.
      apply wf_set_attr_value. exact Hw.
    + rewrite cat_delim_eq in E by congruence. rewrite Ed in E. cbn in E. inversion E; subst.
      apply wf_set_attr_value. exact Hw.
    + rewrite cat_delim_eq in E by congruence. rewrite Ed in E. cbn in E. inversion E; subst.
      apply wf_set_attr_value. exact Hw.
  - rewrite <- Es in *. assert (Hs : s <> []) by (rewrite Es; discriminate).
    destruct (cat_step c s Hw Hs) as (c1' & n' & E' & _ & Hwf & _). rewrite E in E'. inversion E'; subst. exact Hwf.
Qed.
(* ------------------------------------------------------------------ escapeText *)

Lemma state_eqb_eq a b : state_eqb a b = true -> a = b.
Proof. destruct a, b; cbn; intros H; try reflexivity; discriminate. Qed.

Lemma state_eqb_refl a : state_eqb a a = true.
Proof. destruct a; reflexivity. Qed.

Lemma escape_lts_bound (s : bytes) : forall n (l : bytes) j b w b' w',
  escape_lts s l n j b w = (b', w') -> (w <= j)%nat -> (w' <= j + n)%nat.
Proof.
  induction n as [|n IH]; intros l j b w b' w' H Hw.
  - destruct l; simpl in H; inversion H; subst; lia.
  - destruct l as [|ch t]; [simpl in H; inversion H; subst; lia|].
    cbn [escape_lts] in H.
    destruct ((ch =? 60) && negb (prefix_fold (B "<!DOCTYPE") (ch :: t))).
    + apply IH in H; lia.
    + apply IH in H; lia.
Qed.

Lemma last_lt_app (a b : bytes) : forall base acc,
  last_lt (a ++ b) base acc = last_lt b (base + length a) (last_lt a base acc).
Proof.
  induction a as [|x a IH]; intros base acc; simpl.
  - rewrite Nat.add_0_r. reflexivity.
  - rewrite IH. f_equal. lia.
Qed.

Lemma last_lt_bound (l : bytes) : forall base acc j, last_lt l base acc = Some j ->
  acc = Some j \/ ((base <= j)%nat /\ (j < base + length l)%nat).
Proof.
  induction l as [|c t IH]; intros base acc j H; simpl in H; [left; exact H|].
  apply IH in H as [H|H].
  - destruct (c =? 60); [inversion H; subst; right; simpl; lia | left; exact H].
  - right. simpl. lia.
Qed.

Lemma last_lt_cmt base acc : last_lt (B "<!--") base acc = Some base.
Proof. reflexivity. Qed.

(* the position up to which the text has been copied after the "&lt;" pass of one iteration *)
Definition bw_of (s : bytes) (c c1 : context) (i nread : nat) (b : bytes) (written : nat) : bytes * nat :=
  let i1 := (i + nread)%nat in
  if state_eqb (c_state c) StText || is_rcdata_elem (c_elem c) then
    let end_ :=
        if negb (state_eqb (c_state c1) (c_state c)) then
          match last_lt (firstn (i1 - i) (skipn i s)) i None with
          | Some j => j
          | None => i1
          end
        else i1 in
    escape_lts s (skipn i s) (end_ - i) i b written
  else if is_comment_state (c_state c) && delim_eqb (c_delim c) DNone then (b, i1)
  else (b, written).

(* the body of escapeText's loop, unfolded once *)
Lemma etl_unfold fuel csp (s : bytes) c i b written :
  escape_text_loop fuel csp s c i b written =
  if Nat.eqb i (length s) then
    if negb (Nat.eqb written 0) && negb (state_eqb (c_state c) StError) then
      let b' := if negb (is_comment_state (c_state c)) || negb (delim_eqb (c_delim c) DNone)
                then b ++ skipn written s else b in
      EOk c true b'
    else EOk c false []
  else
    match fuel with
    | O => EPanic
    | S f =>
        if csp && prefixb (B "on") (c_attr c) then EOk (ctx_error ErrCSPCompatibility) false []
        else
          match context_after_text c (skipn i s) with
          | TPanic => EPanic
          | TOk c1 nread =>
              let i1 := (i + nread)%nat in
              let '(b, written) := bw_of s c c1 i nread b written in
              let js_bad :=
                  if state_eqb (c_state c) StSpecialElementBody && bytes_eqb (c_elem c) (B "script")
                  then match is_js_template_balanced s with Some true => false | _ => true end
                  else false in
              if js_bad then EOk (ctx_error ErrUnbalancedJsTemplate) false []
              else
                let elide :=
                    if negb (state_eqb (c_state c) (c_state c1)) && is_comment_state (c_state c1)
                       && delim_eqb (c_delim c1) DNone then
                      if Nat.ltb i1 4 then None
                      else match slice s written (i1 - 4) with
                           | Some piece => Some (b ++ piece, i1)
                           | None => None
                           end
                    else Some (b, written) in
                match elide with
                | None => EPanic
                | Some (b, written) =>
                    if Nat.eqb i i1 && state_eqb (c_state c) (c_state c1) then EPanic
                    else escape_text_loop f csp s c1 i1 b written
                end
          end
    end.
Proof. destruct fuel; reflexivity. Qed.

Lemma bw_of_bound (s : bytes) c c1 i nread b w b' w' : (w <= i)%nat ->
  bw_of s c c1 i nread b w = (b', w') -> (w' <= i + nread)%nat.
Proof.
  intros Hw. unfold bw_of. cbv zeta.
  destruct (state_eqb (c_state c) StText || is_rcdata_elem (c_elem c)).
  - intros H. apply escape_lts_bound in H; [|exact Hw].
    destruct (negb (state_eqb (c_state c1) (c_state c))); [|lia].
    destruct (last_lt (firstn (i + nread - i) (skipn i s)) i None) as [j|] eqn:El; [|lia].
    apply last_lt_bound in El as [El|[H1 H2]]; [discriminate|].
    rewrite firstn_length in H2. lia.
  - destruct (is_comment_state (c_state c) && delim_eqb (c_delim c) DNone); intros H; inversion H; subst; lia.
Qed.

(* at the opening of an HTML comment the copy position stays before the opener *)
Lemma bw_of_cmt (s : bytes) c c1 i nread b w b' w' : (w <= i)%nat -> (i + nread <= length s)%nat ->
  c_state c = StText -> c_state c1 = StHTMLCmt -> (4 <= nread)%nat ->
  firstn 4 (skipn (nread - 4) (skipn i s)) = B "<!--" ->
  bw_of s c c1 i nread b w = (b', w') -> (w' <= i + nread - 4)%nat.
Proof.
  intros Hw Hlen Hc Hc1 H4 Hcm. unfold bw_of. cbv zeta. rewrite Hc, Hc1. cbn [state_eqb state_num N.eqb orb negb].
  replace (i + nread - i)%nat with nread by lia.
  assert (Hchunk : firstn nread (skipn i s) = firstn (nread - 4) (firstn nread (skipn i s)) ++ B "<!--").
  { rewrite <- (firstn_skipn (nread - 4) (firstn nread (skipn i s))) at 1. f_equal.
    rewrite skipn_firstn_comm. replace (nread - (nread - 4))%nat with 4%nat by lia. exact Hcm. }
  rewrite Hchunk, last_lt_app, last_lt_cmt.
  rewrite firstn_length, firstn_length, skipn_length.
  intros H. apply escape_lts_bound in H; [|exact Hw]. lia.
Qed.

Lemma etl_total : forall fuel csp (s : bytes) c i b written,
  wf_ctx c -> (written <= i)%nat -> (i <= length s)%nat ->
  (i = length s \/ (2 * (length s - i) + phi (c_state c) (hd_error (skipn i s)) <= fuel)%nat) ->
  exists c' ed out, escape_text_loop fuel csp s c i b written = EOk c' ed out /\ wf_ctx c'.
Proof.
  induction fuel as [|f IH]; intros csp s c i b written Hw Hwr Hi Hf; rewrite etl_unfold.
  - destruct (Nat.eqb i (length s)) eqn:E; nat_eqb.
    + destruct (negb (Nat.eqb written 0) && negb (state_eqb (c_state c) StError)); eauto.
    + destruct Hf as [Hf|Hf]; lia.
  - destruct (Nat.eqb i (length s)) eqn:E; nat_eqb.
    { destruct (negb (Nat.eqb written 0) && negb (state_eqb (c_state c) StError)); eauto. }
    destruct Hf as [Hf|Hf]; [lia|].
    destruct (csp && prefixb (B "on") (c_attr c)); [eexists _, _, _; split; [reflexivity | apply wf_ctx_error]|].
    assert (Hne : skipn i s <> []) by (intros E0; apply skipn_nil_iff in E0; lia).
    destruct (cat_step c (skipn i s) Hw Hne) as (c1 & nread & -> & Hn & Hw1 & Hm & Hcm).
    rewrite skipn_length in Hn. rewrite skipn_skipn' in Hm.
    cbv zeta.
    destruct (bw_of s c c1 i nread b written) as [b1 w1] eqn:Ebw.
    pose proof (bw_of_bound _ _ _ _ _ _ _ _ _ Hwr Ebw) as Hw1le.
    match goal with |- context [if ?jb then EOk (ctx_error ErrUnbalancedJsTemplate) false [] else _] => destruct jb end;
      [eexists _, _, _; split; [reflexivity | apply wf_ctx_error]|].
    (* the comment elision *)
    assert (Hel : exists b2 w2,
      (if negb (state_eqb (c_state c) (c_state c1)) && is_comment_state (c_state c1) && delim_eqb (c_delim c1) DNone
       then if Nat.ltb (i + nread) 4 then None
            else match slice s w1 (i + nread - 4) with Some piece => Some (b1 ++ piece, (i + nread)%nat) | None => None end
       else Some (b1, w1)) = Some (b2, w2) /\ (w2 <= i + nread)%nat).
    { destruct (negb (state_eqb (c_state c) (c_state c1)) && is_comment_state (c_state c1) && delim_eqb (c_delim c1) DNone) eqn:Ec;
        [|exists b1, w1; split; [reflexivity | exact Hw1le]].
      apply andb_true_iff in Ec as [Ec _]. apply andb_true_iff in Ec as [Ec1 Ec2].
      assert (Hs1 : c_state c1 = StHTMLCmt) by (destruct (c_state c1); try discriminate; reflexivity).
      destruct (Hcm Hs1) as [Hc|(Hc & H4 & Hop)].
      { rewrite Hc, Hs1 in Ec1. discriminate. }
      assert (Hlen : (i + nread <= length s)%nat) by lia.
      pose proof (bw_of_cmt s c c1 i nread b written b1 w1 Hwr Hlen Hc Hs1 H4 Hop Ebw) as Hw1c.
      destruct (Nat.ltb (i + nread) 4) eqn:El; nat_eqb; [lia|].
      destruct (slice_some s w1 (i + nread - 4)) as [piece Ep]; [lia | lia |]. rewrite Ep.
      eexists _, _. split; [reflexivity | lia]. }
    destruct Hel as (b2 & w2 & -> & Hw2).
    (* the "infinite loop" guard *)
    destruct (Nat.eqb i (i + nread) && state_eqb (c_state c) (c_state c1)) eqn:Eg.
    { exfalso. apply andb_true_iff in Eg as [Eg1 Eg2]. nat_eqb. apply state_eqb_eq in Eg2.
      assert (nread = O) by lia. subst nread. rewrite Nat.add_0_r in Hm.
      destruct Hm as [Hm|Hm]; [congruence|]. rewrite Eg2 in Hm. lia. }
    apply IH; [exact Hw1 | exact Hw2 | lia |].
    destruct Hm as [Hm|Hm].
    + left. apply skipn_nil_iff in Hm. lia.
    + right. lia.
Qed.

Theorem escape_text_total csp c (s : bytes) : wf_ctx c ->
  exists c' ed out, escape_text csp c s = EOk c' ed out /\ wf_ctx c'.
Proof.
  intros Hw. unfold escape_text.
  destruct (csp && match index_of (B "javascript:") s with Some _ => true | None => false end);
    [eexists _, _, _; split; [reflexivity | apply wf_ctx_error]|].
  apply etl_total; [exact Hw | lia | lia |].
  right. pose proof (phi_le_2 (c_state c) (hd_error (skipn 0 s))). lia.
Qed.
(* ------------------------------------------------------------------ isJsTemplateBalanced *)

Definition js_good (s : bytes) (r : jsres) : Prop :=
  match r with JsFuel => False | JsOk s' => (length s' < length s)%nat | JsErr => True end.

Lemma index_of_lt sep (s : bytes) i : sep <> [] -> index_of sep s = Some i -> (i < length s)%nat.
Proof.
  intros Hs H. apply index_of_spec in H as [H _]. destruct sep; [congruence|]. simpl in H. lia.
Qed.

Lemma js_consume_ok f : forall s : bytes,
  ((2 * length s + 2 <= f)%nat -> js_good s (consume_js_template f s)) /\
  ((2 * length s + 1 <= f)%nat -> js_good s (consume_js_expr f s)).
Proof.
  induction f as [|f IH]; intros s; split; intros Hf; [lia | lia | |].
  - cbn [consume_js_template].
    destruct (index_of [96] s) as [tend|] eqn:Et; [|exact I].
    apply index_of_lt in Et; [|discriminate].
    assert (Hskip : js_good s (JsOk (skipn (tend + 1) s))) by (simpl; rewrite skipn_length; lia).
    destruct (index_of (B "${") s) as [estart|]; [|exact Hskip].
    destruct (Nat.ltb estart tend); [|exact Hskip].
    destruct (IH s) as [_ He]. specialize (He ltac:(lia)).
    destruct (consume_js_expr f s) as [s'| |]; [|exact I|contradiction].
    simpl in He. destruct (IH s') as [Ht _]. specialize (Ht ltac:(lia)).
    destruct (consume_js_template f s') as [s''| |]; [simpl in *; lia | exact I | contradiction].
  - cbn [consume_js_expr].
    destruct (index_of (B "}") s) as [eend|] eqn:Ee; [|exact I].
    apply index_of_lt in Ee; [|discriminate].
    assert (Hskip : js_good s (JsOk (skipn (eend + 1) s))) by (simpl; rewrite skipn_length; lia).
    destruct (index_of [96] s) as [nested|] eqn:En; [|exact Hskip].
    apply index_of_lt in En; [|discriminate].
    destruct (Nat.ltb nested eend); [|exact Hskip].
    assert (Hl : (length (skipn (nested + 1) s) < length s)%nat) by (rewrite skipn_length; lia).
    destruct (IH (skipn (nested + 1) s)) as [Ht _]. specialize (Ht ltac:(lia)).
    destruct (consume_js_template f (skipn (nested + 1) s)) as [s'| |]; [|exact I|contradiction].
    simpl in Ht. destruct (IH s') as [_ He]. specialize (He ltac:(lia)).
    destruct (consume_js_expr f s') as [s''| |]; [simpl in *; lia | exact I | contradiction].
Qed.

Lemma js_balanced_loop_some f : forall s : bytes, (length s < f)%nat -> js_balanced_loop f s <> None.
Proof.
  induction f as [|f IH]; intros s Hf; [lia|]. cbn [js_balanced_loop].
  destruct (index_of [96] s) as [i|] eqn:Ei; [|discriminate].
  apply index_of_lt in Ei; [|discriminate].
  assert (Hl : (length (skipn (i + 1) s) < length s)%nat) by (rewrite skipn_length; lia).
  destruct (js_consume_ok (2 * length s + 2) (skipn (i + 1) s)) as [Ht _]. specialize (Ht ltac:(lia)).
  destruct (consume_js_template (2 * length s + 2) (skipn (i + 1) s)) as [s'| |]; [|discriminate|contradiction].
  simpl in Ht. apply IH. lia.
Qed.

Theorem js_balanced_total (s : bytes) : is_js_template_balanced s <> None.
Proof. unfold is_js_template_balanced. apply js_balanced_loop_some. lia. Qed.
(* ------------------------------------------------------------------ the analysis (escaper) *)

Lemma wf_same_core a b : c_state a = c_state b -> c_delim a = c_delim b -> c_elem a = c_elem b ->
  wf_ctx a -> wf_ctx b.
Proof. unfold wf_ctx, wf_ctxb. intros -> -> ->. auto. Qed.

Lemma delim_eqb_eq a b : delim_eqb a b = true -> a = b.
Proof. destruct a, b; cbn; intros H; try reflexivity; discriminate. Qed.

Lemma ctx_eq_core a b : ctx_eq a b = true ->
  c_state a = c_state b /\ c_delim a = c_delim b /\ c_elem a = c_elem b.
Proof.
  unfold ctx_eq. intros H. repeat (apply andb_true_iff in H as [H ?]).
  apply state_eqb_eq in H. split; [exact H|]. split; [apply delim_eqb_eq; assumption | apply bytes_eqb_eq; assumption].
Qed.

Lemma wf_nudge c : wf_ctx c -> wf_ctx (nudge c).
Proof.
  intros Hw. unfold nudge. destruct (c_state c) eqn:Es; try exact Hw.
  - apply wf_set_state; [exact Hw | | discriminate].
    destruct (c_delim c) eqn:Ed; [reflexivity | | |]; (assert (Hx : c_state c = StAttr) by (apply wf_delim_attr; [exact Hw | congruence]); congruence).
  - apply wf_set_state; [exact Hw | | discriminate].
    destruct (c_delim c) eqn:Ed; [reflexivity | | |]; (assert (Hx : c_state c = StAttr) by (apply wf_delim_attr; [exact Hw | congruence]); congruence).
  - apply wf_set_state_delim.
Qed.

Lemma wf_join_flat a b r : wf_ctx a -> wf_ctx b -> join_flat a b = Some r -> wf_ctx r.
Proof.
  intros Ha Hb. unfold join_flat. cbv zeta.
  destruct (ctx_eq (join_merge a b) b) eqn:E1.
  { intros H; inversion H; subst. eapply wf_same_core; [| | |exact Ha]; reflexivity. }
  destruct (ctx_eq (set_elem (join_merge a b) (c_elem b)) b) eqn:E2.
  { intros H; inversion H; subst. apply ctx_eq_core in E2 as (H1 & H2 & H3).
    eapply wf_same_core; [| | |exact Hb]; symmetry; assumption. }
  destruct (ctx_eq (set_attr (join_merge a b) (c_attr b)) b) eqn:E3; [|discriminate].
  intros H; inversion H; subst. eapply wf_same_core; [| | |exact Ha]; reflexivity.
Qed.

Lemma wf_join_fuel f : forall a b, wf_ctx a -> wf_ctx b -> wf_ctx (join_fuel f a b).
Proof.
  induction f as [|f IH]; intros a b Ha Hb.
  - cbn [join_fuel]; cbv zeta. destruct (c_state a); try exact Ha;
      (destruct (c_state b); try exact Hb;
       (destruct (join_flat a b) as [r|] eqn:Ej; [exact (wf_join_flat a b r Ha Hb Ej)|];
        destruct (negb _); apply wf_ctx_error)).
  - cbn [join_fuel]; cbv zeta. destruct (c_state a); try exact Ha;
      (destruct (c_state b); try exact Hb;
       (destruct (join_flat a b) as [r|] eqn:Ej; [exact (wf_join_flat a b r Ha Hb Ej)|];
        destruct (negb _); [|apply wf_ctx_error];
        match goal with |- context [join_fuel f ?x ?y] =>
          assert (Hr : wf_ctx (join_fuel f x y))
            by (apply IH; [apply wf_nudge; eapply wf_same_core; [| | |exact Ha]; reflexivity | apply wf_nudge; exact Hb]);
          destruct (c_state (join_fuel f x y)); try exact Hr; apply wf_ctx_error
        end)).
Qed.

Lemma wf_join a b : wf_ctx a -> wf_ctx b -> wf_ctx (join a b).
Proof. apply wf_join_fuel. Qed.

(* unfolding equations of the mutually recursive analysis functions *)
Lemma escape_node_S ns f tname c n e : escape_node ns (S f) tname c n e =
        match n with
        | NAction id p => escape_action tname c id p e
        | NIf _ _ body els => escape_branch ns f tname c body els false e
        | NWith _ _ body els => escape_branch ns f tname c body els false e
        | NRange _ _ body els => escape_branch ns f tname c body els true e
        | NTemplate id name _ =>
            match escape_tree ns f c name e with
            | APanic x => APanic x
            | AOk (c1, dname, e1) =>
                if bytes_eqb dname name then AOk (c1, e1)
                else match edit_template (tname, id) dname e1 with
                     | AOk e2 => AOk (c1, e2)
                     | APanic x => APanic x
                     end
            end
        | NText id text =>
            match escape_text (ns_csp ns) c text with
            | EPanic => APanic PTextLoop
            | EOk c1 edited out =>
                if edited then
                  match edit_text (tname, id) out e with
                  | AOk e1 => AOk (c1, e1)
                  | APanic x => APanic x
                  end
                else AOk (c1, e)
            end
        | NBreak _ | NContinue _ | NComment _ => APanic PBreakContinue
        end.
Proof. reflexivity. Qed.

Lemma escape_list_S ns f tname c l e : escape_list ns (S f) tname c l e =
        match l with
        | [] => AOk (c, e)
        | n :: rest =>
            match escape_node ns f tname c n e with
            | APanic x => APanic x
            | AOk (c1, e1) => escape_list ns f tname c1 rest e1
            end
        end.
Proof. reflexivity. Qed.

Lemma escape_list_cond_S ns f tname c l filter e : escape_list_cond ns (S f) tname c l filter e =
        let e1 := mkesc (e_output e) [] [] [] [] [] in
        match escape_list ns f tname c l e1 with
        | APanic x => APanic x
        | AOk (c1, e1') =>
            match filter with
            | Some flt =>
                if flt e1' c1 then
                  match merge_into e e1' with
                  | AOk e2 => AOk (c1, true, e2)
                  | APanic x => APanic x
                  end
                else AOk (c1, false, e)
            | None => AOk (c1, false, e)
            end
        end.
Proof. reflexivity. Qed.

Lemma escape_branch_S ns f tname c body els is_range e : escape_branch ns (S f) tname c body els is_range e =
        match escape_list ns f tname c body e with
        | APanic x => APanic x
        | AOk (c0, e0) =>
            let after_range :=
                if is_range && negb (state_eqb (c_state c0) StError) then
                  match escape_list_cond ns f tname c0 body None e0 with
                  | APanic x => APanic x
                  | AOk (c1, _, e0') => AOk (join c0 c1, e0')
                  end
                else AOk (c0, e0) in
            match after_range with
            | APanic x => APanic x
            | AOk (c0', e0') =>
                if is_range && negb (state_eqb (c_state c0) StError) && state_eqb (c_state c0') StError
                then AOk (c0', e0')
                else
                  match escape_list ns f tname c els e0' with
                  | APanic x => APanic x
                  | AOk (c1, e1) => AOk (join c0' c1, e1)
                  end
            end
        end.
Proof. reflexivity. Qed.

Lemma escape_tree_S ns f c name e : escape_tree ns (S f) c name e =
        let dname := mangle c name in
        let e := set_called dname e in
        match output_lookup dname (e_output e) with
        | Some out => AOk (out, dname, e)
        | None =>
            match find_template ns e name with
            | None => AOk (ctx_error ErrNoSuchTemplate, dname, e)
            | Some t =>
                let pick : ares (option tree * escaper) :=
                    if bytes_eqb dname name then AOk (t, e)
                    else match find_template ns e dname with
                         | Some dt => AOk (dt, e)
                         | None =>
                             match t with
                             | None => APanic PNilTree
                             | Some tr => AOk (Some tr, set_derived dname (Some tr) e)
                             end
                         end in
                match pick with
                | APanic x => APanic x
                | AOk (tr, e) =>
                    match tr with
                    | None => APanic PNilTree
                    | Some root =>
                        match compute_out_ctx ns f c dname root e with
                        | APanic x => APanic x
                        | AOk (c1, e1) => AOk (c1, dname, e1)
                        end
                    end
                end
            end
        end.
Proof. reflexivity. Qed.

Lemma compute_out_ctx_S ns f c tname root e : compute_out_ctx ns (S f) c tname root e =
        match escape_template_body ns f c tname root e with
        | APanic x => APanic x
        | AOk (c1, ok, e1) =>
            let second :=
                if ok then AOk (c1, ok, e1)
                else match escape_template_body ns f c1 tname root e1 with
                     | APanic x => APanic x
                     | AOk (c2, ok2, e2) => if ok2 then AOk (c2, true, e2) else AOk (c1, false, e2)
                     end in
            match second with
            | APanic x => APanic x
            | AOk (c1, ok, e1) =>
                if negb ok && negb (state_eqb (c_state c1) StError)
                then AOk (ctx_error ErrOutputContext, e1)
                else AOk (c1, e1)
            end
        end.
Proof. reflexivity. Qed.

Lemma escape_template_body_S ns f c tname root e : escape_template_body ns (S f) c tname root e =
        let flt := fun (e1 : escaper) (c1 : context) =>
                     if state_eqb (c_state c1) StError then false
                     else if negb (mem_bytes tname (e_called e1)) then true
                     else ctx_eq c c1 in
        escape_list_cond ns f tname c root (Some flt) (set_output tname c e).
Proof. reflexivity. Qed.

Section AnalysisInv.
  Context (ns : nsview) (bc nl : bool).

  Definition tree_ok (t : tree) : bool := bc || negb (tree_has_bc t).
  Definition node_ok (n : node) : bool := bc || negb (node_has_bc n).
  Definition opt_ok (t : option tree) : bool := match t with Some t => tree_ok t | None => nl end.
  Definition env_okb (env : tenv) : bool := forallb (fun kv => opt_ok (snd kv)) env.

  Context (Hns : env_okb (ns_text ns) = true).

  Definition esc_inv (e : escaper) : Prop := wf_output (e_output e) /\ env_okb (e_derived e) = true.

  Definition R2 (r : ares (context * escaper)) : Prop :=
    match r with AOk (c1, e1) => wf_ctx c1 /\ esc_inv e1 | APanic p => panic_allowed bc nl p = true end.
  Definition R3b (r : ares (context * bool * escaper)) : Prop :=
    match r with AOk (c1, _, e1) => wf_ctx c1 /\ esc_inv e1 | APanic p => panic_allowed bc nl p = true end.
  Definition R3n (r : ares (context * bytes * escaper)) : Prop :=
    match r with AOk (c1, _, e1) => wf_ctx c1 /\ esc_inv e1 | APanic p => panic_allowed bc nl p = true end.

  Lemma tree_ok_cons n l : tree_ok (n :: l) = true -> node_ok n = true /\ tree_ok l = true.
  Proof.
    unfold tree_ok, node_ok, tree_has_bc. cbn [existsb]. destruct bc; [auto|]. cbn [orb].
    rewrite negb_orb. intros H. apply andb_true_iff in H. exact H.
  Qed.

  Lemma node_ok_branch n id p b e : (n = NIf id p b e \/ n = NRange id p b e \/ n = NWith id p b e) ->
    node_ok n = true -> tree_ok b = true /\ tree_ok e = true.
  Proof.
    unfold node_ok, tree_ok, tree_has_bc. intros [-> | [-> | ->]]; cbn [node_has_bc]; (destruct bc; [auto|]); cbn [orb];
      rewrite negb_orb; intros H; apply andb_true_iff in H; exact H.
  Qed.

  Lemma env_lookup_ok name env t : env_okb env = true -> env_lookup name env = Some t -> opt_ok t = true.
  Proof.
    unfold env_okb. induction env as [|[n t'] env IH]; cbn [env_lookup forallb]; [discriminate|].
    intros H. apply andb_true_iff in H as [H1 H2]. destruct (bytes_eqb name n).
    - intros E; inversion E; subst. exact H1.
    - apply IH. exact H2.
  Qed.

  Lemma env_set_ok name t env : env_okb env = true -> opt_ok t = true -> env_okb (env_set name t env) = true.
  Proof.
    unfold env_okb. induction env as [|[n t'] env IH]; cbn [env_set forallb]; intros H Ht.
    - cbn. rewrite Ht. reflexivity.
    - apply andb_true_iff in H as [H1 H2]. cbn [snd] in H1. destruct (bytes_eqb name n); cbn [forallb snd].
      + rewrite Ht, H2. reflexivity.
      + rewrite H1. cbn [andb]. apply IH; assumption.
  Qed.

  Lemma output_lookup_wf name l c : wf_output l -> output_lookup name l = Some c -> wf_ctx c.
  Proof.
    unfold wf_output. induction l as [|[n c'] l IH]; cbn [output_lookup]; [discriminate|].
    intros H. inversion H; subst. destruct (bytes_eqb name n).
    - intros E; inversion E; subst. assumption.
    - apply IH. assumption.
  Qed.

  Lemma output_set_wf name c l : wf_output l -> wf_ctx c -> wf_output (output_set name c l).
  Proof.
    unfold wf_output. induction l as [|[n c'] l IH]; cbn [output_set]; intros H Hc.
    - constructor; [exact Hc | constructor].
    - inversion H; subst. destruct (bytes_eqb name n); constructor; auto.
  Qed.

  Lemma find_template_ok e name t : esc_inv e -> find_template ns e name = Some t -> opt_ok t = true.
  Proof.
    intros [_ Hd]. unfold find_template. destruct (env_lookup name (ns_text ns)) as [t'|] eqn:E.
    - intros H; inversion H; subst. exact (env_lookup_ok name (ns_text ns) t Hns E).
    - intros H. exact (env_lookup_ok name (e_derived e) t Hd H).
  Qed.

  Lemma inv_set_called n e : esc_inv e -> esc_inv (set_called n e).
  Proof. intros [H1 H2]. split; assumption. Qed.
  Lemma inv_set_output n c e : esc_inv e -> wf_ctx c -> esc_inv (set_output n c e).
  Proof. intros [H1 H2] Hc. split; [apply output_set_wf; assumption | exact H2]. Qed.
  Lemma inv_set_derived n t e : esc_inv e -> opt_ok t = true -> esc_inv (set_derived n t e).
  Proof. intros [H1 H2] Ht. split; [exact H1 | apply env_set_ok; assumption]. Qed.

  (* an edit either panics with PSharedNode or leaves outputs and derived templates alone *)
  Definition same_tables (e e' : escaper) : Prop := e_output e' = e_output e /\ e_derived e' = e_derived e.

  Definition edit_res (e : escaper) (r : ares escaper) : Prop :=
    match r with AOk e' => same_tables e e' | APanic p => p = PSharedNode end.

  Lemma edit_action_res k s e : edit_res e (edit_action k s e).
  Proof. unfold edit_action. destruct (has_key k (e_action_edits e)); cbn; [reflexivity | split; reflexivity]. Qed.
  Lemma edit_template_res k s e : edit_res e (edit_template k s e).
  Proof. unfold edit_template. destruct (has_key k (e_template_edits e)); cbn; [reflexivity | split; reflexivity]. Qed.
  Lemma edit_text_res k s e : edit_res e (edit_text k s e).
  Proof. unfold edit_text. destruct (has_key k (e_text_edits e)); cbn; [reflexivity | split; reflexivity]. Qed.

  Lemma inv_same_tables e e' : esc_inv e -> same_tables e e' -> esc_inv e'.
  Proof. intros [H1 H2] [E1 E2]. unfold esc_inv. rewrite E1, E2. split; assumption. Qed.

  Lemma shared_allowed : panic_allowed bc nl PSharedNode = true. Proof. reflexivity. Qed.
  Lemma fuel_allowed : panic_allowed bc nl PFuel = true. Proof. reflexivity. Qed.

  Lemma fold_edit_res {K} (step : escaper -> K -> ares escaper) (Hstep : forall a k, edit_res a (step a k)) e0 :
    forall (l : list K) (acc : ares escaper), edit_res e0 acc ->
    edit_res e0 (fold_left (fun (acc : ares escaper) kv => match acc with AOk a => step a kv | p => p end) l acc).
  Proof.
    induction l as [|k l IH]; intros acc Hacc; cbn [fold_left]; [exact Hacc|].
    apply IH. destruct acc as [a|p]; [|exact Hacc].
    specialize (Hstep a k). destruct (step a k) as [a'|p']; [|exact Hstep].
    cbn in *. destruct Hacc as [E1 E2]. destruct Hstep as [F1 F2]. split; congruence.
  Qed.

  Lemma fold_output_wf (l : list (bytes * context)) : forall acc, wf_output acc -> wf_output l ->
    wf_output (fold_left (fun acc kv => output_set (fst kv) (snd kv) acc) l acc).
  Proof.
    induction l as [|[n c] l IH]; intros acc Ha Hl; cbn [fold_left]; [exact Ha|].
    inversion Hl; subst. apply IH; [apply output_set_wf; assumption | assumption].
  Qed.

  Lemma fold_derived_ok (l : tenv) : forall acc, env_okb acc = true -> env_okb l = true ->
    env_okb (fold_left (fun acc kv => env_set (fst kv) (snd kv) acc) l acc) = true.
  Proof.
    induction l as [|[n t] l IH]; intros acc Ha Hl; cbn [fold_left]; [exact Ha|].
    unfold env_okb in Hl. cbn [forallb] in Hl. apply andb_true_iff in Hl as [H1 H2].
    apply IH; [apply env_set_ok; assumption | exact H2].
  Qed.

  Lemma merge_into_res e e1 : esc_inv e -> esc_inv e1 ->
    match merge_into e e1 with AOk e2 => esc_inv e2 | APanic p => p = PSharedNode end.
  Proof.
    intros [H1 H2] [G1 G2]. unfold merge_into. cbv zeta.
    set (e0 := mkesc _ _ _ (e_action_edits e) (e_template_edits e) (e_text_edits e)).
    assert (I0 : esc_inv e0).
    { split; cbn [e0 e_output e_derived]; [apply fold_output_wf; assumption | apply fold_derived_ok; assumption]. }
    assert (Hres : edit_res e0
      (fold_left (fun (acc : ares escaper) (kv : ekey * bytes) => match acc with AOk a => edit_text (fst kv) (snd kv) a | p => p end) (e_text_edits e1)
         (fold_left (fun (acc : ares escaper) (kv : ekey * bytes) => match acc with AOk a => edit_template (fst kv) (snd kv) a | p => p end) (e_template_edits e1)
            (fold_left (fun (acc : ares escaper) (kv : ekey * list bytes) => match acc with AOk a => edit_action (fst kv) (snd kv) a | p => p end) (e_action_edits e1) (AOk e0))))).
    { apply (fold_edit_res (fun a kv => edit_text (fst kv) (snd kv) a)); [intros; apply edit_text_res|].
      apply (fold_edit_res (fun a kv => edit_template (fst kv) (snd kv) a)); [intros; apply edit_template_res|].
      apply (fold_edit_res (fun a kv => edit_action (fst kv) (snd kv) a)); [intros; apply edit_action_res|].
      split; reflexivity. }
    match goal with |- match ?x with _ => _ end => destruct x as [e2|p] end; [|exact Hres].
    eapply inv_same_tables; eassumption.
  Qed.

  Lemma escape_action_R2 tname c id p e : wf_ctx c -> esc_inv e -> R2 (escape_action tname c id p e).
  Proof.
    intros Hw Hi. unfold escape_action. destruct (p_decls p); [|split; assumption]. cbv zeta.
    match goal with |- context [if ?b then AOk (ctx_error ErrPredefinedEscaper, e) else _] => destruct b end;
      [split; [apply wf_ctx_error | exact Hi]|].
    pose proof (wf_nudge c Hw) as Hn.
    assert (Hc2 : wf_ctx (match c_state (nudge c) with StAttrName | StTag => set_state (nudge c) StAttrName | _ => nudge c end)).
    { destruct (c_state (nudge c)) eqn:Es; try exact Hn;
        (apply wf_set_state; [exact Hn | | discriminate];
         destruct (c_delim (nudge c)) eqn:Ed; [reflexivity | | |];
         (assert (Hx : c_state (nudge c) = StAttr) by (apply wf_delim_attr; [exact Hn | congruence]); congruence)). }
    assert (Hrest : R2 (match sanitizer_for_context (match c_state (nudge c) with StAttrName | StTag => set_state (nudge c) StAttrName | _ => nudge c end) with
        | None => AOk (ctx_error ErrEscapeAction, e)
        | Some s => match edit_action (tname, id) s e with AOk e' => AOk (match c_state (nudge c) with StAttrName | StTag => set_state (nudge c) StAttrName | _ => nudge c end, e') | APanic x => APanic x end
        end)).
    { destruct (sanitizer_for_context _) as [s|]; [|split; [apply wf_ctx_error | exact Hi]].
      pose proof (edit_action_res (tname, id) s e) as Hr.
      destruct (edit_action (tname, id) s e) as [e'|x]; cbn in Hr.
      - split; [exact Hc2 | eapply inv_same_tables; eassumption].
      - subst x. reflexivity. }
    destruct (c_state (nudge c)) eqn:Es; try exact Hrest. split; assumption.
  Qed.

  Lemma analysis_inv : forall f,
    (forall tname c n e, wf_ctx c -> esc_inv e -> node_ok n = true -> R2 (escape_node ns f tname c n e)) /\
    (forall tname c l e, wf_ctx c -> esc_inv e -> tree_ok l = true -> R2 (escape_list ns f tname c l e)) /\
    (forall tname c l flt e, wf_ctx c -> esc_inv e -> tree_ok l = true -> R3b (escape_list_cond ns f tname c l flt e)) /\
    (forall tname c body els r e, wf_ctx c -> esc_inv e -> tree_ok body = true -> tree_ok els = true ->
        R2 (escape_branch ns f tname c body els r e)) /\
    (forall c name e, wf_ctx c -> esc_inv e -> R3n (escape_tree ns f c name e)) /\
    (forall c tname root e, wf_ctx c -> esc_inv e -> tree_ok root = true -> R2 (compute_out_ctx ns f c tname root e)) /\
    (forall c tname root e, wf_ctx c -> esc_inv e -> tree_ok root = true -> R3b (escape_template_body ns f c tname root e)).
  Proof.
    induction f as [|f (IHn & IHl & IHc & IHb & IHt & IHo & IHy)].
    { repeat split; intros; reflexivity. }
    repeat split.
    - (* escape_node *)
      intros tname c n e Hw Hi Hn. destruct n as [id text|id p|id p b el|id p b el|id p b el|id name p|id|id|id]; rewrite escape_node_S.
      + pose proof (escape_text_total (ns_csp ns) c text Hw) as (c1 & ed & out & -> & Hw1).
        destruct ed; [|split; assumption].
        pose proof (edit_text_res (tname, id) out e) as Hr.
        destruct (edit_text (tname, id) out e) as [e'|x]; cbn in Hr; [|subst x; reflexivity].
        split; [exact Hw1 | eapply inv_same_tables; eassumption].
      + apply escape_action_R2; assumption.
      + destruct (node_ok_branch _ id p b el (or_introl eq_refl) Hn). apply IHb; assumption.
      + destruct (node_ok_branch _ id p b el (or_intror (or_introl eq_refl)) Hn). apply IHb; assumption.
      + destruct (node_ok_branch _ id p b el (or_intror (or_intror eq_refl)) Hn). apply IHb; assumption.
      + pose proof (IHt c name e Hw Hi) as Ht.
        destruct (escape_tree ns f c name e) as [[[c1 dname] e1]|x]; [|exact Ht]. cbn in Ht. destruct Ht as [Hw1 Hi1].
        destruct (bytes_eqb dname name); [split; assumption|].
        pose proof (edit_template_res (tname, id) dname e1) as Hr.
        destruct (edit_template (tname, id) dname e1) as [e'|x]; cbn in Hr; [|subst x; reflexivity].
        split; [exact Hw1 | eapply inv_same_tables; eassumption].
      + unfold node_ok in Hn. cbn in Hn. cbn. destruct bc; [reflexivity | discriminate].
      + unfold node_ok in Hn. cbn in Hn. cbn. destruct bc; [reflexivity | discriminate].
      + unfold node_ok in Hn. cbn in Hn. cbn. destruct bc; [reflexivity | discriminate].
    - (* escape_list *)
      intros tname c l e Hw Hi Hl. rewrite escape_list_S. destruct l as [|n rest]; [split; assumption|].
      apply tree_ok_cons in Hl as [Hn Hrest].
      pose proof (IHn tname c n e Hw Hi Hn) as H1.
      destruct (escape_node ns f tname c n e) as [[c1 e1]|x]; [|exact H1]. destruct H1 as [Hw1 Hi1].
      apply IHl; assumption.
    - (* escape_list_cond *)
      intros tname c l flt e Hw Hi Hl. rewrite escape_list_cond_S. cbv zeta.
      assert (Hi1 : esc_inv (mkesc (e_output e) [] [] [] [] [])) by (split; [apply Hi | reflexivity]).
      pose proof (IHl tname c l _ Hw Hi1 Hl) as H1.
      destruct (escape_list ns f tname c l _) as [[c1 e1']|x]; [|exact H1]. destruct H1 as [Hw1 Hi1'].
      destruct flt as [flt|]; [|split; assumption].
      destruct (flt e1' c1); [|split; assumption].
      pose proof (merge_into_res e e1' Hi Hi1') as Hm.
      destruct (merge_into e e1') as [e2|x]; [split; assumption | subst x; reflexivity].
    - (* escape_branch *)
      intros tname c body els r e Hw Hi Hb He. rewrite escape_branch_S.
      pose proof (IHl tname c body e Hw Hi Hb) as H1.
      destruct (escape_list ns f tname c body e) as [[c0 e0]|x]; [|exact H1]. destruct H1 as [Hw0 Hi0].
      cbv zeta.
      assert (Har : R2 (if r && negb (state_eqb (c_state c0) StError)
                        then match escape_list_cond ns f tname c0 body None e0 with
                             | APanic x => APanic x
                             | AOk (c1, _, e0') => AOk (join c0 c1, e0')
                             end
                        else AOk (c0, e0))).
      { destruct (r && negb (state_eqb (c_state c0) StError)); [|split; assumption].
        pose proof (IHc tname c0 body None e0 Hw0 Hi0 Hb) as H2.
        destruct (escape_list_cond ns f tname c0 body None e0) as [[[c1 b1] e0']|x]; [|exact H2].
        destruct H2 as [Hw1 Hi1]. split; [apply wf_join; assumption | exact Hi1]. }
      match goal with |- R2 (match ?ar with _ => _ end) => destruct ar as [[c0' e0']|x] end; [|exact Har].
      destruct Har as [Hw0' Hi0'].
      destruct (r && negb (state_eqb (c_state c0) StError) && state_eqb (c_state c0') StError); [split; assumption|].
      pose proof (IHl tname c els e0' Hw Hi0' He) as H3.
      destruct (escape_list ns f tname c els e0') as [[c1 e1]|x]; [|exact H3]. destruct H3 as [Hw1 Hi1].
      split; [apply wf_join; assumption | exact Hi1].
    - (* escape_tree *)
      intros c name e Hw Hi. rewrite escape_tree_S. cbv zeta.
      pose proof (inv_set_called (mangle c name) e Hi) as Hi'.
      set (e' := set_called (mangle c name) e) in *.
      destruct (output_lookup (mangle c name) (e_output e')) as [out|] eqn:Eo.
      { split; [eapply output_lookup_wf; [apply Hi' | exact Eo] | exact Hi']. }
      destruct (find_template ns e' name) as [t|] eqn:Et; [|split; [apply wf_ctx_error | exact Hi']].
      pose proof (find_template_ok _ _ _ Hi' Et) as Htok.
      assert (Hpick : match (if bytes_eqb (mangle c name) name then AOk (t, e')
                             else match find_template ns e' (mangle c name) with
                                  | Some dt => AOk (dt, e')
                                  | None => match t with
                                            | None => APanic PNilTree
                                            | Some tr => AOk (Some tr, set_derived (mangle c name) (Some tr) e')
                                            end
                                  end) with
                      | AOk (tr, e2) => opt_ok tr = true /\ esc_inv e2
                      | APanic p => panic_allowed bc nl p = true
                      end).
      { destruct (bytes_eqb (mangle c name) name); [split; assumption|].
        destruct (find_template ns e' (mangle c name)) as [dt|] eqn:Ed.
        - split; [eapply find_template_ok; eassumption | exact Hi'].
        - destruct t as [tr|]; [|exact Htok]. split; [exact Htok | apply inv_set_derived; assumption]. }
      match goal with |- R3n (match ?pk with _ => _ end) => destruct pk as [[tr e2]|x] end; [|exact Hpick].
      destruct Hpick as [Htr Hi2]. destruct tr as [root|]; [|exact Htr].
      pose proof (IHo c (mangle c name) root e2 Hw Hi2 Htr) as H1.
      destruct (compute_out_ctx ns f c (mangle c name) root e2) as [[c1 e1]|x]; [|exact H1]. exact H1.
    - (* compute_out_ctx *)
      intros c tname root e Hw Hi Hr. rewrite compute_out_ctx_S.
      pose proof (IHy c tname root e Hw Hi Hr) as H1.
      destruct (escape_template_body ns f c tname root e) as [[[c1 ok] e1]|x]; [|exact H1]. destruct H1 as [Hw1 Hi1].
      cbv zeta.
      assert (Hsec : R3b (if ok then AOk (c1, ok, e1)
                          else match escape_template_body ns f c1 tname root e1 with
                               | APanic x => APanic x
                               | AOk (c2, ok2, e2) => if ok2 then AOk (c2, true, e2) else AOk (c1, false, e2)
                               end)).
      { destruct ok; [split; assumption|].
        pose proof (IHy c1 tname root e1 Hw1 Hi1 Hr) as H2.
        destruct (escape_template_body ns f c1 tname root e1) as [[[c2 ok2] e2]|x]; [|exact H2].
        destruct H2 as [Hw2 Hi2]. destruct ok2; split; assumption. }
      match goal with |- R2 (match ?sec with _ => _ end) => destruct sec as [[[c1' ok'] e1']|x] end; [|exact Hsec].
      destruct Hsec as [Hw1' Hi1'].
      destruct (negb ok' && negb (state_eqb (c_state c1') StError)); split; try assumption. apply wf_ctx_error.
    - (* escape_template_body *)
      intros c tname root e Hw Hi Hr. rewrite escape_template_body_S. cbv zeta.
      apply IHc; [exact Hw | apply inv_set_output; assumption | exact Hr].
  Qed.
End AnalysisInv.
(* ------------------------------------------------------------------ consequences for the analysis *)

Lemma env_okb_incl (E E' : tenv) : incl E' E -> env_okb (env_has_bc E) (env_has_nil E) E' = true.
Proof.
  intros Hin. unfold env_okb. apply forallb_forall. intros [n t] Hx. cbn [snd].
  apply Hin in Hx. destruct t as [t|]; cbn [opt_ok].
  - unfold tree_ok. destruct (tree_has_bc t) eqn:Et; [|apply orb_true_r].
    assert (Hb : env_has_bc E = true).
    { unfold env_has_bc. apply existsb_exists. exists (n, Some t). split; [exact Hx | exact Et]. }
    rewrite Hb. reflexivity.
  - unfold env_has_nil. apply existsb_exists. exists (n, None). split; [exact Hx | reflexivity].
Qed.

(* a panic of the analysis is one of: fuel exhausted, a node edited twice, a break/continue/comment
   node (only if some tree has one), a nil Tree (only if some template of the association has none) *)
Theorem analysis_panics_characterised ns fuel c name e p :
  wf_ctx c -> wf_output (e_output e) ->
  escape_tree ns fuel c name e = APanic p ->
  panic_allowed (env_has_bc (ns_text ns ++ e_derived e)) (env_has_nil (ns_text ns ++ e_derived e)) p = true.
Proof.
  intros Hw Ho E.
  set (EE := ns_text ns ++ e_derived e).
  assert (H1 : env_okb (env_has_bc EE) (env_has_nil EE) (ns_text ns) = true)
    by (apply env_okb_incl; unfold EE; apply incl_appl, incl_refl).
  assert (H2 : env_okb (env_has_bc EE) (env_has_nil EE) (e_derived e) = true)
    by (apply env_okb_incl; unfold EE; apply incl_appr, incl_refl).
  destruct (analysis_inv ns (env_has_bc EE) (env_has_nil EE) H1 fuel) as (_ & _ & _ & _ & Ht & _).
  specialize (Ht c name e Hw (conj Ho H2)). rewrite E in Ht. exact Ht.
Qed.

(* the partial totality theorem of the analysis: no break/continue/comment node and no nil Tree
   anywhere => the only panics left are the explicit fuel bound and the shared-node check *)
Theorem analysis_total_partial ns fuel c name e p :
  wf_ctx c -> wf_output (e_output e) ->
  env_has_bc (ns_text ns ++ e_derived e) = false ->
  env_has_nil (ns_text ns ++ e_derived e) = false ->
  escape_tree ns fuel c name e = APanic p -> p = PFuel \/ p = PSharedNode.
Proof.
  intros Hw Ho Hb Hn E. pose proof (analysis_panics_characterised ns fuel c name e p Hw Ho E) as H.
  rewrite Hb, Hn in H. destruct p; cbn in H; try discriminate; auto.
Qed.

(* the analysis keeps contexts well-formed *)
Theorem analysis_preserves_wf ns fuel c name e c1 d e1 :
  wf_ctx c -> wf_output (e_output e) ->
  escape_tree ns fuel c name e = AOk (c1, d, e1) -> wf_ctx c1 /\ wf_output (e_output e1).
Proof.
  intros Hw Ho E.
  set (EE := ns_text ns ++ e_derived e).
  assert (H1 : env_okb (env_has_bc EE) (env_has_nil EE) (ns_text ns) = true)
    by (apply env_okb_incl; unfold EE; apply incl_appl, incl_refl).
  assert (H2 : env_okb (env_has_bc EE) (env_has_nil EE) (e_derived e) = true)
    by (apply env_okb_incl; unfold EE; apply incl_appr, incl_refl).
  destruct (analysis_inv ns (env_has_bc EE) (env_has_nil EE) H1 fuel) as (_ & _ & _ & _ & Ht & _).
  specialize (Ht c name e Hw (conj Ho H2)). rewrite E in Ht. destruct Ht as [Ha [Hb _]]. split; assumption.
Qed.

(* ------------------------------------------------------------------ the API state machine *)

(* New, New on a handle, Parse, Clone, Lookup, Templates/Name/DefinedTemplates, CSPCompatible never
   panic, in any state whatsoever *)
Theorem step_nonexec_no_panic w o : is_exec o = false -> is_panic (snd (step w o)) = false.
Proof.
  destruct o; cbn [is_exec]; try discriminate; intros _; cbn [step].
  - destruct (alloc_new w name). reflexivity.
  - destruct (handle w h); [|reflexivity]. destruct (sub_new w n name). reflexivity.
  - destruct (handle w h); [|reflexivity]. destruct (n_escaped _); [reflexivity|]. destruct p; reflexivity.
  - destruct (handle w h); [|reflexivity]. destruct (h_err _); try reflexivity.
    repeat match goal with |- context [let '(_, _) := ?x in _] => destruct x end.
    match goal with |- context [match ?r with None => _ | Some _ => _ end] => destruct r end; reflexivity.
  - destruct (handle w h); reflexivity.
  - destruct (handle w h); reflexivity.
  - destruct (handle w h); reflexivity.
Qed.

(* results of a run, one per op *)
Lemma run_snoc ops o : run (ops ++ [o]) =
  let '(w, outs) := run ops in let '(w', r) := step w o in (w', outs ++ [r]).
Proof. unfold run. rewrite fold_left_app. reflexivity. Qed.

Lemma run_length ops : length (snd (run ops)) = length ops.
Proof.
  induction ops as [|o ops IH] using rev_ind; [reflexivity|].
  rewrite run_snoc. destruct (run ops) as [w outs]. destruct (step w o) as [w' r]. cbn [snd] in *.
  rewrite !app_length, IH. reflexivity.
Qed.

Lemma run_nth_nonexec ops : forall k o r, nth_error ops k = Some o -> nth_error (snd (run ops)) k = Some r ->
  is_exec o = false -> is_panic r = false.
Proof.
  induction ops as [|o' ops IH] using rev_ind; intros k o r Ho Hr Hne; [destruct k; discriminate|].
  pose proof (run_length ops) as Hlen.
  rewrite run_snoc in Hr. destruct (run ops) as [w outs] eqn:Erun. cbn [snd] in Hlen, IH.
  pose proof (step_nonexec_no_panic w o') as Hs.
  destruct (step w o') as [w' r'] eqn:Est. cbn [snd] in Hr, Hs.
  destruct (Nat.lt_ge_cases k (length ops)) as [Hk|Hk].
  - rewrite nth_error_app1 in Ho by exact Hk. rewrite nth_error_app1 in Hr by lia. eapply IH; eassumption.
  - rewrite nth_error_app2 in Ho by exact Hk. rewrite nth_error_app2 in Hr by lia. rewrite Hlen in Hr.
    destruct (k - length ops)%nat as [|m]; [|destruct m; discriminate].
    cbn in Ho, Hr. inversion Ho; subst. inversion Hr; subst. apply Hs. exact Hne.
Qed.
(* ------------------------------------------------------------------ API histories keep every memoised context well-formed *)

Definition ns_wf (x : nspace) : Prop := wf_output (e_output (n_esc x)).
Definition winv (w : world) : Prop := Forall ns_wf (w_ns w).

Lemma ns_wf_d : ns_wf ns_d. Proof. constructor. Qed.

Lemma winv_get w n : winv w -> ns_wf (get_ns w n).
Proof.
  intros H. unfold get_ns. destruct (nth_in_or_default n (w_ns w) ns_d) as [Hin | ->]; [|apply ns_wf_d].
  unfold winv in H. rewrite Forall_forall in H. apply H. exact Hin.
Qed.

Lemma set_nth_Forall {A} (P : A -> Prop) d x : P d -> P x -> forall n l, Forall P l -> Forall P (set_nth d n x l).
Proof.
  intros Hd Hx. induction n as [|n IH]; intros l Hl; destruct l as [|h t]; cbn [set_nth].
  - constructor; [exact Hx | constructor].
  - inversion Hl; subst. constructor; assumption.
  - constructor; [exact Hd | apply IH; constructor].
  - inversion Hl; subst. constructor; [assumption | apply IH; assumption].
Qed.

Lemma winv_put_ns w n x : winv w -> ns_wf x -> winv (put_ns w n x).
Proof. intros H Hx. unfold winv, put_ns. cbn [w_ns]. apply set_nth_Forall; [apply ns_wf_d | exact Hx | exact H]. Qed.

Lemma winv_same w w' : w_ns w' = w_ns w -> winv w -> winv w'.
Proof. unfold winv. intros ->. auto. Qed.

Lemma winv_new_ns w x : winv w -> ns_wf x -> winv (fst (new_ns w x)).
Proof. intros H Hx. unfold winv, new_ns. cbn [fst w_ns]. apply Forall_app. split; [exact H | constructor; [exact Hx | constructor]]. Qed.

Lemma ns_wf_empty s a b : ns_wf (mknsp s a b esc_empty).
Proof. constructor. Qed.

Lemma ns_wf_same_esc x s a b : ns_wf x -> ns_wf (mknsp s a b (n_esc x)).
Proof. auto. Qed.

Lemma winv_alloc_new w name : winv w -> winv (fst (alloc_new w name)).
Proof.
  intros H. unfold alloc_new, new_common, new_text, new_ns, new_tmpl. cbn [fst snd].
  apply winv_put_ns; [|apply ns_wf_empty].
  unfold winv. cbn [w_ns]. apply Forall_app. split; [exact H | constructor; [apply ns_wf_empty | constructor]].
Qed.

Lemma ns_add_parse_tree w tid name tr : w_ns (add_parse_tree w tid name tr) = w_ns w.
Proof.
  unfold add_parse_tree. cbv zeta.
  destruct (bytes_eqb name (x_name (get_text w tid))).
  - match goal with |- context [if ?k then w else _] => destruct k end;
      match goal with |- context [if ?k then _ else _] => destruct k end; reflexivity.
  - unfold new_text.
    match goal with |- context [if ?k then _ else put_common _ _ _] => destruct k end;
      match goal with |- context [if ?k then _ else _] => destruct k end; reflexivity.
Qed.

Lemma fold_ns_same {A} (f : world -> A -> world) (Hf : forall w x, w_ns (f w x) = w_ns w) :
  forall l w, w_ns (fold_left f l w) = w_ns w.
Proof. induction l as [|x l IH]; intros w; cbn [fold_left]; [reflexivity|]. rewrite IH. apply Hf. Qed.

Lemma fold_winv {A} (f : world -> A -> world) (Hf : forall w x, winv w -> winv (f w x)) :
  forall l w, winv w -> winv (fold_left f l w).
Proof. induction l as [|x l IH]; intros w H; cbn [fold_left]; [exact H|]. apply IH. apply Hf. exact H. Qed.

Lemma winv_put_ns_same_esc w n s a b m : winv w -> winv (put_ns w n (mknsp s a b (n_esc (get_ns w m)))).
Proof. intros H. apply winv_put_ns; [exact H|]. apply (ns_wf_same_esc (get_ns w m)). apply winv_get. exact H. Qed.

Lemma winv_sub_new w o name : winv w -> winv (fst (sub_new w o name)).
Proof.
  intros H. unfold sub_new. cbv zeta. unfold new_text, new_tmpl. cbn [fst snd].
  apply winv_put_ns_same_esc.
  match goal with |- winv (match ?a with Some _ => _ | None => ?w1 end) =>
    assert (H1 : winv w1) by (eapply winv_same; [|exact H]; reflexivity); destruct a as [existing|]; [|exact H1] end.
  match goal with |- context [alloc_new ?w1 ?nm] =>
    pose proof (winv_alloc_new w1 nm H1) as Ha; destruct (alloc_new w1 nm) as [w0 fresh] end.
  cbn [fst] in Ha. eapply winv_same; [|exact Ha]. reflexivity.
Qed.

Lemma winv_commit w nsid : winv w -> winv (commit w nsid).
Proof.
  intros H. unfold commit. destruct (n_set (get_ns w nsid)) as [|[n0 o] rest]; [exact H|]. cbv zeta.
  apply winv_put_ns.
  - eapply winv_same; [|exact H].
    rewrite fold_ns_same.
    + rewrite fold_ns_same; [reflexivity|].
      intros w0 kv. destruct (snd kv); [|reflexivity].
      destruct (assoc_get (fst kv) _); [reflexivity | apply ns_add_parse_tree].
    + intros w0 name. destruct (assoc_get name _); [|reflexivity]. destruct (x_tree _); reflexivity.
  - pose proof (winv_get w nsid H) as Hg. exact Hg.
Qed.

Definition not_textloop (p : panic) : Prop := p <> PTextLoop.

Lemma allowed_not_textloop bc nl p : panic_allowed bc nl p = true -> p <> PTextLoop.
Proof. intros H E. subst. discriminate. Qed.

Lemma winv_escape_template w nsid name : winv w ->
  winv (fst (escape_template w nsid name)) /\
  (forall p, snd (escape_template w nsid name) = Some (APanic p) -> p <> PTextLoop).
Proof.
  intros H. unfold escape_template. destruct (ns_view w nsid) as [view|].
  2:{ split; [exact H|]. intros p E. inversion E. discriminate. }
  pose proof (winv_get w nsid H) as Hg.
  destruct (escape_tree view analysis_fuel ctx0 name (n_esc (get_ns w nsid))) as [[[c d] e1]|p] eqn:Et.
  2:{ split; [exact H|]. intros p' E. inversion E; subst.
      eapply allowed_not_textloop. eapply analysis_panics_characterised; [apply wf_ctx0 | exact Hg | exact Et]. }
  destruct (analysis_preserves_wf _ _ _ _ _ _ _ _ wf_ctx0 Hg Et) as [_ Ho1].
  cbv zeta.
  set (w1 := put_ns w nsid _).
  assert (H1 : winv w1) by (apply winv_put_ns; [exact H | exact Ho1]).
  match goal with |- context [match ?err with Some _ => _ | None => _ end] => destruct err as [code|] end.
  - destruct (assoc_get name (n_set (get_ns w nsid))) as [o|].
    + split; [|intros p E; discriminate]. cbn [fst]. eapply winv_same; [|exact H1]. reflexivity.
    + split; [exact H1 | intros p E; discriminate].
  - pose proof (winv_commit w1 nsid H1) as Hc.
    destruct (assoc_get name (n_set (get_ns w nsid))) as [o|].
    + split; [|intros p E; discriminate]. cbn [fst]. eapply winv_same; [|exact Hc]. reflexivity.
    + split; [exact Hc | intros p E; discriminate].
Qed.

Lemma winv_set_escaped w nsid : winv w -> winv (set_escaped w nsid).
Proof. intros H. unfold set_escaped. apply winv_put_ns; [exact H|]. apply (ns_wf_same_esc (get_ns w nsid)). apply winv_get. exact H. Qed.

Lemma winv_add_handle w h : winv w -> winv (add_handle w h).
Proof. apply winv_same. reflexivity. Qed.

Lemma winv_put_tmpl w o t : winv w -> winv (put_tmpl w o t).
Proof. apply winv_same. reflexivity. Qed.
Lemma winv_put_text w o t : winv w -> winv (put_text w o t).
Proof. apply winv_same. reflexivity. Qed.
Lemma winv_put_common w o t : winv w -> winv (put_common w o t).
Proof. apply winv_same. reflexivity. Qed.

Definition res_ok (r : rclass) : Prop := r <> RPanic PTextLoop.

Lemma exec_after_escape w nsid name (k : world -> rclass) : winv w ->
  (forall w', k w' <> RPanic PTextLoop) ->
  let r := match escape_template w nsid name with
           | (w', Some (APanic p)) => (w', RPanic p)
           | (w', Some (AOk (Some code))) => (w', RErrEscape code)
           | (w', _) => (w', k w')
           end in
  winv (fst r) /\ res_ok (snd r).
Proof.
  intros H Hk. destruct (winv_escape_template w nsid name H) as [Hw Hp].
  destruct (escape_template w nsid name) as [w' [[[code|]|p]|]]; cbn [fst snd] in *.
  - split; [exact Hw | discriminate].
  - split; [exact Hw | apply Hk].
  - split; [exact Hw|]. intros E. inversion E; subst. exact (Hp PTextLoop eq_refl eq_refl).
  - split; [exact Hw | apply Hk].
Qed.

Theorem step_winv w o : winv w -> winv (fst (step w o)) /\ res_ok (snd (step w o)).
Proof.
  intros H. destruct o; cbn [step].
  - pose proof (winv_alloc_new w name H) as Ha. destruct (alloc_new w name) as [w1 obj]. cbn [fst snd] in *.
    split; [apply winv_add_handle; exact Ha | discriminate].
  - destruct (handle w h) as [obj|]; [|split; [exact H | discriminate]].
    pose proof (winv_sub_new w obj name H) as Ha. destruct (sub_new w obj name) as [w1 o']. cbn [fst snd] in *.
    split; [apply winv_add_handle; exact Ha | discriminate].
  - destruct (handle w h) as [obj|]; [|split; [exact H | discriminate]].
    destruct (n_escaped _); [split; [exact H | discriminate]|].
    destruct p as [|trees]; [split; [exact H | discriminate]|]. cbv zeta. cbn [fst snd].
    split; [|discriminate].
    apply fold_winv.
    + intros w0 kv H0.
      assert (Hm : winv (fst (match assoc_get (fst kv) (n_set (get_ns w0 (h_ns (get_tmpl w obj)))) with
                              | Some m => (w0, m)
                              | None => sub_new w0 obj (fst kv)
                              end))).
      { destruct (assoc_get _ _); [exact H0 | apply winv_sub_new; exact H0]. }
      destruct (match assoc_get (fst kv) _ with Some m => (w0, m) | None => sub_new w0 obj (fst kv) end) as [w1 member].
      cbn [fst] in Hm. apply winv_put_tmpl. exact Hm.
    + eapply winv_same; [|exact H]. apply fold_ns_same. intros w0 kv. apply ns_add_parse_tree.
  - (* Clone *)
    destruct (handle w h) as [obj|]; [|split; [exact H | discriminate]].
    destruct (h_err (get_tmpl w obj)); try (split; [exact H | discriminate]).
    unfold clone_text, clone_member. cbv zeta. unfold new_common, new_text, new_ns, new_tmpl. cbv beta iota. cbn [fst snd].
    match goal with |- context [match ?res with None => (w, RErrCannotClone) | Some _ => _ end] =>
      assert (Hres : match res with Some w2 => winv w2 | None => True end); [|destruct res as [w2|]] end.
    2:{ cbn [fst snd]. split; [apply winv_add_handle; exact Hres | discriminate]. }
    2:{ split; [exact H | discriminate]. }
    match goal with |- match fold_left ?f ?l (Some ?w0) with _ => _ end =>
      assert (Hgen : forall l' wq, winv wq -> match fold_left f l' (Some wq) with Some w2 => winv w2 | None => True end);
      [| apply Hgen ] end.
    + intros l'. induction l' as [|kv l' IH]; intros wq Hwq; cbn [fold_left]; [exact Hwq|].
      destruct (assoc_get (fst kv) _) as [src|].
      * destruct (h_err (get_tmpl wq src)).
        -- unfold new_tmpl. cbn [fst snd]. apply IH. apply winv_put_ns; [|apply ns_wf_empty].
           eapply winv_same; [|exact Hwq]. reflexivity.
        -- clear. induction l' as [|kv' l' IH']; cbn [fold_left]; [exact I | exact IH'].
        -- clear. induction l' as [|kv' l' IH']; cbn [fold_left]; [exact I | exact IH'].
      * clear. induction l' as [|kv' l' IH']; cbn [fold_left]; [exact I | exact IH'].
    + apply winv_put_ns; [|apply ns_wf_empty].
      unfold winv. cbn [w_ns]. apply Forall_app. split; [|constructor; [apply ns_wf_empty | constructor]].
      match goal with |- Forall ns_wf (w_ns (fold_left ?f ?l ?w0)) =>
        change (winv (fold_left f l w0)); apply fold_winv end.
      * intros w0 kv H0. destruct (bytes_eqb (fst kv) _); [exact H0|].
        unfold new_text. cbn [fst snd]. apply winv_put_common. eapply winv_same; [|exact H0]. reflexivity.
      * destruct (assoc_get _ _); [apply winv_put_common|]; (eapply winv_same; [|exact H]; reflexivity).
  - destruct (handle w h) as [obj|]; [|split; [exact H | discriminate]]. cbn [fst snd].
    split; [apply winv_add_handle; exact H | discriminate].
  - (* Execute *)
    destruct (handle w h) as [obj|]; [|split; [exact H | discriminate]]. cbv zeta.
    pose proof (winv_set_escaped w (h_ns (get_tmpl w obj)) H) as He.
    destruct (h_err (get_tmpl w obj)); try (split; [exact He | discriminate]).
    destruct (h_tree_nil (get_tmpl w obj)); [split; [exact He | discriminate]|].
    apply (exec_after_escape _ _ _ (fun w' => RExec (h_text (get_tmpl w' obj)))); [exact He | discriminate].
  - (* ExecuteTemplate *)
    destruct (handle w h) as [obj|]; [|split; [exact H | discriminate]]. cbv zeta.
    pose proof (winv_set_escaped w (h_ns (get_tmpl w obj)) H) as He.
    set (w1 := set_escaped w (h_ns (get_tmpl w obj))) in *.
    destruct (assoc_get name _) as [m|]; [|split; [exact He | discriminate]].
    destruct (h_err (get_tmpl w1 m)) eqn:Eerr; try (split; [exact He | discriminate]);
      (destruct (x_tree (get_text w1 (h_text (get_tmpl w1 m)))); [|split; [exact He | discriminate]];
       destruct (assoc_get name (get_common w1 _)); [|split; [exact He | discriminate]]).
    + apply (exec_after_escape _ _ _ (fun w' => RExec (h_text (get_tmpl w' m)))); [exact He | discriminate].
    + split; [exact He | discriminate].
  - destruct (handle w h); split; try exact H; discriminate.
  - destruct (handle w h) as [obj|]; [|split; [exact H | discriminate]]. cbv zeta. cbn [fst snd].
    split; [|discriminate]. apply winv_put_ns; [exact H|].
    apply (ns_wf_same_esc (get_ns w _)). apply winv_get. exact H.
Qed.

Lemma winv_world0 : winv world0. Proof. constructor. Qed.

Theorem run_winv ops : winv (fst (run ops)) /\ Forall res_ok (snd (run ops)).
Proof.
  induction ops as [|o ops IH] using rev_ind; [split; [apply winv_world0 | constructor]|].
  rewrite run_snoc. destruct (run ops) as [w outs]. cbn [fst snd] in IH. destruct IH as [Hw Ho].
  pose proof (step_winv w o Hw) as [H1 H2]. destruct (step w o) as [w' r]. cbn [fst snd] in *.
  split; [exact H1|]. apply Forall_app. split; [exact Ho | constructor; [exact H2 | constructor]].
Qed.

(* ------------------------------------------------------------------ statements in the form used by props/C08.v *)

Lemma transitions_total_pointwise (c : context) (s : bytes) :
  (exists c1 n, t_text c s = TOk c1 n /\ (n <= length s)%nat) /\
  (exists c1 n, t_tag c s = TOk c1 n /\ (n <= length s)%nat) /\
  (exists c1 n, t_attr_name c s = TOk c1 n /\ (n <= length s)%nat) /\
  (exists c1 n, t_after_name c s = TOk c1 n /\ (n <= length s)%nat) /\
  (exists c1 n, t_before_value c s = TOk c1 n /\ (n <= length s)%nat) /\
  (exists c1 n, t_html_cmt c s = TOk c1 n /\ (n <= length s)%nat) /\
  (exists c1 n, t_special_tag_end c s = TOk c1 n /\ (n <= length s)%nat) /\
  (exists c1 n, t_attr c s = TOk c1 n /\ (n <= length s)%nat) /\
  (exists c1 n, t_error c s = TOk c1 n /\ (n <= length s)%nat).
Proof.
  destruct transitions_total as (H1 & H2 & H3 & H4 & H5 & H6 & H7 & H8 & H9).
  repeat split; [apply H1 | apply H2 | apply H3 | apply H4 | apply H5 | apply H6 | apply H7 | apply H8 | apply H9].
Qed.

Lemma wf_preserved : wf_ctx ctx0 /\
  (forall c (s : bytes) c1 n, wf_ctx c -> context_after_text c s = TOk c1 n -> wf_ctx c1).
Proof. split; [apply wf_ctx0 | intros; eapply cat_preserves_wf; eassumption]. Qed.

Lemma scanner_fuel_suffices :
  (forall f (s : bytes), (length s <= f)%nat -> unescape_fuel f s = html_unescape s) /\
  (forall s : bytes, (length (html_unescape s) <= length s)%nat) /\
  (forall f (s tag : bytes), (length s < f)%nat -> index_tag_end_loop f s tag 0 = index_tag_end s tag).
Proof.
  split; [|split].
  - intros f s H. unfold html_unescape. apply unescape_fuel_enough; lia.
  - apply html_unescape_len.
  - intros f s tag H. unfold index_tag_end. apply itel_fuel; lia.
Qed.

Lemma api_no_text_loop ops : Forall (fun r => r <> RPanic PTextLoop) (snd (run ops)).
Proof. apply (proj2 (run_winv ops)). Qed.

(* ------------------------------------------------------------------ non-vacuity *)

(* the hypothesis wf_ctx of escape_text_total is needed: in the (unreachable) text state inside a
   script element the "infinite loop" panic of escapeText fires on a closing tag *)
Example wf_needed :
  escape_text false (mkctx StText DNone (B "script") [] [] [] false [] None [] []) (B "</script>") = EPanic.
Proof. vm_compute. reflexivity. Qed.
Example wf_needed_ctx_not_wf : wf_ctxb (mkctx StText DNone (B "script") [] [] [] false [] None [] []) = false.
Proof. reflexivity. Qed.

(* a step that consumes nothing and changes the state: an unquoted value ended by '>' *)
Example zero_progress_step :
  context_after_text (mkctx StAttr DSpaceOrTagEnd (B "a") [] (B "href") [] false [] None [] []) (B ">") =
  TOk (mkctx StTag DNone (B "a") [] [] [] false [] None [] []) 0.
Proof. vm_compute. reflexivity. Qed.

(* the longest chain of steps that consume nothing: stateBeforeValue, stateAttr, stateTag on '>' *)
Example escape_text_three_steps_one_byte :
  escape_text false (mkctx StBeforeValue DNone (B "a") [] (B "href") [] false [] None [] []) (B ">") =
  EOk (mkctx StText DNone (B "a") [] [] [] false [] None [] []) false [].
Proof. vm_compute. reflexivity. Qed.

(* comment elision exercises the checked slice s[written:cs] *)
Example escape_text_comment :
  escape_text false ctx0 (B "a<!-- c --><b>") = EOk (mkctx StText DNone (B "b") [] [] [] false [] None [] []) true (B "a<b>").
Proof. vm_compute. reflexivity. Qed.

Example js_balanced_examples :
  is_js_template_balanced (B "var t = `a${1}`;") = Some true /\
  is_js_template_balanced (B "var t = `unbalanced") = Some false.
Proof. split; vm_compute; reflexivity. Qed.

Example wf_ctxb_reachable : wf_ctxb (mkctx StAttr DDoubleQuote (B "a") [] (B "href") [] false [] None [] []) = true.
Proof. reflexivity. Qed.
