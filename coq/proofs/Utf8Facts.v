(* Facts about Go's UTF-8 decoding used to move between byte and rune views. *)
From V Require Import lib.Base lib.Utf8.
From Coq Require Import ZifyBool ZifyN.

Lemma decode_ascii b s : b < 128 -> decode_runes (b :: s) = b :: decode_runes s.
Proof. intros H. simpl. apply N.ltb_lt in H. rewrite H. reflexivity. Qed.

(* a non-ASCII first byte always yields a non-ASCII first rune *)
Lemma decode_head_nonascii b0 r0 : ~ b0 < 128 ->
  exists c rest, decode_runes (b0 :: r0) = c :: rest /\ 128 <= c /\ c <= 1114111.
Proof.
  intros Hb. cbn [decode_runes].
  destruct (b0 <? 128) eqn:E0; [apply N.ltb_lt in E0; contradiction|].
  destruct ((194 <=? b0) && (b0 <=? 223)) eqn:E2.
  { destruct r0 as [|b1 r1]; [eexists; eexists; split; [reflexivity | unfold FFFD; lia]|].
    destruct (cont b1) eqn:C1; [|eexists; eexists; split; [reflexivity | unfold FFFD; lia]].
    eexists; eexists; split; [reflexivity|]. unfold cont in C1. lia. }
  destruct ((224 <=? b0) && (b0 <=? 239)) eqn:E3.
  { destruct r0 as [|b1 [|b2 r2]]; try (eexists; eexists; split; [reflexivity | unfold FFFD; lia]).
    destruct (acc3 b0 b1 && cont b2) eqn:C; [|eexists; eexists; split; [reflexivity | unfold FFFD; lia]].
    eexists; eexists; split; [reflexivity|].
    unfold acc3, cont in C.
    destruct (b0 =? 224) eqn:Ea; [lia|]. destruct (b0 =? 237) eqn:Eb; lia. }
  destruct ((240 <=? b0) && (b0 <=? 244)) eqn:E4.
  { destruct r0 as [|b1 [|b2 [|b3 r3]]]; try (eexists; eexists; split; [reflexivity | unfold FFFD; lia]).
    destruct (acc4 b0 b1 && cont b2 && cont b3) eqn:C;
      [|eexists; eexists; split; [reflexivity | unfold FFFD; lia]].
    eexists; eexists; split; [reflexivity|].
    unfold acc4, cont in C.
    destruct (b0 =? 240) eqn:Ea; [lia|]. destruct (b0 =? 244) eqn:Eb; lia. }
  eexists; eexists; split; [reflexivity | unfold FFFD; lia].
Qed.

Lemma decode_all_ascii s : Forall (fun c => c < 128) (decode_runes s) -> decode_runes s = s.
Proof.
  induction s as [|b s IH]; intros H; [reflexivity|].
  destruct (N.lt_ge_cases b 128) as [Hb|Hb].
  - rewrite decode_ascii in * by exact Hb. inversion H; subst. f_equal. apply IH. assumption.
  - destruct (decode_head_nonascii b s) as (c & rest & E & Hc & _); [lia|].
    rewrite E in H. inversion H; subst. lia.
Qed.

Lemma decode_cons_ascii s c rest : decode_runes s = c :: rest -> c < 128 ->
  exists s', s = c :: s' /\ rest = decode_runes s'.
Proof.
  destruct s as [|b s]; [discriminate|]. intros E Hc.
  destruct (N.lt_ge_cases b 128) as [Hb|Hb].
  - rewrite decode_ascii in E by exact Hb. inversion E; subst. eauto.
  - destruct (decode_head_nonascii b s) as (c' & rest' & E' & Hc' & _); [lia|].
    rewrite E' in E. inversion E; subst. lia.
Qed.

Lemma decode_nil s : decode_runes s = [] -> s = [].
Proof.
  destruct s as [|b s]; [reflexivity|]. intros E.
  destruct (N.lt_ge_cases b 128) as [Hb|Hb].
  - rewrite decode_ascii in E by exact Hb. discriminate.
  - destruct (decode_head_nonascii b s) as (c' & rest' & E' & _); [lia|]. congruence.
Qed.

(* one decoding step: a rune and a strictly shorter remainder *)
Lemma decode_step b0 r0 :
  exists c k, decode_runes (b0 :: r0) = c :: decode_runes (skipn k r0) /\ c <= 1114111
              /\ (c < 128 -> c = b0 /\ k = O).
Proof.
  destruct (N.lt_ge_cases b0 128) as [Hb|Hb].
  { exists b0, O. rewrite decode_ascii by exact Hb. simpl. repeat split; auto; lia. }
  cbn [decode_runes].
  destruct (b0 <? 128) eqn:E0; [lia|].
  assert (HF : exists c k, FFFD :: decode_runes r0 = c :: decode_runes (skipn k r0) /\ c <= 1114111
                            /\ (c < 128 -> c = b0 /\ k = O)).
  { exists FFFD, O. simpl. unfold FFFD. repeat split; lia. }
  destruct ((194 <=? b0) && (b0 <=? 223)) eqn:E2.
  { destruct r0 as [|b1 r1]; [exact HF|].
    destruct (cont b1) eqn:C1; [|exact HF].
    eexists; exists 1%nat; split; [reflexivity|]. unfold cont in C1. lia. }
  destruct ((224 <=? b0) && (b0 <=? 239)) eqn:E3.
  { destruct r0 as [|b1 [|b2 r2]]; try exact HF.
    destruct (acc3 b0 b1 && cont b2) eqn:C; [|exact HF].
    eexists; exists 2%nat; split; [reflexivity|].
    unfold acc3, cont in C.
    destruct (b0 =? 224) eqn:Ea; [lia|]. destruct (b0 =? 237) eqn:Eb; lia. }
  destruct ((240 <=? b0) && (b0 <=? 244)) eqn:E4.
  { destruct r0 as [|b1 [|b2 [|b3 r3]]]; try exact HF.
    destruct (acc4 b0 b1 && cont b2 && cont b3) eqn:C; [|exact HF].
    eexists; exists 3%nat; split; [reflexivity|].
    unfold acc4, cont in C.
    destruct (b0 =? 240) eqn:Ea; [lia|]. destruct (b0 =? 244) eqn:Eb; lia. }
  exact HF.
Qed.

Lemma decode_runes_bounded s : Forall (fun c => c <= 1114111) (decode_runes s).
Proof.
  assert (H : forall n (s : bytes), (length s <= n)%nat -> Forall (fun c => c <= 1114111) (decode_runes s)).
  { induction n as [|n IH]; intros [|b0 r0] Hl; try (simpl; constructor); simpl in Hl; try lia.
    destruct (decode_step b0 r0) as (c & k & E & Hc & _). rewrite E. constructor; [exact Hc|].
    apply IH. rewrite skipn_length. lia. }
  apply (H (length s)). lia.
Qed.

(* ---- encoding, and decoding what was encoded ---- *)
Definition scalar (r : N) : Prop := r <= 1114111 /\ ~ (55296 <= r <= 57343).

Lemma encode_rune_ascii r : r < 128 -> encode_rune r = [r].
Proof. intros H. unfold encode_rune. apply N.ltb_lt in H. rewrite H. reflexivity. Qed.

Lemma decode_encode r rest : scalar r ->
  decode_runes (encode_rune r ++ rest) = r :: decode_runes rest.
Proof.
  intros [Hmax Hsur]. unfold encode_rune.
  destruct (r <? 128) eqn:E1.
  { simpl. rewrite E1. reflexivity. }
  destruct (r <? 2048) eqn:E2.
  { cbn [app decode_runes]. 
    assert (H1 : (192 + r / 64 <? 128) = false) by lia. rewrite H1.
    assert (H2 : (194 <=? 192 + r / 64) && (192 + r / 64 <=? 223) = true) by lia. rewrite H2.
    assert (H3 : cont (128 + r mod 64) = true) by (unfold cont; lia). rewrite H3.
    f_equal. lia. }
  assert (Hs : is_surrogate r || (1114111 <? r) = false) by (unfold is_surrogate; lia). rewrite Hs.
  destruct (r <? 65536) eqn:E3.
  { cbn [app decode_runes].
    assert (H1 : (224 + r / 4096 <? 128) = false) by lia. rewrite H1.
    assert (H2 : (194 <=? 224 + r / 4096) && (224 + r / 4096 <=? 223) = false) by lia. rewrite H2.
    assert (H3 : (224 <=? 224 + r / 4096) && (224 + r / 4096 <=? 239) = true) by lia. rewrite H3.
    assert (H4 : acc3 (224 + r / 4096) (128 + (r / 64) mod 64) && cont (128 + r mod 64) = true).
    { unfold acc3, cont.
      destruct (224 + r / 4096 =? 224) eqn:Ea; [lia|].
      destruct (224 + r / 4096 =? 237) eqn:Eb; lia. }
    rewrite H4. f_equal. lia. }
  cbn [app decode_runes].
  assert (H1 : (240 + r / 262144 <? 128) = false) by lia. rewrite H1.
  assert (H2 : (194 <=? 240 + r / 262144) && (240 + r / 262144 <=? 223) = false) by lia. rewrite H2.
  assert (H3 : (224 <=? 240 + r / 262144) && (240 + r / 262144 <=? 239) = false) by lia. rewrite H3.
  assert (H4 : (240 <=? 240 + r / 262144) && (240 + r / 262144 <=? 244) = true) by lia. rewrite H4.
  assert (H5 : acc4 (240 + r / 262144) (128 + (r / 4096) mod 64) && cont (128 + (r / 64) mod 64)
               && cont (128 + r mod 64) = true).
  { unfold acc4, cont.
    destruct (240 + r / 262144 =? 240) eqn:Ea; [lia|].
    destruct (240 + r / 262144 =? 244) eqn:Eb; lia. }
  rewrite H5. f_equal. lia.
Qed.

(* a non-ASCII rune is encoded with bytes >= 128 only *)
Lemma encode_rune_high r : 128 <= r -> Forall (fun b => 128 <= b < 256) (encode_rune r).
Proof.
  intros H. unfold encode_rune.
  destruct (r <? 128) eqn:E1; [lia|].
  destruct (r <? 2048) eqn:E2; [repeat constructor; lia|].
  destruct (is_surrogate r || (1114111 <? r)) eqn:Es; [repeat constructor; lia|].
  unfold is_surrogate in Es.
  destruct (r <? 65536) eqn:E3; repeat constructor; lia.
Qed.

(* every decoded rune is a scalar value *)
Lemma decode_runes_scalar s : Forall scalar (decode_runes s).
Proof.
  assert (H : forall n (s : bytes), (length s <= n)%nat -> Forall scalar (decode_runes s)).
  { induction n as [|n IH]; intros [|b0 r0] Hl; try (simpl; constructor); simpl in Hl; try lia.
    assert (HF : Forall scalar (FFFD :: decode_runes r0)).
    { constructor; [unfold scalar, FFFD; lia | apply IH; lia]. }
    cbn [decode_runes].
    destruct (b0 <? 128) eqn:E0.
    { constructor; [unfold scalar; lia | apply IH; lia]. }
    destruct ((194 <=? b0) && (b0 <=? 223)) eqn:E2.
    { destruct r0 as [|b1 r1]; [exact HF|].
      destruct (cont b1) eqn:C1; [|exact HF].
      constructor; [unfold scalar, cont in *; lia | apply IH; simpl in *; lia]. }
    destruct ((224 <=? b0) && (b0 <=? 239)) eqn:E3.
    { destruct r0 as [|b1 [|b2 r2]]; try exact HF.
      destruct (acc3 b0 b1 && cont b2) eqn:C; [|exact HF].
      constructor; [|apply IH; simpl in *; lia].
      unfold scalar, acc3, cont in *.
      destruct (b0 =? 224) eqn:Ea; [lia|]. destruct (b0 =? 237) eqn:Eb; lia. }
    destruct ((240 <=? b0) && (b0 <=? 244)) eqn:E4.
    { destruct r0 as [|b1 [|b2 [|b3 r3]]]; try exact HF.
      destruct (acc4 b0 b1 && cont b2 && cont b3) eqn:C; [|exact HF].
      constructor; [|apply IH; simpl in *; lia].
      unfold scalar, acc4, cont in *.
      destruct (b0 =? 240) eqn:Ea; [lia|]. destruct (b0 =? 244) eqn:Eb; lia. }
    exact HF. }
  apply (H (length s)). lia.
Qed.

Lemma decode_encode_runes l : Forall scalar l -> decode_runes (encode_runes l) = l.
Proof.
  induction 1 as [|r l Hr Hl IH]; [reflexivity|].
  unfold encode_runes in *. simpl. rewrite decode_encode by exact Hr. f_equal. exact IH.
Qed.
