(* C12: URLSetSanitized (model/UrlSet.v) against the WHATWG srcset parser (spec/Srcset.v).
   Contents: the two regenerated tables pinned (ws_table_ok, metachars_table_ok); consumeIn /
   consumeNotIn; the loop as a fold over the scanned pairs and the sufficiency of its fuel; the
   output as join of the rendered kept pairs; the alphabet of what the strconv.ParseFloat
   recogniser accepts (metadata_alpha); UTF-8 decoding commutes with appending ASCII; isSafeURL
   does not tell a leading/trailing "," from "%2c" (a reachable-derivative-state check on the
   regenerated safeURLPattern: suffix_blind, *_trailing_ok, *_leading_ok); the Go scanner and the
   WHATWG parser on canonical candidate lists (scan_canon, candidates_canon); the theorems of
   props/C12.v; non-vacuity examples. *)
From Coq Require Import ZArith.
From V Require Import lib.Base lib.Regex lib.RegexDecide lib.Utf8 gen.GenRegex gen.GenUnicode gen.GenTables.
From V Require Import model.Url model.UrlSet spec.Srcset spec.UrlSetSpec.
From V Require Import proofs.RegexFacts proofs.RegexDecideFacts proofs.Utf8Facts.
From Coq Require Import ZifyBool ZifyN ZifyNat.
Local Open Scope N_scope.


(* ------------------------------------------------------------------ *)
(* side conditions on the regenerated tables *)
Lemma ws_table_ok : T_asciiWhitespace = [9; 10; 12; 13; 32].
Proof. vm_compute. reflexivity. Qed.
Lemma metachars_table_ok : T_srcsetMetachars = [9; 10; 12; 13; 32; 44].
Proof. vm_compute. reflexivity. Qed.

Lemma ws_mem b : mem_N b T_asciiWhitespace = ascii_ws b.
Proof. rewrite ws_table_ok. unfold mem_N, ascii_ws. simpl. rewrite orb_false_r.
  rewrite !(N.eqb_sym b). rewrite !orb_assoc. reflexivity. Qed.
Lemma meta_mem b : mem_N b T_srcsetMetachars = ascii_ws b || (b =? 44).
Proof. rewrite metachars_table_ok. unfold mem_N, ascii_ws. simpl. rewrite orb_false_r.
  rewrite !(N.eqb_sym b). rewrite !orb_assoc. reflexivity. Qed.

(* ------------------------------------------------------------------ *)
(* consumeIn / consumeNotIn *)
Lemma consume_in_spec t (s : bytes) : forall c r, consume_in t s = (c, r) ->
  s = c ++ r /\ Forall (fun b => mem_N b t = true) c /\
  match r with [] => True | b :: _ => mem_N b t = false end.
Proof.
  induction s as [|b s IH]; intros c r H; simpl in H.
  - inversion H; subst. repeat split; constructor.
  - destruct (mem_N b t) eqn:E.
    + destruct (consume_in t s) as [c' r'] eqn:E'. inversion H; subst.
      destruct (IH _ _ eq_refl) as (-> & Hc & Hr). repeat split; auto.
    + inversion H; subst. repeat split; auto.
Qed.

Lemma consume_not_in_spec t (s : bytes) : forall c r, consume_not_in t s = (c, r) ->
  s = c ++ r /\ Forall (fun b => mem_N b t = false) c /\
  match r with [] => True | b :: _ => mem_N b t = true end.
Proof.
  induction s as [|b s IH]; intros c r H; simpl in H.
  - inversion H; subst. repeat split; constructor.
  - destruct (mem_N b t) eqn:E.
    + inversion H; subst. repeat split; auto.
    + destruct (consume_not_in t s) as [c' r'] eqn:E'. inversion H; subst.
      destruct (IH _ _ eq_refl) as (-> & Hc & Hr). repeat split; auto.
Qed.

Lemma consume_in_stop t (a r : bytes) :
  Forall (fun b => mem_N b t = true) a ->
  match r with [] => True | b :: _ => mem_N b t = false end ->
  consume_in t (a ++ r) = (a, r).
Proof.
  induction 1 as [|b a Hb Ha IH]; intros Hr; simpl.
  - destruct r as [|b r]; [reflexivity|]. simpl. rewrite Hr. reflexivity.
  - rewrite Hb, (IH Hr). reflexivity.
Qed.

Lemma consume_not_in_stop t (a r : bytes) :
  Forall (fun b => mem_N b t = false) a ->
  match r with [] => True | b :: _ => mem_N b t = true end ->
  consume_not_in t (a ++ r) = (a, r).
Proof.
  induction 1 as [|b a Hb Ha IH]; intros Hr; simpl.
  - destruct r as [|b r]; [reflexivity|]. simpl. rewrite Hr. reflexivity.
  - rewrite Hb, (IH Hr). reflexivity.
Qed.

Lemma consume_in_len t (s : bytes) : (length (snd (consume_in t s)) <= length s)%nat.
Proof.
  destruct (consume_in t s) as [c r] eqn:E. apply consume_in_spec in E as (-> & _). simpl.
  rewrite app_length. lia.
Qed.
Lemma consume_not_in_len t (s : bytes) : (length (snd (consume_not_in t s)) <= length s)%nat.
Proof.
  destruct (consume_not_in t s) as [c r] eqn:E. apply consume_not_in_spec in E as (-> & _). simpl.
  rewrite app_length. lia.
Qed.

(* one round of the loop *)
Lemma scan_one_spec (s : bytes) c rest : scan_one s = (c, rest) ->
  (length rest <= length s)%nat /\
  Forall (fun b => mem_N b T_asciiWhitespace = false) (fst c) /\
  Forall (fun b => mem_N b T_srcsetMetachars = false) (snd c).
Proof.
  unfold scan_one. intros H.
  pose proof (consume_in_len T_asciiWhitespace s) as L1.
  destruct (consume_not_in T_asciiWhitespace (snd (consume_in T_asciiWhitespace s))) as [url s2] eqn:E2.
  pose proof (consume_not_in_len T_asciiWhitespace (snd (consume_in T_asciiWhitespace s))) as L2.
  rewrite E2 in L2. simpl in L2.
  pose proof (consume_in_len T_asciiWhitespace s2) as L3.
  destruct (consume_not_in T_srcsetMetachars (snd (consume_in T_asciiWhitespace s2))) as [meta s4] eqn:E4.
  pose proof (consume_not_in_len T_srcsetMetachars (snd (consume_in T_asciiWhitespace s2))) as L4.
  rewrite E4 in L4. simpl in L4.
  pose proof (consume_in_len T_asciiWhitespace s4) as L5.
  inversion H; subst. simpl.
  apply consume_not_in_spec in E2 as (_ & Hu & _). apply consume_not_in_spec in E4 as (_ & Hm & _).
  repeat split; auto. lia.
Qed.

(* ------------------------------------------------------------------ *)
(* the loop is a fold over the scanned candidates; the fuel suffices *)
Lemma url_loop_fold safe : forall f (s : bytes) buf, (length s < f)%nat ->
  url_loop_with safe f s buf = Some (fold_left (append_cand_with safe) (scan f s) buf).
Proof.
  induction f as [|f IH]; intros s buf Hf; [lia|].
  destruct s as [|b0 s0]; [reflexivity|].
  cbn [url_loop_with scan].
  destruct (scan_one (b0 :: s0)) as [c rest] eqn:E.
  destruct (scan_one_spec _ _ _ E) as (Hl & _).
  destruct rest as [|b rest']; [reflexivity|].
  destruct (b =? 44); [|reflexivity].
  simpl. apply IH. simpl in Hl, Hf. lia.
Qed.

Lemma url_loop_fuel safe (s : bytes) : url_loop_with safe (S (length s)) s [] <> None.
Proof. rewrite url_loop_fold by lia. discriminate. Qed.

Lemma scan_props : forall f (s : bytes),
  Forall (fun c => Forall (fun b => mem_N b T_asciiWhitespace = false) (fst c) /\
                   Forall (fun b => mem_N b T_srcsetMetachars = false) (snd c)) (scan f s).
Proof.
  induction f as [|f IH]; intros s; [constructor|].
  destruct s as [|b0 s0]; [constructor|].
  cbn [scan]. destruct (scan_one (b0 :: s0)) as [c rest] eqn:E.
  destruct (scan_one_spec _ _ _ E) as (_ & Hu & Hm).
  destruct rest as [|b rest']; [repeat constructor; auto|].
  destruct (b =? 44); repeat constructor; auto.
Qed.

(* ------------------------------------------------------------------ *)
(* join *)
Lemma join_cons sp x l : l <> [] -> join sp (x :: l) = x ++ sp ++ join sp l.
Proof. destruct l; [congruence | reflexivity]. Qed.

Lemma join_snoc sp l x : l <> [] -> join sp (l ++ [x]) = join sp l ++ sp ++ x.
Proof.
  induction l as [|y l IH]; [congruence|]. intros _.
  destruct l as [|z l]; [reflexivity|].
  change ((y :: z :: l) ++ [x]) with (y :: ((z :: l) ++ [x])).
  rewrite (join_cons sp y ((z :: l) ++ [x])) by (simpl; discriminate).
  rewrite IH by discriminate. rewrite (join_cons sp y (z :: l)) by discriminate.
  rewrite <- !app_assoc. reflexivity.
Qed.

Lemma join_nil_iff sp l : Forall (fun x => x <> []) l -> (join sp l = [] <-> l = []).
Proof.
  intros H. split; [|intros ->; reflexivity].
  destruct l as [|x l]; [reflexivity|]. inversion H; subst.
  destruct l; simpl; [contradiction|]. destruct x; [contradiction | discriminate].
Qed.

(* ------------------------------------------------------------------ *)
(* appendURLToSet *)
Lemma strip_trailing_comma_spec (t : bytes) : forall m ce, strip_trailing_comma t = (m, ce) ->
  t = m ++ (if ce then [44] else []) /\ (ce = false -> t = [] \/ last t 0 <> 44).
Proof.
  induction t as [|b t IH]; intros m ce H.
  - inversion H; subst. split; [reflexivity | auto].
  - cbn [strip_trailing_comma] in H. destruct t as [|b' t'].
    + destruct (b =? 44) eqn:E; inversion H; subst.
      * apply N.eqb_eq in E; subst. split; [reflexivity | discriminate].
      * split; [reflexivity|]. intros _. right. simpl. apply N.eqb_neq in E. exact E.
    + destruct (strip_trailing_comma (b' :: t')) as [m' ce'] eqn:E'. inversion H; subst.
      destruct (IH _ _ eq_refl) as (Ht & Hl). split.
      * rewrite Ht at 1. reflexivity.
      * intros Hce. right. destruct (Hl Hce) as [C|C]; [discriminate|]. exact C.
Qed.

Lemma render_url_nonempty u : u <> [] -> render_url u <> [].
Proof.
  destruct u as [|b0 t]; [congruence|]. intros _. unfold render_url.
  destruct (b0 =? 44) eqn:E.
  - destruct (strip_trailing_comma t). unfold pct_comma, B. simpl. discriminate.
  - destruct (strip_trailing_comma (b0 :: t)) as [m ce] eqn:E'.
    apply strip_trailing_comma_spec in E' as (Ht & _).
    destruct m; [|discriminate]. destruct ce; [|discriminate]. unfold pct_comma, B. simpl. discriminate.
Qed.

Lemma render_nonempty c : fst c <> [] -> render c <> [].
Proof.
  destruct c as [u m]. simpl. intros H. unfold render. simpl. pose proof (render_url_nonempty _ H).
  destruct (render_url u); [contradiction | simpl; discriminate].
Qed.

(* ------------------------------------------------------------------ *)
(* the output is the join of the rendered, kept candidates *)
Lemma snoc_buf (j x : bytes) : j <> [] -> (if is_nil j then [] else j ++ sep) ++ x = j ++ sep ++ x.
Proof. destruct j; [congruence|]. intros _. simpl. rewrite <- !app_assoc. reflexivity. Qed.

Lemma finish_buf (j : bytes) : j <> [] -> match j with [] => innocuous_url | _ => j end = j.
Proof. destruct j; [congruence | reflexivity]. Qed.

Lemma fold_append safe : forall cs acc,
  Forall (fun c => fst c <> []) acc ->
  fold_left (append_cand_with safe) cs (join sep (map render acc)) =
  join sep (map render (acc ++ filter (cand_ok_with safe) cs)).
Proof.
  induction cs as [|c cs IH]; intros acc Hacc; simpl.
  - rewrite app_nil_r. reflexivity.
  - unfold append_cand_with at 2. destruct (cand_ok_with safe c) eqn:Hc.
    + assert (Hne : fst c <> []).
      { destruct c as [u m]. unfold cand_ok_with in Hc. simpl in *. destruct u; [simpl in Hc; discriminate | discriminate]. }
      replace (acc ++ c :: filter (cand_ok_with safe) cs)
        with ((acc ++ [c]) ++ filter (cand_ok_with safe) cs) by (rewrite <- app_assoc; reflexivity).
      rewrite <- IH by (apply Forall_app; split; [exact Hacc | repeat constructor; exact Hne]).
      f_equal. rewrite map_app. simpl.
      destruct acc as [|a acc']; [reflexivity|].
      rewrite join_snoc by discriminate.
      apply snoc_buf.
      intros C. apply join_nil_iff in C; [discriminate|].
      apply Forall_map. eapply Forall_impl; [|exact Hacc]. intros x Hx. apply render_nonempty; exact Hx.
    + apply IH. exact Hacc.
Qed.

Definition kept_with safe (s : bytes) : list (bytes * bytes) := filter (cand_ok_with safe) (scan_all s).

Lemma urlset_sanitized_with_eq safe (s : bytes) :
  urlset_sanitized_with safe s =
  match kept_with safe s with [] => innocuous_url | cs => join sep (map render cs) end.
Proof.
  unfold urlset_sanitized_with, kept_with, scan_all. rewrite url_loop_fold by lia.
  remember (scan (S (length s)) s) as sc eqn:Esc. clear Esc.
  pose proof (fold_append safe sc [] (Forall_nil _)) as F. simpl in F. rewrite F. clear F.
  remember (filter (cand_ok_with safe) sc) as cs eqn:Ecs.
  assert (Hcs : Forall (fun c => fst c <> []) cs).
  { apply Forall_forall. intros c Hc. rewrite Ecs in Hc. apply filter_In in Hc as [_ Hc].
    destruct c as [u m]. unfold cand_ok_with in Hc. simpl in *. destruct u; [simpl in Hc; discriminate | discriminate]. }
  clear Ecs. destruct cs as [|c cs']; [reflexivity|].
  apply finish_buf.
  intros C. apply join_nil_iff in C; [discriminate|].
  apply Forall_map. eapply Forall_impl; [|exact Hcs]. intros x Hx. apply render_nonempty; exact Hx.
Qed.


(* ------------------------------------------------------------------ *)
(* the alphabet of what strconv.ParseFloat accepts: digits, ASCII letters, + - . _ *)
Definition float_char (c : N) : bool :=
  is_digit c || is_ascii_letter c || (c =? 43) || (c =? 45) || (c =? 46) || (c =? 95).

Definition fc (c : N) : Prop := float_char c = true.

(* s = pre ++ r with pre over the alphabet *)
Definition Pre (s r : bytes) : Prop := exists pre, s = pre ++ r /\ Forall fc pre.

Lemma Pre_refl s : Pre s s.
Proof. exists []. split; [reflexivity | constructor]. Qed.
Lemma Pre_cons c s r : fc c -> Pre s r -> Pre (c :: s) r.
Proof. intros Hc (pre & -> & Hp). exists (c :: pre). split; [reflexivity | constructor; assumption]. Qed.
Lemma Pre_trans s r r' : Pre s r -> Pre r r' -> Pre s r'.
Proof.
  intros (p1 & -> & H1) (p2 & -> & H2). exists (p1 ++ p2). split; [apply app_assoc|].
  apply Forall_app; split; assumption.
Qed.
Lemma Pre_nil s : Pre s [] -> Forall fc s.
Proof. intros (pre & -> & H). rewrite app_nil_r. exact H. Qed.

Lemma fc_digit c : is_digit c = true -> fc c.
Proof. unfold fc, float_char. intros ->. reflexivity. Qed.
Lemma fc_letter c : is_ascii_letter c = true -> fc c.
Proof. unfold fc, float_char. intros ->. rewrite orb_true_r. reflexivity. Qed.
Lemma fc_lower c k : lower c =? k = true -> 97 <= k -> k <= 122 -> fc c.
Proof.
  intros E H1 H2. apply fc_letter. unfold is_ascii_letter. apply N.eqb_eq in E. rewrite E. lia.
Qed.
Lemma fc_hex_letter c : is_hex_letter c = true -> fc c.
Proof.
  intros H. apply fc_letter. unfold is_hex_letter in H. unfold is_ascii_letter.
  remember (lower c) as l. lia.
Qed.
Lemma fc_eq c k : c =? k = true -> float_char k = true -> fc c.
Proof. intros E H. apply N.eqb_eq in E. subst. exact H. Qed.

Lemma letter_ranges c :
  ((65 <=? c) && (c <=? 90)) || ((97 <=? c) && (c <=? 122)) = true -> is_ascii_letter c = true.
Proof.
  intros H. assert (Hc : c < 256) by lia.
  revert H. apply (forall_byte (fun c =>
    implb (((65 <=? c) && (c <=? 90)) || ((97 <=? c) && (c <=? 122))) (is_ascii_letter c)))
    in Hc; [|vm_compute; reflexivity].
  intros H. rewrite H in Hc. exact Hc.
Qed.

(* ------------------------------------------------------------------ *)
(* the scanners of readFloat stay inside the alphabet *)
Lemma mant_loop_pre hex : forall (s : bytes) sd sg nd dp m us st r,
  mant_loop hex s sd sg nd dp m us = (st, r) -> Pre s r.
Proof.
  induction s as [|c s IH]; intros sd sg nd dp m us st r H; simpl in H.
  - inversion H; subst. apply Pre_refl.
  - destruct (c =? 95) eqn:E95.
    { apply Pre_cons; [eapply fc_eq; [exact E95 | reflexivity] | eapply IH; exact H]. }
    destruct (c =? 46) eqn:E46.
    { destruct sd.
      - inversion H; subst. apply Pre_refl.
      - apply Pre_cons; [eapply fc_eq; [exact E46 | reflexivity] | eapply IH; exact H]. }
    destruct (is_digit c) eqn:Ed.
    { destruct ((c =? 48) && (nd =? 0));
        (apply Pre_cons; [apply fc_digit; exact Ed | eapply IH; exact H]). }
    destruct (hex && is_hex_letter c) eqn:Eh.
    { apply andb_true_iff in Eh as [_ Eh].
      apply Pre_cons; [apply fc_hex_letter; exact Eh | eapply IH; exact H]. }
    inversion H; subst. apply Pre_refl.
Qed.

Lemma exp_digits_pre : forall (s : bytes) e us st r, exp_digits s e us = (st, r) -> Pre s r.
Proof.
  induction s as [|c s IH]; intros e us st r H; simpl in H.
  - inversion H; subst. apply Pre_refl.
  - destruct (c =? 95) eqn:E95.
    { apply Pre_cons; [eapply fc_eq; [exact E95 | reflexivity] | eapply IH; exact H]. }
    destruct (is_digit c) eqn:Ed.
    { apply Pre_cons; [apply fc_digit; exact Ed | eapply IH; exact H]. }
    inversion H; subst. apply Pre_refl.
Qed.

Lemma strip_sign_pre s : Pre s (strip_sign s).
Proof.
  destruct s as [|c t]; [apply Pre_refl|]. simpl.
  destruct ((c =? 43) || (c =? 45)) eqn:E; [|apply Pre_refl].
  apply Pre_cons; [|apply Pre_refl]. apply orb_true_iff in E as [E|E];
    (eapply fc_eq; [exact E | reflexivity]).
Qed.

Lemma finish_rest s hex m nd dp us r f r' : finish s hex m nd dp us r = Some (f, r') -> r' = r.
Proof. unfold finish. destruct (us && negb _); intros H; inversion H; reflexivity. Qed.

Lemma read_float_pre (s : bytes) f r : read_float s = Some (f, r) -> Pre s r.
Proof.
  unfold read_float. intros H.
  apply (Pre_trans _ _ _ (strip_sign_pre s)).
  set (s0 := strip_sign s) in *. clearbody s0.
  set (hex := match s0 with
              | c0 :: c1 :: _ :: _ => (c0 =? 48) && (lower c1 =? 120)
              | _ => false
              end) in *.
  set (s1 := if hex then skipn 2 s0 else s0) in *.
  assert (H01 : Pre s0 s1).
  { subst s1. destruct hex eqn:Eh; [|apply Pre_refl].
    destruct s0 as [|c0 [|c1 [|c2 s2]]]; try discriminate. subst hex.
    apply andb_true_iff in Eh as [E0 E1]. simpl.
    apply Pre_cons; [eapply fc_eq; [exact E0 | reflexivity]|].
    apply Pre_cons; [eapply fc_lower; [exact E1 | lia | lia]|]. apply Pre_refl. }
  apply (Pre_trans _ _ _ H01). clear H01.
  clearbody s1. clearbody hex. clear s0.
  destruct (mant_loop hex s1 false false 0 0%Z 0 false) as [[[[[[sd sg] nd] dp] m] us] r0] eqn:EM.
  apply mant_loop_pre in EM. apply (Pre_trans _ _ _ EM). clear EM.
  destruct (negb sg); [discriminate|].
  set (dp1 := if hex then ((if sd then dp else Z.of_N nd) * 4)%Z else (if sd then dp else Z.of_N nd)) in *.
  clearbody dp1.
  destruct r0 as [|c r1].
  { destruct hex; [discriminate|]. apply finish_rest in H. subst. apply Pre_refl. }
  destruct (lower c =? (if hex then 112 else 101)) eqn:Ec.
  2:{ destruct hex; [discriminate|]. apply finish_rest in H. subst. apply Pre_refl. }
  assert (Hc : fc c).
  { destruct hex; (eapply fc_lower; [exact Ec | lia | lia]). }
  apply Pre_cons; [exact Hc|].
  destruct r1 as [|c1 r2]; [discriminate|].
  assert (Hsign : forall (neg : bool) (r3 : bytes),
             (if c1 =? 43 then (false, r2) else if c1 =? 45 then (true, r2) else (false, c1 :: r2)) = (neg, r3) ->
             Pre (c1 :: r2) r3).
  { intros neg r3 E. destruct (c1 =? 43) eqn:E43.
    - inversion E; subst. apply Pre_cons; [eapply fc_eq; [exact E43 | reflexivity] | apply Pre_refl].
    - destruct (c1 =? 45) eqn:E45.
      + inversion E; subst. apply Pre_cons; [eapply fc_eq; [exact E45 | reflexivity] | apply Pre_refl].
      + inversion E; subst. apply Pre_refl. }
  destruct (if c1 =? 43 then (false, r2) else if c1 =? 45 then (true, r2) else (false, c1 :: r2))
    as [neg r3] eqn:Es.
  apply (Pre_trans _ _ _ (Hsign _ _ eq_refl)). clear Hsign Es.
  destruct r3 as [|d r3']; [discriminate|].
  destruct (is_digit d); [|discriminate].
  destruct (exp_digits (d :: r3') 0 us) as [[e us'] r4] eqn:EE.
  apply exp_digits_pre in EE. apply finish_rest in H. subst. exact EE.
Qed.

(* ------------------------------------------------------------------ *)
(* inf / infinity / nan *)
Lemma cpl_prefix (p : bytes) : Forall (fun q => 97 <= q /\ q <= 122) p ->
  forall k (s : bytes), (k <= common_prefix_len_ic s p)%nat -> Forall fc (firstn k s).
Proof.
  induction 1 as [|q p Hq Hp IH]; intros k s Hk.
  - destruct s; simpl in Hk; assert (k = O) by lia; subst; simpl; constructor.
  - destruct k as [|k]; [simpl; constructor|].
    destruct s as [|c s]; [simpl in Hk; lia|]. simpl in Hk.
    destruct ((if (65 <=? c) && (c <=? 90) then c + 32 else c) =? q) eqn:E; [|lia].
    simpl. constructor; [|apply IH; lia].
    apply fc_letter, letter_ranges. destruct ((65 <=? c) && (c <=? 90)) eqn:Eu; lia.
Qed.

Lemma infinity_letters : Forall (fun q => 97 <= q /\ q <= 122) (B "infinity").
Proof. unfold B; simpl. repeat constructor; lia. Qed.
Lemma nan_letters : Forall (fun q => 97 <= q /\ q <= 122) (B "nan").
Proof. unfold B; simpl. repeat constructor; lia. Qed.

Lemma inf_len_alpha (t : bytes) n : inf_len t = Some n -> n = length t -> Forall fc t.
Proof.
  unfold inf_len. intros H Hn.
  set (k := common_prefix_len_ic t (B "infinity")) in *.
  assert (Hle : (n <= k)%nat).
  { destruct (Nat.ltb 3 k && Nat.ltb k 8)%bool eqn:E.
    - simpl in H. inversion H; subst n. lia.
    - destruct (Nat.eqb k 3 || Nat.eqb k 8)%bool; inversion H; subst; lia. }
  pose proof (cpl_prefix _ infinity_letters n t Hle) as HF.
  rewrite Hn in HF. rewrite firstn_all in HF. exact HF.
Qed.

Lemma special_alpha (s : bytes) n : special s = Some n -> n = length s -> Forall fc s.
Proof.
  destruct s as [|c t]; [discriminate|]. unfold special.
  destruct ((c =? 43) || (c =? 45)) eqn:Es.
  { destruct (inf_len t) as [k|] eqn:Ei; [|discriminate]. intros H Hn. inversion H as [Hk]. rewrite <- Hk in Hn. simpl in Hn.
    constructor.
    - apply orb_true_iff in Es as [E|E]; (eapply fc_eq; [exact E | reflexivity]).
    - eapply inf_len_alpha; [exact Ei | simpl in Hn; lia]. }
  destruct ((c =? 105) || (c =? 73)) eqn:Ei.
  { intros H Hn. eapply inf_len_alpha; [exact H | exact Hn]. }
  destruct ((c =? 110) || (c =? 78)) eqn:En; [|discriminate].
  destruct (Nat.eqb (common_prefix_len_ic (c :: t) (B "nan")) 3) eqn:E3; [|discriminate].
  intros H Hn. inversion H as [Hk]. rewrite <- Hk in Hn.
  apply Nat.eqb_eq in E3.
  pose proof (cpl_prefix _ nan_letters 3%nat (c :: t)) as HF.
  assert (Hle : (3 <= common_prefix_len_ic (c :: t) (B "nan"))%nat) by lia.
  specialize (HF Hle). rewrite Hn in HF. rewrite firstn_all in HF. exact HF.
Qed.

Lemma parse_float_ok_alpha (s : bytes) : parse_float_ok s = true -> Forall fc s.
Proof.
  unfold parse_float_ok. destruct (special s) as [n|] eqn:Es.
  - intros H. apply Nat.eqb_eq in H. eapply special_alpha; eassumption.
  - destruct (read_float s) as [[f r]|] eqn:Er; [|discriminate].
    intros H. apply andb_true_iff in H as [Hr _].
    destruct r; [|discriminate]. apply read_float_pre in Er. apply Pre_nil; exact Er.
Qed.

Lemma metadata_alpha (m : bytes) : is_optional_src_metadata_well_formed m = true -> Forall fc m.
Proof.
  unfold is_optional_src_metadata_well_formed. destruct m as [|b m']; [constructor|].
  set (m := b :: m'). destruct (is_ascii_letter (last m 0)) eqn:El; intros H.
  - apply parse_float_ok_alpha in H.
    rewrite (app_removelast_last 0 (l := m)) by discriminate.
    apply Forall_app; split; [exact H | repeat constructor; apply fc_letter; exact El].
  - apply parse_float_ok_alpha; exact H.
Qed.

(* none of the characters that structure a srcset is in the alphabet *)
Lemma fc_not_structural c : fc c -> c <> 40 /\ c <> 41 /\ c <> 44 /\ ascii_ws c = false.
Proof.
  intros H. assert (Hn : forall k, float_char k = false -> c <> k) by (intros k Hk ->; unfold fc in H; congruence).
  repeat split; try (apply Hn; vm_compute; reflexivity).
  unfold ascii_ws.
  destruct (c =? 9) eqn:E1; [apply N.eqb_eq in E1; exfalso; revert E1; apply Hn; vm_compute; reflexivity|].
  destruct (c =? 10) eqn:E2; [apply N.eqb_eq in E2; exfalso; revert E2; apply Hn; vm_compute; reflexivity|].
  destruct (c =? 12) eqn:E3; [apply N.eqb_eq in E3; exfalso; revert E3; apply Hn; vm_compute; reflexivity|].
  destruct (c =? 13) eqn:E4; [apply N.eqb_eq in E4; exfalso; revert E4; apply Hn; vm_compute; reflexivity|].
  destruct (c =? 32) eqn:E5; [apply N.eqb_eq in E5; exfalso; revert E5; apply Hn; vm_compute; reflexivity|].
  reflexivity.
Qed.


(* ------------------------------------------------------------------ *)
(* UTF-8 decoding commutes with appending ASCII *)
Lemma decode_unfold b0 r0 : decode_runes (b0 :: r0) =
      if b0 <? 128 then b0 :: decode_runes r0
      else if (194 <=? b0) && (b0 <=? 223) then
        match r0 with
        | b1 :: r1 =>
            if cont b1 then ((b0 - 192) * 64 + (b1 - 128)) :: decode_runes r1
            else FFFD :: decode_runes r0
        | _ => FFFD :: decode_runes r0
        end
      else if (224 <=? b0) && (b0 <=? 239) then
        match r0 with
        | b1 :: b2 :: r2 =>
            if acc3 b0 b1 && cont b2
            then ((b0 - 224) * 4096 + (b1 - 128) * 64 + (b2 - 128)) :: decode_runes r2
            else FFFD :: decode_runes r0
        | _ => FFFD :: decode_runes r0
        end
      else if (240 <=? b0) && (b0 <=? 244) then
        match r0 with
        | b1 :: b2 :: b3 :: r3 =>
            if acc4 b0 b1 && cont b2 && cont b3
            then ((b0 - 240) * 262144 + (b1 - 128) * 4096 + (b2 - 128) * 64 + (b3 - 128))
                   :: decode_runes r3
            else FFFD :: decode_runes r0
        | _ => FFFD :: decode_runes r0
        end
      else FFFD :: decode_runes r0.
Proof. reflexivity. Qed.

Local Ltac rw_ih IHr r :=
  let X := fresh "X" in
  pose proof (IHr r ltac:(simpl; lia)) as X; cbn [app] in X; rewrite X; clear X.

Lemma decode_app_ascii_n : forall n (s : bytes), (length s <= n)%nat -> forall b a, b < 128 ->
  decode_runes (s ++ b :: a) = decode_runes s ++ decode_runes (b :: a).
Proof.
  induction n as [|n IH]; intros s Hl b a Hb.
  { destruct s; [reflexivity | simpl in Hl; lia]. }
  destruct s as [|b0 r0]; [reflexivity|]. simpl in Hl.
  assert (Hcb : cont b = false) by (unfold cont; lia).
  remember (decode_runes (b :: a)) as tl eqn:Etl.
  assert (IHr : forall r : bytes, (length r <= length r0)%nat ->
                decode_runes (r ++ b :: a) = decode_runes r ++ tl).
  { intros r Hr. rewrite Etl. apply IH; [lia | exact Hb]. }
  change ((b0 :: r0) ++ b :: a) with (b0 :: (r0 ++ b :: a)).
  rewrite (decode_unfold b0 (r0 ++ b :: a)), (decode_unfold b0 r0).
  destruct (b0 <? 128).
  { rewrite IHr by lia. reflexivity. }
  destruct ((194 <=? b0) && (b0 <=? 223)).
  { destruct r0 as [|b1 r1].
    - cbn [app]. rewrite Hcb. rewrite <- Etl. reflexivity.
    - cbn [app]. destruct (cont b1).
      + rewrite IHr by (simpl; lia). reflexivity.
      + rw_ih IHr (b1 :: r1). reflexivity. }
  destruct ((224 <=? b0) && (b0 <=? 239)).
  { destruct r0 as [|b1 [|b2 r2]].
    - cbn [app]. destruct a as [|a0 a']; rewrite <- ?Etl; [reflexivity|].
      rewrite Bool.andb_comm. simpl.
      (* b is the second byte: acc3 b0 b fails or not, either way FFFD *)
      destruct (cont a0 && acc3 b0 b) eqn:E; [|reflexivity].
      exfalso. apply andb_true_iff in E as [_ E]. unfold acc3, cont in E.
      destruct (b0 =? 224); [lia|]. destruct (b0 =? 237); lia.
    - cbn [app]. rewrite Hcb, andb_false_r.
      rw_ih IHr ([b1]). reflexivity.
    - cbn [app]. destruct (acc3 b0 b1 && cont b2).
      + rewrite IHr by (simpl; lia). reflexivity.
      + rw_ih IHr (b1 :: b2 :: r2). reflexivity. }
  destruct ((240 <=? b0) && (b0 <=? 244)).
  { assert (Ha4 : acc4 b0 b = false).
    { unfold acc4, cont. destruct (b0 =? 240); [lia|]. destruct (b0 =? 244); lia. }
    destruct r0 as [|b1 [|b2 [|b3 r3]]].
    - cbn [app]. rewrite <- Etl.
      destruct a as [|a0 [|a1 a']]; try reflexivity.
      rewrite Ha4. reflexivity.
    - cbn [app]. rw_ih IHr ([b1]).
      destruct a as [|a0 a']; [reflexivity|].
      rewrite Hcb, andb_false_r. reflexivity.
    - cbn [app]. rewrite Hcb, andb_false_r.
      rw_ih IHr ([b1; b2]). reflexivity.
    - cbn [app]. destruct (acc4 b0 b1 && cont b2 && cont b3).
      + rewrite IHr by (simpl; lia). reflexivity.
      + rw_ih IHr (b1 :: b2 :: b3 :: r3). reflexivity. }
  rewrite IHr by lia. reflexivity.
Qed.

Lemma decode_app_ascii (s a : bytes) : Forall (fun c => c < 128) a ->
  decode_runes (s ++ a) = decode_runes s ++ a.
Proof.
  intros Ha. destruct a as [|b a']; [rewrite !app_nil_r; reflexivity|].
  inversion Ha; subst.
  rewrite (decode_app_ascii_n (length s) s (le_n _) b a') by assumption.
  f_equal. apply decode_all_ascii.
  assert (E : forall l : bytes, Forall (fun c => c < 128) l -> decode_runes l = l).
  { induction 1 as [|x l Hx Hl IHl]; [reflexivity|]. rewrite decode_ascii by exact Hx. f_equal. exact IHl. }
  rewrite (E (b :: a') Ha). exact Ha.
Qed.

(* ------------------------------------------------------------------ *)
(* Reachable derivative states of one expression (st_b is unused): a list closed under the
   successor of every alphabet cell contains, for every word w, the state reached after w. *)
Definition closed1 (bs reps : list N) (l : list st) : bool :=
  mem_N 10 bs && mem_N 11 bs && forallb (fun b => mem_N b reps) bs && mem_N 0 reps &&
  forallb (fun x => ranges_ok bs (st_a x) && ranges_ok bs (st_b x) &&
                    forallb (fun c => st_mem (succ x c) l) reps) l.

Lemma closed1_reach bs reps l : closed1 bs reps l = true ->
  forall w x, In x l -> exists y, In y l /\
    forall v, accepts_from (st_p x) (st_a x) (w ++ v) = accepts_from (st_p y) (st_a y) v.
Proof.
  unfold closed1. intros H.
  apply andb_true_iff in H as [H Hall]. apply andb_true_iff in H as [H H0].
  apply andb_true_iff in H as [H Hbs]. apply andb_true_iff in H as [H10 H11].
  apply mem_N_In in H10, H11, H0.
  rewrite forallb_forall in Hall. rewrite forallb_forall in Hbs.
  induction w as [|c w IH]; intros x Hin.
  - exists x. split; [exact Hin | reflexivity].
  - pose proof (Hall x Hin) as Hx. apply andb_true_iff in Hx as [Hx Hsucc].
    apply andb_true_iff in Hx as [Hra Hrb].
    rewrite forallb_forall in Hsucc.
    assert (Hrep : In (rep bs c) reps).
    { destruct (rep_in bs c) as [E|E]; [rewrite E; exact H0 | apply mem_N_In, Hbs, E]. }
    specialize (Hsucc _ Hrep). apply st_mem_spec in Hsucc as (y & Hy & Ep & Ea & Eb).
    unfold succ in Ep, Ea, Eb; cbn [st_p st_a st_b] in Ep, Ea, Eb.
    destruct (IH y Hy) as (z & Hz & Hzv). exists z. split; [exact Hz|].
    intros v. cbn [app accepts_from].
    rewrite (deriv_rep bs _ c _ H10 H11 Hra), (pclass_rep bs c H10 H11).
    rewrite <- Ep, <- Ea. apply Hzv.
Qed.

(* replacing a suffix x by y does not change acceptance when no reachable state tells them apart *)
Definition suffix_blind (r : regex) (x y : list N) : bool :=
  let bs := dedup (10 :: 11 :: bounds r) in
  let reps := 0 :: bs in
  let s0 := mkst PNone r Emp [] in
  match explore 5000 reps [s0] [s0] with
  | None => false
  | Some l =>
      closed1 bs reps l && st_mem s0 l &&
      forallb (fun q => Bool.eqb (accepts_from (st_p q) (st_a q) x) (accepts_from (st_p q) (st_a q) y)) l
  end.

Lemma suffix_blind_sound r x y : suffix_blind r x y = true ->
  forall w, accepts r (w ++ x) = accepts r (w ++ y).
Proof.
  unfold suffix_blind. destruct (explore _ _ _ _) as [l|]; [|discriminate].
  intros H w. apply andb_true_iff in H as [H Hq]. apply andb_true_iff in H as [Hc H0].
  apply st_mem_spec in H0 as (x0 & Hx0 & Ep & Ea & _). cbn [st_p st_a] in Ep, Ea.
  destruct (closed1_reach _ _ _ Hc w x0 Hx0) as (z & Hz & Hzv).
  unfold accepts. rewrite <- Ep, <- Ea, !Hzv.
  rewrite forallb_forall in Hq. apply Bool.eqb_prop. apply Hq. exact Hz.
Qed.

(* ------------------------------------------------------------------ *)
(* isSafeURL does not tell a leading / trailing "," from "%2c" *)
Definition L_scheme : regex := Cat G_safeURL_scheme_alt any_star.
Definition L_rel : regex := Cat G_safeURL_rel_alt any_star.
Definition pct_runes : list N := [37; 50; 99].

Lemma scheme_trailing_ok : suffix_blind L_scheme [44] pct_runes = true.
Proof. vm_compute. reflexivity. Qed.
Lemma rel_trailing_ok : suffix_blind L_rel [44] pct_runes = true.
Proof. vm_compute. reflexivity. Qed.

Definition after (r : regex) (w : list N) : pctx * regex :=
  fold_left (fun st c => (pclass (Some c), deriv (fst st) c (snd st))) w (PNone, r).

Lemma accepts_after r w : forall v,
  accepts r (w ++ v) = accepts_from (fst (after r w)) (snd (after r w)) v.
Proof.
  unfold accepts, after. generalize PNone as p. revert r.
  induction w as [|c w IH]; intros r p v; [reflexivity|].
  cbn [app accepts_from fold_left fst snd]. apply IH.
Qed.

Lemma accepts_from_Emp w : forall p, accepts_from p Emp w = false.
Proof. induction w as [|c w IH]; intros p; [reflexivity | apply IH]. Qed.

Lemma scheme_leading_comma_ok : snd (after L_scheme [44]) = Emp /\ snd (after L_scheme pct_runes) = Emp.
Proof. vm_compute. split; reflexivity. Qed.
Lemma rel_leading_ok : after L_rel [44] = after L_rel pct_runes.
Proof. vm_compute. reflexivity. Qed.

Lemma lower_runes_app_ascii (s a : bytes) : Forall (fun c => c < 128) a ->
  lower_runes (s ++ a) = lower_runes s ++ map to_lower a.
Proof. intros H. unfold lower_runes. rewrite decode_app_ascii by exact H. apply map_app. Qed.

Lemma lower_runes_cons_ascii b (s : bytes) : b < 128 -> lower_runes (b :: s) = to_lower b :: lower_runes s.
Proof. intros H. unfold lower_runes. rewrite decode_ascii by exact H. reflexivity. Qed.

Lemma take_until_colon_app (w x : list N) :
  take_until_colon (w ++ x) = if existsb (N.eqb 58) w then take_until_colon w else w ++ take_until_colon x.
Proof.
  induction w as [|c w IH]; [reflexivity|]. cbn [existsb take_until_colon app]. rewrite (N.eqb_sym 58 c).
  destruct (c =? 58); [reflexivity|]. cbn [orb]. rewrite IH. destruct (existsb (N.eqb 58) w); reflexivity.
Qed.

Lemma is_safe_url_unfold (u : bytes) : is_safe_url u =
  if accepts L_scheme (lower_runes u)
  then negb (list_eqb N.eqb (take_until_colon (lower_runes u)) javascript_runes)
  else accepts L_rel (lower_runes u).
Proof. reflexivity. Qed.

(* trailing: t ++ "," and t ++ "%2c" *)
Lemma safe_trailing (t : bytes) :
  is_safe_url (t ++ [44]) = true -> is_safe_url (t ++ pct_comma) = true.
Proof.
  rewrite !is_safe_url_unfold.
  assert (E1 : lower_runes (t ++ [44]) = lower_runes t ++ [44]).
  { rewrite lower_runes_app_ascii by (repeat constructor; lia). reflexivity. }
  assert (E2 : lower_runes (t ++ pct_comma) = lower_runes t ++ pct_runes).
  { rewrite lower_runes_app_ascii by (unfold pct_comma, B; simpl; repeat constructor; lia). reflexivity. }
  rewrite E1, E2. set (w := lower_runes t).
  rewrite <- (suffix_blind_sound _ _ _ scheme_trailing_ok w).
  rewrite <- (suffix_blind_sound _ _ _ rel_trailing_ok w).
  destruct (accepts L_scheme (w ++ [44])); [|auto].
  rewrite !take_until_colon_app. destruct (existsb (N.eqb 58) w); [auto|].
  intros _. apply negb_true_iff. destruct (list_eqb N.eqb (w ++ take_until_colon pct_runes) javascript_runes) eqn:E; [|reflexivity].
  exfalso. apply (list_eqb_eq N.eqb) in E; [|intros; apply N.eqb_eq].
  change (take_until_colon pct_runes) with ([37; 50] ++ [99]) in E.
  change javascript_runes with (B "javascrip" ++ [116]) in E.
  rewrite app_assoc in E. apply app_inj_tail in E as [_ E]. discriminate.
Qed.

(* leading: "," ++ t and "%2c" ++ t *)
Lemma safe_leading (t : bytes) :
  is_safe_url (44 :: t) = true -> is_safe_url (pct_comma ++ t) = true.
Proof.
  rewrite !is_safe_url_unfold.
  assert (E1 : lower_runes (44 :: t) = [44] ++ lower_runes t).
  { rewrite lower_runes_cons_ascii by lia. reflexivity. }
  assert (E2 : lower_runes (pct_comma ++ t) = pct_runes ++ lower_runes t).
  { unfold pct_comma, B. simpl. rewrite !lower_runes_cons_ascii by lia. reflexivity. }
  rewrite E1, E2. set (w := lower_runes t).
  rewrite !accepts_after.
  destruct scheme_leading_comma_ok as [S1 S2]. rewrite S1, S2, !accepts_from_Emp.
  rewrite rel_leading_ok. auto.
Qed.


(* ------------------------------------------------------------------ *)
(* canonical candidates: what the sanitizer writes *)
Definition canon (c : bytes * bytes) : Prop :=
  fst c <> [] /\ Forall (fun b => ascii_ws b = false) (fst c) /\
  hd 0 (fst c) <> 44 /\ last (fst c) 0 <> 44 /\
  Forall (fun b => ascii_ws b = false /\ b <> 44 /\ b <> 40) (snd c).

(* a candidate as written: url, and " " metadata when there is metadata *)
Definition wr (c : bytes * bytes) : bytes :=
  fst c ++ (if is_nil (snd c) then [] else 32 :: snd c).

Definition J (cs : list (bytes * bytes)) : bytes := join sep (map wr cs).

Lemma render_wr c : render c = wr (render_url (fst c), snd c).
Proof. reflexivity. Qed.

Lemma wr_nonempty c : fst c <> [] -> wr c <> [].
Proof. destruct c as [[|b u] m]; simpl; [congruence|]. intros _. unfold wr. simpl. discriminate. Qed.

Lemma J_cons2 c c2 cs : J (c :: c2 :: cs) = wr c ++ 32 :: 44 :: 32 :: J (c2 :: cs).
Proof. reflexivity. Qed.

Lemma hd_not_ws (u : bytes) (r : bytes) : u <> [] -> Forall (fun b => ascii_ws b = false) u ->
  match u ++ r with [] => True | b :: _ => ascii_ws b = false end.
Proof. destruct u; [congruence|]. intros _ H. inversion H; subst. assumption. Qed.

(* ------------------------------------------------------------------ *)
(* the Go scanner on pre u w1 m w2 tail *)
Lemma scan_one_shape (pre u w1 m w2 tail : bytes) :
  Forall (fun b => ascii_ws b = true) pre ->
  u <> [] -> Forall (fun b => ascii_ws b = false) u ->
  Forall (fun b => ascii_ws b = true) w1 ->
  Forall (fun b => ascii_ws b = false /\ b <> 44) m ->
  Forall (fun b => ascii_ws b = true) w2 ->
  (m <> [] -> w1 <> []) ->
  (tail <> [] -> w1 ++ w2 <> []) ->
  (tail = [] \/ exists t', tail = 44 :: t') ->
  scan_one (pre ++ u ++ w1 ++ m ++ w2 ++ tail) = ((u, m), tail).
Proof.
  intros Hpre Hu0 Hu Hw1 Hm Hw2 Hmw Htw Htail.
  assert (WS : forall l : bytes, Forall (fun b => ascii_ws b = true) l ->
                          Forall (fun b => mem_N b T_asciiWhitespace = true) l).
  { intros l H. eapply Forall_impl; [|exact H]. intros b Hb. rewrite ws_mem. exact Hb. }
  assert (NWS : forall l : bytes, Forall (fun b => ascii_ws b = false) l ->
                          Forall (fun b => mem_N b T_asciiWhitespace = false) l).
  { intros l H. eapply Forall_impl; [|exact H]. intros b Hb. rewrite ws_mem. exact Hb. }
  assert (Htail_ws : match tail with [] => True | b :: _ => mem_N b T_asciiWhitespace = false end).
  { destruct Htail as [->|[t' ->]]; [exact I | rewrite ws_mem; reflexivity]. }
  assert (Htail_meta : match tail with [] => True | b :: _ => mem_N b T_srcsetMetachars = true end).
  { destruct Htail as [->|[t' ->]]; [exact I | rewrite meta_mem; reflexivity]. }
  unfold scan_one.
  (* 1 *)
  rewrite (consume_in_stop T_asciiWhitespace pre (u ++ w1 ++ m ++ w2 ++ tail)); [|apply WS; exact Hpre|].
  2:{ pose proof (hd_not_ws u (w1 ++ m ++ w2 ++ tail) Hu0 Hu) as H.
      destruct (u ++ w1 ++ m ++ w2 ++ tail); [exact I | rewrite ws_mem; exact H]. }
  cbn [snd].
  (* 2 *)
  rewrite (consume_not_in_stop T_asciiWhitespace u (w1 ++ m ++ w2 ++ tail)); [|apply NWS; exact Hu|].
  2:{ destruct w1 as [|x w1']; [|inversion Hw1; subst; cbn [app]; rewrite ws_mem; assumption].
      destruct m as [|y m']; [|exfalso; apply Hmw; [discriminate | reflexivity]].
      destruct w2 as [|z w2']; [|inversion Hw2; subst; cbn [app]; rewrite ws_mem; assumption].
      cbn [app]. destruct tail; [exact I | exfalso; apply Htw; [discriminate | reflexivity]]. }
  destruct m as [|y m'].
  - (* no metadata *)
    cbn [app]. rewrite app_assoc.
    rewrite (consume_in_stop T_asciiWhitespace (w1 ++ w2) tail);
      [|apply WS; apply Forall_app; split; assumption | exact Htail_ws].
    cbn [snd].
    replace (consume_not_in T_srcsetMetachars tail) with (@nil N, tail).
    2:{ destruct Htail as [->|[t' ->]]; [reflexivity|]. cbn [consume_not_in].
        rewrite meta_mem. reflexivity. }
    replace (consume_in T_asciiWhitespace tail) with (@nil N, tail); [reflexivity|].
    destruct Htail as [->|[t' ->]]; [reflexivity|]. cbn [consume_in]. rewrite ws_mem. reflexivity.
  - (* metadata *)
    set (m := y :: m') in *.
    rewrite (consume_in_stop T_asciiWhitespace w1 (m ++ w2 ++ tail)); [|apply WS; exact Hw1|].
    2:{ subst m. cbn [app]. inversion Hm as [|? ? [Hy _] _]; subst. rewrite ws_mem. exact Hy. }
    cbn [snd].
    rewrite (consume_not_in_stop T_srcsetMetachars m (w2 ++ tail)).
    2:{ eapply Forall_impl; [|exact Hm]. intros b [Hb1 Hb2]. rewrite meta_mem, Hb1.
        apply N.eqb_neq in Hb2. rewrite Hb2. reflexivity. }
    2:{ destruct w2 as [|z w2']; [exact Htail_meta|]. inversion Hw2; subst. cbn [app].
        rewrite meta_mem. match goal with H : ascii_ws z = true |- _ => rewrite H end. reflexivity. }
    rewrite (consume_in_stop T_asciiWhitespace w2 tail); [reflexivity | apply WS; exact Hw2 | exact Htail_ws].
Qed.

Lemma canon_meta_go c : canon c -> Forall (fun b => ascii_ws b = false /\ b <> 44) (snd c).
Proof. intros (_ & _ & _ & _ & H). eapply Forall_impl; [|exact H]. intros b (H1 & H2 & _). split; assumption. Qed.

(* one round on a written candidate followed by nothing or by the separator *)
Lemma scan_one_wr pre c tail :
  Forall (fun b => ascii_ws b = true) pre -> canon c ->
  scan_one (pre ++ wr c) = (c, []) /\
  scan_one (pre ++ wr c ++ 32 :: 44 :: tail) = (c, 44 :: tail).
Proof.
  intros Hpre Hc. pose proof (canon_meta_go c Hc) as Hm.
  destruct Hc as (Hu0 & Hu & _ & _ & _). destruct c as [u m]. cbn [fst snd] in *.
  assert (W32 : Forall (fun b => ascii_ws b = true) [32]) by (repeat constructor).
  unfold wr. cbn [fst snd]. destruct m as [|y m'].
  - cbn [is_nil]. split.
    + pose proof (scan_one_shape pre u [] [] [] [] Hpre Hu0 Hu (Forall_nil _) (Forall_nil _) (Forall_nil _)) as H.
      rewrite !app_nil_r in *. apply H; [congruence | congruence | left; reflexivity].
    + pose proof (scan_one_shape pre u [32] [] [] (44 :: tail) Hpre Hu0 Hu W32 (Forall_nil _) (Forall_nil _)) as H.
      cbn [app] in H. rewrite app_nil_r. apply H; [congruence | discriminate | right; eexists; reflexivity].
  - cbn [is_nil]. set (m := y :: m') in *. split.
    + pose proof (scan_one_shape pre u [32] m [] [] Hpre Hu0 Hu W32 Hm (Forall_nil _)) as H.
      cbn [app] in H. rewrite !app_nil_r in H. apply H; [discriminate | congruence | left; reflexivity].
    + pose proof (scan_one_shape pre u [32] m [32] (44 :: tail) Hpre Hu0 Hu W32 Hm W32) as H.
      cbn [app] in H. rewrite <- app_assoc. cbn [app].
      apply H; [discriminate | discriminate | right; eexists; reflexivity].
Qed.

Lemma scan_canon : forall cs, Forall canon cs -> cs <> [] ->
  forall f pre, Forall (fun b => ascii_ws b = true) pre ->
  (length (pre ++ J cs) < f)%nat -> scan f (pre ++ J cs) = cs.
Proof.
  induction cs as [|c cs IH]; intros Hcs Hne f pre Hpre Hf; [congruence|].
  inversion Hcs as [|? ? Hc Hcs']; subst.
  destruct f as [|f]; [lia|].
  assert (Hw : wr c <> []) by (apply wr_nonempty; apply Hc).
  destruct cs as [|c2 cs'].
  - unfold J in *. cbn [map join] in *.
    destruct (scan_one_wr pre c [] Hpre Hc) as [E _].
    cbn [scan]. rewrite E.
    destruct (pre ++ wr c) eqn:Es; [|reflexivity].
    apply app_eq_nil in Es as [_ Es]. contradiction.
  - rewrite J_cons2 in *.
    destruct (scan_one_wr pre c (32 :: J (c2 :: cs')) Hpre Hc) as [_ E].
    assert (Hlen : (length ([32%N] ++ J (c2 :: cs')) < f)%nat).
    { rewrite ?app_length in *. cbn [length app] in *. rewrite ?app_length in *. cbn [length] in *. lia. }
    cbn [scan]. rewrite E.
    destruct (pre ++ wr c ++ 32 :: 44 :: 32 :: J (c2 :: cs')) eqn:Es.
    { apply app_eq_nil in Es as [_ Es]. apply app_eq_nil in Es as [Es _]. contradiction. }
    clear Es. rewrite N.eqb_refl. f_equal.
    apply (IH Hcs' ltac:(discriminate) f [32]); [repeat constructor | exact Hlen].
Qed.

Lemma scan_all_canon cs : Forall canon cs -> cs <> [] -> scan_all (J cs) = cs.
Proof. intros H Hne. unfold scan_all. apply (scan_canon cs H Hne _ []); [constructor | simpl; lia]. Qed.

(* ------------------------------------------------------------------ *)
(* the WHATWG parser on the same *)
Lemma collect_stop p (a r : bytes) :
  Forall (fun b => p b = true) a ->
  match r with [] => True | b :: _ => p b = false end ->
  collect p (a ++ r) = (a, r).
Proof.
  induction 1 as [|b a Hb Ha IH]; intros Hr; simpl.
  - destruct r as [|b r]; [reflexivity|]. simpl. rewrite Hr. reflexivity.
  - rewrite Hb, (IH Hr). reflexivity.
Qed.

Lemma tokenize_run (m : bytes) : Forall (fun b => ascii_ws b = false /\ b <> 44 /\ b <> 40) m ->
  forall cur descs r,
  tokenize InDescriptor cur descs (m ++ r) = tokenize InDescriptor (cur ++ m) descs r.
Proof.
  induction 1 as [|b m (Hw & Hc & Hp) Hm IH]; intros cur descs r.
  - rewrite app_nil_r. reflexivity.
  - cbn [app tokenize]. rewrite Hw.
    apply N.eqb_neq in Hc, Hp. rewrite Hc, Hp. rewrite IH. rewrite <- app_assoc. reflexivity.
Qed.

Lemma cand_round pre c tail f :
  Forall (fun b => ascii_ws b || (b =? 44) = true) pre -> canon c ->
  candidates_fuel (S f) (pre ++ wr c) = (fst c, descr_tokens (snd c)) :: candidates_fuel f [] /\
  candidates_fuel (S f) (pre ++ wr c ++ 32 :: 44 :: tail) =
    (fst c, descr_tokens (snd c)) :: candidates_fuel f tail.
Proof.
  intros Hpre (Hu0 & Hu & Hhd & Hlast & Hm). destruct c as [u m]. cbn [fst snd] in *.
  assert (Hhead : forall r : bytes, match u ++ r with [] => True | b :: _ => ascii_ws b || (b =? 44) = false end).
  { intros r. destruct u as [|b u']; [congruence|]. cbn [app]. inversion Hu; subst. cbn [hd] in Hhd.
    apply N.eqb_neq in Hhd. rewrite Hhd. match goal with H : ascii_ws b = false |- _ => rewrite H end. reflexivity. }
  assert (Hunws : Forall (fun b => negb (ascii_ws b) = true) u).
  { eapply Forall_impl; [|exact Hu]. intros b Hb. rewrite Hb. reflexivity. }
  assert (Hend : ends_with_comma u = false).
  { unfold ends_with_comma. apply N.eqb_neq in Hlast. rewrite Hlast. apply andb_false_r. }
  assert (Hne : forall r : bytes, u ++ r <> []) by (intros r; destruct u; [congruence | discriminate]).
  unfold wr. cbn [fst snd]. destruct m as [|y m'].
  - cbn [is_nil descr_tokens]. split.
    + cbn [candidates_fuel]. rewrite app_nil_r.
      rewrite (collect_stop _ pre u Hpre) by (specialize (Hhead []); rewrite app_nil_r in Hhead; exact Hhead).
      cbn [snd]. destruct u as [|b u'] eqn:Eu; [congruence|]. rewrite <- Eu in *.
      pose proof (collect_stop (fun c => negb (ascii_ws c)) u [] Hunws I) as Ec. rewrite app_nil_r in Ec.
      rewrite Ec, Hend. reflexivity.
    + cbn [candidates_fuel]. rewrite app_nil_r.
      rewrite (collect_stop _ pre (u ++ 32 :: 44 :: tail) Hpre) by (apply Hhead).
      cbn [snd]. destruct (u ++ 32 :: 44 :: tail) eqn:Es; [exfalso; eapply Hne; exact Es|]. rewrite <- Es.
      rewrite (collect_stop (fun c => negb (ascii_ws c)) u (32 :: 44 :: tail) Hunws) by reflexivity.
      rewrite Hend. reflexivity.
  - cbn [is_nil descr_tokens]. set (m := y :: m') in *.
    assert (Hmhd : match m ++ [] with [] => True | b :: _ => ascii_ws b = false end).
    { subst m. cbn [app]. inversion Hm as [|? ? [Hy _] _]; subst. exact Hy. }
    assert (W32 : Forall (fun b => ascii_ws b = true) [32]) by (repeat constructor).
    split.
    + cbn [candidates_fuel].
      rewrite (collect_stop _ pre (u ++ 32 :: m) Hpre) by (apply Hhead).
      cbn [snd]. destruct (u ++ 32 :: m) eqn:Es; [exfalso; eapply Hne; exact Es|]. rewrite <- Es.
      rewrite (collect_stop (fun c => negb (ascii_ws c)) u (32 :: m) Hunws) by reflexivity.
      rewrite Hend.
      change (32 :: m) with ([32] ++ m).
      rewrite (collect_stop ascii_ws [32] m W32) by (subst m; inversion Hm as [|? ? [Hy _] _]; exact Hy).
      cbn [snd]. rewrite <- (app_nil_r m) at 1. rewrite (tokenize_run m Hm). reflexivity.
    + cbn [candidates_fuel]. rewrite <- app_assoc. cbn [app].
      rewrite (collect_stop _ pre (u ++ 32 :: m ++ 32 :: 44 :: tail) Hpre) by (apply Hhead).
      cbn [snd]. destruct (u ++ 32 :: m ++ 32 :: 44 :: tail) eqn:Es; [exfalso; eapply Hne; exact Es|]. rewrite <- Es.
      rewrite (collect_stop (fun c => negb (ascii_ws c)) u (32 :: m ++ 32 :: 44 :: tail) Hunws) by reflexivity.
      rewrite Hend.
      change (32 :: m ++ 32 :: 44 :: tail) with ([32] ++ (m ++ 32 :: 44 :: tail)).
      rewrite (collect_stop ascii_ws [32] (m ++ 32 :: 44 :: tail) W32)
        by (subst m; inversion Hm as [|? ? [Hy _] _]; exact Hy).
      cbn [snd]. rewrite (tokenize_run m Hm). reflexivity.
Qed.

Lemma candidates_canon : forall cs, Forall canon cs -> cs <> [] ->
  forall f pre, Forall (fun b => ascii_ws b || (b =? 44) = true) pre ->
  (length (pre ++ J cs) < f)%nat ->
  candidates_fuel f (pre ++ J cs) = map (fun c => (fst c, descr_tokens (snd c))) cs.
Proof.
  induction cs as [|c cs IH]; intros Hcs Hne f pre Hpre Hf; [congruence|].
  inversion Hcs as [|? ? Hc Hcs']; subst.
  destruct f as [|f]; [lia|].
  destruct cs as [|c2 cs'].
  - unfold J in *. cbn [map join] in *.
    destruct (cand_round pre c [] f Hpre Hc) as [E _]. rewrite E.
    destruct f; reflexivity.
  - rewrite J_cons2 in *.
    destruct (cand_round pre c (32 :: J (c2 :: cs')) f Hpre Hc) as [_ E]. rewrite E.
    cbn [map]. f_equal.
    apply (IH Hcs' ltac:(discriminate) f [32]); [repeat constructor|].
    rewrite ?app_length in *. cbn [length app] in *. rewrite ?app_length in *. cbn [length] in *. lia.
Qed.

Lemma whatwg_canon cs : Forall canon cs -> cs <> [] ->
  candidates (J cs) = map (fun c => (fst c, descr_tokens (snd c))) cs.
Proof.
  intros H Hne. unfold candidates. apply (candidates_canon cs H Hne _ []); [constructor | simpl; lia].
Qed.

(* ------------------------------------------------------------------ *)
(* appendURLToSet: shape of what is written *)
Lemma last_app_ne {A} (a x : list A) d : x <> [] -> last (a ++ x) d = last x d.
Proof.
  intros Hx. induction a as [|y a IH]; [reflexivity|].
  cbn [app]. destruct (a ++ x) eqn:E; [apply app_eq_nil in E as [_ E]; contradiction|].
  cbn [last]. exact IH.
Qed.

Lemma hd_app_ne {A} (a x : list A) d : a <> [] -> hd d (a ++ x) = hd d a.
Proof. destruct a; [congruence | reflexivity]. Qed.

Lemma render_url_shape (u : bytes) : u <> [] ->
  exists (lead trail : bool) (mid : bytes),
    u = pct_ends lead trail [44] mid /\
    render_url u = pct_ends lead trail pct_comma mid /\
    (lead = false -> mid <> [] /\ hd 0 mid <> 44) /\
    (trail = false -> mid = [] \/ last mid 0 <> 44).
Proof.
  destruct u as [|b0 t]; [congruence|]. intros _. unfold render_url, pct_ends.
  destruct (b0 =? 44) eqn:E0.
  - apply N.eqb_eq in E0; subst b0.
    destruct (strip_trailing_comma t) as [mid ce] eqn:Es.
    apply strip_trailing_comma_spec in Es as (Ht & Hl).
    exists true, ce, mid. repeat split.
    + rewrite Ht at 1. reflexivity.
    + discriminate.
    + discriminate.
    + intros Hce. specialize (Hl Hce). rewrite Hce in Ht. rewrite app_nil_r in Ht. subst t. exact Hl.
  - apply N.eqb_neq in E0.
    destruct (strip_trailing_comma (b0 :: t)) as [mid ce] eqn:Es.
    apply strip_trailing_comma_spec in Es as (Ht & Hl).
    exists false, ce, mid. cbn [app]. repeat split; try assumption.
    + intros ->. destruct ce; cbn [app] in Ht; [|discriminate]. inversion Ht; subst. congruence.
    + destruct mid as [|x mid']; [|cbn [app] in Ht; inversion Ht; subst; exact E0].
      destruct ce; cbn [app] in Ht; [|discriminate]. inversion Ht; subst. congruence.
    + intros Hce. specialize (Hl Hce). rewrite Hce in Ht. rewrite app_nil_r in Ht. rewrite <- Ht.
      destruct Hl as [Hl|Hl]; [discriminate | right; exact Hl].
Qed.

Lemma pct_comma_nows : Forall (fun b => ascii_ws b = false) pct_comma.
Proof. unfold pct_comma, B; simpl. repeat constructor. Qed.

Lemma render_url_canon (u : bytes) : u <> [] -> Forall (fun b => ascii_ws b = false) u ->
  render_url u <> [] /\ Forall (fun b => ascii_ws b = false) (render_url u) /\
  hd 0 (render_url u) <> 44 /\ last (render_url u) 0 <> 44.
Proof.
  intros Hne Hu. split; [apply render_url_nonempty; exact Hne|].
  destruct (render_url_shape u Hne) as (lead & trail & mid & Eu & Er & Hlead & Htrail).
  rewrite Er. unfold pct_ends in *.
  assert (Hmid : Forall (fun b => ascii_ws b = false) mid).
  { rewrite Eu in Hu. apply Forall_app in Hu as [_ Hu]. apply Forall_app in Hu as [Hu _]. exact Hu. }
  split; [|split].
  - apply Forall_app; split; [destruct lead; [apply pct_comma_nows | constructor]|].
    apply Forall_app; split; [exact Hmid | destruct trail; [apply pct_comma_nows | constructor]].
  - destruct lead; [unfold pct_comma, B; simpl; discriminate|].
    destruct (Hlead eq_refl) as [Hm Hh]. cbn [app]. rewrite hd_app_ne by exact Hm. exact Hh.
  - destruct trail.
    + rewrite app_assoc. rewrite last_app_ne by (unfold pct_comma, B; simpl; discriminate).
      unfold pct_comma, B; simpl; discriminate.
    + rewrite app_nil_r. destruct (Htrail eq_refl) as [->|Hl].
      * rewrite app_nil_r. destruct lead; [unfold pct_comma, B; simpl; discriminate|].
        destruct (Hlead eq_refl) as [Hm _]. congruence.
      * destruct mid as [|x mid']; [simpl in Hl; destruct lead; [unfold pct_comma, B; simpl; discriminate | simpl; exact Hl]|].
        rewrite last_app_ne by discriminate. exact Hl.
Qed.

(* what has no "," at either end is written verbatim *)
Lemma render_url_id (v : bytes) : v <> [] -> hd 0 v <> 44 -> last v 0 <> 44 -> render_url v = v.
Proof.
  intros Hne Hh Hl.
  destruct (render_url_shape v Hne) as (lead & trail & mid & Ev & Er & _ & _).
  rewrite Er. rewrite Ev at 1. unfold pct_ends in *.
  destruct lead; [rewrite Ev in Hh; simpl in Hh; congruence|].
  destruct trail; [|reflexivity].
  rewrite Ev in Hl. cbn [app] in Hl. rewrite last_last in Hl. congruence.
Qed.

(* isSafeURL survives the rewriting *)
Lemma render_url_safe (u : bytes) : u <> [] -> is_safe_url u = true -> is_safe_url (render_url u) = true.
Proof.
  intros Hne Hs.
  destruct (render_url_shape u Hne) as (lead & trail & mid & Eu & Er & _ & _).
  rewrite Er. rewrite Eu in Hs. unfold pct_ends in *.
  destruct lead.
  - cbn [app] in Hs. apply safe_leading in Hs.
    destruct trail; [|exact Hs].
    rewrite app_assoc in Hs. apply safe_trailing in Hs. rewrite <- app_assoc in Hs. exact Hs.
  - cbn [app] in *. destruct trail; [|exact Hs]. apply safe_trailing. exact Hs.
Qed.

(* ------------------------------------------------------------------ *)
(* the kept candidates *)
Definition kept (s : bytes) : list (bytes * bytes) := filter cand_ok (scan_all s).

Lemma urlset_sanitized_eq (s : bytes) :
  urlset_sanitized s = match kept s with [] => innocuous_url | cs => join sep (map render cs) end.
Proof. apply urlset_sanitized_with_eq. Qed.

Definition good (c : bytes * bytes) : Prop :=
  fst c <> [] /\ Forall (fun b => mem_N b T_asciiWhitespace = false) (fst c) /\
  is_safe_url (fst c) = true /\
  Forall (fun b => mem_N b T_srcsetMetachars = false) (snd c) /\
  is_optional_src_metadata_well_formed (snd c) = true.

Lemma kept_good (s : bytes) : Forall good (kept s).
Proof.
  apply Forall_forall. intros c Hc. unfold kept in Hc. apply filter_In in Hc as [Hin Hok].
  pose proof (scan_props (S (length s)) s) as Hp. rewrite Forall_forall in Hp.
  destruct (Hp c Hin) as [Hu Hm].
  unfold cand_ok, cand_ok_with in Hok. apply andb_true_iff in Hok as [Hok Hmeta].
  apply andb_true_iff in Hok as [Hne Hsafe].
  repeat split; try assumption. destruct c as [[|b u] m]; [discriminate | discriminate].
Qed.

Definition written (c : bytes * bytes) : bytes * bytes := (render_url (fst c), snd c).

Lemma good_canon c : good c -> canon (written c).
Proof.
  intros (Hne & Hu & _ & Hm & Hmeta). unfold canon, written. cbn [fst snd].
  assert (Hu' : Forall (fun b => ascii_ws b = false) (fst c)).
  { eapply Forall_impl; [|exact Hu]. intros b Hb. rewrite <- ws_mem. exact Hb. }
  destruct (render_url_canon _ Hne Hu') as (H1 & H2 & H3 & H4).
  repeat split; try assumption.
  apply metadata_alpha in Hmeta.
  apply Forall_forall. intros b Hb. rewrite Forall_forall in Hmeta.
  destruct (fc_not_structural b (Hmeta b Hb)) as (H40 & _ & H44 & Hws). auto.
Qed.

Lemma map_render_written cs : map render cs = map wr (map written cs).
Proof. rewrite map_map. apply map_ext. intros c. apply render_wr. Qed.

(* the bridge to the WHATWG parser *)
Lemma candidates_of_good cs : cs <> [] -> Forall good cs ->
  candidates (join sep (map render cs)) =
  map (fun c => (render_url (fst c), descr_tokens (snd c))) cs.
Proof.
  intros Hne Hg. rewrite map_render_written.
  change (join sep (map wr (map written cs))) with (J (map written cs)).
  rewrite whatwg_canon.
  - rewrite map_map. reflexivity.
  - apply Forall_map. eapply Forall_impl; [|exact Hg]. apply good_canon.
  - destruct cs; [congruence | discriminate].
Qed.

(* the sanitizer reads its own output back as the same candidates *)
Lemma scan_of_good cs : cs <> [] -> Forall good cs ->
  scan_all (join sep (map render cs)) = map written cs.
Proof.
  intros Hne Hg. rewrite map_render_written.
  change (join sep (map wr (map written cs))) with (J (map written cs)).
  apply scan_all_canon.
  - apply Forall_map. eapply Forall_impl; [|exact Hg]. apply good_canon.
  - destruct cs; [congruence | discriminate].
Qed.

Lemma filter_all {A} (p : A -> bool) l : Forall (fun x => p x = true) l -> filter p l = l.
Proof. induction 1 as [|x l Hx Hl IH]; [reflexivity|]. simpl. rewrite Hx, IH. reflexivity. Qed.

Lemma written_ok c : good c -> cand_ok (written c) = true /\ render (written c) = render c.
Proof.
  intros Hg. pose proof (good_canon c Hg) as (H1 & H2 & H3 & H4 & _).
  destruct Hg as (Hne & Hu & Hs & Hm & Hmeta). unfold written in *. cbn [fst snd] in *. split.
  - unfold cand_ok, cand_ok_with. cbn [fst snd]. rewrite Hmeta, (render_url_safe _ Hne Hs).
    destruct (render_url (fst c)); [congruence | reflexivity].
  - unfold render. cbn [fst snd]. rewrite (render_url_id _ H1 H3 H4). reflexivity.
Qed.

Lemma innocuous_fixed_ok : urlset_sanitized innocuous_url = innocuous_url.
Proof. vm_compute. reflexivity. Qed.

Lemma urlset_idempotent (s : bytes) : urlset_sanitized (urlset_sanitized s) = urlset_sanitized s.
Proof.
  rewrite (urlset_sanitized_eq s). pose proof (kept_good s) as Hg.
  destruct (kept s) as [|c cs] eqn:Ek; [apply innocuous_fixed_ok|].
  set (l := c :: cs) in *.
  rewrite urlset_sanitized_eq. unfold kept.
  rewrite scan_of_good by (try discriminate; exact Hg).
  rewrite filter_all.
  2:{ apply Forall_map. eapply Forall_impl; [|exact Hg]. intros x Hx. apply written_ok; exact Hx. }
  destruct (map written l) eqn:Em; [discriminate|]. rewrite <- Em.
  f_equal. rewrite map_map. apply map_ext_in. intros x Hx. apply written_ok.
  rewrite Forall_forall in Hg. apply Hg; exact Hx.
Qed.

(* ------------------------------------------------------------------ *)
(* the scanner copies: reads s (scan_all s) *)
Lemma scan_one_decomp (s : bytes) u m rest : scan_one s = ((u, m), rest) ->
  exists w1 w2 w3, s = w1 ++ u ++ w2 ++ m ++ w3 ++ rest /\ all_ws w1 /\ all_ws w2 /\ all_ws w3.
Proof.
  unfold scan_one. intros H.
  destruct (consume_in T_asciiWhitespace s) as [w1 s1] eqn:E1.
  apply consume_in_spec in E1 as (-> & H1 & _). cbn [snd] in H.
  destruct (consume_not_in T_asciiWhitespace s1) as [u' s2] eqn:E2.
  apply consume_not_in_spec in E2 as (-> & _ & _).
  destruct (consume_in T_asciiWhitespace s2) as [w2 s3] eqn:E3.
  apply consume_in_spec in E3 as (-> & H3 & _). cbn [snd] in H.
  destruct (consume_not_in T_srcsetMetachars s3) as [m' s4] eqn:E4.
  apply consume_not_in_spec in E4 as (-> & _ & _).
  destruct (consume_in T_asciiWhitespace s4) as [w3 s5] eqn:E5.
  apply consume_in_spec in E5 as (-> & H5 & _). cbn [snd] in H.
  inversion H; subst. exists w1, w2, w3. repeat split; assumption.
Qed.

Lemma scan_reads : forall f (s : bytes), (length s < f)%nat -> reads s (scan f s).
Proof.
  induction f as [|f IH]; intros s Hf; [lia|].
  destruct s as [|b0 s0]; [constructor|].
  cbn [scan]. destruct (scan_one (b0 :: s0)) as [[u m] rest] eqn:E.
  destruct (scan_one_spec _ _ _ E) as (Hl & _).
  destruct (scan_one_decomp _ _ _ _ E) as (w1 & w2 & w3 & Es & H1 & H2 & H3).
  rewrite Es. destruct rest as [|b rest'].
  - apply reads_last; auto.
  - destruct (b =? 44) eqn:Eb.
    + apply N.eqb_eq in Eb; subst b. apply reads_more; auto. apply IH. simpl in Hl, Hf. lia.
    + apply N.eqb_neq in Eb. apply reads_last; auto.
Qed.

Lemma scan_all_reads (s : bytes) : reads s (scan_all s).
Proof. apply scan_reads. lia. Qed.

(* ------------------------------------------------------------------ *)
(* the theorems of props/C12.v *)
Lemma c12_shape (s : bytes) :
  urlset_sanitized s = innocuous_url \/
  exists cs, cs <> [] /\ urlset_sanitized s = join sep (map render cs) /\
    Forall (fun c =>
      fst c <> [] /\ Forall (fun b => mem_N b T_asciiWhitespace = false) (fst c) /\
      is_safe_url (fst c) = true /\
      Forall (fun b => mem_N b T_srcsetMetachars = false) (snd c) /\
      is_optional_src_metadata_well_formed (snd c) = true /\
      render_url (fst c) <> [] /\
      Forall (fun b => mem_N b T_asciiWhitespace = false) (render_url (fst c)) /\
      hd 0 (render_url (fst c)) <> 44 /\ last (render_url (fst c)) 0 <> 44 /\
      is_safe_url (render_url (fst c)) = true /\
      Forall (fun b => b <> 40 /\ b <> 41) (snd c)) cs.
Proof.
  rewrite urlset_sanitized_eq. pose proof (kept_good s) as Hg.
  destruct (kept s) as [|c cs]; [left; reflexivity|]. right.
  exists (c :: cs). split; [discriminate|]. split; [reflexivity|].
  eapply Forall_impl; [|exact Hg]. intros x Hx.
  pose proof (good_canon x Hx) as (H1 & H2 & H3 & H4 & _).
  destruct Hx as (Hne & Hu & Hs & Hm & Hmeta). unfold written in *. cbn [fst snd] in *.
  repeat split; try assumption.
  - eapply Forall_impl; [|exact H2]. intros b Hb. rewrite ws_mem. exact Hb.
  - apply render_url_safe; assumption.
  - apply metadata_alpha in Hmeta. eapply Forall_impl; [|exact Hmeta].
    intros b Hb. destruct (fc_not_structural b Hb) as (A & B0 & _). split; assumption.
Qed.

Lemma c12_only_drops (s : bytes) :
  reads s (scan_all s) /\
  urlset_sanitized s =
    match filter cand_ok (scan_all s) with
    | [] => innocuous_url
    | cs => join sep (map render cs)
    end.
Proof. split; [apply scan_all_reads | apply urlset_sanitized_eq]. Qed.

Lemma c12_render_verbatim (c : bytes * bytes) : fst c <> [] ->
  exists (lead trail : bool) (mid : bytes),
    fst c = pct_ends lead trail [44] mid /\
    render c = pct_ends lead trail pct_comma mid ++ (if is_nil (snd c) then [] else 32 :: snd c).
Proof.
  intros Hne. destruct (render_url_shape _ Hne) as (lead & trail & mid & Eu & Er & _).
  exists lead, trail, mid. split; [exact Eu|]. unfold render. rewrite Er. reflexivity.
Qed.

Lemma c12_candidates (cs : list (bytes * bytes)) :
  cs <> [] ->
  Forall (fun c =>
      fst c <> [] /\ Forall (fun b => mem_N b T_asciiWhitespace = false) (fst c) /\
      Forall (fun b => mem_N b T_srcsetMetachars = false) (snd c) /\
      is_optional_src_metadata_well_formed (snd c) = true) cs ->
  candidates (join sep (map render cs)) =
  map (fun c => (render_url (fst c), descr_tokens (snd c))) cs.
Proof.
  intros Hne H. rewrite map_render_written.
  change (join sep (map wr (map written cs))) with (J (map written cs)).
  rewrite whatwg_canon.
  - rewrite map_map. reflexivity.
  - apply Forall_map. eapply Forall_impl; [|exact H]. intros c (Hc & Hu & Hm & Hmeta).
    unfold canon, written. cbn [fst snd].
    assert (Hu' : Forall (fun b => ascii_ws b = false) (fst c)).
    { eapply Forall_impl; [|exact Hu]. intros b Hb. rewrite <- ws_mem. exact Hb. }
    destruct (render_url_canon _ Hc Hu') as (H1 & H2 & H3 & H4).
    repeat split; try assumption.
    apply metadata_alpha in Hmeta. eapply Forall_impl; [|exact Hmeta].
    intros b Hb. destruct (fc_not_structural b Hb) as (H40 & _ & H44 & Hws). auto.
  - destruct cs; [congruence | discriminate].
Qed.

Lemma innocuous_candidates_ok :
  candidates innocuous_url = [(innocuous_url, [])] /\ is_safe_url innocuous_url = true.
Proof. vm_compute. split; reflexivity. Qed.

(* what the WHATWG parser sees in the output, for every input *)
Lemma c12_whatwg (s : bytes) :
  exists cs, cs <> [] /\
    candidates (urlset_sanitized s) = map (fun c => (fst c, descr_tokens (snd c))) cs /\
    Forall (fun c => is_safe_url (fst c) = true /\ url_sanitized (fst c) = fst c /\
                     is_optional_src_metadata_well_formed (snd c) = true) cs /\
    (urlset_sanitized s = innocuous_url \/ cs = map (fun c => (render_url (fst c), snd c)) (filter cand_ok (scan_all s))).
Proof.
  rewrite urlset_sanitized_eq. pose proof (kept_good s) as Hg. unfold kept in *.
  destruct (filter cand_ok (scan_all s)) as [|c cs] eqn:Ek.
  - exists [(innocuous_url, [])]. destruct innocuous_candidates_ok as [E1 E2].
    split; [discriminate|]. split; [exact E1|]. split; [|left; reflexivity].
    constructor; [|constructor]. cbn [fst snd]. split; [exact E2|]. split; [unfold url_sanitized; rewrite E2; reflexivity | reflexivity].
  - set (l := c :: cs) in *. exists (map written l). split; [discriminate|].
    split; [|split; [|right; reflexivity]].
    + rewrite candidates_of_good by (try discriminate; exact Hg). rewrite map_map. reflexivity.
    + apply Forall_map. eapply Forall_impl; [|exact Hg]. intros x Hx.
      destruct Hx as (Hne & Hu & Hs & Hm & Hmeta). unfold written. cbn [fst snd].
      pose proof (render_url_safe _ Hne Hs) as Hs'.
      repeat split; try assumption. unfold url_sanitized. rewrite Hs'. reflexivity.
Qed.

Lemma parse_of_candidates (s : bytes) u wd : In (u, wd) (parse s) -> exists ds, In (u, ds) (candidates s).
Proof.
  unfold parse. intros H. apply in_flat_map in H as (c & Hc & Hin).
  destruct (descriptor_parser (snd c)); [|contradiction]. destruct Hin as [E|[]]. inversion E; subst.
  exists (snd c). destruct c; exact Hc.
Qed.

Lemma url_kept_def (u : bytes) : url_kept u = bytes_eqb (url_sanitized u) u.
Proof. reflexivity. Qed.

(* ------------------------------------------------------------------ *)
(* non-vacuity *)
Example ex_keeps_and_rewrites :
  urlset_sanitized (B ",a, 2x , javascript:alert(1) 1x, b 1e5,c 0x1p-2 ,d 1e999, e (1x)")
  = B "%2ca%2c 2x , b 1e5 , c 0x1p-2".
Proof. vm_compute. reflexivity. Qed.
Example ex_innocuous : urlset_sanitized (B "javascript:alert(1) 1x, b 2xx") = innocuous_url.
Proof. vm_compute. reflexivity. Qed.
Example ex_whatwg_sees :
  candidates (B "%2ca%2c 2x , b 1e5 , c 0x1p-2")
  = [(B "%2ca%2c", [B "2x"]); (B "b", [B "1e5"]); (B "c", [B "0x1p-2"])].
Proof. vm_compute. reflexivity. Qed.
Example ex_whatwg_validates :
  map fst (parse (B "a 1x , b 100w 50h, c (1, 2) 3x ,,d,, e -1x, f 1e999x, g 1.5x, h 0w"))
  = [B "a"; B "b"; B "d"; B "g"].
Proof. vm_compute. reflexivity. Qed.
Example ex_parse_float :
  map parse_float_ok [B "1e308"; B "1.7976931348623158e308"; B "1.7976931348623159e308"; B "0x1.fffffffffffff7p1023";
                      B "0x1.fffffffffffff8p1023"; B "1_0"; B "_1"; B "0x_1p0"; B "0x1"; B "+nan"; B "nan"; B "-Infinity"; B "infinit"; B "1e-999"]
  = [true; true; false; true; false; true; false; true; false; false; true; true; false; true].
Proof. vm_compute. reflexivity. Qed.
Example ex_spec_rejects_merge : c12_spec (B "a , b") (B "a,b") = false /\ c12_spec (B "a , b") (B "a , b") = true.
Proof. vm_compute. split; reflexivity. Qed.
