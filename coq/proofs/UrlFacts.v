(* C11: URLSanitized returns its input or the innocuous URL, and never a javascript: URL. *)
From V Require Import lib.Base lib.Regex lib.RegexDecide lib.Utf8 gen.GenRegex gen.GenUnicode.
From V Require Import model.Url spec.WhatwgUrl spec.UrlSpec.
From V Require Import proofs.RegexFacts proofs.RegexDecideFacts proofs.RegexSpecs proofs.Utf8Facts
  proofs.Utf8AsciiFacts.
From Coq Require Import ZifyBool ZifyN.
Local Open Scope N_scope.

(* ================================================================== *)
(* side conditions on the regenerated data, evaluated by the kernel *)
Lemma bridge_scheme_ok : bridge_scheme = true. Proof. vm_compute. reflexivity. Qed.
Lemma bridge_rel_ok : bridge_rel = true. Proof. vm_compute. reflexivity. Qed.
Lemma bridge_split_ok : bridge_split = true. Proof. vm_compute. reflexivity. Qed.
Lemma bridge_capture_ok : bridge_capture = true. Proof. vm_compute. reflexivity. Qed.
Lemma lower_table_ok_ok : lower_table_ok = true. Proof. vm_compute. reflexivity. Qed.

(* ================================================================== *)
(* unicode.ToLower, from the checked table *)
Lemma table_runs e : In e to_lower_table -> lower_run_ok e = true.
Proof.
  pose proof lower_table_ok_ok as H. unfold lower_table_ok in H.
  apply andb_true_iff in H as [H _]. apply andb_true_iff in H as [H _].
  rewrite forallb_forall in H. apply H.
Qed.

Lemma run_eqb_eq a b : run_eqb a b = true -> b = a.
Proof.
  destruct a as [[a1 a2] a3], b as [[b1 b2] b3]. unfold run_eqb. intros H.
  assert (a1 = b1 /\ a2 = b2 /\ a3 = b3) as (-> & -> & ->) by lia. reflexivity.
Qed.

Lemma table_has_0130 : In (304, 304, 105) to_lower_table.
Proof.
  pose proof lower_table_ok_ok as H. unfold lower_table_ok in H.
  apply andb_true_iff in H as [H _]. apply andb_true_iff in H as [_ H].
  apply existsb_exists in H as (x & Hx & E). apply run_eqb_eq in E. subst x. exact Hx.
Qed.
Lemma table_has_212A : In (8490, 8490, 107) to_lower_table.
Proof.
  pose proof lower_table_ok_ok as H. unfold lower_table_ok in H.
  apply andb_true_iff in H as [_ H].
  apply existsb_exists in H as (x & Hx & E). apply run_eqb_eq in E. subst x. exact Hx.
Qed.

(* ASCII: exactly ASCII lower-casing (the fast path of unicode.ToLower) *)
Lemma to_lower_ascii c : c < 128 -> to_lower c = ascii_lower c.
Proof.
  intros Hc. unfold to_lower, ascii_lower, ascii_upper_alpha.
  destruct (c <? 128) eqn:E; [reflexivity | lia].
Qed.

Lemma to_lower_cases c : 128 <= c ->
  to_lower c = c \/
  (exists lo hi img, lower_run_ok (lo, hi, img) = true /\ lo <= c /\ c <= hi /\
                     to_lower c = img + (c - lo)).
Proof.
  intros Hc. unfold to_lower. destruct (c <? 128) eqn:E0; [lia|].
  destruct (find (in_run c) to_lower_table) as [[[lo hi] img]|] eqn:E.
  - right. apply find_some in E as [Hin Hr]. apply table_runs in Hin.
    exists lo, hi, img. unfold in_run in Hr. cbv beta iota in Hr.
    apply andb_true_iff in Hr as [A1 A2]. apply N.leb_le in A1, A2. auto.
  - left. reflexivity.
Qed.

(* beyond ASCII: the image is not ASCII, with exactly two exceptions *)
Lemma to_lower_nonascii c : 128 <= c ->
  128 <= to_lower c \/ (c = 304 /\ to_lower c = 105) \/ (c = 8490 /\ to_lower c = 107).
Proof.
  intros Hc.
  destruct (to_lower_cases c Hc) as [E|(lo & hi & img & Hok & H1 & H2 & E)].
  - left. lia.
  - rewrite E. unfold lower_run_ok in Hok. destruct (lo <? 128) eqn:El; lia.
Qed.

Lemma ascii_lower_spec c :
  ((65 <= c /\ c <= 90) /\ ascii_lower c = c + 32) \/ (~ (65 <= c /\ c <= 90) /\ ascii_lower c = c).
Proof. unfold ascii_lower, ascii_upper_alpha. destruct ((65 <=? c) && (c <=? 90)) eqn:E; lia. Qed.

Lemma to_lower_bounded c : c <= max_rune -> to_lower c <= max_rune.
Proof.
  intros Hc. destruct (N.lt_ge_cases c 128) as [Ha|Ha].
  - rewrite to_lower_ascii by exact Ha. unfold max_rune.
    destruct (ascii_lower_spec c) as [[_ ->]|[_ ->]]; lia.
  - destruct (to_lower_cases c Ha) as [E|(lo & hi & img & Hok & H1 & H2 & E)].
    + lia.
    + rewrite E. unfold lower_run_ok in Hok. lia.
Qed.

Example to_lower_0130 : to_lower 304 = 105. Proof. vm_compute. reflexivity. Qed.
Example to_lower_212A : to_lower 8490 = 107. Proof. vm_compute. reflexivity. Qed.

(* an ASCII code point that is not a lower-case letter is the image of itself only *)
Lemma to_lower_nonletter_inv c d :
  d < 128 -> ascii_lower_alpha d = false -> to_lower c = d -> c = d.
Proof.
  intros Hd Hl E. destruct (N.lt_ge_cases c 128) as [Hc|Hc].
  - rewrite to_lower_ascii in E by exact Hc.
    unfold ascii_lower_alpha in *. destruct (ascii_lower_spec c) as [[? ?]|[? ?]]; lia.
  - destruct (to_lower_nonascii c Hc) as [H|[[_ H]|[_ H]]];
      unfold ascii_lower_alpha in Hl; lia.
Qed.
Lemma to_lower_fixed d : d < 128 -> ascii_upper_alpha d = false -> to_lower d = d.
Proof.
  intros Hd Hu. rewrite to_lower_ascii by exact Hd. unfold ascii_lower. rewrite Hu. reflexivity.
Qed.

(* the code points with a special role: ':' '/' '?' '#' '&', C0 controls and space *)
Definition special (c : N) : bool := is_delim c || colon_or_amp c.

Lemma special_small c : special c = true \/ c0_or_space c = true ->
  c < 128 /\ ascii_lower_alpha c = false /\ ascii_upper_alpha c = false.
Proof.
  unfold special, is_delim, colon_or_amp, c0_or_space, ascii_lower_alpha, ascii_upper_alpha. lia.
Qed.
Lemma to_lower_special c : special c = true \/ c0_or_space c = true -> to_lower c = c.
Proof. intros H. apply special_small in H as (H1 & _ & H3). apply to_lower_fixed; assumption. Qed.
Lemma to_lower_special_inv c d :
  special d = true \/ c0_or_space d = true -> to_lower c = d -> c = d.
Proof. intros H. apply special_small in H as (H1 & H2 & _). apply to_lower_nonletter_inv; assumption. Qed.

(* a rune that lower-cases into [a-z0-9+.-] *)
Lemma scheme_cls_spec c : in_ranges c scheme_cls = true <->
  (c = 43 \/ c = 45 \/ c = 46 \/ (48 <= c /\ c <= 57) \/ (97 <= c /\ c <= 122)).
Proof. unfold in_ranges, in_range, scheme_cls; simpl. lia. Qed.

Lemma lower_in_scheme_cls c : in_ranges (to_lower c) scheme_cls = true ->
  c0_or_space c = false /\ special c = false /\
  (scheme_char c = true -> to_lower c = ascii_lower c).
Proof.
  intros H. apply scheme_cls_spec in H.
  assert (Hs : special c = false /\ c0_or_space c = false).
  { destruct (special c) eqn:E1; [|destruct (c0_or_space c) eqn:E2; [|auto]].
    - rewrite to_lower_special in H by auto.
      unfold special, is_delim, colon_or_amp in E1. lia.
    - rewrite to_lower_special in H by auto. unfold c0_or_space in E2. lia. }
  destruct Hs as [Hs1 Hs2]. repeat split; try assumption.
  intros Hc. apply to_lower_ascii.
  unfold scheme_char, ascii_alphanumeric, ascii_digit, ascii_alpha, ascii_upper_alpha,
    ascii_lower_alpha in Hc. lia.
Qed.

Lemma scheme_char_lower_cls c : scheme_char c = true -> in_ranges (ascii_lower c) scheme_cls = true.
Proof.
  intros Hc. apply scheme_cls_spec.
  unfold scheme_char, ascii_alphanumeric, ascii_digit, ascii_alpha, ascii_upper_alpha,
    ascii_lower_alpha in Hc.
  destruct (ascii_lower_spec c) as [[? ->]|[? ->]]; lia.
Qed.

Lemma scheme_char_ascii c : scheme_char c = true -> c < 128 /\ c <> 58 /\ is_delim c = false.
Proof.
  unfold scheme_char, ascii_alphanumeric, ascii_digit, ascii_alpha, ascii_upper_alpha,
    ascii_lower_alpha, is_delim. lia.
Qed.

(* ================================================================== *)
(* the URL parser: input preprocessing and the scheme states *)
Lemma scheme_state_prefix q : forall buf r, Forall (fun c => c <> 58) q ->
  scheme_state (q ++ 58 :: r) buf =
  if forallb scheme_char q then Some (buf ++ map ascii_lower q) else None.
Proof.
  induction q as [|c q IH]; intros buf r Hq; cbn [app scheme_state forallb map].
  - assert (E : scheme_char 58 = false) by reflexivity. rewrite E, N.eqb_refl, app_nil_r. reflexivity.
  - inversion Hq as [|? ? Hc Hq']; subst. destruct (scheme_char c) eqn:Ec; cbn [andb].
    + rewrite IH by exact Hq'. rewrite <- app_assoc. reflexivity.
    + destruct (c =? 58) eqn:E58; [lia | reflexivity].
Qed.

Lemma strip_trailing_keep a : forall x b, c0_or_space x = false ->
  exists b', strip_trailing (a ++ x :: b) = a ++ x :: b'.
Proof.
  induction a as [|y a IH]; intros x b Hx; cbn [app strip_trailing].
  - rewrite Hx. destruct (strip_trailing b) as [|z t]; eexists; reflexivity.
  - destruct (IH x b Hx) as (b' & E). rewrite E. exists b'.
    destruct a; reflexivity.
Qed.

Lemma remove_tab_newline_keep q : Forall (fun c => c0_or_space c = false) q ->
  remove_tab_newline q = q.
Proof.
  induction 1 as [|c q Hc Hq IH]; [reflexivity|]. unfold remove_tab_newline in *. cbn [filter].
  assert (E : ascii_tab_or_newline c = false).
  { unfold ascii_tab_or_newline, c0_or_space in *. lia. }
  rewrite E. cbn [negb]. rewrite IH. reflexivity.
Qed.

(* a non-empty run of code points that are neither C0/space nor ':' and then a ':':
   whatever follows, the parser's answer is determined by that run *)
Lemma whatwg_scheme_prefix q r x : q <> [] ->
  Forall (fun c => c0_or_space c = false /\ c <> 58) q ->
  whatwg_scheme (q ++ 58 :: r) = Some x ->
  forallb scheme_char q = true /\ x = map ascii_lower q.
Proof.
  intros Hne Hq. destruct q as [|c q]; [contradiction|]. clear Hne.
  assert (Hq1 : Forall (fun c => c0_or_space c = false) (c :: q))
    by (eapply Forall_impl; [|exact Hq]; intros ? [? _]; assumption).
  assert (Hq2 : Forall (fun c => c <> 58) q)
    by (inversion Hq; subst; eapply Forall_impl; [|eassumption]; intros ? [_ ?]; assumption).
  inversion Hq1 as [|? ? Hc _]; subst.
  unfold whatwg_scheme, url_preprocess. cbn [app strip_leading]. rewrite Hc.
  destruct (strip_trailing_keep (c :: q) 58 r eq_refl) as (r' & E).
  cbn [app] in E. rewrite E.
  change (c :: q ++ 58 :: r') with ((c :: q) ++ 58 :: r').
  unfold remove_tab_newline. rewrite filter_app.
  fold (remove_tab_newline (c :: q)). rewrite (remove_tab_newline_keep _ Hq1).
  cbn [filter]. change (negb (ascii_tab_or_newline 58)) with true. cbn iota.
  cbn [app scheme_start_state]. destruct (ascii_alpha c) eqn:Ea; [|discriminate].
  rewrite scheme_state_prefix by exact Hq2.
  destruct (forallb scheme_char q) eqn:Ef; [|discriminate].
  intros H. inversion H; subst. split; [|reflexivity].
  cbn [forallb]. rewrite Ef, andb_true_r. unfold scheme_char, ascii_alphanumeric. rewrite Ea.
  rewrite orb_true_r. reflexivity.
Qed.

(* ---- "bad characters only after the first delimiter" ---- *)
Lemma oad_shape bad l : only_after_delim bad l = true <->
  exists p rest, l = p ++ rest /\
    Forall (fun c => is_delim c = false /\ bad c = false) p /\
    (rest = [] \/ exists d r, rest = d :: r /\ is_delim d = true).
Proof.
  split.
  - induction l as [|c t IH]; cbn [only_after_delim]; intros H.
    + exists [], []. repeat split; auto.
    + destruct (is_delim c) eqn:Ed.
      * exists [], (c :: t). repeat split; eauto.
      * destruct (bad c) eqn:Eb; [discriminate|].
        destruct (IH H) as (p & rest & -> & Hp & Hr).
        exists (c :: p), rest. repeat split; auto.
  - intros (p & rest & -> & Hp & Hr). induction Hp as [|c p [Hc1 Hc2] Hp IH]; cbn [app only_after_delim].
    + destruct Hr as [->|(d & r & -> & Hd)]; cbn [only_after_delim]; [reflexivity|].
      rewrite Hd. reflexivity.
    + rewrite Hc1, Hc2. exact IH.
Qed.

Lemma oad_first_bad bad q c r : Forall (fun x => is_delim x = false) q ->
  is_delim c = false -> bad c = true -> only_after_delim bad (q ++ c :: r) = false.
Proof.
  intros Hq Hc Hb. induction Hq as [|x q Hx Hq IH]; cbn [app only_after_delim].
  - rewrite Hc, Hb. reflexivity.
  - rewrite Hx. destruct (bad x); [reflexivity | exact IH].
Qed.

(* the formulation of the property text *)
Lemma oad_of_spec bad l :
  (forall q c r, l = q ++ c :: r -> bad c = true -> exists d, In d q /\ is_delim d = true) ->
  only_after_delim bad l = true.
Proof.
  induction l as [|x t IH]; cbn [only_after_delim]; intros H; [reflexivity|].
  destruct (is_delim x) eqn:Ed; [reflexivity|].
  destruct (bad x) eqn:Eb.
  - destruct (H [] x t eq_refl Eb) as (d & [] & _).
  - apply IH. intros q c r -> Hc.
    destruct (H (x :: q) c r eq_refl Hc) as (d & [<-|Hd] & Hdd); [congruence|]. eauto.
Qed.

Lemma oad_spec bad l : (forall c, bad c = true -> is_delim c = false) ->
  only_after_delim bad l = true ->
  forall q c r, l = q ++ c :: r -> bad c = true -> exists d, In d q /\ is_delim d = true.
Proof.
  intros Hbd. induction l as [|x t IH]; cbn [only_after_delim]; intros H q c r E Hb.
  - destruct q; discriminate.
  - destruct q as [|y q]; cbn [app] in E; inversion E; subst.
    + rewrite (Hbd _ Hb), Hb in H. discriminate.
    + destruct (is_delim y) eqn:Ed; [exists y; split; [left; reflexivity | exact Ed]|].
      destruct (bad y); [discriminate|].
      destruct (IH H q c r eq_refl Hb) as (d & Hd & Hdd). exists d. split; [right; exact Hd | exact Hdd].
Qed.

(* preprocessing only deletes code points that are neither delimiters nor ':' *)
Definition is_colon (c : N) : bool := c =? 58.

Lemma oad_strip_leading w : only_after_delim is_colon w = true ->
  only_after_delim is_colon (strip_leading w) = true.
Proof.
  induction w as [|c t IH]; intros H; [reflexivity|]. cbn [strip_leading].
  destruct (c0_or_space c) eqn:Ec; [|exact H]. apply IH.
  cbn [only_after_delim] in H.
  assert (E : is_delim c = false) by (unfold is_delim, c0_or_space in *; lia).
  rewrite E in H. destruct (is_colon c); [discriminate | exact H].
Qed.

Lemma oad_strip_trailing w : only_after_delim is_colon w = true ->
  only_after_delim is_colon (strip_trailing w) = true.
Proof.
  induction w as [|c t IH]; intros H; [reflexivity|]. cbn [strip_trailing].
  cbn [only_after_delim] in H. destruct (is_delim c) eqn:Ed.
  - destruct (strip_trailing t); [destruct (c0_or_space c)|]; cbn [only_after_delim];
      rewrite ?Ed; reflexivity.
  - destruct (is_colon c) eqn:Ek; [discriminate|]. specialize (IH H).
    destruct (strip_trailing t) as [|y t']; [destruct (c0_or_space c)|]; cbn [only_after_delim];
      rewrite ?Ed, ?Ek; try reflexivity. exact IH.
Qed.

Lemma oad_remove_tab_newline w : only_after_delim is_colon w = true ->
  only_after_delim is_colon (remove_tab_newline w) = true.
Proof.
  unfold remove_tab_newline. induction w as [|c t IH]; intros H; [reflexivity|].
  cbn [filter]. cbn [only_after_delim] in H.
  destruct (ascii_tab_or_newline c) eqn:Et; cbn [negb].
  - apply IH. assert (E : is_delim c = false) by (unfold is_delim, ascii_tab_or_newline in *; lia).
    rewrite E in H. destruct (is_colon c); [discriminate | exact H].
  - cbn [only_after_delim]. destruct (is_delim c); [reflexivity|].
    destruct (is_colon c); [discriminate | apply IH; exact H].
Qed.

Lemma oad_scheme_state w : forall buf, only_after_delim is_colon w = true -> scheme_state w buf = None.
Proof.
  induction w as [|c t IH]; intros buf H; [reflexivity|]. cbn [scheme_state].
  cbn [only_after_delim] in H. destruct (scheme_char c) eqn:Es.
  - apply IH. destruct (scheme_char_ascii c Es) as (_ & H58 & Hd). rewrite Hd in H.
    unfold is_colon in H. destruct (c =? 58) eqn:E; [lia | exact H].
  - destruct (c =? 58) eqn:E; [|reflexivity]. exfalso.
    assert (Ed : is_delim c = false) by (unfold is_delim; lia). rewrite Ed in H.
    unfold is_colon in H. rewrite E in H. discriminate.
Qed.

(* every ':' after the first '/', '?' or '#' (or no ':' at all): the parser finds no scheme *)
Lemma oad_no_scheme w : only_after_delim is_colon w = true -> whatwg_scheme w = None.
Proof.
  intros H. unfold whatwg_scheme, url_preprocess.
  apply oad_strip_leading, oad_strip_trailing, oad_remove_tab_newline in H.
  destruct (remove_tab_newline _) as [|c t]; [reflexivity|]. cbn [scheme_start_state].
  destruct (ascii_alpha c) eqn:Ea; [|reflexivity]. apply oad_scheme_state.
  cbn [only_after_delim] in H.
  assert (Ed : is_delim c = false /\ is_colon c = false).
  { unfold is_delim, is_colon, ascii_alpha, ascii_upper_alpha, ascii_lower_alpha in *. lia. }
  destruct Ed as [Ed Ek]. rewrite Ed, Ek in H. exact H.
Qed.

Lemma oad_weaken (b1 b2 : N -> bool) l : (forall c, b2 c = true -> b1 c = true) ->
  only_after_delim b1 l = true -> only_after_delim b2 l = true.
Proof.
  intros Hb. induction l as [|c t IH]; cbn [only_after_delim]; [reflexivity|].
  destruct (is_delim c); [reflexivity|]. destruct (b2 c) eqn:E2.
  - rewrite (Hb _ E2). discriminate.
  - destruct (b1 c); [discriminate | exact IH].
Qed.

(* ================================================================== *)
(* shapes of the two specification expressions *)
Lemma wf_lower w : wf_runes w -> wf_runes (map to_lower w).
Proof. intros H. apply Forall_map. eapply Forall_impl; [|exact H]. intros c. apply to_lower_bounded. Qed.

Lemma scheme_alt_shape l : accepts (prefix_of S_scheme_alt) l = true ->
  exists q r, l = q ++ 58 :: r /\ q <> [] /\ Forall (fun c => in_ranges c scheme_cls = true) q.
Proof.
  intros H. apply accepts_M in H. unfold prefix_of, S_scheme_alt, plus in H.
  apply M_Cat_inv in H as (m & r & -> & H & _).
  apply M_Cat_inv in H as (q & k & -> & Hq & Hk).
  apply M_Cls_inv in Hk as (c & -> & Hc).
  assert (c = 58) as -> by (unfold in_ranges, in_range in Hc; simpl in Hc; lia).
  apply M_Cat_inv in Hq as (q1 & q2 & -> & H1 & H2).
  apply M_Cls_inv in H1 as (c1 & -> & Hc1). apply M_star_cls in H2.
  exists ([c1] ++ q2), r. split; [rewrite <- app_assoc; reflexivity|].
  split; [discriminate|]. constructor; assumption.
Qed.

Lemma scheme_alt_accepts q r : q <> [] -> Forall (fun c => in_ranges c scheme_cls = true) q ->
  wf_runes r -> accepts (prefix_of S_scheme_alt) (q ++ 58 :: r) = true.
Proof.
  intros Hne Hq Hr. apply accepts_M. unfold prefix_of, S_scheme_alt, plus.
  destruct q as [|c q]; [contradiction|]. inversion Hq; subst.
  replace ((c :: q) ++ 58 :: r) with ((([c] ++ q) ++ [58]) ++ r)
    by (rewrite <- app_assoc; reflexivity).
  constructor; [|apply M_any_star_intro; exact Hr].
  constructor; [|constructor; reflexivity].
  constructor; [constructor; assumption | apply star_cls_M; assumption].
Qed.

Lemma delim_cls_spec d : in_ranges d delim_cls = true <-> is_delim d = true.
Proof. unfold in_ranges, in_range, delim_cls, is_delim; simpl. lia. Qed.

Lemma rel_cls_spec c : in_ranges c rel_cls = true <-> (special c = false /\ c <= max_rune).
Proof.
  unfold in_ranges, in_range, rel_cls, special, is_delim, colon_or_amp, max_rune; simpl. lia.
Qed.

Lemma rel_alt_shape l : accepts (prefix_of S_rel_alt) l = true ->
  exists p rest, l = p ++ rest /\ Forall (fun c => in_ranges c rel_cls = true) p /\
    (rest = [] \/ exists d r, rest = d :: r /\ is_delim d = true).
Proof.
  intros H. apply accepts_M in H. unfold prefix_of, S_rel_alt in H.
  apply M_Cat_inv in H as (m & r & -> & H & _).
  apply M_Cat_inv in H as (p & e & -> & Hp & He).
  apply M_star_cls in Hp. apply M_Alt_inv in He as [He|He].
  - apply M_Cls_inv in He as (d & -> & Hd). apply delim_cls_spec in Hd.
    exists p, (d :: r). rewrite <- app_assoc. repeat split; eauto.
  - apply M_EndText_inv in He as [-> Hn]. rewrite app_nil_r.
    destruct r as [|x r]; [|discriminate]. exists p, []. rewrite app_nil_r. auto.
Qed.

Lemma rel_alt_accepts p rest : Forall (fun c => in_ranges c rel_cls = true) p ->
  (rest = [] \/ exists d r, rest = d :: r /\ is_delim d = true /\ wf_runes r) ->
  accepts (prefix_of S_rel_alt) (p ++ rest) = true.
Proof.
  intros Hp Hr. apply accepts_M. unfold prefix_of, S_rel_alt.
  destruct Hr as [->|(d & r & -> & Hd & Hr)].
  - replace (p ++ []) with ((p ++ []) ++ []) by (rewrite !app_nil_r; reflexivity).
    constructor; [|constructor].
    constructor; [apply star_cls_M; exact Hp|]. apply MAltR. constructor.
  - change (p ++ d :: r) with (p ++ ([d] ++ r)). rewrite app_assoc.
    constructor; [|apply M_any_star_intro; exact Hr].
    constructor; [apply star_cls_M; exact Hp|]. apply MAltL. constructor.
    apply delim_cls_spec. exact Hd.
Qed.

Lemma take_until_colon_prefix q r : Forall (fun c => c <> 58) q -> take_until_colon (q ++ 58 :: r) = q.
Proof.
  induction 1 as [|c q Hc Hq IH]; cbn [app take_until_colon]; [reflexivity|].
  destruct (c =? 58) eqn:E; [lia|]. rewrite IH. reflexivity.
Qed.

(* ================================================================== *)
(* is_safe_url through the specification expressions *)
Lemma is_safe_url_eq (s : bytes) :
  is_safe_url s =
  if accepts (prefix_of S_scheme_alt) (lower_runes s)
  then negb (list_eqb N.eqb (take_until_colon (lower_runes s)) javascript_scheme)
  else accepts (prefix_of S_rel_alt) (lower_runes s).
Proof.
  unfold is_safe_url. cbv zeta.
  change (Cat G_safeURL_scheme_alt any_star) with (prefix_of G_safeURL_scheme_alt).
  change (Cat G_safeURL_rel_alt any_star) with (prefix_of G_safeURL_rel_alt).
  rewrite (equiv_ok_sound _ _ bridge_scheme_ok), (equiv_ok_sound _ _ bridge_rel_ok). reflexivity.
Qed.

Lemma list_eqb_N a b : list_eqb N.eqb a b = true <-> a = b.
Proof. apply list_eqb_eq. intros; apply N.eqb_eq. Qed.

(* what the sanitizer accepts, on the runes of the input (before lower-casing) *)
Definition scheme_shape (w : list N) : Prop :=
  exists q r, w = q ++ 58 :: r /\ q <> [] /\
    Forall (fun c => in_ranges (to_lower c) scheme_cls = true) q /\
    map to_lower q <> javascript_scheme.

Lemma is_safe_url_shape (s : bytes) : is_safe_url s = true ->
  scheme_shape (decode_runes s) \/ colon_amp_only_after_delim (decode_runes s) = true.
Proof.
  rewrite is_safe_url_eq. unfold lower_runes. set (w := decode_runes s).
  destruct (accepts (prefix_of S_scheme_alt) (map to_lower w)) eqn:Es; intros H.
  - left. apply scheme_alt_shape in Es as (q & r & E & Hne & Hq).
    assert (Hq58 : Forall (fun c => c <> 58) q).
    { eapply Forall_impl; [|exact Hq]. intros c Hc ->. discriminate. }
    rewrite E, take_until_colon_prefix in H by exact Hq58.
    apply map_eq_app in E as (q0 & w2 & Ew & Eq & E2).
    apply map_eq_cons in E2 as (x & r0 & -> & Ex & _).
    apply (to_lower_special_inv x 58) in Ex; [|left; reflexivity]. subst x.
    exists q0, r0. split; [exact Ew|]. split; [intros ->; apply Hne; subst q; reflexivity|].
    split; [apply (proj1 (Forall_map to_lower (fun c => in_ranges c scheme_cls = true) q0)); rewrite Eq; exact Hq|].
    rewrite Eq. intros Ej. apply list_eqb_N in Ej. rewrite Ej in H. discriminate.
  - right. apply rel_alt_shape in H as (p & rest & E & Hp & Hr).
    apply map_eq_app in E as (p0 & rest0 & Ew & Ep & Erest).
    apply oad_shape. exists p0, rest0. split; [exact Ew|]. split.
    + rewrite <- Ep in Hp. apply Forall_map in Hp. eapply Forall_impl; [|exact Hp].
      intros c Hc. apply rel_cls_spec in Hc as [Hc _].
      destruct (special c) eqn:Esp.
      * rewrite to_lower_special in Hc by auto. congruence.
      * unfold special in Esp. apply orb_false_iff in Esp. exact Esp.
    + destruct Hr as [->|(d & r & -> & Hd)].
      * left. apply map_eq_nil in Erest. exact Erest.
      * right. apply map_eq_cons in Erest as (d0 & r0 & -> & Ed & _).
        apply (to_lower_special_inv d0 d) in Ed; [|left; unfold special; rewrite Hd; reflexivity].
        subst d0. eauto.
Qed.

(* ================================================================== *)
(* soundness: no javascript scheme, for the two shapes *)
Lemma scheme_shape_no_js w : scheme_shape w -> whatwg_scheme w <> Some javascript_scheme.
Proof.
  intros (q & r & -> & Hne & Hq & Hj) H.
  apply whatwg_scheme_prefix in H as [Hf Ex]; [|exact Hne|].
  - apply Hj. rewrite Ex. apply map_ext_in. intros c Hc.
    rewrite forallb_forall in Hf. rewrite Forall_forall in Hq.
    destruct (lower_in_scheme_cls c (Hq c Hc)) as (_ & _ & Hl). apply Hl, Hf, Hc.
  - eapply Forall_impl; [|exact Hq]. intros c Hc.
    destruct (lower_in_scheme_cls c Hc) as (H1 & H2 & _). split; [exact H1|].
    intros ->. discriminate.
Qed.

Lemma rel_shape_no_scheme w : colon_amp_only_after_delim w = true -> whatwg_scheme w = None.
Proof.
  intros H. apply oad_no_scheme. eapply oad_weaken; [|exact H].
  intros c Hc. unfold colon_or_amp, is_colon in *. rewrite Hc. reflexivity.
Qed.

Lemma safe_shape_no_js w :
  scheme_shape w \/ colon_amp_only_after_delim w = true -> whatwg_scheme w <> Some javascript_scheme.
Proof.
  intros [H|H]; [apply scheme_shape_no_js; exact H|].
  rewrite (rel_shape_no_scheme w H). discriminate.
Qed.

(* the shapes survive any character-reference decoder that copies the text before the
   first '&' *)
Lemma scheme_shape_no_amp q : Forall (fun c => in_ranges (to_lower c) scheme_cls = true) q ->
  ~ In 38 (q ++ [58]).
Proof.
  intros Hq Hin. apply in_app_or in Hin as [Hin|[Hin|[]]]; [|discriminate].
  rewrite Forall_forall in Hq. destruct (lower_in_scheme_cls 38 (Hq _ Hin)) as (_ & H & _).
  discriminate.
Qed.

Lemma scheme_shape_dec dec w : charref_decoder_on_runes dec -> scheme_shape w -> scheme_shape (dec w).
Proof.
  intros Hd (q & r & -> & Hne & Hq & Hj).
  destruct (Hd (q ++ [58]) r (scheme_shape_no_amp q Hq)) as (t' & E & _).
  rewrite <- app_assoc in E. cbn [app] in E. rewrite E.
  exists q, t'. rewrite <- app_assoc. auto.
Qed.

Lemma rel_shape_dec dec w : charref_decoder_on_runes dec ->
  colon_amp_only_after_delim w = true -> colon_amp_only_after_delim (dec w) = true.
Proof.
  intros Hd H. apply oad_shape in H as (p & rest & -> & Hp & Hr). apply oad_shape.
  assert (Hp38 : ~ In 38 p).
  { intros Hin. rewrite Forall_forall in Hp. destruct (Hp _ Hin) as [_ Hb]. discriminate. }
  destruct Hr as [->|(d & r & -> & Hdd)].
  - destruct (Hd p [] Hp38) as (t' & E & Ht). rewrite (Ht eq_refl) in E. rewrite E.
    exists p, []. auto.
  - assert (Hpd : ~ In 38 (p ++ [d])).
    { intros Hin. apply in_app_or in Hin as [Hin|[->|[]]]; [auto | discriminate]. }
    destruct (Hd (p ++ [d]) r Hpd) as (t' & E & _).
    rewrite <- app_assoc in E. cbn [app] in E. rewrite E.
    exists p, (d :: t'). rewrite <- app_assoc. split; [reflexivity|]. split; [exact Hp|]. eauto.
Qed.

(* the same for a decoder that works on the UTF-8 bytes *)
Lemma safe_shape_dec_bytes decb (s : bytes) : charref_decoder_on_bytes decb ->
  scheme_shape (decode_runes s) \/ colon_amp_only_after_delim (decode_runes s) = true ->
  scheme_shape (decode_runes (decb s)) \/ colon_amp_only_after_delim (decode_runes (decb s)) = true.
Proof.
  intros Hd [(q & r & E & Hne & Hq & Hj)|H].
  - left. destruct (decode_split_ascii s q 58 r eq_refl E) as (a & b & -> & Ea & _).
    assert (Ha : ~ In 38 (a ++ [58])).
    { intros Hin. apply in_app_or in Hin as [Hin|[Hin|[]]]; [|discriminate].
      apply (decode_in_ascii a 38 eq_refl) in Hin. rewrite Ea in Hin.
      apply (scheme_shape_no_amp q Hq). apply in_or_app. left. exact Hin. }
    destruct (Hd (a ++ [58]) b Ha) as (t' & Et & _).
    rewrite <- app_assoc in Et. cbn [app] in Et. rewrite Et.
    rewrite <- app_assoc. cbn [app]. rewrite (decode_app_ascii a 58 t' eq_refl), Ea.
    exists q, (decode_runes t'). auto.
  - right. apply oad_shape in H as (p & rest & E & Hp & Hr). apply oad_shape.
    assert (Hp38 : ~ In 38 p).
    { intros Hin. rewrite Forall_forall in Hp. destruct (Hp _ Hin) as [_ Hb]. discriminate. }
    destruct Hr as [->|(d & r & -> & Hdd)].
    + rewrite app_nil_r in E. assert (Hs : ~ In 38 s).
      { intros Hin. apply (decode_in_ascii s 38 eq_refl) in Hin. rewrite E in Hin. auto. }
      destruct (Hd s [] Hs) as (t' & Et & Ht). rewrite (Ht eq_refl), !app_nil_r in Et.
      rewrite Et, E. exists p, []. rewrite app_nil_r. auto.
    + assert (Hd128 : d < 128) by (unfold is_delim in Hdd; lia).
      destruct (decode_split_ascii s p d r Hd128 E) as (a & b & -> & Ea & _).
      assert (Ha : ~ In 38 (a ++ [d])).
      { intros Hin. apply in_app_or in Hin as [Hin|[->|[]]]; [|discriminate].
        apply (decode_in_ascii a 38 eq_refl) in Hin. rewrite Ea in Hin. auto. }
      destruct (Hd (a ++ [d]) b Ha) as (t' & Et & _).
      rewrite <- app_assoc in Et. cbn [app] in Et. rewrite Et.
      rewrite <- app_assoc. cbn [app]. rewrite (decode_app_ascii a d t' Hd128), Ea.
      exists p, (d :: decode_runes t'). split; [reflexivity|]. split; [exact Hp|]. eauto.
Qed.

(* the executable decoder of spec/WhatwgUrl.v is such a decoder *)
Lemma html_decode_fuel_stable attr p : forall fuel t, ~ In 38 p -> (length p <= fuel)%nat ->
  exists t', html_decode_fuel fuel attr (p ++ t) = p ++ t' /\ (t = [] -> t' = []).
Proof.
  induction p as [|c p IH]; intros fuel t Hp Hl.
  - exists (html_decode_fuel fuel attr t). split; [reflexivity|]. intros ->. destruct fuel; reflexivity.
  - destruct fuel as [|f]; [simpl in Hl; lia|]. cbn [app html_decode_fuel].
    assert (E : c =? 38 = false).
    { destruct (c =? 38) eqn:E; [|reflexivity]. exfalso. apply Hp. left. lia. }
    rewrite E. destruct (IH f t) as (t' & Et & Ht).
    + intros Hin. apply Hp. right. exact Hin.
    + simpl in Hl. lia.
    + exists t'. rewrite Et. auto.
Qed.

Lemma html_decode_stable attr : charref_decoder_on_runes (html_decode attr).
Proof.
  intros p t Hp. unfold html_decode. apply html_decode_fuel_stable; [exact Hp|].
  rewrite app_length. lia.
Qed.

(* ================================================================== *)
(* the theorems *)
Lemma innocuous_is_safe : is_safe_url innocuous_url = true.
Proof. vm_compute. reflexivity. Qed.

Lemma url_sanitized_range (s : bytes) : url_sanitized s = s \/ url_sanitized s = innocuous_url.
Proof. unfold url_sanitized. destruct (is_safe_url s); auto. Qed.

Lemma url_sanitized_same (s : bytes) : url_sanitized s = s -> is_safe_url s = true.
Proof.
  unfold url_sanitized. destruct (is_safe_url s) eqn:E; [reflexivity|].
  intros <-. rewrite innocuous_is_safe in E. discriminate.
Qed.

Lemma url_sanitized_no_js (s : bytes) : url_sanitized s = s ->
  whatwg_scheme (decode_runes s) <> Some javascript_scheme /\
  whatwg_scheme (html_decode false (decode_runes s)) <> Some javascript_scheme /\
  whatwg_scheme (html_decode true (decode_runes s)) <> Some javascript_scheme.
Proof.
  intros H. apply url_sanitized_same, is_safe_url_shape in H.
  split; [apply safe_shape_no_js; exact H|].
  split; apply safe_shape_no_js; destruct H as [H|H];
    solve [left; apply scheme_shape_dec; [apply html_decode_stable | exact H]
          |right; apply rel_shape_dec; [apply html_decode_stable | exact H]].
Qed.

Lemma url_sanitized_no_js_any_decoder (s : bytes) : url_sanitized s = s ->
  (forall dec : list N -> list N, charref_decoder_on_runes dec ->
     whatwg_scheme (dec (decode_runes s)) <> Some javascript_scheme) /\
  (forall decb : bytes -> bytes, charref_decoder_on_bytes decb ->
     whatwg_scheme (decode_runes (decb s)) <> Some javascript_scheme).
Proof.
  intros H. apply url_sanitized_same, is_safe_url_shape in H. split.
  - intros dec Hd. apply safe_shape_no_js. destruct H as [H|H].
    + left. apply scheme_shape_dec; assumption.
    + right. apply rel_shape_dec; assumption.
  - intros decb Hd. apply safe_shape_no_js. apply safe_shape_dec_bytes; assumption.
Qed.

(* ---- completeness ---- *)
Lemma decode_ascii_prefix a b : Forall (fun c => c < 128) a -> decode_runes (a ++ b) = a ++ decode_runes b.
Proof.
  induction 1 as [|c a Hc Ha IH]; [reflexivity|]. cbn [app].
  rewrite decode_ascii by exact Hc. rewrite IH. reflexivity.
Qed.

Lemma wf_decode (s : bytes) : wf_runes (decode_runes s).
Proof. exact (decode_runes_bounded s). Qed.

Lemma keeps_schemes (sch rest : bytes) :
  sch <> [] -> Forall (fun b => scheme_char b = true) sch ->
  map ascii_lower sch <> javascript_scheme ->
  url_sanitized (sch ++ 58 :: rest) = sch ++ 58 :: rest.
Proof.
  intros Hne Hs Hj. unfold url_sanitized.
  assert (E : is_safe_url (sch ++ 58 :: rest) = true); [|rewrite E; reflexivity].
  assert (Hascii : Forall (fun c => c < 128) sch).
  { eapply Forall_impl; [|exact Hs]. intros c Hc. apply scheme_char_ascii in Hc. tauto. }
  assert (El : lower_runes (sch ++ 58 :: rest) =
               map ascii_lower sch ++ 58 :: map to_lower (decode_runes rest)).
  { unfold lower_runes. rewrite decode_ascii_prefix by exact Hascii.
    rewrite decode_ascii by reflexivity. rewrite map_app. cbn [map].
    rewrite (to_lower_fixed 58) by reflexivity. f_equal.
    apply map_ext_in. intros c Hc. rewrite Forall_forall in Hascii.
    apply to_lower_ascii. apply Hascii. exact Hc. }
  assert (Hcls : Forall (fun c => in_ranges c scheme_cls = true) (map ascii_lower sch)).
  { apply Forall_map. eapply Forall_impl; [|exact Hs]. intros c. apply scheme_char_lower_cls. }
  rewrite is_safe_url_eq, El.
  rewrite scheme_alt_accepts.
  - rewrite take_until_colon_prefix.
    + destruct (list_eqb N.eqb (map ascii_lower sch) javascript_scheme) eqn:Ej; [|reflexivity].
      apply list_eqb_N in Ej. contradiction.
    + eapply Forall_impl; [|exact Hcls]. intros c Hc ->. discriminate.
  - destruct sch; [contradiction | discriminate].
  - exact Hcls.
  - apply wf_lower, wf_decode.
Qed.

Lemma decode_nonspecial (p : bytes) :
  Forall (fun c => is_delim c = false /\ colon_or_amp c = false) p ->
  Forall (fun c => is_delim c = false /\ colon_or_amp c = false) (decode_runes p).
Proof.
  intros Hp. apply Forall_forall. intros c Hc.
  destruct (special c) eqn:Es.
  - assert (c < 128) by (apply (special_small c); auto).
    apply decode_in_ascii in Hc; [|assumption]. rewrite Forall_forall in Hp.
    destruct (Hp c Hc) as [H1 H2]. unfold special in Es. rewrite H1, H2 in Es. discriminate.
  - unfold special in Es. apply orb_false_iff in Es. exact Es.
Qed.

Lemma oad_decode (s : bytes) : colon_amp_only_after_delim s = true ->
  colon_amp_only_after_delim (decode_runes s) = true.
Proof.
  intros H. apply oad_shape in H as (p & rest & -> & Hp & Hr). apply oad_shape.
  apply decode_nonspecial in Hp.
  destruct Hr as [->|(d & r & -> & Hd)].
  - rewrite app_nil_r. exists (decode_runes p), []. rewrite app_nil_r. auto.
  - assert (d < 128) by (unfold is_delim in Hd; lia).
    rewrite decode_app_ascii by assumption.
    exists (decode_runes p), (d :: decode_runes r). split; [reflexivity|]. split; [exact Hp|]. eauto.
Qed.

Lemma special_lower c : special c = false -> special (to_lower c) = false.
Proof.
  intros H. destruct (special (to_lower c)) eqn:E; [|reflexivity].
  assert (c = to_lower c) by (apply to_lower_special_inv; auto). congruence.
Qed.

Lemma oad_lower w : colon_amp_only_after_delim w = true ->
  colon_amp_only_after_delim (map to_lower w) = true.
Proof.
  unfold colon_amp_only_after_delim.
  induction w as [|c t IH]; cbn [map only_after_delim]; intros H; [reflexivity|].
  destruct (is_delim c) eqn:Ed.
  - rewrite to_lower_special by (left; unfold special; rewrite Ed; reflexivity).
    rewrite Ed. reflexivity.
  - destruct (colon_or_amp c) eqn:Ec; [discriminate|].
    assert (Es : special c = false) by (unfold special; rewrite Ed, Ec; reflexivity).
    apply special_lower in Es. unfold special in Es. apply orb_false_iff in Es as [E1 E2].
    rewrite E1, E2. apply IH. exact H.
Qed.

Lemma keeps_relative_b (s : bytes) : colon_amp_only_after_delim s = true -> url_sanitized s = s.
Proof.
  intros H. unfold url_sanitized.
  assert (E : is_safe_url s = true); [|rewrite E; reflexivity].
  apply oad_decode, oad_lower in H. fold (lower_runes s) in H.
  assert (Hwf : wf_runes (lower_runes s)) by (apply wf_lower, wf_decode).
  rewrite is_safe_url_eq.
  destruct (accepts (prefix_of S_scheme_alt) (lower_runes s)) eqn:Es.
  - exfalso. apply scheme_alt_shape in Es as (q & r & Eq & _ & Hq). rewrite Eq in H.
    unfold colon_amp_only_after_delim in H. rewrite oad_first_bad in H; [discriminate| |reflexivity|reflexivity].
    eapply Forall_impl; [|exact Hq]. intros c Hc. apply scheme_cls_spec in Hc.
    unfold is_delim. lia.
  - apply oad_shape in H as (p & rest & Ep & Hp & Hr). rewrite Ep in *.
    apply wf_runes_app in Hwf as [Hwp Hwr]. apply rel_alt_accepts.
    + apply Forall_forall. intros c Hc. apply rel_cls_spec.
      rewrite Forall_forall in Hp. destruct (Hp c Hc) as [H1 H2].
      unfold wf_runes in Hwp. rewrite Forall_forall in Hwp.
      split; [unfold special; rewrite H1, H2; reflexivity | apply Hwp; exact Hc].
    + destruct Hr as [->|(d & r & -> & Hd)]; [left; reflexivity|]. right.
      exists d, r. inversion Hwr; subst. auto.
Qed.

Lemma keeps_relative (s : bytes) :
  (forall q c r, s = q ++ c :: r -> c = 58 \/ c = 38 ->
     exists d, In d q /\ (d = 47 \/ d = 63 \/ d = 35)) ->
  url_sanitized s = s.
Proof.
  intros H. apply keeps_relative_b. apply oad_of_spec. intros q c r E Hc.
  destruct (H q c r E) as (d & Hin & Hd); [unfold colon_or_amp in Hc; lia|].
  exists d. split; [exact Hin | unfold is_delim; lia].
Qed.

(* the boolean recognisers used by the check driver say the same *)
Lemma ascii_scheme_of_spec (s : bytes) : forall sch, ascii_scheme_of s = Some sch ->
  exists rest, s = sch ++ 58 :: rest /\ Forall (fun b => scheme_char b = true) sch.
Proof.
  induction s as [|c t IH]; intros sch; cbn [ascii_scheme_of]; [discriminate|].
  destruct (scheme_char c) eqn:Ec.
  - destruct (ascii_scheme_of t) as [r0|]; [|discriminate]. intros E. inversion E; subst.
    destruct (IH r0 eq_refl) as (rest & -> & Hr). exists rest. split; [reflexivity|].
    constructor; assumption.
  - destruct (c =? 58) eqn:E58; [|discriminate]. intros E. inversion E; subst.
    exists t. assert (c = 58) as -> by lia. split; [reflexivity | constructor].
Qed.

Lemma keeps_recognised (s : bytes) :
  starts_with_safe_scheme s = true \/ colon_amp_only_after_delim s = true -> url_sanitized s = s.
Proof.
  intros [H|H]; [|apply keeps_relative_b; exact H].
  unfold starts_with_safe_scheme in H. destruct (ascii_scheme_of s) as [sch|] eqn:E; [|discriminate].
  apply ascii_scheme_of_spec in E as (rest & -> & Hs).
  destruct sch as [|c sch]; [discriminate|]. apply keeps_schemes; [discriminate | exact Hs|].
  intros Ej. apply list_eqb_N in Ej. rewrite Ej in H. discriminate.
Qed.

(* ================================================================== *)
(* strip_trailing is what the standard says: remove the longest trailing run *)
Fixpoint drop_while (f : N -> bool) (w : list N) : list N :=
  match w with [] => [] | c :: t => if f c then drop_while f t else w end.

Lemma strip_trailing_snoc w c :
  strip_trailing (w ++ [c]) = if c0_or_space c then strip_trailing w else w ++ [c].
Proof.
  induction w as [|x w IH]; cbn [app strip_trailing].
  - destruct (c0_or_space c); reflexivity.
  - rewrite IH. destruct (c0_or_space c); [reflexivity|]. destruct w; reflexivity.
Qed.

Lemma strip_trailing_rev w : strip_trailing w = rev (drop_while c0_or_space (rev w)).
Proof.
  rewrite <- (rev_involutive w) at 1. generalize (rev w) as l. clear w.
  induction l as [|c l IH]; [reflexivity|]. cbn [rev drop_while].
  rewrite strip_trailing_snoc, IH. destruct (c0_or_space c); reflexivity.
Qed.

(* ================================================================== *)
(* non-vacuity *)
Example accepts_scheme_url : url_sanitized (B "https://example.com/a?b=c&d#e") = B "https://example.com/a?b=c&d#e".
Proof. vm_compute. reflexivity. Qed.
Example accepts_relative_url : url_sanitized (B "../img/x.png?a=1&b=2:3") = B "../img/x.png?a=1&b=2:3".
Proof. vm_compute. reflexivity. Qed.
Example accepts_dotted_I_scheme : url_sanitized [196; 176; 58; 120] = [196; 176; 58; 120]     (* U+0130 ":x" *)
  /\ whatwg_scheme (decode_runes [196; 176; 58; 120]) = None.
Proof. vm_compute. split; reflexivity. Qed.
Example rejects_javascript : url_sanitized (B "JavaScript:alert(1)") = innocuous_url.
Proof. vm_compute. reflexivity. Qed.
Example rejects_leading_space : url_sanitized (B " javascript:x") = innocuous_url.
Proof. vm_compute. reflexivity. Qed.
Example rejects_inner_tab : url_sanitized [106; 97; 118; 97; 9; 115; 99; 114; 105; 112; 116; 58; 120] = innocuous_url.
Proof. vm_compute. reflexivity. Qed.
Example rejects_entity_colon : url_sanitized (B "javascript&colon;x") = innocuous_url.
Proof. vm_compute. reflexivity. Qed.
Example rejects_entity_letter : url_sanitized (B "jav&#x61;script:x") = innocuous_url.
Proof. vm_compute. reflexivity. Qed.
(* "javascr" U+0130 "pt:x": lower-cases to javascript *)
Example rejects_dotted_I : url_sanitized [106; 97; 118; 97; 115; 99; 114; 196; 176; 112; 116; 58; 120] = innocuous_url.
Proof. vm_compute. reflexivity. Qed.
(* the oracle does see javascript in what is rejected: the clauses are not vacuous *)
Example oracle_sees_js :
  whatwg_scheme (B " JavaScript:alert(1)") = Some javascript_scheme /\
  whatwg_scheme [106; 97; 118; 97; 9; 115; 99; 114; 105; 112; 116; 58; 120] = Some javascript_scheme /\
  whatwg_scheme (html_decode true (B "javascript&colon;x")) = Some javascript_scheme /\
  whatwg_scheme (html_decode false (B "jav&#x61;script&#58;x")) = Some javascript_scheme /\
  whatwg_scheme (html_decode true (B "&#1;java&Tab;script&NewLine;:x")) = Some javascript_scheme.
Proof. vm_compute. repeat split; reflexivity. Qed.
