(* C03: safe-type values bypass sanitization only in their own context; attribute values are escaped. *)
From V Require Import lib.Base lib.Utf8 gen.GenPolicy.
From V Require Import model.Html model.HtmlUnescape model.Url model.UrlProc model.UrlSet model.TContext model.TSanitize
     model.TSanitizers spec.HtmlSpec spec.SanitizerSpec proofs.HtmlFacts proofs.PolicyFacts.
Local Open Scope N_scope.

Lemma indirect_iter n v : indirect (Nat.iter n VPtr v) = indirect v.
Proof. induction n; simpl; auto. Qed.
Lemma stringify_iter n v : stringify (Nat.iter n VPtr v) = stringify v.
Proof. induction n; simpl; auto. Qed.

Ltac eval_closed :=
  repeat match goal with
         | |- context [bytes_eqb ?a ?b] =>
             let r := eval vm_compute in (bytes_eqb a b) in change (bytes_eqb a b) with r
         | |- context [mem_bytes ?a (map fst P_enumValues)] =>
             let r := eval vm_compute in (mem_bytes a (map fst P_enumValues)) in
             change (mem_bytes a (map fst P_enumValues)) with r
         end.

Theorem sanitizer_matrix f k s n : In f sanitizer_names ->
  apply_sanitizer f (Nat.iter n VPtr (VSafe k s)) =
  if own f k then Some s else apply_sanitizer f (VStr s).
Proof.
  unfold sanitizer_names. intros Hin.
  repeat (destruct Hin as [<-|Hin]; [
    unfold apply_sanitizer, own, typed_only, enum_sanitizer;
    rewrite ?indirect_iter, ?stringify_iter; destruct k; eval_closed; cbn [indirect stringify orb kind_eqb kind_num N.eqb Pos.eqb];
    reflexivity |]).
  destruct Hin.
Qed.

(* every chain built for an attribute value ends with the HTML escaper *)
Lemma apply_chain_last pre v :
  pre <> [] ->
  forall o, apply_chain (pre ++ [N_sanitizeHTML]) v = Some o ->
  exists s, o = html_escaped s.
Proof.
  revert v. induction pre as [|f pre IH]; intros v Hne o H; [congruence|].
  destruct pre as [|g pre].
  - simpl in H. destruct (apply_sanitizer f v) as [s|]; [|discriminate].
    exists s. unfold apply_sanitizer in H. 
    change (bytes_eqb N_sanitizeHTML (B "_sanitizeHTML")) with true in H. simpl in H. congruence.
  - change ((f :: g :: pre) ++ [N_sanitizeHTML]) with (f :: ((g :: pre) ++ [N_sanitizeHTML])) in H.
    cbn [apply_chain app] in H.
    destruct (apply_sanitizer f v) as [s|]; [|discriminate].
    apply (IH (VStr s)); [intro Hx; discriminate Hx | exact H].
Qed.

Theorem attr_value_escaped_partial c chain v o :
  sanitizers_for_attr_value c = Some chain ->
  (2 <= length chain)%nat \/ is_html_kind_value v = false ->
  apply_chain chain v = Some o ->
  attr_inert o = true.
Proof.
  intros Hc Hcond Ha. apply attr_chain_shape in Hc as (sc0 & _ & _ & _ & _ & _ & pre & ->).
  assert (Hesc : exists s, o = html_escaped s).
  { destruct pre as [|f pre].
    - destruct Hcond as [Hl|Hk]; [simpl in Hl; lia|].
      simpl in Ha. unfold apply_sanitizer in Ha.
      change (bytes_eqb N_sanitizeHTML (B "_sanitizeHTML")) with true in Ha. cbn [negb] in Ha.
      unfold is_html_kind_value in Hk.
      destruct (indirect v) as [ | k s | | | ] eqn:Ei; try (inversion Ha; eauto; fail).
      destruct k; try (inversion Ha; eauto; fail). cbn in Hk. discriminate Hk.
    - apply (apply_chain_last (f :: pre) v); [intro Hx; discriminate Hx | exact Ha]. }
  destruct Hesc as [s ->]. unfold attr_inert.
  destruct (html_escaped_alphabet s) as [H1 H2]. rewrite H1, H2. reflexivity.
Qed.
