(* C07: results obtained through one name space do not depend on what was done through others.

   Execute and ExecuteTemplate through a handle of name space b read only b's record, b's association, the
   text templates it lists and b's member objects (agree).  By the isolation theorems (EngineIsoFacts.v,
   EngineOwnFacts.v) a history of operations through other name spaces leaves all of that alone, so the
   call answers with the same result class as it would have answered before that history: the same error
   code, or the execution of the same text template.  (What text/template then prints is not modelled.) *)
From V Require Import lib.Base gen.GenTemplate model.GoStrings model.TContext model.TTransition
     model.TEscapeText model.TSanitize model.TTree model.TEscaper model.Engine proofs.EngineFacts proofs.EngineHistFacts proofs.EngineInvFacts proofs.EngineOkFacts proofs.EngineIsoFacts proofs.EngineOwnFacts.
From Coq Require Import Arith PeanoNat Lia.
Local Open Scope N_scope.

(* ---- the client's handles are only ever extended ---- *)
Definition hext (w w' : world) : Prop :=
  forall h x, nth_error (w_handles w) h = Some x -> nth_error (w_handles w') h = Some x.
Lemma hext_refl w : hext w w. Proof. intros h x H; exact H. Qed.
Lemma hext_trans a b c : hext a b -> hext b c -> hext a c. Proof. intros A B h x H. apply B, A, H. Qed.
Lemma hext_same w w' : w_handles w' = w_handles w -> hext w w'. Proof. intros E h x H. rewrite E. exact H. Qed.
Lemma hext_add_handle w r : hext w (add_handle w r).
Proof. intros h x H. cbn. rewrite nth_error_app1; [exact H | apply nth_error_Some; congruence]. Qed.
Lemma hext_fold {A} (f : world -> A -> world) (l : list A) : (forall w a, hext w (f w a)) -> forall w, hext w (fold_left f l w).
Proof. intros Hf. induction l as [|a l IH]; intros w; simpl; [apply hext_refl | eapply hext_trans; [apply Hf | apply IH]]. Qed.
Lemma handles_alloc_new w name : w_handles (fst (alloc_new w name)) = w_handles w. Proof. reflexivity. Qed.
Lemma handles_sub_new w obj name : w_handles (fst (sub_new w obj name)) = w_handles w.
Proof. rewrite sub_new_eq. cbv zeta. cbn [fst]. unfold sn_w4. destruct (assoc_get name _); reflexivity. Qed.

Lemma step_hext w op : hext w (fst (step w op)).
Proof.
  destruct op as [name|h name|h p|h|h name|h|h name|h|h]; cbn [step].
  - pose proof (handles_alloc_new w name) as H. destruct (alloc_new w name) as [w1 obj]. cbn [fst] in *.
    eapply hext_trans; [apply hext_same; exact H | apply hext_add_handle].
  - destruct (handle w h) as [obj|]; [|apply hext_refl].
    pose proof (handles_sub_new w obj name) as H. destruct (sub_new w obj name) as [w1 o']. cbn [fst] in *.
    eapply hext_trans; [apply hext_same; exact H | apply hext_add_handle].
  - destruct (handle w h) as [obj|]; [|apply hext_refl].
    destruct (n_escaped _); [apply hext_refl|]. destruct p as [|trees]; [apply hext_refl|]. cbn [fst].
    match goal with |- hext w (fold_left ?f2 ?l2 (fold_left ?f1 trees w)) => set (F1 := f1); set (F2 := f2); set (L2 := l2) end.
    apply (hext_trans w (fold_left F1 trees w)); [apply hext_fold; intros w0 kv; apply hext_same; apply add_parse_tree_frame|].
    apply hext_fold. intros w0 kv. unfold F2. cbn [fst snd].
    destruct (assoc_get (fst kv) _); [apply hext_same; reflexivity|].
    pose proof (handles_sub_new w0 obj (fst kv)) as H. destruct (sub_new w0 obj (fst kv)) as [w1 m]. cbn [fst] in *.
    apply hext_same. exact H.
  - destruct (handle w h) as [obj|]; [|apply hext_refl].
    destruct (h_err (get_tmpl w obj)); try apply hext_refl.
    pose proof (clone_text_frame w (get_text w (h_text (get_tmpl w obj)))) as (_ & _ & F3).
    destruct (clone_text w _) as [[w1 cid] ntid]. cbn [fst snd] in *. cbn [new_ns new_tmpl].
    match goal with |- context [fold_left ?f ?l (Some ?w4)] => set (W4 := w4); set (F := f) end.
    assert (H4 : w_handles W4 = w_handles w) by exact F3.
    assert (G : forall l w0 w', fold_left F l (Some w0) = Some w' -> w_handles w' = w_handles w0).
    { induction l as [|kv l IH]; intros w0 w' H; cbn [fold_left] in H; [inversion H; reflexivity|].
      destruct (F (Some w0) kv) as [w0b|] eqn:Er; [|unfold F in H; rewrite cm_fold_none in H; discriminate].
      rewrite (IH _ _ H). unfold F, clone_member in Er. destruct (assoc_get (fst kv) _); [|discriminate].
      destruct (h_err _); try discriminate. cbn [new_tmpl] in Er. inversion Er. reflexivity. }
    destruct (fold_left F (get_common W4 cid) (Some W4)) as [w5|] eqn:Ef; [|apply hext_refl]. cbn [fst].
    eapply hext_trans; [apply hext_same; rewrite (G _ _ _ Ef); exact H4 | apply hext_add_handle].
  - destruct (handle w h) as [obj|]; [|apply hext_refl]. apply hext_add_handle.
  - destruct (handle w h) as [obj|]; [|apply hext_refl].
    assert (S0 : hext w (set_escaped w (h_ns (get_tmpl w obj)))) by (apply hext_same; reflexivity).
    destruct (h_err (get_tmpl w obj)); cbn [fst]; try exact S0.
    destruct (h_tree_nil (get_tmpl w obj)); cbn [fst]; [exact S0|].
    match goal with |- context [escape_template ?wa ?na ?nm] =>
      pose proof (escape_template_frame wa na nm) as (SE & _); destruct (escape_template wa na nm) as [w2 [[[code|]|pp]|]] end; cbn [fst] in *;
      (eapply hext_trans; [exact S0 | apply hext_same; exact SE]).
  - destruct (handle w h) as [obj|]; [|apply hext_refl].
    assert (S0 : hext w (set_escaped w (h_ns (get_tmpl w obj)))) by (apply hext_same; reflexivity).
    destruct (assoc_get name _) as [m|]; cbn [fst]; [|exact S0].
    destruct (h_err (get_tmpl _ m)); cbn [fst]; try exact S0;
      destruct (x_tree _); cbn [fst]; try exact S0;
      destruct (assoc_get name (get_common _ _)); cbn [fst]; try exact S0.
    match goal with |- context [escape_template ?wa ?na ?nm] =>
      pose proof (escape_template_frame wa na nm) as (SE & _); destruct (escape_template wa na nm) as [w2 [[[code|]|pp]|]] end; cbn [fst] in *;
      (eapply hext_trans; [exact S0 | apply hext_same; exact SE]).
  - destruct (handle w h); apply hext_refl.
  - destruct (handle w h) as [obj|]; [|apply hext_refl]. apply hext_same. reflexivity.
Qed.

Lemma run_from_hext ops : forall w, hext w (run_from w ops).
Proof. induction ops as [|op ops IH]; intros w; cbn [run_from fold_left]; [apply hext_refl | eapply hext_trans; [apply step_hext | apply IH]]. Qed.

Lemma handle_ext w w' h obj : hext w w' -> handle w h = Some obj -> handle w' h = Some obj.
Proof.
  intros E H. unfold handle in *. destruct (nth_error (w_handles w) h) as [x|] eqn:En; [|discriminate].
  rewrite (E h x En). exact H.
Qed.

(* ---- what Execute / ExecuteTemplate through name space b read: two worlds that agree on it answer alike ---- *)
Definition agree (b : nat) (wA wB : world) : Prop :=
  get_ns wA b = get_ns wB b /\ get_common wA b = get_common wB b /\
  (forall k t, In (k, t) (get_common wB b) -> get_text wA t = get_text wB t) /\
  (forall nm o, assoc_get nm (n_set (get_ns wB b)) = Some o ->
     get_tmpl wA o = get_tmpl wB o /\ x_common (get_text wB (h_text (get_tmpl wB o))) = b /\
     get_text wA (h_text (get_tmpl wB o)) = get_text wB (h_text (get_tmpl wB o))).

Lemma agree_set_escaped b wA wB : agree b wA wB -> agree b (set_escaped wA b) (set_escaped wB b).
Proof.
  intros (A1 & A2 & A3 & A4). unfold set_escaped. split; [rewrite !get_ns_put_ns_same, A1; reflexivity|].
  split; [exact A2|]. split; [exact A3|]. intros nm o H. rewrite get_ns_put_ns_same in H. cbn [n_set] in H. exact (A4 nm o H).
Qed.

Lemma ns_view_agree b wA wB : agree b wA wB -> ns_view wA b = ns_view wB b.
Proof.
  intros (A1 & A2 & A3 & A4). unfold ns_view. rewrite A1.
  destruct (n_set (get_ns wB b)) as [|[nm o] rest] eqn:Es; [reflexivity|].
  assert (Hm : assoc_get nm ((nm, o) :: rest) = Some o) by (cbn; rewrite bytes_eqb_refl; reflexivity).
  destruct (A4 nm o Hm) as (B1 & B2 & B3). rewrite B1, B3, B2, A2.
  f_equal. f_equal. apply map_ext_in. intros [k t] Hin. cbn [fst snd]. rewrite (A3 k t Hin). reflexivity.
Qed.

Lemma escape_template_snd_agree b wA wB name : agree b wA wB ->
  snd (escape_template wA b name) = snd (escape_template wB b name).
Proof.
  intros HA. pose proof (ns_view_agree b wA wB HA) as V. destruct HA as (A1 & _).
  unfold escape_template. rewrite V, A1.
  destruct (ns_view wB b) as [view|]; [|reflexivity].
  destruct (escape_tree view analysis_fuel ctx0 name (n_esc (get_ns wB b))) as [[[c dn] e1]|p]; [|reflexivity].
  destruct (match c_err c with Some code => Some code | None => if state_eqb (c_state c) StText then None else Some ErrEndContext end) as [code|];
    destruct (assoc_get name (n_set (get_ns wB b))); reflexivity.
Qed.

Lemma escape_template_h_text w n name o : h_text (get_tmpl (fst (escape_template w n name)) o) = h_text (get_tmpl w o).
Proof.
  unfold escape_template. destruct (ns_view w n) as [view|]; [|reflexivity].
  destruct (escape_tree view analysis_fuel ctx0 name (n_esc (get_ns w n))) as [[[c dn] e1]|p]; [|reflexivity].
  set (w1 := put_ns w n _).
  destruct (match c_err c with Some code => Some code | None => if state_eqb (c_state c) StText then None else Some ErrEndContext end) as [code|].
  - destruct (assoc_get name (n_set (get_ns w n))) as [m|]; cbn [fst]; [|reflexivity].
    change (get_tmpl (put_text ?a ?b ?c) o) with (get_tmpl a o).
    destruct (Nat.eq_dec m o) as [->|Hne]; [rewrite get_tmpl_put_tmpl_same; reflexivity | rewrite get_tmpl_put_tmpl_other by exact Hne; reflexivity].
  - destruct (commit_frame w1 n) as (C1 & _).
    assert (G : forall o', get_tmpl (commit w1 n) o' = get_tmpl w o') by (intros o'; unfold get_tmpl; rewrite C1; reflexivity).
    destruct (assoc_get name (n_set (get_ns w n))) as [m|]; cbn [fst]; [|apply f_equal; apply G].
    destruct (Nat.eq_dec m o) as [->|Hne]; [rewrite get_tmpl_put_tmpl_same; cbn [h_text]; rewrite G; reflexivity | rewrite get_tmpl_put_tmpl_other by exact Hne; rewrite G; reflexivity].
Qed.

Theorem execute_agree b wA wB h obj : agree b wA wB ->
  handle wA h = Some obj -> handle wB h = Some obj -> get_tmpl wA obj = get_tmpl wB obj ->
  h_ns (get_tmpl wB obj) = b ->
  get_text wA (h_text (get_tmpl wB obj)) = get_text wB (h_text (get_tmpl wB obj)) ->
  snd (step wA (OExecute h)) = snd (step wB (OExecute h)).
Proof.
  intros HA HhA HhB Ht Hb Hx. cbn [step]. rewrite HhA, HhB, Ht, Hb.
  set (t := get_tmpl wB obj) in *.
  destruct (h_err t); [|reflexivity|reflexivity].
  destruct (h_tree_nil t); [reflexivity|].
  change (get_text (set_escaped wA b) (h_text t)) with (get_text wA (h_text t)).
  change (get_text (set_escaped wB b) (h_text t)) with (get_text wB (h_text t)). rewrite Hx.
  pose proof (escape_template_snd_agree b _ _ (x_name (get_text wB (h_text t))) (agree_set_escaped b wA wB HA)) as S.
  pose proof (escape_template_h_text (set_escaped wA b) b (x_name (get_text wB (h_text t))) obj) as HA2.
  pose proof (escape_template_h_text (set_escaped wB b) b (x_name (get_text wB (h_text t))) obj) as HB2.
  change (get_tmpl (set_escaped wA b) obj) with (get_tmpl wA obj) in HA2. change (get_tmpl (set_escaped wB b) obj) with (get_tmpl wB obj) in HB2.
  destruct (escape_template (set_escaped wA b) b _) as [wA2 rA]. destruct (escape_template (set_escaped wB b) b _) as [wB2 rB].
  cbn [fst snd] in *. subst rA. destruct rB as [[[code|]|pp]|]; cbn [snd]; try reflexivity; rewrite HA2, HB2, Ht; reflexivity.
Qed.

Theorem execute_template_agree b wA wB h obj name : agree b wA wB ->
  handle wA h = Some obj -> handle wB h = Some obj -> get_tmpl wA obj = get_tmpl wB obj ->
  h_ns (get_tmpl wB obj) = b ->
  get_text wA (h_text (get_tmpl wB obj)) = get_text wB (h_text (get_tmpl wB obj)) ->
  x_common (get_text wB (h_text (get_tmpl wB obj))) = b ->
  snd (step wA (OExecuteTemplate h name)) = snd (step wB (OExecuteTemplate h name)).
Proof.
  intros HA HhA HhB Ht Hb Hx Hc. cbn [step]. rewrite HhA, HhB, Ht, Hb.
  set (t := get_tmpl wB obj) in *.
  pose proof (agree_set_escaped b wA wB HA) as (E1 & E2 & E3 & E4).
  rewrite E1.
  destruct (assoc_get name (n_set (get_ns (set_escaped wB b) b))) as [m|] eqn:Em; [|reflexivity].
  destruct (E4 name m Em) as (M1 & M2 & M3). rewrite M1.
  set (tm := get_tmpl (set_escaped wB b) m) in *.
  rewrite M3.
  change (get_text (set_escaped wA b) (h_text t)) with (get_text wA (h_text t)).
  change (get_text (set_escaped wB b) (h_text t)) with (get_text wB (h_text t)). rewrite Hx, Hc, E2.
  pose proof (escape_template_snd_agree b _ _ name (conj E1 (conj E2 (conj E3 E4)))) as S.
  pose proof (escape_template_h_text (set_escaped wA b) b name m) as HA2.
  pose proof (escape_template_h_text (set_escaped wB b) b name m) as HB2.
  rewrite M1 in HA2. fold tm in HA2, HB2.
  destruct (h_err tm); try reflexivity;
    destruct (x_tree (get_text (set_escaped wB b) (h_text tm))); try reflexivity;
    destruct (assoc_get name (get_common (set_escaped wB b) b)); try reflexivity.
  destruct (escape_template (set_escaped wA b) b name) as [wA2 rA]. destruct (escape_template (set_escaped wB b) b name) as [wB2 rB].
  cbn [fst snd] in *. subst rA. destruct rB as [[[code|]|pp]|]; cbn [snd]; try reflexivity; rewrite HA2, HB2; reflexivity.
Qed.

(* ---- C07: nothing done through other name spaces changes what Execute / ExecuteTemplate answer ---- *)
Lemma agree_after_foreign_history b ops : forall w, J w -> (b < length (w_ns w))%nat -> other_ns_hist w b ops ->
  agree b (run_from w ops) w.
Proof.
  intros w HJ Hb Hh. pose proof (other_sets_untouched_hist b ops w HJ Hb Hh) as (S1 & S2 & S3 & _).
  pose proof HJ as ((HI & HT) & HTT).
  split; [exact S3|]. split; [exact S2|].
  split; [intros k t Hin; apply S1; [eapply cc_bound; eassumption | exact (proj1 HT _ _ _ Hin)]|].
  intros nm o Hm. destruct HI as (Hsc & Hcc & Hhb). destruct (Hsc b nm o Hm) as ((O1 & O2) & O3 & _).
  destruct (proj2 HTT o O1) as (_ & Q2). rewrite O3 in Q2.
  split; [apply other_sets_objects_untouched_hist; [exact (conj Hsc (conj Hcc Hhb)) | exact O1 | rewrite O3; exact Hh]|].
  split; [exact Q2 | apply S1; [exact O2 | exact Q2]].
Qed.

Theorem foreign_history_keeps_results b ops0 ops h obj :
  let w := run_from world0 ops0 in
  handle w h = Some obj -> h_ns (get_tmpl w obj) = b -> other_ns_hist w b ops ->
  let w' := run_from w ops in
  snd (step w' (OExecute h)) = snd (step w (OExecute h)) /\
  forall name, snd (step w' (OExecuteTemplate h name)) = snd (step w (OExecuteTemplate h name)).
Proof.
  cbv zeta. intros Hh Hb Hhist. pose proof (J_reachable ops0) as HJ. set (w := run_from world0 ops0) in *.
  destruct (handle_ns_lt w h obj HJ Hh) as ((Ok1 & Ok2) & Hn). rewrite Hb in Hn.
  pose proof (agree_after_foreign_history b ops w HJ Hn Hhist) as HA.
  pose proof HJ as ((HI & HT) & HTT).
  assert (Hh' : handle (run_from w ops) h = Some obj) by (eapply handle_ext; [apply run_from_hext | exact Hh]).
  assert (Ht : get_tmpl (run_from w ops) obj = get_tmpl w obj) by (apply other_sets_objects_untouched_hist; [exact HI | exact Ok1 | rewrite Hb; exact Hhist]).
  destruct (proj2 HTT obj Ok1) as (_ & Q2). rewrite Hb in Q2.
  assert (Hx : get_text (run_from w ops) (h_text (get_tmpl w obj)) = get_text w (h_text (get_tmpl w obj))).
  { destruct (other_sets_untouched_hist b ops w HJ Hn Hhist) as (S1 & _). apply S1; [exact Ok2 | exact Q2]. }
  split; [apply (execute_agree b _ _ h obj HA Hh' Hh Ht Hb Hx)|].
  intros name. apply (execute_template_agree b _ _ h obj name HA Hh' Hh Ht Hb Hx Q2).
Qed.

(* non-vacuity: the original of own_hist, with Parse and Execute through its clone in between *)
Example foreign_history_premises_satisfiable :
  let w := run_from world0 own_hist in
  handle w 0 = Some 0%nat /\ h_ns (get_tmpl w 0) = 0%nat /\
  other_ns_hist w 0 [OParse 1 (Parsed [(B "u", own_tree)]); OExecute 1] /\
  snd (step w (OExecute 0)) = RExec 0.
Proof.
  cbv zeta. split; [vm_compute; reflexivity|]. split; [vm_compute; reflexivity|].
  split; [apply set_isolation_premises_satisfiable | vm_compute; reflexivity].
Qed.
