(* Basic facts about the WHATWG tokenizer specification (spec/HtmlTok.v) that the template
   proofs build on:
     - hstate_eqb decides equality of tokenizer states;
     - tok_run distributes over concatenation of the input;
     - exactly one position class is recorded per input byte;
     - INERTNESS: a byte string without the delimiter of the construct it is placed in leaves the
       tokenizer in the same state, emits no token, and is classified as text of that construct.
       Stated as full equations on the machine state (run_data, run_rcdata, run_rawtext,
       run_script, run_plaintext, run_attr_dq, run_attr_sq, run_comment) and summarised in
       the theorem inertness;
     - Examples evaluated by the kernel. *)
From V Require Import lib.Base spec.HtmlTok.
From Coq Require Import ZifyBool ZifyN.
Local Open Scope N_scope.

(* ------------------------------------------------------------------ equality of states *)

Lemma hstate_code_inj a b : hstate_code a = hstate_code b -> a = b.
Proof.
  destruct a, b; cbn [hstate_code]; intros H; try discriminate H;
    try (injection H; intros; subst); reflexivity.
Qed.

Lemma hstate_eqb_eq a b : hstate_eqb a b = true <-> a = b.
Proof.
  unfold hstate_eqb. destruct (hstate_code a) as [ca na] eqn:Ea.
  destruct (hstate_code b) as [cb nb] eqn:Eb. split.
  - intros H. apply andb_true_iff in H as [H1 H2]. apply N.eqb_eq in H1.
    apply bytes_eqb_eq in H2. subst. apply hstate_code_inj. congruence.
  - intros ->. rewrite Ea in Eb. injection Eb as -> ->.
    rewrite N.eqb_refl, bytes_eqb_refl. reflexivity.
Qed.

Lemma hstate_eqb_refl a : hstate_eqb a a = true.
Proof. apply hstate_eqb_eq. reflexivity. Qed.

(* ------------------------------------------------------------------ runs compose *)

Lemma tok_run_app t (a b : bytes) : tok_run t (a ++ b) = tok_run (tok_run t a) b.
Proof. unfold tok_run. apply fold_left_app. Qed.

Lemma tok_run_cons t b (o : bytes) : tok_run t (b :: o) = tok_run (tok_step t b) o.
Proof. reflexivity. Qed.

Lemma skel_tokens_app (a b : list htoken) : skel_tokens (a ++ b) = skel_tokens a ++ skel_tokens b.
Proof. unfold skel_tokens. apply flat_map_app. Qed.

Lemma chars_of_app (a b : list htoken) : chars_of (a ++ b) = chars_of a ++ chars_of b.
Proof. unfold chars_of. apply flat_map_app. Qed.

Lemma skel_final (s : bytes) : snd (skel s) = r_final (html_tokenize SData s).
Proof. reflexivity. Qed.

(* ------------------------------------------------------------------ one class per byte *)

Lemma cls_ts_state s t : t_classes (ts_state s t) = t_classes t. Proof. reflexivity. Qed.
Lemma cls_ts_cr c t : t_classes (ts_cr c t) = t_classes t. Proof. reflexivity. Qed.
Lemma cls_ts_tag g t : t_classes (ts_tag g t) = t_classes t. Proof. reflexivity. Qed.
Lemma cls_ts_tmp x t : t_classes (ts_tmp x t) = t_classes t. Proof. reflexivity. Qed.
Lemma cls_ts_data x t : t_classes (ts_data x t) = t_classes t. Proof. reflexivity. Qed.
Lemma cls_ts_text x t : t_classes (ts_text x t) = t_classes t. Proof. reflexivity. Qed.
Lemma cls_ts_toks x t : t_classes (ts_toks x t) = t_classes t. Proof. reflexivity. Qed.
Lemma cls_emit_char c t : t_classes (emit_char c t) = t_classes t. Proof. reflexivity. Qed.
Lemma cls_emit_chars l t : t_classes (emit_chars l t) = t_classes t. Proof. reflexivity. Qed.
Lemma cls_emit_char_nul c t : t_classes (emit_char_nul c t) = t_classes t.
Proof. unfold emit_char_nul. destruct (c =? 0); reflexivity. Qed.
Lemma cls_flush_text t : t_classes (flush_text t) = t_classes t.
Proof. unfold flush_text. destruct (t_text t); reflexivity. Qed.
Lemma cls_emit_tok k t : t_classes (emit_tok k t) = t_classes t.
Proof. unfold emit_tok. cbn [ts_toks t_classes]. apply cls_flush_text. Qed.
Lemma cls_emit_tag sc t : t_classes (emit_tag sc t) = t_classes t.
Proof.
  unfold emit_tag. destruct (g_is_end (t_tag t));
    rewrite cls_ts_tag, cls_ts_state; apply cls_emit_tok.
Qed.
Lemma cls_emit_comment t : t_classes (emit_comment t) = t_classes t.
Proof. unfold emit_comment. rewrite cls_ts_data, cls_ts_state. apply cls_emit_tok. Qed.
Lemma cls_emit_doctype t : t_classes (emit_doctype t) = t_classes t.
Proof. unfold emit_doctype. rewrite cls_ts_data, cls_ts_state. apply cls_emit_tok. Qed.
Lemma cls_new_tag e t : t_classes (new_tag e t) = t_classes t. Proof. reflexivity. Qed.
Lemma cls_name_app l t : t_classes (name_app l t) = t_classes t. Proof. reflexivity. Qed.
Lemma cls_start_attr l t : t_classes (start_attr l t) = t_classes t. Proof. reflexivity. Qed.
Lemma cls_aname_app l t : t_classes (aname_app l t) = t_classes t. Proof. reflexivity. Qed.
Lemma cls_aval_push c t : t_classes (aval_push c t) = t_classes t. Proof. reflexivity. Qed.
Lemma cls_data_push c t : t_classes (data_push c t) = t_classes t. Proof. reflexivity. Qed.
Lemma cls_data_push_nul c t : t_classes (data_push_nul c t) = t_classes t.
Proof. unfold data_push_nul. destruct (c =? 0); reflexivity. Qed.
Lemma cls_data_app l t : t_classes (data_app l t) = t_classes t. Proof. reflexivity. Qed.
Lemma cls_tmp_push c t : t_classes (tmp_push c t) = t_classes t. Proof. reflexivity. Qed.

Create HintDb tcls.
#[export] Hint Rewrite cls_ts_state cls_ts_cr cls_ts_tag cls_ts_tmp cls_ts_data cls_ts_text cls_ts_toks
  cls_emit_char cls_emit_chars cls_emit_char_nul cls_flush_text cls_emit_tok cls_emit_tag
  cls_emit_comment cls_emit_doctype cls_new_tag cls_name_app cls_start_attr cls_aname_app
  cls_aval_push cls_data_push cls_data_push_nul cls_data_app cls_tmp_push : tcls.

Ltac split_ifs :=
  repeat match goal with
         | |- context [if ?c then _ else _] => destruct c
         end.

(* a state handler never touches the recorded classes *)
Lemma step1_classes t b : t_classes (fst (step1 t b)) = t_classes t.
Proof.
  unfold step1, h_lt, h_end_tag_open, h_end_tag_name, h_double, h_markup_decl_open, go, stay,
    reconsume.
  destruct (t_state t); cbv zeta; split_ifs; cbn [fst]; autorewrite with tcls; reflexivity.
Qed.

Lemma step_loop_classes fuel : forall t b,
  exists c, t_classes (step_loop fuel t b) = c :: t_classes t.
Proof.
  induction fuel as [|f IH]; intros t b; cbn [step_loop];
    pose proof (step1_classes t b) as H1; destruct (step1 t b) as [t1 re]; cbn [fst] in H1;
    destruct re.
  - eexists. cbn [push_class t_classes]. rewrite H1. reflexivity.
  - eexists. cbn [push_class t_classes]. rewrite H1. reflexivity.
  - destruct (IH t1 b) as [c Hc]. exists c. rewrite Hc, H1. reflexivity.
  - eexists. cbn [push_class t_classes]. rewrite H1. reflexivity.
Qed.

Lemma tok_step_classes t b : exists c, t_classes (tok_step t b) = c :: t_classes t.
Proof.
  unfold tok_step, step_char.
  destruct (b =? 13).
  - destruct (step_loop_classes 4 t 10) as [c Hc]. exists c. rewrite cls_ts_cr. exact Hc.
  - destruct ((b =? 10) && t_cr t).
    + eexists. reflexivity.
    + destruct (step_loop_classes 4 t b) as [c Hc]. exists c. rewrite cls_ts_cr. exact Hc.
Qed.

Lemma tok_run_classes_length : forall (s : bytes) t,
  length (t_classes (tok_run t s)) = (length s + length (t_classes t))%nat.
Proof.
  induction s as [|b s IH]; intros t.
  - reflexivity.
  - rewrite tok_run_cons, IH. destruct (tok_step_classes t b) as [c Hc]. rewrite Hc.
    cbn [length]. lia.
Qed.

(* (i) the list of position classes has the length of the input *)
Theorem classes_length init (s : bytes) :
  length (r_classes (html_tokenize init s)) = length s.
Proof.
  unfold html_tokenize. cbn [r_classes]. rewrite rev_length, tok_run_classes_length.
  cbn [tok_init t_classes length]. lia.
Qed.

(* ------------------------------------------------------------------ inertness *)

(* what newline normalisation (and NUL replacement) appends to a REVERSED accumulator x for one
   byte b when the previous byte was CR iff cr *)
Definition push_nl (cr : bool) (b : N) (x : bytes) : bytes :=
  if b =? 13 then 10 :: x else if (b =? 10) && cr then x else b :: x.
Definition push_nl_nul (cr : bool) (b : N) (x : bytes) : bytes :=
  if b =? 13 then 10 :: x else if (b =? 10) && cr then x
  else if b =? 0 then FFFD_rev ++ x else b :: x.

Fixpoint acc_nl (cr : bool) (o : bytes) (x : bytes) : bytes :=
  match o with [] => x | b :: r => acc_nl (b =? 13) r (push_nl cr b x) end.
Fixpoint acc_nl_nul (cr : bool) (o : bytes) (x : bytes) : bytes :=
  match o with [] => x | b :: r => acc_nl_nul (b =? 13) r (push_nl_nul cr b x) end.
Fixpoint cr_after (cr : bool) (o : bytes) : bool :=
  match o with [] => cr | b :: r => cr_after (b =? 13) r end.
Fixpoint acc_classes (c : posclass) (o : bytes) (x : list posclass) : list posclass :=
  match o with [] => x | _ :: r => acc_classes c r (c :: x) end.

(* the same, as functions of the whole string: 13.2.3.5 newline normalisation, then NUL -> U+FFFD *)
Fixpoint norm_nl (cr : bool) (o : bytes) : bytes :=
  match o with
  | [] => []
  | b :: r => if b =? 13 then 10 :: norm_nl true r
              else if (b =? 10) && cr then norm_nl false r
              else b :: norm_nl false r
  end.
Definition norm_nul (o : bytes) : bytes :=
  flat_map (fun b => if b =? 0 then FFFD_bytes else [b]) o.

Lemma acc_nl_spec : forall (o : bytes) cr x, acc_nl cr o x = rev (norm_nl cr o) ++ x.
Proof.
  induction o as [|b o IH]; intros cr x; cbn [acc_nl norm_nl].
  - reflexivity.
  - rewrite IH. unfold push_nl. destruct (b =? 13); [|destruct ((b =? 10) && cr)];
      cbn [rev]; rewrite <- ?app_assoc; reflexivity.
Qed.

Lemma acc_nl_nul_spec : forall (o : bytes) cr x,
  acc_nl_nul cr o x = rev (norm_nul (norm_nl cr o)) ++ x.
Proof.
  induction o as [|b o IH]; intros cr x; cbn [acc_nl_nul norm_nl].
  - reflexivity.
  - rewrite IH. unfold push_nl_nul. destruct (b =? 13) eqn:E13.
    + cbn [norm_nul flat_map]. change (10 =? 0) with false. cbn [app rev].
      rewrite <- app_assoc. reflexivity.
    + destruct ((b =? 10) && cr); [reflexivity|].
      cbn [norm_nul flat_map]. destruct (b =? 0).
      * fold (norm_nul (norm_nl false o)). rewrite rev_app_distr, <- app_assoc. reflexivity.
      * fold (norm_nul (norm_nl false o)). cbn [app rev]. rewrite <- app_assoc. reflexivity.
Qed.

Lemma acc_classes_spec : forall (o : bytes) c x,
  acc_classes c o x = rev (map (fun _ => c) o) ++ x.
Proof.
  induction o as [|b o IH]; intros c x; cbn [acc_classes map rev].
  - reflexivity.
  - rewrite IH, <- app_assoc. reflexivity.
Qed.

Definition lacks (c : N) (o : bytes) : Prop := Forall (fun b => b <> c) o.

Lemma lacks_cons c b (o : bytes) : lacks c (b :: o) -> (b =? c) = false /\ lacks c o.
Proof. intros H. inversion H; subst. split; [apply N.eqb_neq; assumption | assumption]. Qed.

(* One byte, one case analysis per state.  Each lemma gives the whole machine state after the
   byte.  [solve_step] unfolds the step for a destructed machine state. *)
Ltac solve_step :=
  unfold tok_step, step_char, emit_char_nul, aval_push, data_push_nul;
  cbn [step_loop step1 t_state t_cr class_of stay go emit_char emit_char_nul aval_push data_push_nul
       data_push ts_text ts_cr ts_tag ts_data ts_state push_class t_text t_tag t_tmp t_data
       t_toks t_classes g_is_end g_name g_attrs g_in_attr g_aname g_aval];
  repeat match goal with
         | H : (?b =? ?c) = _ |- context [?b =? ?c] => rewrite H
         end.

(* --- data state: everything but the less-than sign *)
Lemma step_data t b : t_state t = SData -> (b =? 60) = false ->
  tok_step t b = mk_tstate SData (b =? 13) (t_tag t) (t_tmp t) (t_data t)
                           (push_nl (t_cr t) b (t_text t)) (t_toks t) (PText :: t_classes t).
Proof.
  destruct t as [st cr g tmp d tx tk cl]. cbn [t_state t_cr t_tag t_tmp t_data t_text t_toks t_classes].
  intros -> H60. unfold push_nl. solve_step.
  destruct (b =? 13) eqn:E13; [reflexivity|].
  destruct (b =? 10) eqn:E10; destruct cr; cbn [andb]; solve_step; reflexivity.
Qed.

Theorem run_data : forall (o : bytes) t, t_state t = SData -> lacks 60 o ->
  tok_run t o = mk_tstate SData (cr_after (t_cr t) o) (t_tag t) (t_tmp t) (t_data t)
                          (acc_nl (t_cr t) o (t_text t)) (t_toks t)
                          (acc_classes PText o (t_classes t)).
Proof.
  induction o as [|b o IH]; intros t Hs Ho.
  - destruct t; cbn in Hs; subst; reflexivity.
  - apply lacks_cons in Ho as [Hb Ho]. rewrite tok_run_cons, (step_data t b Hs Hb).
    rewrite IH by (try reflexivity; assumption). reflexivity.
Qed.

(* --- RCDATA, RAWTEXT, script data: everything but the less-than sign; PLAINTEXT: everything *)
Lemma step_rcdata n t b : t_state t = SRcdata n -> (b =? 60) = false ->
  tok_step t b = mk_tstate (SRcdata n) (b =? 13) (t_tag t) (t_tmp t) (t_data t)
                           (push_nl_nul (t_cr t) b (t_text t)) (t_toks t) (PRcdata n :: t_classes t).
Proof.
  destruct t as [st cr g tmp d tx tk cl]. cbn [t_state t_cr t_tag t_tmp t_data t_text t_toks t_classes].
  intros -> H60. unfold push_nl_nul. solve_step.
  destruct (b =? 13) eqn:E13; [reflexivity|].
  destruct (b =? 10) eqn:E10; destruct cr; cbn [andb]; solve_step; try reflexivity;
    destruct (b =? 0); reflexivity.
Qed.

Theorem run_rcdata n : forall (o : bytes) t, t_state t = SRcdata n -> lacks 60 o ->
  tok_run t o = mk_tstate (SRcdata n) (cr_after (t_cr t) o) (t_tag t) (t_tmp t) (t_data t)
                          (acc_nl_nul (t_cr t) o (t_text t)) (t_toks t)
                          (acc_classes (PRcdata n) o (t_classes t)).
Proof.
  induction o as [|b o IH]; intros t Hs Ho.
  - destruct t; cbn in Hs; subst; reflexivity.
  - apply lacks_cons in Ho as [Hb Ho]. rewrite tok_run_cons, (step_rcdata n t b Hs Hb).
    rewrite IH by (try reflexivity; assumption). reflexivity.
Qed.

Lemma step_rawtext n t b : t_state t = SRawtext n -> (b =? 60) = false ->
  tok_step t b = mk_tstate (SRawtext n) (b =? 13) (t_tag t) (t_tmp t) (t_data t)
                           (push_nl_nul (t_cr t) b (t_text t)) (t_toks t) (PRawtext n :: t_classes t).
Proof.
  destruct t as [st cr g tmp d tx tk cl]. cbn [t_state t_cr t_tag t_tmp t_data t_text t_toks t_classes].
  intros -> H60. unfold push_nl_nul. solve_step.
  destruct (b =? 13) eqn:E13; [reflexivity|].
  destruct (b =? 10) eqn:E10; destruct cr; cbn [andb]; solve_step; try reflexivity;
    destruct (b =? 0); reflexivity.
Qed.

Theorem run_rawtext n : forall (o : bytes) t, t_state t = SRawtext n -> lacks 60 o ->
  tok_run t o = mk_tstate (SRawtext n) (cr_after (t_cr t) o) (t_tag t) (t_tmp t) (t_data t)
                          (acc_nl_nul (t_cr t) o (t_text t)) (t_toks t)
                          (acc_classes (PRawtext n) o (t_classes t)).
Proof.
  induction o as [|b o IH]; intros t Hs Ho.
  - destruct t; cbn in Hs; subst; reflexivity.
  - apply lacks_cons in Ho as [Hb Ho]. rewrite tok_run_cons, (step_rawtext n t b Hs Hb).
    rewrite IH by (try reflexivity; assumption). reflexivity.
Qed.

Lemma step_script t b : t_state t = SScriptData -> (b =? 60) = false ->
  tok_step t b = mk_tstate SScriptData (b =? 13) (t_tag t) (t_tmp t) (t_data t)
                           (push_nl_nul (t_cr t) b (t_text t)) (t_toks t) (PScript :: t_classes t).
Proof.
  destruct t as [st cr g tmp d tx tk cl]. cbn [t_state t_cr t_tag t_tmp t_data t_text t_toks t_classes].
  intros -> H60. unfold push_nl_nul. solve_step.
  destruct (b =? 13) eqn:E13; [reflexivity|].
  destruct (b =? 10) eqn:E10; destruct cr; cbn [andb]; solve_step; try reflexivity;
    destruct (b =? 0); reflexivity.
Qed.

Theorem run_script : forall (o : bytes) t, t_state t = SScriptData -> lacks 60 o ->
  tok_run t o = mk_tstate SScriptData (cr_after (t_cr t) o) (t_tag t) (t_tmp t) (t_data t)
                          (acc_nl_nul (t_cr t) o (t_text t)) (t_toks t)
                          (acc_classes PScript o (t_classes t)).
Proof.
  induction o as [|b o IH]; intros t Hs Ho.
  - destruct t; cbn in Hs; subst; reflexivity.
  - apply lacks_cons in Ho as [Hb Ho]. rewrite tok_run_cons, (step_script t b Hs Hb).
    rewrite IH by (try reflexivity; assumption). reflexivity.
Qed.

Lemma step_plaintext t b : t_state t = SPlaintext ->
  tok_step t b = mk_tstate SPlaintext (b =? 13) (t_tag t) (t_tmp t) (t_data t)
                           (push_nl_nul (t_cr t) b (t_text t)) (t_toks t) (PPlaintext :: t_classes t).
Proof.
  destruct t as [st cr g tmp d tx tk cl]. cbn [t_state t_cr t_tag t_tmp t_data t_text t_toks t_classes].
  intros ->. unfold push_nl_nul. solve_step.
  destruct (b =? 13) eqn:E13; [reflexivity|].
  destruct (b =? 10) eqn:E10; destruct cr; cbn [andb]; solve_step; try reflexivity;
    destruct (b =? 0); reflexivity.
Qed.

(* PLAINTEXT is never left, whatever the input *)
Theorem run_plaintext : forall (o : bytes) t, t_state t = SPlaintext ->
  tok_run t o = mk_tstate SPlaintext (cr_after (t_cr t) o) (t_tag t) (t_tmp t) (t_data t)
                          (acc_nl_nul (t_cr t) o (t_text t)) (t_toks t)
                          (acc_classes PPlaintext o (t_classes t)).
Proof.
  induction o as [|b o IH]; intros t Hs.
  - destruct t; cbn in Hs; subst; reflexivity.
  - rewrite tok_run_cons, (step_plaintext t b Hs). rewrite IH by reflexivity. reflexivity.
Qed.

(* --- quoted attribute values: everything but the closing quote.  The class is PAttrValue for a
   start tag; inside an end tag (whose attributes are dropped) it is PTagOther. *)
Definition with_aval (g : tagb) (v : bytes) : tagb :=
  mk_tagb (g_is_end g) (g_name g) (g_attrs g) (g_in_attr g) (g_aname g) v.
Definition aval_class (g : tagb) (q : qstyle) : posclass :=
  if g_is_end g then PTagOther else PAttrValue (g_name g) (g_aname g) q.

Lemma step_attr_dq t b : t_state t = SAttrValueDQ -> (b =? 34) = false ->
  tok_step t b = mk_tstate SAttrValueDQ (b =? 13)
                           (with_aval (t_tag t) (push_nl_nul (t_cr t) b (g_aval (t_tag t))))
                           (t_tmp t) (t_data t) (t_text t) (t_toks t)
                           (aval_class (t_tag t) Qdq :: t_classes t).
Proof.
  destruct t as [st cr g tmp d tx tk cl]. destruct g as [ie nm ats ia an av].
  cbn [t_state t_cr t_tag t_tmp t_data t_text t_toks t_classes g_aval].
  intros -> H34. unfold push_nl_nul, with_aval, aval_class. solve_step.
  destruct (b =? 13) eqn:E13; [destruct ie; reflexivity|].
  destruct (b =? 10) eqn:E10; destruct cr; cbn [andb orb]; solve_step; cbn [orb];
    destruct ie; try reflexivity; destruct (b =? 0); reflexivity.
Qed.

Lemma step_attr_sq t b : t_state t = SAttrValueSQ -> (b =? 39) = false ->
  tok_step t b = mk_tstate SAttrValueSQ (b =? 13)
                           (with_aval (t_tag t) (push_nl_nul (t_cr t) b (g_aval (t_tag t))))
                           (t_tmp t) (t_data t) (t_text t) (t_toks t)
                           (aval_class (t_tag t) Qsq :: t_classes t).
Proof.
  destruct t as [st cr g tmp d tx tk cl]. destruct g as [ie nm ats ia an av].
  cbn [t_state t_cr t_tag t_tmp t_data t_text t_toks t_classes g_aval].
  intros -> H39. unfold push_nl_nul, with_aval, aval_class. solve_step.
  destruct (b =? 13) eqn:E13; [destruct ie; reflexivity|].
  destruct (b =? 10) eqn:E10; destruct cr; cbn [andb orb]; solve_step; cbn [orb];
    destruct ie; try reflexivity; destruct (b =? 0); reflexivity.
Qed.

Theorem run_attr_dq : forall (o : bytes) t, t_state t = SAttrValueDQ -> lacks 34 o ->
  tok_run t o = mk_tstate SAttrValueDQ (cr_after (t_cr t) o)
                          (with_aval (t_tag t) (acc_nl_nul (t_cr t) o (g_aval (t_tag t))))
                          (t_tmp t) (t_data t) (t_text t) (t_toks t)
                          (acc_classes (aval_class (t_tag t) Qdq) o (t_classes t)).
Proof.
  induction o as [|b o IH]; intros t Hs Ho.
  - destruct t as [st cr g tmp d tx tk cl]; destruct g; cbn in Hs; subst; reflexivity.
  - apply lacks_cons in Ho as [Hb Ho]. rewrite tok_run_cons, (step_attr_dq t b Hs Hb).
    rewrite IH by (try reflexivity; assumption). reflexivity.
Qed.

Theorem run_attr_sq : forall (o : bytes) t, t_state t = SAttrValueSQ -> lacks 39 o ->
  tok_run t o = mk_tstate SAttrValueSQ (cr_after (t_cr t) o)
                          (with_aval (t_tag t) (acc_nl_nul (t_cr t) o (g_aval (t_tag t))))
                          (t_tmp t) (t_data t) (t_text t) (t_toks t)
                          (acc_classes (aval_class (t_tag t) Qsq) o (t_classes t)).
Proof.
  induction o as [|b o IH]; intros t Hs Ho.
  - destruct t as [st cr g tmp d tx tk cl]; destruct g; cbn in Hs; subst; reflexivity.
  - apply lacks_cons in Ho as [Hb Ho]. rewrite tok_run_cons, (step_attr_sq t b Hs Hb).
    rewrite IH by (try reflexivity; assumption). reflexivity.
Qed.

(* --- comment state: everything but the dash and the less-than sign *)
Lemma step_comment t b : t_state t = SComment -> (b =? 60) = false -> (b =? 45) = false ->
  tok_step t b = mk_tstate SComment (b =? 13) (t_tag t) (t_tmp t)
                           (push_nl_nul (t_cr t) b (t_data t)) (t_text t) (t_toks t)
                           (PComment :: t_classes t).
Proof.
  destruct t as [st cr g tmp d tx tk cl]. cbn [t_state t_cr t_tag t_tmp t_data t_text t_toks t_classes].
  intros -> H60 H45. unfold push_nl_nul. solve_step.
  destruct (b =? 13) eqn:E13; [reflexivity|].
  destruct (b =? 10) eqn:E10; destruct cr; cbn [andb]; solve_step; try reflexivity;
    destruct (b =? 0); reflexivity.
Qed.

Theorem run_comment : forall (o : bytes) t, t_state t = SComment -> lacks 60 o -> lacks 45 o ->
  tok_run t o = mk_tstate SComment (cr_after (t_cr t) o) (t_tag t) (t_tmp t)
                          (acc_nl_nul (t_cr t) o (t_data t)) (t_text t) (t_toks t)
                          (acc_classes PComment o (t_classes t)).
Proof.
  induction o as [|b o IH]; intros t Hs Ho Hd.
  - destruct t; cbn in Hs; subst; reflexivity.
  - apply lacks_cons in Ho as [Hb Ho]. apply lacks_cons in Hd as [Hb' Hd].
    rewrite tok_run_cons, (step_comment t b Hs Hb Hb').
    rewrite IH by (try reflexivity; assumption). reflexivity.
Qed.

(* --- (ii) the inertness theorem in the form the template proofs use.
   A byte string without angle brackets and quotes (ampersands are allowed), consumed in the data
   state, in RCDATA or inside a quoted attribute value: the tokenizer state is unchanged, no token
   is emitted (t_toks unchanged; the pending text / the current attribute value grows by the
   newline-normalised, NUL-replaced bytes), nothing else of the machine state changes, and every
   byte is classified as text of the construct. *)
Definition inert_byte (b : N) : Prop := b <> 60 /\ b <> 62 /\ b <> 34 /\ b <> 39.
Definition inert (o : bytes) : Prop := Forall inert_byte o.

Lemma inert_lacks (o : bytes) : inert o -> lacks 60 o /\ lacks 62 o /\ lacks 34 o /\ lacks 39 o.
Proof.
  unfold inert, lacks, inert_byte. intros H. repeat split;
    (eapply Forall_impl; [|exact H]; cbn beta; intros a Ha; tauto).
Qed.

Theorem inertness (o : bytes) : inert o ->
  (forall t, t_state t = SData ->
     let t' := tok_run t o in
     t_state t' = SData /\ t_toks t' = t_toks t /\ t_tag t' = t_tag t /\
     t_text t' = rev (norm_nl (t_cr t) o) ++ t_text t /\
     t_classes t' = rev (map (fun _ => PText) o) ++ t_classes t) /\
  (forall n t, t_state t = SRcdata n ->
     let t' := tok_run t o in
     t_state t' = SRcdata n /\ t_toks t' = t_toks t /\ t_tag t' = t_tag t /\
     t_text t' = rev (norm_nul (norm_nl (t_cr t) o)) ++ t_text t /\
     t_classes t' = rev (map (fun _ => PRcdata n) o) ++ t_classes t) /\
  (forall t, t_state t = SAttrValueDQ ->
     let t' := tok_run t o in
     t_state t' = SAttrValueDQ /\ t_toks t' = t_toks t /\ t_text t' = t_text t /\
     t_tag t' = with_aval (t_tag t) (rev (norm_nul (norm_nl (t_cr t) o)) ++ g_aval (t_tag t)) /\
     t_classes t' = rev (map (fun _ => aval_class (t_tag t) Qdq) o) ++ t_classes t) /\
  (forall t, t_state t = SAttrValueSQ ->
     let t' := tok_run t o in
     t_state t' = SAttrValueSQ /\ t_toks t' = t_toks t /\ t_text t' = t_text t /\
     t_tag t' = with_aval (t_tag t) (rev (norm_nul (norm_nl (t_cr t) o)) ++ g_aval (t_tag t)) /\
     t_classes t' = rev (map (fun _ => aval_class (t_tag t) Qsq) o) ++ t_classes t).
Proof.
  intros Hi. destruct (inert_lacks o Hi) as (H60 & _ & H34 & H39).
  split; [|split; [|split]].
  - intros t Hs. cbv zeta. rewrite (run_data o t Hs H60).
    cbn [t_state t_toks t_tag t_text t_classes]. rewrite acc_nl_spec, acc_classes_spec. tauto.
  - intros n t Hs. cbv zeta. rewrite (run_rcdata n o t Hs H60).
    cbn [t_state t_toks t_tag t_text t_classes]. rewrite acc_nl_nul_spec, acc_classes_spec. tauto.
  - intros t Hs. cbv zeta. rewrite (run_attr_dq o t Hs H34).
    cbn [t_state t_toks t_tag t_text t_classes]. rewrite acc_nl_nul_spec, acc_classes_spec. tauto.
  - intros t Hs. cbv zeta. rewrite (run_attr_sq o t Hs H39).
    cbn [t_state t_toks t_tag t_text t_classes]. rewrite acc_nl_nul_spec, acc_classes_spec. tauto.
Qed.

(* In a start tag the class of every such byte is PAttrValue element attribute quote. *)
Lemma aval_class_start g q : g_is_end g = false -> aval_class g q = PAttrValue (g_name g) (g_aname g) q.
Proof. unfold aval_class. intros ->. reflexivity. Qed.

(* Whole-input corollary: inert data alone is one run of text, and the final state is data. *)
Corollary inert_from_data (o : bytes) : inert o ->
  let r := html_tokenize SData o in
  r_final r = SData /\ skel_tokens (r_tokens r) = [] /\ r_classes r = map (fun _ => PText) o.
Proof.
  intros Hi. destruct (inert_lacks o Hi) as (H60 & _). cbv zeta. unfold html_tokenize.
  rewrite (run_data o (tok_init SData) eq_refl H60).
  cbn [r_final r_tokens r_classes t_state t_classes tok_init t_cr t_tag t_tmp t_data t_text t_toks].
  split; [reflexivity|]. split.
  - unfold tok_eof, eof_flush, flush_text. cbn [t_state t_text t_toks ts_toks ts_text].
    destruct (acc_nl false o []); reflexivity.
  - rewrite acc_classes_spec, app_nil_r, rev_involutive. reflexivity.
Qed.

(* ------------------------------------------------------------------ (iii) examples *)

Definition toks (s : bytes) : list htoken := r_tokens (html_tokenize SData s).

(* the classic double-escape example: x is text only after the SECOND end tag *)
Example ex_script_double_escape :
  toks (B "<script><!--<script></script>--></script>x")
  = [StartTag (B "script") [] false; Chars (B "<!--<script></script>-->");
     EndTag (B "script"); Chars (B "x")].
Proof. vm_compute. reflexivity. Qed.

(* ... and the states: inside the inner script the machine is double escaped, after the first end
   tag escaped, after the closing arrow plain script data *)
Example ex_script_states :
  map (fun s => r_final (html_tokenize SData s))
      [B "<script><!--<script>"; B "<script><!--<script></script>";
       B "<script><!--<script></script>-->"; B "<script><!--<script></script>--></script>"]
  = [SScriptDataDoubleEscaped; SScriptDataEscaped; SScriptData; SData].
Proof. vm_compute. reflexivity. Qed.

Example ex_script_classes :
  r_classes (html_tokenize SData (B "<script>a</script>x"))
  = [PTagOther; PTagName; PTagName; PTagName; PTagName; PTagName; PTagName; PTagOther;
     PScript; PScript; PScript; PScript; PScript; PScript; PScript; PScript; PScript; PScript;
     PText].
Proof. vm_compute. reflexivity. Qed.

Example ex_title :
  toks (B "<title></title><b>")
  = [StartTag (B "title") [] false; EndTag (B "title"); StartTag (B "b") [] false].
Proof. vm_compute. reflexivity. Qed.

Example ex_title_rcdata :
  toks (B "<title>a<b>&amp;</titlex></TITLE >c")
  = [StartTag (B "title") [] false; Chars (B "a<b>&amp;</titlex>"); EndTag (B "title"); Chars (B "c")].
Proof. vm_compute. reflexivity. Qed.

(* <a href="x" b='y' c=z d> *)
Example ex_attrs :
  toks (B "<a href=" ++ [34; 120; 34] ++ B " b='y' c=z d>")
  = [StartTag (B "a") [(B "href", B "x"); (B "b", B "y"); (B "c", B "z"); (B "d", [])] false].
Proof. vm_compute. reflexivity. Qed.

Example ex_attr_classes :
  r_classes (html_tokenize SData (B "<a href=" ++ [34; 120; 34] ++ B " b='y' c=z>t"))
  = [PTagOther; PTagName; PTagOther; PAttrName; PAttrName; PAttrName; PAttrName; PTagOther;
     PTagOther; PAttrValue (B "a") (B "href") Qdq; PTagOther; PTagOther; PAttrName; PTagOther;
     PTagOther; PAttrValue (B "a") (B "b") Qsq; PTagOther; PTagOther; PAttrName; PTagOther;
     PAttrValue (B "a") (B "c") Qunq; PTagOther; PText].
Proof. vm_compute. reflexivity. Qed.

Example ex_comment :
  toks (B "<!-- -- > -->") = [Comment (B " -- > ")].
Proof. vm_compute. reflexivity. Qed.

Example ex_comment_variants :
  map toks [B "<!-->a"; B "<!--->a"; B "<!--a--!>b"; B "<!--a--!b-->c"; B "<!x>y"; B "<?x>y"; B "</ x>y";
            B "<![CDATA[x]]>y"; B "<!--<!---->z"]
  = [[Comment []; Chars (B "a")]; [Comment []; Chars (B "a")]; [Comment (B "a"); Chars (B "b")];
     [Comment (B "a--!b"); Chars (B "c")]; [Comment (B "x"); Chars (B "y")];
     [Comment (B "?x"); Chars (B "y")]; [Comment (B " x"); Chars (B "y")];
     [Comment (B "[CDATA[x]]"); Chars (B "y")]; [Comment (B "<!--"); Chars (B "z")]].
Proof. vm_compute. reflexivity. Qed.

Example ex_doctype :
  toks (B "<!DOCTYPE  HTML PUBLIC x><p/>") = [Doctype (B "html"); StartTag (B "p") [] true].
Proof. vm_compute. reflexivity. Qed.

(* an unquoted value swallows the solidus: not self-closing *)
Example ex_unquoted_solidus :
  toks (B "<a b=c/>") = [StartTag (B "a") [(B "b", B "c/")] false].
Proof. vm_compute. reflexivity. Qed.

Example ex_newlines_nul :
  toks (B "a" ++ [13; 10] ++ B "b" ++ [13] ++ B "c" ++ [0] ++ B "<title>" ++ [0; 13] ++ B "</title>")
  = [Chars (B "a" ++ [10] ++ B "b" ++ [10] ++ B "c" ++ [0]); StartTag (B "title") [] false;
     Chars [239; 191; 189; 10]; EndTag (B "title")].
Proof. vm_compute. reflexivity. Qed.

Example ex_skel :
  skel (B "<p class=x>hi<!--c--><br/></p>")
  = ([KStart (B "p") [B "class"] false; KComment (B "c"); KStart (B "br") [] true; KEnd (B "p")], SData).
Proof. vm_compute. reflexivity. Qed.

(* the final state observes an unfinished construct *)
Example ex_final_states :
  map (fun s => r_final (html_tokenize SData s))
      [B "<a href="; B "<a href='x"; B "<a "; B "<!--x"; B "<textarea>x"; B "<style>x</sty"; B "<plaintext>x"]
  = [SBeforeAttrValue; SAttrValueSQ; SBeforeAttrName; SComment; SRcdata (B "textarea");
     SRawtextEndTagName (B "style"); SPlaintext].
Proof. vm_compute. reflexivity. Qed.
