(* C06 over histories (model/Engine.v): a template that has executed successfully keeps executing the
   same text object through every later history. *)
From V Require Import lib.Base gen.GenTemplate model.GoStrings model.TContext model.TTransition
     model.TEscapeText model.TSanitize model.TTree model.TEscaper model.Engine proofs.EngineFacts proofs.EngineHistFacts proofs.EngineInvFacts.
From Coq Require Import Arith PeanoNat Lia.
Local Open Scope N_scope.

(* ---- C06 over histories: a template that has executed successfully keeps executing the same text object ---- *)
(* [okst w o tid n]: object o exists, has been analysed successfully, runs text object tid, lives in the
   name space n, and that name space is frozen *)
Definition okst (w : world) (o tid n : nat) : Prop :=
  (o < length (w_tmpl w))%nat /\ h_err (get_tmpl w o) = EEscOK /\ h_text (get_tmpl w o) = tid /\
  h_ns (get_tmpl w o) = n /\ (n < length (w_ns w))%nat /\ n_escaped (get_ns w n) = true.

Definition keeps_ok (o tid n : nat) (w w' : world) : Prop := okst w o tid n -> okst w' o tid n.

Lemma keeps_ok_refl o tid n w : keeps_ok o tid n w w. Proof. intros H; exact H. Qed.
Lemma keeps_ok_trans o tid n a b c : keeps_ok o tid n a b -> keeps_ok o tid n b c -> keeps_ok o tid n a c.
Proof. unfold keeps_ok. auto. Qed.

(* what an update must respect *)
Lemma keeps_ok_of o tid n w w' :
  (okst w o tid n -> (length (w_tmpl w) <= length (w_tmpl w'))%nat /\ get_tmpl w' o = get_tmpl w o /\ esc_le (S n) w w') ->
  keeps_ok o tid n w w'.
Proof.
  intros H S0. destruct (H S0) as (L & G & (E1 & E2)). destruct S0 as (A1 & A2 & A3 & A4 & A5 & A6).
  unfold okst. rewrite G. split; [lia|]. split; [exact A2|]. split; [exact A3|]. split; [exact A4|].
  split; [apply E1; lia | apply E2; [lia | exact A6]].
Qed.

(* objects that exist are not touched, the heap of objects only grows *)
Definition tmpl_frame (o : nat) (w w' : world) : Prop :=
  (length (w_tmpl w) <= length (w_tmpl w'))%nat /\ ((o < length (w_tmpl w))%nat -> get_tmpl w' o = get_tmpl w o).
Lemma tf_refl o w : tmpl_frame o w w. Proof. split; auto. Qed.
Lemma tf_trans o a b c : tmpl_frame o a b -> tmpl_frame o b c -> tmpl_frame o a c.
Proof. intros [A1 A2] [B1 B2]. split; [lia|]. intros H. rewrite B2 by lia. apply A2. exact H. Qed.
Lemma tf_same o w w' : w_tmpl w' = w_tmpl w -> tmpl_frame o w w'.
Proof. intros H. unfold tmpl_frame, get_tmpl. rewrite H. auto. Qed.
Lemma tf_new_tmpl o w t : tmpl_frame o w (fst (new_tmpl w t)).
Proof. split; [cbn; rewrite app_length; lia|]. intros H. apply get_tmpl_new_tmpl_old. exact H. Qed.
Lemma tf_put_tmpl_other o w o' t : o' <> o -> (o' < length (w_tmpl w))%nat -> tmpl_frame o w (put_tmpl w o' t).
Proof. intros Hne Hl. split; [rewrite length_put_tmpl by exact Hl; lia|]. intros _. apply get_tmpl_put_tmpl_other. exact Hne. Qed.
Lemma tf_fold {A} o (f : world -> A -> world) (l : list A) :
  (forall w a, tmpl_frame o w (f w a)) -> forall w, tmpl_frame o w (fold_left f l w).
Proof. intros Hf. induction l as [|a l IH]; intros w; simpl; [apply tf_refl | eapply tf_trans; [apply Hf | apply IH]]. Qed.

Lemma tf_alloc_new o w name : tmpl_frame o w (fst (alloc_new w name)).
Proof.
  unfold alloc_new. cbn [new_common new_text new_ns new_tmpl fst snd].
  match goal with |- tmpl_frame _ _ (put_ns ?w4 _ _) => set (w4' := w4) end.
  eapply tf_trans with (b := w4'); [|apply tf_same; reflexivity].
  pose proof (tf_new_tmpl o (mkworld (w_text w ++ [mktext name None (length (w_common w))]) (w_common w ++ [[]]) (w_tmpl w)
                 (w_ns w ++ [mknsp [] false false esc_empty]) (w_handles w))
                 (mktmpl ENotYet (length (w_text w)) true (length (w_ns w)))) as H.
  cbn in H. eapply tf_trans; [|exact H]. apply tf_same; reflexivity.
Qed.

Lemma tf_sub_new_fresh o w obj name :
  assoc_get name (n_set (get_ns w (h_ns (get_tmpl w obj)))) = None -> tmpl_frame o w (fst (sub_new w obj name)).
Proof.
  intros Hn. rewrite sub_new_eq. cbv zeta. cbn [fst]. unfold sn_w4.
  assert (E : get_ns (sn_w2 w obj name) (h_ns (get_tmpl w obj)) = get_ns w (h_ns (get_tmpl w obj))) by reflexivity.
  rewrite E, Hn. eapply tf_trans; [|apply tf_same; reflexivity].
  unfold sn_w2. eapply tf_trans; [|apply tf_new_tmpl]. apply tf_same. reflexivity.
Qed.

Lemma tf_commit o w nsid : tmpl_frame o w (commit w nsid).
Proof. destruct (commit_frame w nsid) as (C1 & _). apply tf_same. exact C1. Qed.

Lemma tf_escape_template o w nsid name : Inv w ->
  (forall m, assoc_get name (n_set (get_ns w nsid)) = Some m -> m <> o) ->
  tmpl_frame o w (fst (escape_template w nsid name)).
Proof.
  intros HI Hm. unfold escape_template.
  destruct (ns_view w nsid) as [view|]; [|apply tf_refl].
  destruct (escape_tree view analysis_fuel ctx0 name (n_esc (get_ns w nsid))) as [[[cx dn] e1]|p]; [|apply tf_refl].
  set (w1 := put_ns w nsid _).
  assert (H1 : tmpl_frame o w w1) by (apply tf_same; reflexivity).
  assert (Hb : forall m, assoc_get name (n_set (get_ns w nsid)) = Some m -> (m < length (w_tmpl w))%nat).
  { intros m Em. destruct HI as (Hsc & _). destruct (Hsc nsid name m Em) as ((A1 & _) & _). exact A1. }
  destruct (match c_err cx with Some code => Some code | None => if state_eqb (c_state cx) StText then None else Some ErrEndContext end) as [code|].
  - destruct (assoc_get name (n_set (get_ns w nsid))) as [m|] eqn:Em; cbn [fst]; [|exact H1].
    eapply tf_trans; [exact H1|].
    eapply tf_trans; [|apply tf_same with (w := put_tmpl w1 m (mktmpl (EErr code) (h_text (get_tmpl w1 m)) true (h_ns (get_tmpl w1 m)))); reflexivity].
    apply tf_put_tmpl_other; [apply (Hm m eq_refl) | apply (Hb m eq_refl)].
  - pose proof (tf_commit o w1 nsid) as H2. destruct (commit_frame w1 nsid) as (C1 & _).
    destruct (assoc_get name (n_set (get_ns w nsid))) as [m|] eqn:Em; cbn [fst].
    + eapply tf_trans; [exact H1|]. eapply tf_trans; [exact H2|].
      apply tf_put_tmpl_other; [apply (Hm m eq_refl) | rewrite C1; apply (Hb m eq_refl)].
    + eapply tf_trans; [exact H1|]. exact H2.
Qed.

Lemma tf_fold_opt {A} o (f : option world -> A -> option world) (l : list A) :
  (forall a, f None a = None) ->
  (forall w a w', f (Some w) a = Some w' -> tmpl_frame o w w') ->
  forall w w', fold_left f l (Some w) = Some w' -> tmpl_frame o w w'.
Proof.
  intros Hn Hf. induction l as [|a l IH]; intros w w' H; simpl in H.
  - inversion H. apply tf_refl.
  - destruct (f (Some w) a) as [w1|] eqn:E.
    + eapply tf_trans; [eapply Hf; exact E | apply IH; exact H].
    + exfalso. clear -H Hn. induction l as [|b l IHl]; simpl in H; [discriminate|]. rewrite Hn in H. auto.
Qed.

Lemma tf_clone o w h : tmpl_frame o w (fst (step w (OClone h))).
Proof.
  cbn [step]. destruct (handle w h) as [obj|]; [|apply tf_refl].
  destruct (h_err (get_tmpl w obj)); try apply tf_refl.
  pose proof (clone_text_frame w (get_text w (h_text (get_tmpl w obj)))) as (_ & T2 & _).
  destruct (clone_text w _) as [[w1 cid] ntid]. cbn [fst] in T2.
  cbn [new_ns].
  match goal with |- context [new_tmpl ?a ?b] => pose proof (tf_new_tmpl o a b) as HN; destruct (new_tmpl a b) as [w2 ret] end.
  cbn [fst] in HN.
  match goal with |- context [fold_left ?f ?l (Some ?a)] => set (w3 := a) end.
  destruct (fold_left _ _ (Some w3)) as [w4|] eqn:Ef; [|apply tf_refl].
  cbn [fst].
  eapply tf_trans; [apply tf_same with (w' := w1); exact T2|].
  eapply tf_trans; [apply tf_same with (w' := mkworld (w_text w1) (w_common w1) (w_tmpl w1) (w_ns w1 ++ [mknsp [] false false esc_empty]) (w_handles w1)); reflexivity|].
  eapply tf_trans; [exact HN|].
  eapply tf_trans; [apply tf_same with (w' := w3); reflexivity|].
  eapply tf_trans with (b := w4); [|apply tf_same; reflexivity].
  eapply tf_fold_opt; [| |exact Ef].
  + intros a. reflexivity.
  + intros w0 a w' Hm. unfold clone_member in Hm.
    destruct (assoc_get (fst a) _) as [src|]; [|discriminate].
    destruct (h_err (get_tmpl w0 src)); try discriminate.
    match type of Hm with context [new_tmpl ?a ?b] => pose proof (tf_new_tmpl o a b) as HN'; destruct (new_tmpl a b) as [w5 mm] end.
    cbn [fst] in HN'. inversion Hm; subst w'. clear Hm.
    eapply tf_trans; [exact HN'|]. apply tf_same; reflexivity.
Qed.

(* Parse through a handle of another name space does not touch the object *)
Lemma tf_parse o w h p obj : Inv w -> handle w h = Some obj ->
  (o < length (w_tmpl w))%nat -> h_ns (get_tmpl w o) <> h_ns (get_tmpl w obj) ->
  tmpl_frame o w (fst (step w (OParse h p))) /\ get_tmpl (fst (step w (OParse h p))) o = get_tmpl w o.
Proof.
  intros HI Eh Hol Hns. cbn [step]. rewrite Eh.
  destruct (n_escaped _); [split; [apply tf_refl | reflexivity]|]. destruct p as [|trees]; [split; [apply tf_refl | reflexivity]|]. cbn [fst].
  set (t := get_tmpl w obj) in *. set (nsid0 := h_ns t) in *.
  assert (Htid : (h_text t < length (w_text w))%nat) by (destruct HI as (_ & _ & Hhb); destruct (Hhb h obj Eh) as ((_ & A2) & _); exact A2).
  match goal with |- context [fold_left ?f2 (get_common (fold_left ?f1 trees w) ?c) (fold_left ?f1 trees w)] => set (F1 := f1); set (F2 := f2) end.
  destruct (fold_Inv_text F1 trees (fun w0 => (h_text t < length (w_text w0))%nat /\ w_tmpl w0 = w_tmpl w)) with (w := w) as (I1 & E1 & P1 & T1); [| exact HI | split; [exact Htid | reflexivity] |].
  { intros w0 kv I0 (P0 & T0). unfold F1. destruct (Inv_add_parse_tree w0 (h_text t) (fst kv) (snd kv) I0 P0) as (Ia & Ea).
    split; [exact Ia|]. split; [exact Ea|]. split; [destruct Ea; lia|].
    destruct (add_parse_tree_frame w0 (h_text t) (fst kv) (snd kv)) as (_ & B2 & _). rewrite B2. exact T0. }
  set (w1 := fold_left F1 trees w) in *.
  set (L := get_common w1 (x_common (get_text w1 (h_text t)))).
  assert (HL : entries_ok w1 L) by (destruct I1 as (_ & Hcc & _); intros k x Hin; exact (Hcc _ _ _ Hin)).
  assert (Hobj1 : h_ns (get_tmpl w1 obj) = nsid0) by (unfold get_tmpl; rewrite T1; reflexivity).
  assert (Ho1 : get_tmpl w1 o = get_tmpl w o) by (unfold get_tmpl; rewrite T1; reflexivity).
  assert (HF : forall l w0, incl l L -> Inv w0 -> text_ext w1 w0 -> h_ns (get_tmpl w0 obj) = nsid0 ->
               (length (w_tmpl w) <= length (w_tmpl w0))%nat -> get_tmpl w0 o = get_tmpl w o ->
               (length (w_tmpl w) <= length (w_tmpl (fold_left F2 l w0)))%nat /\ get_tmpl (fold_left F2 l w0) o = get_tmpl w o).
  { induction l as [|[name xt] l IH]; intros w0 Hincl I0 E0 Ho Hlen Hget; cbn [fold_left]; [split; assumption|].
    assert (Hin : In (name, xt) L) by (apply Hincl; left; reflexivity).
    assert (Hl' : incl l L) by (intros z Hz; apply Hincl; right; exact Hz).
    destruct (entries_ok_ext w1 w0 L E0 HL name xt Hin) as (X1 & X2).
    assert (Hstep : Inv (F2 w0 (name, xt)) /\ text_ext w0 (F2 w0 (name, xt)) /\ h_ns (get_tmpl (F2 w0 (name, xt)) obj) = nsid0 /\
                    (length (w_tmpl w) <= length (w_tmpl (F2 w0 (name, xt))))%nat /\ get_tmpl (F2 w0 (name, xt)) o = get_tmpl w o).
    { unfold F2. cbn [fst snd]. fold t. fold nsid0.
      destruct (assoc_get name (n_set (get_ns w0 nsid0))) as [m|] eqn:Em.
      - destruct I0 as (Hsc & Hcc & Hhb). destruct (Hsc nsid0 name m Em) as ((M1 & _) & M3 & _). pose proof (conj Hsc (conj Hcc Hhb)) as I0.
        assert (Hmo : m <> o) by (intros ->; rewrite Hget in M3; exact (Hns M3)).
        split; [apply (Inv_put_tmpl_member w0 m _ nsid0 name I0 Em); [exact M3 | exact X1 | exact X2]|].
        split; [apply text_ext_same; reflexivity|].
        split; [destruct (Nat.eq_dec m obj) as [->|Hne]; [rewrite get_tmpl_put_tmpl_same; cbn [h_ns]; exact Ho | rewrite get_tmpl_put_tmpl_other by exact Hne; exact Ho]|].
        split; [rewrite length_put_tmpl by exact M1; exact Hlen | rewrite get_tmpl_put_tmpl_other by exact Hmo; exact Hget].
      - assert (Hn : assoc_get name (n_set (get_ns w0 (h_ns (get_tmpl w0 obj)))) = None) by (rewrite Ho; exact Em).
        destruct (Inv_sub_new w0 obj name I0) as (Is & Fk & _).
        pose proof (sub_new_lookup w0 obj name) as Hlk. rewrite Ho in Hlk.
        pose proof (sub_new_fresh_text_ext w0 obj name Hn) as Es.
        pose proof (sub_new_fresh_h_ns w0 obj name Hn obj) as Hh.
        pose proof (tf_sub_new_fresh o w0 obj name Hn) as (Tl & Tg).
        assert (Hmem : snd (sub_new w0 obj name) = length (w_tmpl w0)) by (rewrite sub_new_eq; reflexivity).
        destruct (sub_new w0 obj name) as [w' member]. cbn [fst snd] in *.
        destruct (entries_ok_ext w1 w' L (text_ext_trans _ _ _ E0 Es) HL name xt Hin) as (Y1 & Y2).
        destruct Is as (Hsc & Hcc & Hhb). destruct (Hsc nsid0 name member Hlk) as ((M1 & _) & M3 & _). pose proof (conj Hsc (conj Hcc Hhb)) as Is.
        assert (Ho' : h_ns (get_tmpl w' obj) = nsid0) by (destruct Hh as [E|E]; rewrite E; exact Ho).
        assert (Hmo : member <> o) by (subst member; lia).
        split; [apply (Inv_put_tmpl_member w' member _ nsid0 name Is Hlk); [exact M3 | exact Y1 | exact Y2]|].
        split; [eapply text_ext_trans; [exact Es | apply text_ext_same; reflexivity]|].
        split; [destruct (Nat.eq_dec member obj) as [->|Hne]; [rewrite get_tmpl_put_tmpl_same; cbn [h_ns]; exact Ho' | rewrite get_tmpl_put_tmpl_other by exact Hne; exact Ho']|].
        split; [rewrite length_put_tmpl by exact M1; lia|].
        rewrite get_tmpl_put_tmpl_other by exact Hmo. rewrite Tg by lia. exact Hget. }
    destruct Hstep as (Is & Es & Hs & Hl2 & Hg2).
    apply IH; [exact Hl' | exact Is | eapply text_ext_trans; [exact E0 | exact Es] | exact Hs | exact Hl2 | exact Hg2]. }
  destruct (HF L w1 (incl_refl L) I1 (text_ext_refl w1) Hobj1) as (R1 & R2); [rewrite T1; lia | exact Ho1 |].
  split; [split; [exact R1 | intros _; exact R2] | exact R2].
Qed.

Theorem step_keeps_ok o tid n w op : Inv w -> no_redefine w op -> keeps_ok o tid n w (fst (step w op)).
Proof.
  intros HI Hn. apply keeps_ok_of. intros (A1 & A2 & A3 & A4 & A5 & A6).
  assert (HE : esc_le (S n) w (fst (step w op))) by (apply step_keeps_frozen; lia).
  assert (HT : tmpl_frame o w (fst (step w op))).
  { destruct op as [name|h name|h p|h|h name|h0|h name|h|h].
    - cbn [step]. pose proof (tf_alloc_new o w name) as H. destruct (alloc_new w name) as [w1 obj]. cbn [fst] in *.
      eapply tf_trans; [exact H | apply tf_same; reflexivity].
    - cbn [step]. destruct (handle w h) as [obj|] eqn:Eh; [|apply tf_refl].
      cbn [no_redefine] in Hn. pose proof (tf_sub_new_fresh o w obj name (Hn obj Eh)) as H.
      destruct (sub_new w obj name) as [w1 o']. cbn [fst] in *. eapply tf_trans; [exact H | apply tf_same; reflexivity].
    - destruct (handle w h) as [obj|] eqn:Eh; [|cbn [step]; rewrite Eh; apply tf_refl].
      destruct (Nat.eq_dec (h_ns (get_tmpl w obj)) n) as [En|En].
      + cbn [step]. rewrite Eh, En, A6. apply tf_refl.
      + apply (tf_parse o w h p obj HI Eh A1). rewrite A4. auto.
    - apply tf_clone.
    - cbn [step]. destruct (handle w h) as [obj|]; [|apply tf_refl]. apply tf_same. reflexivity.
    - (* Execute *) cbn [step]. destruct (handle w h0) as [obj0|] eqn:Eh; [|apply tf_refl].
      set (nsid := h_ns (get_tmpl w obj0)).
      assert (HS : tmpl_frame o w (set_escaped w nsid)) by (apply tf_same; reflexivity).
      destruct (h_err (get_tmpl w obj0)) eqn:Ee; cbn [fst]; try exact HS.
      destruct (h_tree_nil (get_tmpl w obj0)) eqn:Et; cbn [fst]; [exact HS|].
      match goal with |- context [escape_template ?a ?b ?cc] =>
        assert (HX : tmpl_frame o a (fst (escape_template a b cc))) end.
      { apply tf_escape_template; [apply Inv_set_escaped; exact HI|]. intros m Hm.
        destruct HI as (_ & _ & Hhb). destruct (Hhb h0 obj0 Eh) as (_ & [Hr|(_ & Hk)]); [|congruence].
        unfold registered in Hr. fold nsid in Hr.
        destruct (set_escaped_spec w nsid) as (_ & _ & _ & S4). rewrite S4 in Hm.
        assert (Hx : get_text (set_escaped w nsid) (h_text (get_tmpl w obj0)) = get_text w (h_text (get_tmpl w obj0))) by reflexivity.
        rewrite Hx in Hm. rewrite Hr in Hm. inversion Hm; subst m. intros ->. congruence. }
      destruct (escape_template _ _ _) as [w2 [[[code|]|pp]|]]; cbn [fst] in *; (eapply tf_trans; [exact HS | exact HX]).
    - (* ExecuteTemplate *) cbn [step]. destruct (handle w h) as [obj|]; [|apply tf_refl].
      set (nsid := h_ns (get_tmpl w obj)).
      assert (HS : tmpl_frame o w (set_escaped w nsid)) by (apply tf_same; reflexivity).
      destruct (assoc_get name (n_set (get_ns (set_escaped w nsid) nsid))) as [m|] eqn:Em; cbn [fst]; [|exact HS].
      destruct (h_err (get_tmpl (set_escaped w nsid) m)) eqn:Ee; cbn [fst]; try exact HS;
        destruct (x_tree _); cbn [fst]; try exact HS;
        destruct (assoc_get name (get_common _ _)); cbn [fst]; try exact HS.
      match goal with |- context [escape_template ?a ?b ?cc] =>
        assert (HX : tmpl_frame o a (fst (escape_template a b cc))) end.
      { apply tf_escape_template; [apply Inv_set_escaped; exact HI|]. intros m' Hm'. rewrite Em in Hm'. inversion Hm'; subst m'.
        intros ->. assert (G : get_tmpl (set_escaped w nsid) o = get_tmpl w o) by reflexivity. rewrite G in Ee. congruence. }
      destruct (escape_template _ _ _) as [w2 [[[code|]|pp]|]]; cbn [fst] in *; (eapply tf_trans; [exact HS | exact HX]).
    - cbn [step]. destruct (handle w h); apply tf_refl.
    - cbn [step]. destruct (handle w h) as [obj|]; [|apply tf_refl]. cbn [fst]. apply tf_same; reflexivity. }
  destruct HT as (T1 & T2). split; [exact T1|]. split; [apply T2; exact A1 | exact HE].
Qed.

Lemma run_from_keeps_ok o tid n ops : forall w, Inv w -> no_redefine_hist w ops -> keeps_ok o tid n w (run_from w ops).
Proof.
  induction ops as [|op ops IH]; intros w HI Hn; cbn [run_from fold_left]; [apply keeps_ok_refl|].
  destruct Hn as [Hn1 Hn2]. apply (keeps_ok_trans o tid n w (fst (step w op))); [apply step_keeps_ok; [exact HI | exact Hn1]|].
  apply (IH (fst (step w op))); [apply Inv_step; exact HI | exact Hn2].
Qed.

(* C06 over histories: once Execute through a handle has succeeded, every later Execute through that
   handle - after ANY further history of API calls in which t.New does not redefine an existing name -
   runs the very same text object again (the analysis is not repeated, the template is not re-pointed) *)
Theorem exec_ok_forever ops0 h o ops :
  let w0 := run_from world0 ops0 in
  handle w0 h = Some o -> h_err (get_tmpl w0 o) = EEscOK ->
  let w := fst (step w0 (OExecute h)) in
  no_redefine_hist w ops ->
  let w' := run_from w ops in
  snd (step w0 (OExecute h)) = RExec (h_text (get_tmpl w0 o)) /\
  snd (step w' (OExecute h)) = RExec (h_text (get_tmpl w0 o)).
Proof.
  intros w0 Hh He w Hn w'.
  assert (I0 : Inv w0) by apply Inv_reachable.
  assert (R1 : snd (step w0 (OExecute h)) = RExec (h_text (get_tmpl w0 o))) by (cbn [step]; rewrite Hh, He; reflexivity).
  split; [exact R1|].
  set (n := h_ns (get_tmpl w0 o)).
  assert (Ew : w = set_escaped w0 n) by (unfold w; cbn [step]; rewrite Hh, He; reflexivity).
  assert (Iw : Inv w) by (unfold w; apply Inv_step; exact I0).
  assert (Ol : (o < length (w_tmpl w0))%nat) by (destruct I0 as (_ & _ & Hhb); destruct (Hhb h o Hh) as ((A1 & _) & _); exact A1).
  assert (S0 : okst w o (h_text (get_tmpl w0 o)) n).
  { rewrite Ew. destruct (set_escaped_spec w0 n) as (E1 & E2 & E3 & E4).
    assert (G : get_tmpl (set_escaped w0 n) o = get_tmpl w0 o) by reflexivity.
    unfold okst. rewrite G, E3. split; [exact Ol|]. split; [exact He|]. split; [reflexivity|]. split; [reflexivity|]. split; [|exact E1].
    destruct (Nat.lt_ge_cases n (length (w_ns (set_escaped w0 n)))) as [Hl|Hl]; [exact Hl|].
    unfold get_ns in E1. rewrite nth_overflow in E1 by exact Hl. discriminate E1. }
  pose proof (run_from_keeps_ok o (h_text (get_tmpl w0 o)) n ops w Iw Hn S0) as (B1 & B2 & B3 & _).
  fold w' in B1, B2, B3.
  assert (Hh' : handle w' h = Some o).
  { destruct (run_from_keeps_error_wf o 0 ops w Iw Hn) as [_ K2]. fold w' in K2.
    assert (Hw : handle w h = Some o) by (rewrite Ew; exact Hh).
    unfold handle in *. destruct (nth_error (w_handles w) h) as [[x|]|] eqn:E; try discriminate.
    inversion Hw; subst x. rewrite (K2 h (Some o) E). reflexivity. }
  cbn [step]. rewrite Hh', B2, B3. reflexivity.
Qed.
