(* Facts about HISTORIES of the API state machine model/Engine.v (C05, C07): frames of every
   operation, monotone freezing of name spaces, permanence of a recorded analysis error. *)
From V Require Import lib.Base gen.GenTemplate model.GoStrings model.TContext model.TTransition
     model.TEscapeText model.TSanitize model.TTree model.TEscaper model.Engine proofs.EngineFacts.
From Coq Require Import Arith PeanoNat Lia.
Local Open Scope N_scope.

(* [esc_le N w w']: no name space that exists below N is dropped or un-frozen *)
Definition esc_le (N : nat) (w w' : world) : Prop :=
  (N <= length (w_ns w) -> N <= length (w_ns w'))%nat /\
  forall n, (n < N)%nat -> n_escaped (get_ns w n) = true -> n_escaped (get_ns w' n) = true.

Lemma esc_le_refl N w : esc_le N w w. Proof. split; auto. Qed.
Lemma esc_le_trans N a b c : esc_le N a b -> esc_le N b c -> esc_le N a c.
Proof. intros [A1 A2] [B1 B2]. split; auto. Qed.
Lemma esc_le_same_ns N w w' : w_ns w' = w_ns w -> esc_le N w w'.
Proof. intros H. unfold esc_le, get_ns. rewrite H. auto. Qed.

Lemma length_set_nth {A} (d : A) n x l : (length l <= length (set_nth d n x l))%nat.
Proof. revert l; induction n as [|n IH]; intros [|h t]; simpl; try lia. specialize (IH t). lia. Qed.

Lemma esc_le_put_ns N w n x :
  (n_escaped (get_ns w n) = true -> n_escaped x = true) -> esc_le N w (put_ns w n x).
Proof.
  intros H. split.
  - cbn. pose proof (length_set_nth ns_d n x (w_ns w)). lia.
  - intros m Hm Hesc. destruct (Nat.eq_dec n m) as [->|Hne].
    + rewrite get_ns_put_ns_same. auto.
    + rewrite get_ns_put_ns_other by exact Hne. exact Hesc.
Qed.
Lemma esc_le_put_ns_fresh N w n x : (N <= n)%nat -> esc_le N w (put_ns w n x).
Proof.
  intros H. split.
  - cbn. pose proof (length_set_nth ns_d n x (w_ns w)). lia.
  - intros m Hm Hesc. rewrite get_ns_put_ns_other by lia. exact Hesc.
Qed.
Lemma esc_le_new_ns N w x : esc_le N w (fst (new_ns w x)).
Proof.
  split; cbn. - rewrite app_length. lia.
  - intros n Hn. unfold get_ns. cbn. intros H.
    destruct (Nat.lt_ge_cases n (length (w_ns w))) as [Hl|Hl].
    + rewrite app_nth1 by exact Hl. exact H.
    + rewrite nth_overflow in H by exact Hl. discriminate H.
Qed.

Lemma esc_le_fold {A} N (f : world -> A -> world) (l : list A) :
  (forall w a, esc_le N w (f w a)) -> forall w, esc_le N w (fold_left f l w).
Proof.
  intros Hf. induction l as [|a l IH]; intros w; simpl; [apply esc_le_refl|].
  eapply esc_le_trans; [apply Hf | apply IH].
Qed.

Lemma esc_le_alloc_new N w name : esc_le N w (fst (alloc_new w name)).
Proof.
  unfold alloc_new. cbn [new_common new_text new_ns new_tmpl fst snd].
  set (w4 := mkworld _ _ _ _ _).
  eapply esc_le_trans with (b := w4).
  - split; unfold w4; cbn.
    + rewrite app_length. lia.
    + intros n Hn. unfold get_ns. cbn. intros H.
      destruct (Nat.lt_ge_cases n (length (w_ns w))) as [Hl|Hl].
      * rewrite app_nth1 by exact Hl. exact H.
      * rewrite nth_overflow in H by exact Hl. discriminate H.
  - apply esc_le_put_ns. unfold get_ns, w4. cbn.
    rewrite app_nth2 by lia. rewrite Nat.sub_diag. cbn. discriminate.
Qed.

Lemma esc_le_sub_new N w o name : esc_le N w (fst (sub_new w o name)).
Proof.
  unfold sub_new. cbn [new_text new_tmpl].
  set (w2 := mkworld _ _ _ _ _).
  assert (H2 : esc_le N w w2) by (apply esc_le_same_ns; reflexivity).
  destruct (assoc_get name (n_set (get_ns w2 (h_ns (get_tmpl w o))))) as [existing|].
  - destruct (alloc_new w2 _) as [w3 fresh] eqn:Ea.
    pose proof (esc_le_alloc_new N w2 (x_name (get_text w2 (h_text (get_tmpl w2 existing))))) as H3.
    rewrite Ea in H3. cbn [fst] in H3 |- *.
    eapply esc_le_trans; [exact H2|]. eapply esc_le_trans; [exact H3|].
    eapply esc_le_trans; [apply esc_le_same_ns with (w' := put_tmpl w3 existing (get_tmpl w3 fresh)); reflexivity|].
    apply esc_le_put_ns. cbn. auto.
  - cbn [fst]. eapply esc_le_trans; [exact H2|]. apply esc_le_put_ns. cbn. auto.
Qed.

Lemma esc_le_commit N w nsid : esc_le N w (commit w nsid).
Proof.
  destruct (commit_frame w nsid) as (_ & _ & C3 & _ & C5).
  split.
  - unfold commit. destruct (n_set (get_ns w nsid)) as [|[nm o] rest]; [auto|].
    set (f1 := fun (w0 : world) (kv : bytes * option tree) => _).
    set (w1 := fold_left f1 _ w).
    set (f2 := fun (w0 : world) (name : bytes) => _).
    set (w2 := fold_left f2 _ w1).
    assert (F1 : w_ns w1 = w_ns w).
    { apply fold_frame. intros w0 [k v]. unfold f1. cbn [fst snd].
      destruct v; [|auto]. destruct (assoc_get k _); [auto | apply add_parse_tree_frame]. }
    assert (F2 : w_ns w2 = w_ns w1).
    { apply fold_frame. intros w0 name. unfold f2.
      destruct (assoc_get name _); [|auto]. destruct (x_tree _); auto. }
    cbn. intros HN. eapply Nat.le_trans; [|apply length_set_nth]. rewrite F2, F1. exact HN.
  - intros n Hn He. destruct (Nat.eq_dec n nsid) as [->|Hne].
    + rewrite C3. exact He.
    + rewrite C5 by exact Hne. exact He.
Qed.

Lemma esc_le_escape_template N w nsid name : esc_le N w (fst (escape_template w nsid name)).
Proof.
  unfold escape_template.
  destruct (ns_view w nsid) as [view|]; [|apply esc_le_refl].
  destruct (escape_tree view analysis_fuel ctx0 name (n_esc (get_ns w nsid))) as [[[c dn] e1]|p]; [|apply esc_le_refl].
  set (w1 := put_ns w nsid _).
  assert (H1 : esc_le N w w1) by (apply esc_le_put_ns; cbn; auto).
  destruct (match c_err c with Some code => Some code | None => if state_eqb (c_state c) StText then None else Some ErrEndContext end) as [code|].
  - destruct (assoc_get name (n_set (get_ns w nsid))) as [o|]; cbn [fst]; [|exact H1].
    eapply esc_le_trans; [exact H1|]. apply esc_le_same_ns. reflexivity.
  - pose proof (esc_le_commit N w1 nsid) as H2.
    destruct (assoc_get name (n_set (get_ns w nsid))) as [o|]; cbn [fst].
    + eapply esc_le_trans; [exact H1|]. eapply esc_le_trans; [exact H2|]. apply esc_le_same_ns. reflexivity.
    + eapply esc_le_trans; [exact H1|]. exact H2.
Qed.

Lemma esc_le_set_escaped N w nsid : esc_le N w (set_escaped w nsid).
Proof. unfold set_escaped. apply esc_le_put_ns. cbn. auto. Qed.

Lemma esc_le_add_handle N w h : esc_le N w (add_handle w h).
Proof. apply esc_le_same_ns. reflexivity. Qed.

Lemma esc_le_fold_opt {A} N (f : option world -> A -> option world) (l : list A) :
  (forall a, f None a = None) ->
  (forall w a w', f (Some w) a = Some w' -> esc_le N w w') ->
  forall w w', fold_left f l (Some w) = Some w' -> esc_le N w w'.
Proof.
  intros Hn Hf. induction l as [|a l IH]; intros w w' H; simpl in H.
  - inversion H. apply esc_le_refl.
  - destruct (f (Some w) a) as [w1|] eqn:E.
    + eapply esc_le_trans; [eapply Hf; exact E | apply IH; exact H].
    + exfalso. clear -H Hn. induction l as [|b l IHl]; simpl in H; [discriminate|]. rewrite Hn in H. auto.
Qed.

Lemma clone_text_frame w x :
  w_ns (fst (fst (clone_text w x))) = w_ns w /\ w_tmpl (fst (fst (clone_text w x))) = w_tmpl w /\
  w_handles (fst (fst (clone_text w x))) = w_handles w.
Proof.
  unfold clone_text. cbn [new_common new_text fst snd].
  match goal with |- context [fold_left ?f ?l ?a] => set (f0 := f); set (l0 := l); set (w0 := a) end.
  assert (H0 : w_ns w0 = w_ns w /\ w_tmpl w0 = w_tmpl w /\ w_handles w0 = w_handles w).
  { unfold w0. destruct (assoc_get _ _); cbn; auto. }
  destruct H0 as (A1 & A2 & A3).
  assert (HF : forall w' a, w_ns (f0 w' a) = w_ns w' /\ w_tmpl (f0 w' a) = w_tmpl w' /\ w_handles (f0 w' a) = w_handles w').
  { intros w' a. unfold f0. destruct (bytes_eqb (fst a) (x_name x)); cbn; auto. }
  destruct (fold_frame f0 l0 HF w0) as (B1 & B2 & B3).
  cbn [fst]. rewrite B1, B2, B3. auto.
Qed.

Theorem step_keeps_frozen N w o :
  (N <= length (w_ns w))%nat -> esc_le N w (fst (step w o)).
Proof.
  intros HN. destruct o as [name|h name|h p|h|h name|h|h name|h|h]; cbn [step].
  - (* ONew *) pose proof (esc_le_alloc_new N w name) as H. destruct (alloc_new w name) as [w1 obj]. cbn [fst] in *.
    eapply esc_le_trans; [exact H | apply esc_le_add_handle].
  - (* OSubNew *) destruct (handle w h) as [obj|]; [|apply esc_le_refl].
    pose proof (esc_le_sub_new N w obj name) as H. destruct (sub_new w obj name) as [w1 o']. cbn [fst] in *.
    eapply esc_le_trans; [exact H | apply esc_le_add_handle].
  - (* OParse *) destruct (handle w h) as [obj|]; [|apply esc_le_refl].
    destruct (n_escaped _); [apply esc_le_refl|].
    destruct p as [|trees]; [apply esc_le_refl|]. cbn [fst].
    set (w1 := fold_left _ trees w).
    assert (H1 : esc_le N w w1).
    { unfold w1. apply esc_le_fold. intros w0 kv. apply esc_le_same_ns. apply add_parse_tree_frame. }
    eapply esc_le_trans; [exact H1|].
    apply esc_le_fold. intros w0 kv.
    destruct (assoc_get (fst kv) (n_set (get_ns w0 (h_ns (get_tmpl w obj))))) as [m|].
    + apply esc_le_same_ns. reflexivity.
    + pose proof (esc_le_sub_new N w0 obj (fst kv)) as H. destruct (sub_new w0 obj (fst kv)) as [w2 member]. cbn [fst] in H.
      eapply esc_le_trans; [exact H|]. apply esc_le_same_ns. reflexivity.
  - (* OClone *) destruct (handle w h) as [obj|]; [|apply esc_le_refl].
    destruct (h_err (get_tmpl w obj)); try apply esc_le_refl.
    pose proof (clone_text_frame w (get_text w (h_text (get_tmpl w obj)))) as (T1 & T2 & T3).
    destruct (clone_text w _) as [[w1 cid] ntid]. cbn [fst] in T1, T2, T3.
    cbn [new_ns new_tmpl].
    set (nsid := length (w_ns w1)).
    set (w3 := put_ns _ nsid _).
    assert (H3 : esc_le N w w3).
    { unfold w3. eapply esc_le_trans; [|apply esc_le_put_ns_fresh; unfold nsid; rewrite T1; exact HN].
      split; cbn. - rewrite app_length, T1. lia.
      - intros n Hn. unfold get_ns. cbn. rewrite T1. intros H.
        destruct (Nat.lt_ge_cases n (length (w_ns w))) as [Hl|Hl].
        + rewrite app_nth1 by exact Hl. exact H.
        + rewrite nth_overflow in H by exact Hl. discriminate H. }
    destruct (fold_left _ _ (Some w3)) as [w2|] eqn:Ef; [|apply esc_le_refl].
    cbn [fst]. eapply esc_le_trans; [exact H3|]. eapply esc_le_trans; [|apply esc_le_add_handle].
    eapply esc_le_fold_opt; [| |exact Ef].
    + intros a. reflexivity.
    + intros w0 a w' Hm. unfold clone_member in Hm.
      destruct (assoc_get (fst a) _) as [src|]; [|discriminate].
      destruct (h_err (get_tmpl w0 src)); try discriminate.
      cbn [new_tmpl] in Hm. inversion Hm; subst w'. clear Hm.
      eapply esc_le_trans; [|apply esc_le_put_ns_fresh; unfold nsid; rewrite T1; exact HN].
      apply esc_le_same_ns. reflexivity.
  - (* OLookup *) destruct (handle w h) as [obj|]; [|apply esc_le_refl]. apply esc_le_add_handle.
  - (* OExecute *) destruct (handle w h) as [obj|]; [|apply esc_le_refl].
    pose proof (esc_le_set_escaped N w (h_ns (get_tmpl w obj))) as HS.
    destruct (h_err (get_tmpl w obj)); cbn [fst]; try exact HS.
    destruct (h_tree_nil (get_tmpl w obj)); cbn [fst]; [exact HS|].
    match goal with |- context [escape_template ?a ?b ?c] =>
      pose proof (esc_le_escape_template N a b c) as HE; destruct (escape_template a b c) as [w2 [[[code|]|pp]|]] end;
      cbn [fst] in *; eapply esc_le_trans; eauto.
  - (* OExecuteTemplate *) destruct (handle w h) as [obj|]; [|apply esc_le_refl].
    pose proof (esc_le_set_escaped N w (h_ns (get_tmpl w obj))) as HS.
    destruct (assoc_get name _) as [m|]; cbn [fst]; [|exact HS].
    destruct (h_err (get_tmpl _ m)); cbn [fst]; try exact HS;
      destruct (x_tree _); cbn [fst]; try exact HS;
      destruct (assoc_get name (get_common _ _)); cbn [fst]; try exact HS.
    match goal with |- context [escape_template ?a ?b ?c] =>
      pose proof (esc_le_escape_template N a b c) as HE; destruct (escape_template a b c) as [w2 [[[code|]|pp]|]] end;
      cbn [fst] in *; eapply esc_le_trans; eauto.
  - (* OInfo *) destruct (handle w h); apply esc_le_refl.
  - (* OCSP *) destruct (handle w h) as [obj|]; [|apply esc_le_refl]. cbn [fst]. apply esc_le_put_ns. cbn. auto.
Qed.

(* ---- histories ---- *)
Definition run_from (w : world) (ops : list op) : world := fold_left (fun w o => fst (step w o)) ops w.

Lemma run_from_keeps_frozen N ops : forall w, (N <= length (w_ns w))%nat -> esc_le N w (run_from w ops).
Proof.
  induction ops as [|o ops IH]; intros w HN; cbn [run_from fold_left]; [apply esc_le_refl|].
  pose proof (step_keeps_frozen N w o HN) as H1.
  eapply esc_le_trans; [exact H1|]. apply IH. apply H1. exact HN.
Qed.

(* once frozen, a name space stays frozen through every history of API calls *)
Theorem frozen_forever w nsid ops :
  (nsid < length (w_ns w))%nat -> n_escaped (get_ns w nsid) = true ->
  n_escaped (get_ns (run_from w ops) nsid) = true.
Proof.
  intros Hl He. destruct (run_from_keeps_frozen (S nsid) ops w Hl) as [_ H]. apply H; [lia|exact He].
Qed.

Lemma exec_marks_frozen w o h obj :
  (o = OExecute h \/ exists name, o = OExecuteTemplate h name) ->
  handle w h = Some obj ->
  let nsid := h_ns (get_tmpl w obj) in
  let w1 := fst (step w o) in
  (nsid < length (w_ns w1))%nat /\ n_escaped (get_ns w1 nsid) = true.
Proof.
  intros Ho Hh nsid w1.
  assert (He : n_escaped (get_ns w1 nsid) = true).
  { destruct Ho as [->|[name ->]]; [apply execute_freezes | apply execute_template_freezes]; exact Hh. }
  split; [|exact He].
  destruct (Nat.lt_ge_cases nsid (length (w_ns w1))) as [Hl|Hl]; [exact Hl|].
  unfold get_ns in He. rewrite nth_overflow in He by exact Hl. discriminate He.
Qed.

(* C07 over histories: after ANY Execute / ExecuteTemplate through a handle (successful or not),
   and after ANY further sequence of API calls, Parse through every handle of that name space
   fails and changes nothing *)
Theorem parse_fails_forever w o h obj ops h' obj' p :
  (o = OExecute h \/ exists name, o = OExecuteTemplate h name) ->
  handle w h = Some obj ->
  let w2 := run_from (fst (step w o)) ops in
  handle w2 h' = Some obj' -> h_ns (get_tmpl w2 obj') = h_ns (get_tmpl w obj) ->
  step w2 (OParse h' p) = (w2, RErrCannotParse).
Proof.
  intros Ho Hh w2 Hh' Hns.
  destruct (exec_marks_frozen w o h obj Ho Hh) as [Hl He].
  apply parse_after_execute_fails with (obj := obj'); [exact Hh'|].
  rewrite Hns. apply frozen_forever; assumption.
Qed.

(* ---- C05 over histories: the recorded failure of an object is never overwritten ---- *)
(* [keeps o code w w']: object o exists and carries the analysis error code in w  ->  the same in w';
   and the client's handles are only ever extended *)
Definition keeps (o : nat) (code : N) (w w' : world) : Prop :=
  ((o < length (w_tmpl w))%nat /\ h_err (get_tmpl w o) = EErr code ->
   (o < length (w_tmpl w'))%nat /\ h_err (get_tmpl w' o) = EErr code) /\
  (forall h x, nth_error (w_handles w) h = Some x -> nth_error (w_handles w') h = Some x).

Lemma keeps_refl o c w : keeps o c w w. Proof. split; auto. Qed.
Lemma keeps_trans o c w1 w2 w3 : keeps o c w1 w2 -> keeps o c w2 w3 -> keeps o c w1 w3.
Proof. intros [A1 A2] [B1 B2]. split; auto. Qed.
Lemma keeps_same o c w w' : w_tmpl w' = w_tmpl w -> w_handles w' = w_handles w -> keeps o c w w'.
Proof. intros H1 H2. unfold keeps, get_tmpl. rewrite H1, H2. auto. Qed.
Lemma keeps_fold {A} o c (f : world -> A -> world) (l : list A) :
  (forall w a, keeps o c w (f w a)) -> forall w, keeps o c w (fold_left f l w).
Proof.
  intros Hf. induction l as [|a l IH]; intros w; simpl; [apply keeps_refl|].
  eapply keeps_trans; [apply Hf | apply IH].
Qed.
Lemma keeps_new_tmpl o c w t : keeps o c w (fst (new_tmpl w t)).
Proof.
  split; cbn; [|auto]. intros [Hl He]. rewrite app_length. split; [lia|].
  unfold get_tmpl in *. cbn. rewrite app_nth1 by exact Hl. exact He.
Qed.
Lemma keeps_put_tmpl_other o c w o' t :
  (o' <> o \/ h_err (get_tmpl w o) <> EErr c \/ h_err t = h_err (get_tmpl w o')) -> keeps o c w (put_tmpl w o' t).
Proof.
  intros Hd. split; [|cbn; auto]. intros [Hl He].
  split; [cbn; pose proof (length_set_nth tmpl_d o' t (w_tmpl w)); lia|].
  destruct (Nat.eq_dec o' o) as [->|Hne].
  - rewrite get_tmpl_put_tmpl_same. destruct Hd as [Hd|[Hd|Hd]]; [congruence|congruence|]. rewrite Hd. exact He.
  - rewrite get_tmpl_put_tmpl_other by exact Hne. exact He.
Qed.
Lemma keeps_add_handle o c w x : keeps o c w (add_handle w x).
Proof.
  split; cbn; [auto|]. intros h y H. rewrite nth_error_app1; [exact H|]. apply nth_error_Some. congruence.
Qed.

Lemma keeps_alloc_new o c w name : keeps o c w (fst (alloc_new w name)).
Proof.
  unfold alloc_new. cbn [new_common new_text new_ns new_tmpl fst snd].
  match goal with |- keeps _ _ _ (put_ns ?w4 _ _) => set (w4' := w4) end.
  eapply keeps_trans with (w2 := w4'); [|apply keeps_same; reflexivity].
  pose proof (keeps_new_tmpl o c (mkworld (w_text w ++ [mktext name None (length (w_common w))]) (w_common w ++ [[]]) (w_tmpl w)
                 (w_ns w ++ [mknsp [] false false esc_empty]) (w_handles w))
                 (mktmpl ENotYet (length (w_text w)) true (length (w_ns w)))) as H.
  cbn in H. eapply keeps_trans; [|exact H]. apply keeps_same; reflexivity.
Qed.

(* t.New(name) for a name that is not defined in the set *)
Lemma keeps_sub_new_fresh o c w obj name :
  assoc_get name (n_set (get_ns w (h_ns (get_tmpl w obj)))) = None ->
  keeps o c w (fst (sub_new w obj name)).
Proof.
  intros Hn. unfold sub_new. cbn [new_text new_tmpl].
  match goal with |- context [assoc_get name (n_set (get_ns ?w2 _))] => set (w2' := w2) end.
  assert (E : get_ns w2' (h_ns (get_tmpl w obj)) = get_ns w (h_ns (get_tmpl w obj))) by reflexivity.
  rewrite E, Hn. cbn [fst].
  eapply keeps_trans with (w2 := w2'); [|apply keeps_same; reflexivity].
  pose proof (keeps_new_tmpl o c (mkworld (w_text w ++ [mktext name None (x_common (get_text w (h_text (get_tmpl w obj))))]) (w_common w) (w_tmpl w) (w_ns w) (w_handles w))
                 (mktmpl ENotYet (length (w_text w)) true (h_ns (get_tmpl w obj)))) as H.
  cbn in H. eapply keeps_trans; [|exact H]. apply keeps_same; reflexivity.
Qed.

Lemma keeps_commit o c w nsid : keeps o c w (commit w nsid).
Proof. destruct (commit_frame w nsid) as (C1 & C2 & _). apply keeps_same; assumption. Qed.

(* the analysis of `name` writes the status of the member registered under that name only *)
Lemma keeps_escape_template o c w nsid name :
  (forall m, assoc_get name (n_set (get_ns w nsid)) = Some m -> m <> o \/ h_err (get_tmpl w o) <> EErr c) ->
  keeps o c w (fst (escape_template w nsid name)).
Proof.
  intros Hm. unfold escape_template.
  destruct (ns_view w nsid) as [view|]; [|apply keeps_refl].
  destruct (escape_tree view analysis_fuel ctx0 name (n_esc (get_ns w nsid))) as [[[cx dn] e1]|p]; [|apply keeps_refl].
  set (w1 := put_ns w nsid _).
  assert (H1 : keeps o c w w1) by (apply keeps_same; reflexivity).
  destruct (match c_err cx with Some code => Some code | None => if state_eqb (c_state cx) StText then None else Some ErrEndContext end) as [code|].
  - destruct (assoc_get name (n_set (get_ns w nsid))) as [m|] eqn:Em; cbn [fst]; [|exact H1].
    eapply keeps_trans; [exact H1|].
    eapply keeps_trans; [|apply keeps_same with (w := put_tmpl w1 m (mktmpl (EErr code) (h_text (get_tmpl w1 m)) true (h_ns (get_tmpl w1 m)))); reflexivity].
    apply keeps_put_tmpl_other. destruct (Hm m eq_refl) as [H|H]; [left; exact H | right; left; exact H].
  - pose proof (keeps_commit o c w1 nsid) as H2.
    destruct (commit_frame w1 nsid) as (C1 & _).
    destruct (assoc_get name (n_set (get_ns w nsid))) as [m|] eqn:Em; cbn [fst].
    + eapply keeps_trans; [exact H1|]. eapply keeps_trans; [exact H2|].
      apply keeps_put_tmpl_other. unfold get_tmpl. rewrite C1. destruct (Hm m eq_refl) as [H|H]; [left; exact H | right; left; exact H].
    + eapply keeps_trans; [exact H1|]. exact H2.
Qed.

Definition registered (w : world) (obj : nat) : Prop :=
  assoc_get (x_name (get_text w (h_text (get_tmpl w obj)))) (n_set (get_ns w (h_ns (get_tmpl w obj)))) = Some obj.

(* the calls of a history that the sticky-failure theorem covers, relative to the failed object o:
   everything except  t.New(name) for a name that is ALREADY defined in the set (it replaces the
   definition, finding D40 lives there)  and  Execute through a handle whose object is not (or no
   longer) the set's member of its own name *)
Definition allowed (w : world) (o : nat) (op : op) : Prop :=
  match op with
  | OSubNew h name => forall obj, handle w h = Some obj -> assoc_get name (n_set (get_ns w (h_ns (get_tmpl w obj)))) = None
  | OExecute h0 => forall obj0, handle w h0 = Some obj0 -> obj0 = o \/ registered w obj0
  | _ => True
  end.

Lemma keeps_clone_text o c w x : keeps o c w (fst (fst (clone_text w x))).
Proof. destruct (clone_text_frame w x) as (_ & T2 & T3). apply keeps_same; assumption. Qed.

Lemma keeps_fold_opt {A} o c (f : option world -> A -> option world) (l : list A) :
  (forall a, f None a = None) ->
  (forall w a w', f (Some w) a = Some w' -> keeps o c w w') ->
  forall w w', fold_left f l (Some w) = Some w' -> keeps o c w w'.
Proof.
  intros Hn Hf. induction l as [|a l IH]; intros w w' H; simpl in H.
  - inversion H. apply keeps_refl.
  - destruct (f (Some w) a) as [w1|] eqn:E.
    + eapply keeps_trans; [eapply Hf; exact E | apply IH; exact H].
    + exfalso. clear -H Hn. induction l as [|b l IHl]; simpl in H; [discriminate|]. rewrite Hn in H. auto.
Qed.

Lemma keeps_fold_inv {A} o c (P : world -> Prop) (f : world -> A -> world) (l : list A) :
  (forall w a, P w -> keeps o c w (f w a) /\ P (f w a)) ->
  forall w, P w -> keeps o c w (fold_left f l w) /\ P (fold_left f l w).
Proof.
  intros Hf. induction l as [|a l IH]; intros w Hw; simpl; [split; [apply keeps_refl|exact Hw]|].
  destruct (Hf w a Hw) as [K1 P1]. destruct (IH _ P1) as [K2 P2].
  split; [eapply keeps_trans; eassumption | exact P2].
Qed.

Lemma sub_new_fresh_h_ns w obj name :
  assoc_get name (n_set (get_ns w (h_ns (get_tmpl w obj)))) = None ->
  forall x, h_ns (get_tmpl (fst (sub_new w obj name)) x) = h_ns (get_tmpl w obj) \/
            get_tmpl (fst (sub_new w obj name)) x = get_tmpl w x.
Proof.
  intros Hn x. unfold sub_new. cbn [new_text new_tmpl].
  match goal with |- context [assoc_get name (n_set (get_ns ?w2 _))] => set (w2' := w2) end.
  assert (E : get_ns w2' (h_ns (get_tmpl w obj)) = get_ns w (h_ns (get_tmpl w obj))) by reflexivity.
  rewrite E, Hn. cbn [fst]. unfold get_tmpl at 1 3. cbn.
  destruct (Nat.lt_ge_cases x (length (w_tmpl w))) as [Hl|Hl].
  - right. rewrite app_nth1 by exact Hl. reflexivity.
  - rewrite app_nth2 by exact Hl. destruct (x - length (w_tmpl w))%nat as [|k] eqn:Ek.
    + left. reflexivity.
    + right. unfold get_tmpl at 2. rewrite (nth_overflow _ tmpl_d Hl). destruct k; reflexivity.
Qed.

Theorem step_keeps_error o c w op : allowed w o op -> keeps o c w (fst (step w op)).
Proof.
  intros Ha. destruct op as [name|h name|h p|h|h name|h|h name|h|h]; cbn [step].
  - pose proof (keeps_alloc_new o c w name) as H. destruct (alloc_new w name) as [w1 obj]. cbn [fst] in *.
    eapply keeps_trans; [exact H | apply keeps_add_handle].
  - destruct (handle w h) as [obj|] eqn:Eh; [|apply keeps_refl].
    cbn [allowed] in Ha. pose proof (keeps_sub_new_fresh o c w obj name (Ha obj Eh)) as H.
    destruct (sub_new w obj name) as [w1 o']. cbn [fst] in *.
    eapply keeps_trans; [exact H | apply keeps_add_handle].
  - destruct (handle w h) as [obj|]; [|apply keeps_refl].
    destruct (n_escaped _); [apply keeps_refl|].
    destruct p as [|trees]; [apply keeps_refl|]. cbn [fst].
    set (w1 := fold_left _ trees w).
    assert (H1 : keeps o c w w1).
    { unfold w1. apply keeps_fold. intros w0 kv. apply keeps_same; apply add_parse_tree_frame. }
    eapply keeps_trans; [exact H1|].
    set (nsid0 := h_ns (get_tmpl w obj)).
    assert (P1 : h_ns (get_tmpl w1 obj) = nsid0).
    { assert (F2 : w_tmpl w1 = w_tmpl w).
      { unfold w1. apply fold_frame. intros w0 kv. apply add_parse_tree_frame. }
      unfold nsid0, get_tmpl. rewrite F2. reflexivity. }
    match goal with |- keeps _ _ _ (fold_left ?f ?l _) =>
      apply (keeps_fold_inv o c (fun w0 => h_ns (get_tmpl w0 obj) = nsid0) f l); [|exact P1] end.
    intros w0 kv P0.
    destruct (assoc_get (fst kv) (n_set (get_ns w0 nsid0))) as [m|] eqn:Em.
    + split; [apply keeps_put_tmpl_other; right; right; reflexivity|].
      destruct (Nat.eq_dec m obj) as [->|Hne].
      * rewrite get_tmpl_put_tmpl_same. exact P0.
      * rewrite get_tmpl_put_tmpl_other by exact Hne. exact P0.
    + assert (Hn : assoc_get (fst kv) (n_set (get_ns w0 (h_ns (get_tmpl w0 obj)))) = None) by (rewrite P0; exact Em).
      pose proof (keeps_sub_new_fresh o c w0 obj (fst kv) Hn) as H.
      pose proof (sub_new_fresh_h_ns w0 obj (fst kv) Hn) as HS.
      destruct (sub_new w0 obj (fst kv)) as [w2 member]. cbn [fst] in H, HS.
      split.
      * eapply keeps_trans; [exact H|]. apply keeps_put_tmpl_other. right. right. reflexivity.
      * destruct (Nat.eq_dec member obj) as [->|Hne].
        -- rewrite get_tmpl_put_tmpl_same. cbn [h_ns]. destruct (HS obj) as [E|E]; [rewrite E; exact P0 | rewrite E; exact P0].
        -- rewrite get_tmpl_put_tmpl_other by exact Hne. destruct (HS obj) as [E|E]; [rewrite E; exact P0 | rewrite E; exact P0].
  - (* OClone *) destruct (handle w h) as [obj|]; [|apply keeps_refl].
    destruct (h_err (get_tmpl w obj)); try apply keeps_refl.
    pose proof (keeps_clone_text o c w (get_text w (h_text (get_tmpl w obj)))) as HT.
    destruct (clone_text w _) as [[w1 cid] ntid]. cbn [fst] in HT.
    cbn [new_ns].
    match goal with |- context [new_tmpl ?a ?b] => pose proof (keeps_new_tmpl o c a b) as HN; destruct (new_tmpl a b) as [w2 ret] end.
    cbn [fst] in HN.
    match goal with |- context [fold_left ?f ?l (Some ?a)] => set (w3 := a) end.
    destruct (fold_left _ _ (Some w3)) as [w4|] eqn:Ef; [|apply keeps_refl].
    cbn [fst].
    eapply keeps_trans; [exact HT|].
    eapply keeps_trans; [apply keeps_same with (w' := mkworld (w_text w1) (w_common w1) (w_tmpl w1) (w_ns w1 ++ [mknsp [] false false esc_empty]) (w_handles w1)); reflexivity|].
    eapply keeps_trans; [exact HN|].
    eapply keeps_trans; [apply keeps_same with (w' := w3); reflexivity|].
    eapply keeps_trans; [|apply keeps_add_handle].
    eapply keeps_fold_opt; [| |exact Ef].
    + intros a. reflexivity.
    + intros w0 a w' Hm. unfold clone_member in Hm.
      destruct (assoc_get (fst a) _) as [src|]; [|discriminate].
      destruct (h_err (get_tmpl w0 src)); try discriminate.
      match type of Hm with context [new_tmpl ?a ?b] => pose proof (keeps_new_tmpl o c a b) as HN'; destruct (new_tmpl a b) as [w5 mm] end.
      cbn [fst] in HN'. inversion Hm; subst w'. clear Hm.
      eapply keeps_trans; [exact HN'|]. apply keeps_same; reflexivity.
  - destruct (handle w h) as [obj|]; [|apply keeps_refl]. apply keeps_add_handle.
  - (* OExecute *) destruct (handle w h) as [obj|] eqn:Eh; [|apply keeps_refl].
    cbn [allowed] in Ha. specialize (Ha obj Eh).
    set (nsid := h_ns (get_tmpl w obj)).
    assert (HS : keeps o c w (set_escaped w nsid)) by (apply keeps_same; reflexivity).
    destruct (h_err (get_tmpl w obj)) eqn:Ee; cbn [fst]; try exact HS.
    destruct (h_tree_nil (get_tmpl w obj)); cbn [fst]; [exact HS|].
    match goal with |- context [escape_template ?a ?b ?cc] =>
      assert (HE : keeps o c a (fst (escape_template a b cc))) end.
    { apply keeps_escape_template. intros m Hm.
      assert (G : forall x, get_tmpl (set_escaped w nsid) x = get_tmpl w x) by reflexivity.
      rewrite G. destruct Ha as [->|Hreg].
      - right. rewrite Ee. discriminate.
      - unfold registered in Hreg. fold nsid in Hreg.
        destruct (set_escaped_spec w nsid) as (_ & _ & _ & S4). rewrite S4 in Hm.
        assert (Hx : get_text (set_escaped w nsid) (h_text (get_tmpl w obj)) = get_text w (h_text (get_tmpl w obj))) by reflexivity.
        rewrite Hx in Hm. rewrite Hreg in Hm. inversion Hm; subst m.
        destruct (Nat.eq_dec obj o) as [->|Hne]; [right; rewrite Ee; discriminate | left; exact Hne]. }
    destruct (escape_template _ _ _) as [w2 [[[code|]|pp]|]]; cbn [fst] in *; (eapply keeps_trans; [exact HS | exact HE]).
  - (* OExecuteTemplate *) destruct (handle w h) as [obj|]; [|apply keeps_refl].
    set (nsid := h_ns (get_tmpl w obj)).
    assert (HS : keeps o c w (set_escaped w nsid)) by (apply keeps_same; reflexivity).
    destruct (assoc_get name (n_set (get_ns (set_escaped w nsid) nsid))) as [m|] eqn:Em; cbn [fst]; [|exact HS].
    destruct (h_err (get_tmpl (set_escaped w nsid) m)) eqn:Ee; cbn [fst]; try exact HS;
      destruct (x_tree _); cbn [fst]; try exact HS;
      destruct (assoc_get name (get_common _ _)); cbn [fst]; try exact HS.
    match goal with |- context [escape_template ?a ?b ?cc] =>
      assert (HE : keeps o c a (fst (escape_template a b cc))) end.
    { apply keeps_escape_template. intros m' Hm'. rewrite Em in Hm'. inversion Hm'; subst m'.
      destruct (Nat.eq_dec m o) as [->|Hne]; [right; rewrite Ee; discriminate | left; exact Hne]. }
    destruct (escape_template _ _ _) as [w2 [[[code|]|pp]|]]; cbn [fst] in *; (eapply keeps_trans; [exact HS | exact HE]).
  - destruct (handle w h); apply keeps_refl.
  - destruct (handle w h) as [obj|]; [|apply keeps_refl]. cbn [fst]. apply keeps_same; reflexivity.
Qed.

Fixpoint allowed_hist (w : world) (o : nat) (ops : list op) : Prop :=
  match ops with
  | [] => True
  | op :: rest => allowed w o op /\ allowed_hist (fst (step w op)) o rest
  end.

Lemma run_from_keeps_error o c ops : forall w, allowed_hist w o ops -> keeps o c w (run_from w ops).
Proof.
  induction ops as [|op ops IH]; intros w Ha; cbn [run_from fold_left]; [apply keeps_refl|].
  destruct Ha as [Ha1 Ha2]. eapply keeps_trans; [apply step_keeps_error; exact Ha1 | apply IH; exact Ha2].
Qed.

Lemma err_in_range w o code : h_err (get_tmpl w o) = EErr code -> (o < length (w_tmpl w))%nat.
Proof.
  intros H. destruct (Nat.lt_ge_cases o (length (w_tmpl w))) as [Hl|Hl]; [exact Hl|].
  unfold get_tmpl in H. rewrite nth_overflow in H by exact Hl. discriminate H.
Qed.

(* C05 over histories: the analysis error recorded on a template object stays on it through every
   history of allowed calls, the client's handle keeps denoting that object, and Execute through it
   returns that error (and, by C05_sticky_execute, writes nothing) *)
Theorem sticky_forever w h o code ops :
  handle w h = Some o -> h_err (get_tmpl w o) = EErr code -> allowed_hist w o ops ->
  let w' := run_from w ops in
  handle w' h = Some o /\ h_err (get_tmpl w' o) = EErr code /\
  snd (step w' (OExecute h)) = RErrEscape code.
Proof.
  intros Hh He Ha w'.
  destruct (run_from_keeps_error o code ops w Ha) as [K1 K2].
  destruct (K1 (conj (err_in_range w o code He) He)) as [_ He'].
  assert (Hh' : handle w' h = Some o).
  { unfold handle in *. destruct (nth_error (w_handles w) h) as [[x|]|] eqn:E; try discriminate.
    inversion Hh; subst x. fold w' in K2. rewrite (K2 h (Some o) E). reflexivity. }
  split; [exact Hh'|]. split; [exact He'|].
  apply (sticky_execute w' h o code Hh' He').
Qed.

(* ... and ExecuteTemplate of its name through ANY handle of the set *)
Theorem sticky_forever_by_name w o code ops h' obj' name :
  h_err (get_tmpl w o) = EErr code -> allowed_hist w o ops ->
  let w' := run_from w ops in
  handle w' h' = Some obj' ->
  assoc_get name (n_set (get_ns w' (h_ns (get_tmpl w' obj')))) = Some o ->
  snd (step w' (OExecuteTemplate h' name)) = RErrEscape code.
Proof.
  intros He Ha w' Hh' Hm.
  destruct (run_from_keeps_error o code ops w Ha) as [K1 _].
  destruct (K1 (conj (err_in_range w o code He) He)) as [_ He'].
  apply (sticky_execute_template w' h' obj' name o code Hh' Hm He').
Qed.

(* how a template gets there: an Execute that answers with an analysis error records it on the
   template it was called on (when that template is the set's member of its own name) *)
Theorem failed_execute_recorded w h o code :
  handle w h = Some o -> registered w o ->
  snd (step w (OExecute h)) = RErrEscape code ->
  h_err (get_tmpl (fst (step w (OExecute h))) o) = EErr code.
Proof.
  intros Hh Hreg Hr. unfold step in *. rewrite Hh in *.
  set (nsid := h_ns (get_tmpl w o)) in *.
  destruct (h_err (get_tmpl w o)) eqn:Ee; cbn [fst snd] in *.
  - destruct (h_tree_nil (get_tmpl w o)); cbn [fst snd] in *; [discriminate|].
    destruct (escape_template (set_escaped w nsid) nsid _) as [w2 [[[code'|]|pp]|]] eqn:Et; cbn [fst snd] in *; try discriminate.
    inversion Hr; subst code'.
    eapply first_failure_recorded; [exact Et|].
    destruct (set_escaped_spec w nsid) as (_ & _ & _ & S4). rewrite S4. exact Hreg.
  - discriminate.
  - inversion Hr; subst. exact Ee.
Qed.

(* non-vacuity: a concrete history reaches a world in which a registered template carries an
   analysis error (the text ends inside an attribute value) *)
Definition bad_tree : tree := [NText 1 (B "<a href=""")].
Definition bad_hist : list op := [ONew (B "t"); OParse 0 (Parsed [(B "t", bad_tree)]); OExecute 0].
Example sticky_premises_satisfiable :
  let w := run_from world0 bad_hist in
  handle w 0 = Some 0%nat /\ h_err (get_tmpl w 0) = EErr ErrEndContext /\
  n_escaped (get_ns w (h_ns (get_tmpl w 0))) = true.
Proof. vm_compute. repeat split. Qed.

Example sticky_history_allowed :
  allowed_hist (run_from world0 bad_hist) 0
    [OExecute 0; OLookup 0 (B "t"); ONew (B "u"); OExecuteTemplate 0 (B "t"); OClone 0; OSubNew 0 (B "fresh"); OExecute 0].
Proof.
  cbn [allowed_hist allowed]. repeat split; try exact I.
  - intros obj0 H. vm_compute in H. inversion H. left. reflexivity.
  - intros obj H. vm_compute in H. inversion H; subst obj. vm_compute. reflexivity.
  - intros obj0 H. vm_compute in H. inversion H. left. reflexivity.
Qed.
