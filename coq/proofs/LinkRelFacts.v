(* C02 after the repair of D3 (fix: allow a URL in a link element's href only if every rel value is
   allow-listed): whenever some value of the (normalised) rel attribute is not allow-listed - in
   particular whenever "stylesheet" is one of them - the href of a link element is a
   TrustedResourceURL-only context. *)
From V Require Import lib.Base lib.Regex lib.Utf8 gen.GenRegex gen.GenPolicy gen.GenTemplate.
From V Require Import model.GoStrings model.HtmlUnescape model.TContext model.TSanitize.
Local Open Scope N_scope.

Lemma stylesheet_not_allow_listed : mem_bytes (B "stylesheet") P_urlLinkRelVals = false.
Proof. vm_compute. reflexivity. Qed.

Lemma link_href_tables : forall rel, all_url_rel_vals rel = false ->
  sc_for_attr_val (B "link") (B "href") rel = Some SC_TRU.
Proof.
  intros rel H. unfold sc_for_attr_val. rewrite H, andb_false_r.
  assert (E1 : go_match_bytes G_dataAttributeNamePattern (B "href") = false) by (vm_compute; reflexivity).
  rewrite E1.
  assert (E2 : lookup2 (B "href") (B "link") P_elementSpecific = None) by (vm_compute; reflexivity).
  rewrite E2.
  assert (E3 : lookup_bytes (B "href") P_globalAttr = Some SC_TRU) by (vm_compute; reflexivity).
  rewrite E3.
  assert (E4 : mem_bytes (B "link") P_allowedVoid = true) by (vm_compute; reflexivity).
  rewrite E4, orb_true_r. reflexivity.
Qed.

Lemma some_value_not_listed rel v :
  In v (fields rel) -> mem_bytes v P_urlLinkRelVals = false -> all_url_rel_vals rel = false.
Proof.
  intros Hin Hv. unfold all_url_rel_vals. destruct (fields rel) as [|x xs] eqn:E; [reflexivity|].
  destruct (forallb (fun v0 => mem_bytes v0 P_urlLinkRelVals) (x :: xs)) eqn:Ef; [|reflexivity].
  rewrite forallb_forall in Ef. rewrite (Ef v Hin) in Hv. discriminate Hv.
Qed.

(* the style-sheet link: a rel with the value stylesheet among its values, whatever the others are *)
Theorem stylesheet_link_href_is_tru_only rel :
  In (B "stylesheet") (fields rel) -> sc_for_attr_val (B "link") (B "href") rel = Some SC_TRU.
Proof.
  intros H. apply link_href_tables. eapply some_value_not_listed; [exact H | exact stylesheet_not_allow_listed].
Qed.

(* no rel, or an empty one: TrustedResourceURL only *)
Theorem bare_link_href_is_tru_only rel :
  fields rel = [] -> sc_for_attr_val (B "link") (B "href") rel = Some SC_TRU.
Proof. intros H. apply link_href_tables. unfold all_url_rel_vals. rewrite H. reflexivity. Qed.

(* and a URL is admitted only when every value is allow-listed and there is one *)
Theorem link_href_url_only_if_all_listed rel :
  sc_for_attr_val (B "link") (B "href") rel = Some SC_TRUOrURL ->
  fields rel <> [] /\ forall v, In v (fields rel) -> mem_bytes v P_urlLinkRelVals = true.
Proof.
  intros H. destruct (all_url_rel_vals rel) eqn:E.
  - unfold all_url_rel_vals in E. destruct (fields rel) as [|x xs] eqn:Ef; [discriminate|]. split; [discriminate|].
    rewrite forallb_forall in E. exact E.
  - rewrite (link_href_tables rel E) in H. exfalso. revert H. vm_compute. discriminate.
Qed.

Example ex_alternate_stylesheet :
  sc_for_attr_val (B "link") (B "href") (B " alternate stylesheet ") = Some SC_TRU /\
  sc_for_attr_val (B "link") (B "href") (B " alternate icon ") = Some SC_TRUOrURL.
Proof. split; vm_compute; reflexivity. Qed.
