(* C20: TrustedSourceFromConstantDir keeps dynamic filenames inside the constant dir.

   Nothing here is bounded: every statement is for all byte strings.
   1. clean_loop_fold : the byte loop of Go's Clean (lazybuf transliteration, model/TrustedSource.v)
      is a fold of a per-component step over the '/'-separated components;
   2. sim_step / clean_eq : that per-component step simulates the component-stack normal
      form of spec/PathSpec.v, hence  clean p = clean_stack p  for every p;
   3. go_join_eq : the model of filepath.Join equals the documented Join (join_clean);
   4. join3_cases : appending one plain name to the joined path is a push on the stack;
   5. the C20 theorems about from_constant_dir. *)
From V Require Import lib.Base model.TrustedSource spec.PathSpec.
From Coq Require Import PeanoNat ZifyBool ZifyN.
Local Open Scope N_scope.

Definition nosep (e : bytes) : Prop := ~ In 47 e.

(* ------------------------------------------------------------------ components *)

Lemma split_on_nonnil p : split_on 47 p <> [].
Proof.
  destruct p as [|c t]; simpl; [discriminate|].
  destruct (c =? 47); [discriminate|]. destruct (split_on 47 t); discriminate.
Qed.

Lemma split_on_nosep e : nosep e -> split_on 47 e = [e].
Proof.
  unfold nosep. induction e as [|c e IH]; intros H; [reflexivity|].
  simpl. destruct (c =? 47) eqn:E.
  - apply N.eqb_eq in E. subst. exfalso. apply H. left. reflexivity.
  - rewrite IH; [reflexivity|]. intros Hin. apply H. right. exact Hin.
Qed.

Lemma split_on_app a b : split_on 47 (a ++ 47 :: b) = split_on 47 a ++ split_on 47 b.
Proof.
  induction a as [|c a IH]; [reflexivity|].
  simpl. destruct (c =? 47); rewrite IH; [reflexivity|].
  destruct (split_on 47 a) as [|h r] eqn:E; [exfalso; exact (split_on_nonnil a E)|reflexivity].
Qed.

Lemma split_on_all_nosep p : Forall nosep (split_on 47 p).
Proof.
  induction p as [|c t IH]; simpl.
  - constructor; [intros []|constructor].
  - destruct (c =? 47) eqn:E.
    + constructor; [intros []|exact IH].
    + destruct (split_on 47 t) as [|h r]; [constructor; [|constructor]|].
      * intros [H|[]]. subst. discriminate.
      * inversion IH as [|x l Hh Hr]; subst. constructor; [|exact Hr].
        intros [H|H]; [subst; discriminate|exact (Hh H)].
Qed.

Lemma join_sep_snoc l x :
  join_sep (l ++ [x]) = match l with [] => x | _ => join_sep l ++ 47 :: x end.
Proof.
  induction l as [|a l IH]; [reflexivity|].
  destruct l as [|b l]; [reflexivity|].
  change (join_sep ((a :: b :: l) ++ [x])) with (a ++ 47 :: join_sep ((b :: l) ++ [x])).
  rewrite IH. change (join_sep (a :: b :: l)) with (a ++ 47 :: join_sep (b :: l)).
  rewrite <- app_assoc. reflexivity.
Qed.

Lemma join_sep_nonnil l : l <> [] -> Forall (fun x : bytes => x <> []) l -> join_sep l <> [].
Proof.
  destruct l as [|x r]; [congruence|]. intros _ H. inversion H as [|y l' Hx Hr]; subst.
  destruct x as [|c x]; [congruence|]. destruct r; simpl; discriminate.
Qed.

Lemma join_sep_length_mono a b : (length (join_sep a) <= length (join_sep (a ++ b)))%nat.
Proof.
  induction a as [|x a IH]; [simpl; lia|].
  destruct a as [|y a].
  - destruct b as [|z b]; simpl; [lia|]. rewrite app_length. lia.
  - change (join_sep ((x :: y :: a) ++ b)) with (x ++ 47 :: join_sep ((y :: a) ++ b)).
    change (join_sep (x :: y :: a)) with (x ++ 47 :: join_sep (y :: a)).
    rewrite !app_length. simpl. simpl in IH. lia.
Qed.

Lemma strings_join_eq l : strings_join l = join_sep l.
Proof.
  induction l as [|x l IH]; [reflexivity|].
  destruct l as [|y l]; [reflexivity|].
  change (strings_join (x :: y :: l)) with (x ++ SEP :: strings_join (y :: l)).
  rewrite IH. reflexivity.
Qed.

(* ------------------------------------------------------------------ 1. byte loop = fold over components *)

Definition lz_step (rooted : bool) (st : bytes * nat) (comp : bytes) : bytes * nat :=
  if bytes_eqb comp [] || bytes_eqb comp p_dot then st
  else if bytes_eqb comp p_dotdot then dotdot_step rooted st
  else elem_step rooted st comp.

Lemma end_or_sep_cases r : end_or_sep r = true -> r = [] \/ exists r', r = 47 :: r'.
Proof.
  destruct r as [|c r]; [left; reflexivity|]. simpl. unfold is_sep, SEP. intros H.
  apply N.eqb_eq in H. subst. right. exists r. reflexivity.
Qed.

Lemma fold_split_elem {S} (f : S -> bytes -> S) (Hnil : forall s, f s [] = s) e r st :
  nosep e -> end_or_sep r = true ->
  fold_left f (split_on 47 (e ++ r)) st = fold_left f (split_on 47 r) (f st e).
Proof.
  intros He Hr. destruct (end_or_sep_cases r Hr) as [->|[r' ->]].
  - rewrite app_nil_r, split_on_nosep by exact He. simpl. rewrite Hnil. reflexivity.
  - rewrite split_on_app, split_on_nosep by exact He. simpl. rewrite Hnil. reflexivity.
Qed.

Lemma span_elem_spec rest e r :
  span_elem rest = (e, r) -> rest = e ++ r /\ nosep e /\ end_or_sep r = true.
Proof.
  revert e r. induction rest as [|c t IH]; intros e r H; simpl in H.
  - inversion H; subst. repeat split. intros [].
  - destruct (is_sep c) eqn:E.
    + inversion H; subst. repeat split; [intros []|simpl; exact E].
    + destruct (span_elem t) as [e' r'] eqn:Es. inversion H; subst.
      destruct (IH e' r eq_refl) as (H1 & H2 & H3). repeat split.
      * simpl. rewrite <- H1. reflexivity.
      * intros [Hc|Hc]; [|exact (H2 Hc)]. subst. discriminate.
      * exact H3.
Qed.

Lemma clean_loop_nil fuel rooted st : clean_loop fuel rooted [] st = st.
Proof. destruct fuel; reflexivity. Qed.

Lemma lz_step_nil rooted st : lz_step rooted st [] = st.
Proof. reflexivity. Qed.

Lemma clean_loop_fold rooted : forall fuel rest st, (length rest < fuel)%nat ->
  clean_loop fuel rooted rest st = fold_left (lz_step rooted) (split_on 47 rest) st.
Proof.
  induction fuel as [|k IH]; intros rest st Hlen; [lia|].
  destruct rest as [|c r1]; [reflexivity|].
  simpl in Hlen. cbn [clean_loop].
  destruct (is_sep c) eqn:Esep.
  { (* empty element *)
    unfold is_sep, SEP in Esep. apply N.eqb_eq in Esep. subst c.
    rewrite IH by lia. reflexivity. }
  destruct ((c =? DOT) && end_or_sep r1) eqn:Edot.
  { (* . *)
    apply andb_true_iff in Edot as [Ec Hr]. apply N.eqb_eq in Ec. subst c.
    rewrite IH by lia.
    change (DOT :: r1) with ([DOT] ++ r1).
    rewrite (fold_split_elem _ (lz_step_nil rooted)); [reflexivity| |exact Hr].
    intros [H|[]]. discriminate. }
  destruct ((c =? DOT) && match r1 with c2 :: r2 => (c2 =? DOT) && end_or_sep r2 | [] => false end) eqn:Edd.
  { (* .. *)
    apply andb_true_iff in Edd as [Ec Hr]. apply N.eqb_eq in Ec. subst c.
    destruct r1 as [|c2 r2]; [discriminate|].
    apply andb_true_iff in Hr as [Ec2 Hr]. apply N.eqb_eq in Ec2. subst c2.
    cbn [tl]. rewrite IH by (simpl in Hlen; lia).
    change (DOT :: DOT :: r2) with ([DOT; DOT] ++ r2).
    rewrite (fold_split_elem _ (lz_step_nil rooted)); [reflexivity| |exact Hr].
    intros [H|[H|[]]]; discriminate. }
  (* real element *)
  destruct (span_elem (c :: r1)) as [e r'] eqn:Es.
  pose proof (span_elem_spec _ _ _ Es) as (Happ & Hns & Hr).
  simpl in Es. rewrite Esep in Es. destruct (span_elem r1) as [e1 r1'] eqn:Es1.
  inversion Es; subst e r'. clear Es.
  pose proof (span_elem_spec _ _ _ Es1) as (Happ1 & _ & _).
  assert (Hlen' : (length r1' <= length r1)%nat).
  { rewrite Happ1, app_length. lia. }
  rewrite IH by lia. rewrite Happ.
  rewrite (fold_split_elem _ (lz_step_nil rooted)); [|exact Hns|exact Hr].
  f_equal. unfold lz_step.
  assert (Hc : c <> 47) by (unfold is_sep, SEP in Esep; apply N.eqb_neq in Esep; exact Esep).
  destruct e1 as [|d e1].
  - (* one byte: not "." because the . case failed *)
    simpl in Happ1. subst r1'. rewrite Hr in Edot. rewrite andb_true_r in Edot.
    unfold p_dot, p_dotdot, bytes_eqb. simpl. unfold DOT in Edot. rewrite Edot. reflexivity.
  - destruct e1 as [|d2 e1].
    + (* two bytes: not ".." because the .. case failed *)
      simpl in Happ1. subst r1. rewrite Hr in Edd. rewrite andb_true_r in Edd.
      unfold p_dot, p_dotdot, bytes_eqb. simpl. unfold DOT in Edd.
      rewrite !andb_true_r, !andb_false_r. rewrite Edd. reflexivity.
    + unfold p_dot, p_dotdot, bytes_eqb. simpl. rewrite !andb_false_r. reflexivity.
Qed.

(* ------------------------------------------------------------------ 2. the lazybuf step simulates the stack step *)

(* a component that stays on the stack *)
Definition real (c : bytes) : Prop := c <> [] /\ nosep c /\ c <> p_dot /\ c <> p_dotdot.

Definition wf (rooted : bool) (st : pstate) : Prop :=
  Forall real (snd st) /\ (rooted = true -> fst st = O).

Definition prefix (rooted : bool) : bytes := if rooted then p_slash else [].

(* the lazybuf state that represents a stack state: the buffer holds the raw rendering,
   dotdot is the length of the part that ".." must not remove *)
Definition enc (rooted : bool) (st : pstate) : bytes * nat :=
  (rev (render_raw rooted st), length (render_raw rooted (fst st, []))).

Lemma back_loop_sep e base dd : nosep e -> (dd <= length base)%nat ->
  back_loop (e ++ 47 :: base) dd = base.
Proof.
  unfold nosep. induction e as [|x e IH]; intros He Hdd.
  - simpl. rewrite andb_false_r. reflexivity.
  - simpl. assert (Hx : is_sep x = false).
    { unfold is_sep, SEP. apply N.eqb_neq. intros ->. apply He. left. reflexivity. }
    rewrite Hx. simpl. rewrite andb_true_r.
    assert (Hlt : Nat.ltb dd (length (e ++ 47 :: base)) = true).
    { apply Nat.ltb_lt. rewrite app_length. simpl. lia. }
    rewrite Hlt. apply IH; [|exact Hdd]. intros H. apply He. right. exact H.
Qed.

Lemma back_loop_base e base dd : nosep e -> e <> [] -> length base = dd ->
  back_loop (e ++ base) dd = base.
Proof.
  unfold nosep. induction e as [|x e IH]; intros He Hne Hdd; [congruence|].
  assert (Hx : is_sep x = false).
  { unfold is_sep, SEP. apply N.eqb_neq. intros ->. apply He. left. reflexivity. }
  destruct e as [|y e].
  - simpl. assert (Hlt : Nat.ltb dd (length base) = false) by (apply Nat.ltb_ge; lia).
    rewrite Hlt. reflexivity.
  - change (back_loop ((x :: y :: e) ++ base) dd)
      with (if Nat.ltb dd (length ((y :: e) ++ base)) && negb (is_sep x)
            then back_loop ((y :: e) ++ base) dd else (y :: e) ++ base).
    assert (Hlt : Nat.ltb dd (length ((y :: e) ++ base)) = true).
    { apply Nat.ltb_lt. rewrite app_length. simpl. lia. }
    rewrite Hlt, Hx. simpl andb. cbv iota.
    apply IH; [|discriminate|exact Hdd]. intros H. apply He. right. exact H.
Qed.

Lemma real_nonnil_all stk : Forall real stk -> Forall (fun x : bytes => x <> []) stk.
Proof. intros H. eapply Forall_impl; [|exact H]. intros c Hc. exact (proj1 Hc). Qed.

Lemma comps_nonnil ups stk : Forall real stk ->
  Forall (fun x : bytes => x <> []) (repeat p_dotdot ups ++ rev stk).
Proof.
  intros H. apply Forall_app. split.
  - apply Forall_forall. intros x Hx. apply repeat_spec in Hx. subst. discriminate.
  - apply Forall_rev. apply real_nonnil_all. exact H.
Qed.

Lemma prefix_length_cases rooted (b : bytes) :
  ((rooted && negb (Nat.eqb (length b) 1)) || (negb rooted && negb (Nat.eqb (length b) 0)))
  = negb (Nat.eqb (length b) (length (prefix rooted))).
Proof. destruct rooted; simpl; [rewrite orb_false_r|]; reflexivity. Qed.

(* pushing one component: either the buffer is just the root prefix (nothing on the stack)
   and the component is appended directly, or a separator is inserted *)
Lemma render_raw_push rooted ups stk c : Forall real stk ->
  let b := render_raw rooted (ups, stk) in
  (ups = O /\ stk = [] /\ b = prefix rooted /\ render_raw rooted (ups, c :: stk) = b ++ c) \/
  (length b <> length (prefix rooted) /\ render_raw rooted (ups, c :: stk) = b ++ 47 :: c).
Proof.
  intros Hwf b. subst b. unfold render_raw. fold (prefix rooted).
  change (rev (c :: stk)) with (rev stk ++ [c]). rewrite app_assoc, join_sep_snoc.
  destruct (repeat p_dotdot ups ++ rev stk) as [|x l] eqn:E.
  - left. apply app_eq_nil in E as [E1 E2].
    assert (ups = O) by (destruct ups; [reflexivity|discriminate]).
    assert (stk = []).
    { destruct stk as [|y stk]; [reflexivity|]. simpl in E2. symmetry in E2.
      exfalso. exact (app_cons_not_nil _ _ _ E2). }
    subst. simpl. rewrite app_nil_r. repeat split; reflexivity.
  - right. split; [|rewrite app_assoc; reflexivity].
    rewrite app_length. intros Hl.
    assert (Hn : join_sep (x :: l) <> []).
    { apply join_sep_nonnil; [discriminate|]. rewrite <- E. apply comps_nonnil. exact Hwf. }
    destruct (join_sep (x :: l)); [congruence|unfold prefix in Hl; destruct rooted; simpl in Hl; lia].
Qed.

Lemma render_raw_base_le rooted ups stk :
  (length (render_raw rooted (ups, [])) <= length (render_raw rooted (ups, stk)))%nat.
Proof.
  unfold render_raw. rewrite !app_length. simpl rev. rewrite app_nil_r.
  pose proof (join_sep_length_mono (repeat p_dotdot ups) (rev stk)). lia.
Qed.

Lemma stack_step_wf rooted st comp : wf rooted st -> nosep comp -> wf rooted (stack_step rooted st comp).
Proof.
  destruct st as [ups stk]. intros [Hs Hr] Hc. unfold stack_step.
  destruct (bytes_eqb comp [] || bytes_eqb comp p_dot) eqn:E1; [split; assumption|].
  destruct (bytes_eqb comp p_dotdot) eqn:E2.
  - destruct stk as [|t below].
    + destruct rooted; [split; assumption|]. split; [constructor|discriminate].
    + simpl in Hs. inversion Hs; subst. split; assumption.
  - split; [|exact Hr]. simpl. constructor; [|exact Hs].
    apply orb_false_iff in E1 as [E1a E1b].
    repeat split; try exact Hc; intros ->; discriminate.
Qed.

Lemma sim_step rooted st comp : wf rooted st -> nosep comp ->
  lz_step rooted (enc rooted st) comp = enc rooted (stack_step rooted st comp).
Proof.
  destruct st as [ups stk]. intros [Hs Hr] Hc. simpl in Hs, Hr.
  unfold lz_step, stack_step.
  destruct (bytes_eqb comp [] || bytes_eqb comp p_dot) eqn:E1; [reflexivity|].
  destruct (bytes_eqb comp p_dotdot) eqn:E2.
  - (* ".." *)
    destruct stk as [|t below].
    + (* nothing to pop *)
      unfold enc, dotdot_step. cbn [fst]. rewrite rev_length, Nat.ltb_irrefl.
      destruct rooted; [reflexivity|]. cbn [negb fst].
      unfold render_raw. cbn [rev]. rewrite !app_nil_r. cbn [app].
      change (repeat p_dotdot (S ups)) with (p_dotdot :: repeat p_dotdot ups).
      rewrite repeat_cons, join_sep_snoc.
      destruct (repeat p_dotdot ups) as [|x l] eqn:E.
      * reflexivity || (destruct ups; [reflexivity|discriminate]).
      * assert (Hn : join_sep (x :: l) <> []).
        { apply join_sep_nonnil; [discriminate|]. rewrite <- E.
          apply Forall_forall. intros y Hy. apply repeat_spec in Hy. subst. discriminate. }
        assert (Hlt : Nat.ltb 0 (length (join_sep (x :: l))) = true).
        { apply Nat.ltb_lt. destruct (join_sep (x :: l)); [congruence|simpl; lia]. }
        rewrite Hlt. unfold p_dotdot. rewrite rev_app_distr. simpl.
        rewrite app_length, rev_length. simpl. f_equal. lia.
    + (* pop *)
      inversion Hs as [|t' b' Ht Hbelow]; subst.
      destruct Ht as (Htn & Hts & _).
      unfold enc, dotdot_step. cbn [fst].
      pose proof (render_raw_base_le rooted ups below) as Hle.
      destruct (render_raw_push rooted ups below t Hbelow) as [(Hu & Hb & Hp & Heq)|(Hl & Heq)].
      * rewrite rev_length, Heq, app_length, rev_app_distr. subst ups below.
        assert (Hlt : Nat.ltb (length (render_raw rooted (O, []))) (length (render_raw rooted (O, [])) + length t) = true).
        { apply Nat.ltb_lt. destruct t; [congruence|simpl; lia]. }
        rewrite Hlt. f_equal. apply back_loop_base.
        -- intros H. apply in_rev in H. exact (Hts H).
        -- intros H. apply (f_equal (@length N)) in H. rewrite rev_length in H. destruct t; [congruence|discriminate].
        -- apply rev_length.
      * rewrite rev_length, Heq, app_length, rev_app_distr.
        assert (Hlt : Nat.ltb (length (render_raw rooted (ups, []))) (length (render_raw rooted (ups, below)) + length (47 :: t)) = true).
        { apply Nat.ltb_lt. cbn [length]. lia. }
        rewrite Hlt. f_equal. simpl rev. rewrite <- app_assoc. simpl app.
        apply back_loop_sep.
        -- intros H. apply in_rev in H. exact (Hts H).
        -- rewrite rev_length. exact Hle.
  - (* real component *)
    unfold enc, elem_step. cbn [fst]. f_equal.
    rewrite rev_length, prefix_length_cases.
    destruct (render_raw_push rooted ups stk comp Hs) as [(Hu & Hb & Hp & Heq)|(Hl & Heq)].
    + rewrite Heq, Hp, Nat.eqb_refl. simpl negb. cbv iota. rewrite rev_app_distr. reflexivity.
    + rewrite Heq. apply Nat.eqb_neq in Hl. rewrite Hl. simpl negb. cbv iota.
      rewrite rev_app_distr. simpl rev. rewrite <- app_assoc. reflexivity.
Qed.

Lemma fold_sim rooted : forall comps st, Forall nosep comps -> wf rooted st ->
  fold_left (lz_step rooted) comps (enc rooted st) = enc rooted (fold_left (stack_step rooted) comps st)
  /\ wf rooted (fold_left (stack_step rooted) comps st).
Proof.
  induction comps as [|c comps IH]; intros st Hc Hwf; [split; [reflexivity|exact Hwf]|].
  inversion Hc as [|x l Hx Hl]; subst. simpl.
  rewrite sim_step by assumption. apply IH; [exact Hl|]. apply stack_step_wf; assumption.
Qed.

Lemma wf_init rooted : wf rooted (O, []).
Proof. split; [constructor|reflexivity]. Qed.

Lemma norm_state_wf p : wf (is_rooted p) (norm_state p).
Proof. apply fold_sim; [apply split_on_all_nosep|apply wf_init]. Qed.

Lemma finish_eq (raw : bytes) :
  match rev raw with [] => [DOT] | _ => rev (rev raw) end = match raw with [] => p_dot | n :: l => n :: l end.
Proof.
  rewrite rev_involutive. destruct raw as [|x l]; [reflexivity|].
  destruct (rev (x :: l)) eqn:E; [|reflexivity].
  apply (f_equal (@length N)) in E. rewrite rev_length in E. discriminate.
Qed.

(* Go's Clean (lazybuf transliteration) computes the component-stack normal form. *)
Theorem clean_eq : forall p, clean p = clean_stack p.
Proof.
  intros p. destruct p as [|c t]; [reflexivity|].
  unfold clean, clean_stack, render, norm_state.
  destruct (is_sep c) eqn:Ec.
  - unfold is_sep, SEP in Ec. apply N.eqb_eq in Ec. subst c.
    rewrite clean_loop_fold by (simpl; lia).
    change (is_rooted (47 :: t)) with true.
    change (split_on 47 (47 :: t)) with ([] :: split_on 47 t).
    change (fold_left (stack_step true) ([] :: split_on 47 t) (O, [])) with (fold_left (stack_step true) (split_on 47 t) (O, [])).
    change ([SEP], 1%nat) with (enc true (O, [])).
    destruct (fold_sim true (split_on 47 t) (O, []) (split_on_all_nosep t) (wf_init true)) as [-> _].
    unfold enc. apply finish_eq.
  - assert (Hr : is_rooted (c :: t) = false) by exact Ec.
    rewrite Hr. rewrite clean_loop_fold by (simpl; lia).
    change (@nil N, O) with (enc false (O, [])).
    destruct (fold_sim false (split_on 47 (c :: t)) (O, []) (split_on_all_nosep (c :: t)) (wf_init false)) as [-> _].
    unfold enc. apply finish_eq.
Qed.

(* ------------------------------------------------------------------ 3. filepath.Join *)

Lemma stack_step_nil rooted st : stack_step rooted st [] = st.
Proof. destruct st; reflexivity. Qed.

Lemma split_join l : l <> [] -> split_on 47 (join_sep l) = concat (map (split_on 47) l).
Proof.
  induction l as [|x l IH]; [congruence|]. intros _.
  destruct l as [|y l]; [simpl; rewrite app_nil_r; reflexivity|].
  change (join_sep (x :: y :: l)) with (x ++ 47 :: join_sep (y :: l)).
  rewrite split_on_app, IH by discriminate. reflexivity.
Qed.

Lemma fold_filter_nonempty rooted l : forall st,
  fold_left (stack_step rooted) (concat (map (split_on 47) (filter nonempty l))) st
  = fold_left (stack_step rooted) (concat (map (split_on 47) l)) st.
Proof.
  induction l as [|x l IH]; intros st; [reflexivity|].
  destruct x as [|c x].
  - simpl. rewrite stack_step_nil. apply IH.
  - cbn [filter nonempty map concat]. rewrite !fold_left_app. apply IH.
Qed.

Lemma is_rooted_join x l : x <> [] -> is_rooted (join_sep (x :: l)) = is_rooted x.
Proof. destruct x as [|c x]; [congruence|]. intros _. destruct l; reflexivity. Qed.

Lemma clean_stack_join_filter x l : x <> [] ->
  clean_stack (join_sep (x :: l)) = clean_stack (join_sep (filter nonempty (x :: l))).
Proof.
  intros Hx. destruct x as [|c x]; [congruence|].
  cbn [filter nonempty]. unfold clean_stack, norm_state.
  rewrite !is_rooted_join by discriminate.
  rewrite !split_join by discriminate.
  change ((c :: x) :: filter nonempty l) with (filter nonempty ((c :: x) :: l)).
  rewrite fold_filter_nonempty. reflexivity.
Qed.

(* the model of filepath.Join is the documented Join *)
Theorem go_join_eq : forall l, go_join l = join_clean l.
Proof.
  induction l as [|x l IH]; [reflexivity|].
  destruct x as [|c x].
  - exact IH.
  - cbn [go_join]. rewrite clean_eq, strings_join_eq.
    rewrite clean_stack_join_filter by discriminate.
    unfold join_clean. cbn [filter nonempty]. reflexivity.
Qed.

(* ------------------------------------------------------------------ 4. appending one plain name *)

Lemma bytes_eqb_false a b : bytes_eqb a b = false <-> a <> b.
Proof.
  split.
  - intros H E. apply bytes_eqb_eq in E. congruence.
  - intros H. destruct (bytes_eqb a b) eqn:E; [apply bytes_eqb_eq in E; contradiction|reflexivity].
Qed.

(* the cleaned path of a non-empty list of non-empty elements, extended by a component *)
Lemma clean_stack_snoc (j f : bytes) : j <> [] -> nosep f ->
  clean_stack (j ++ 47 :: f) = render (is_rooted j) (stack_step (is_rooted j) (norm_state j) f).
Proof.
  intros Hj Hf. unfold clean_stack, norm_state.
  assert (Hr : is_rooted (j ++ 47 :: f) = is_rooted j) by (destruct j; [congruence|reflexivity]).
  rewrite Hr, split_on_app, fold_left_app, (split_on_nosep f Hf). reflexivity.
Qed.

(* joins of components that are real or ".." are never "." or "/" *)
Lemma join_comps_not_special (l : list bytes) :
  Forall (fun c : bytes => c <> [] /\ nosep c /\ c <> p_dot) l ->
  join_sep l <> p_dot /\ join_sep l <> p_slash.
Proof.
  intros H. destruct l as [|x l]; [split; discriminate|].
  inversion H as [|x' l' (Hx1 & Hx2 & Hx3) Hl]; subst.
  destruct l as [|y l].
  - simpl. split; [exact Hx3|]. intros ->. apply Hx2. left. reflexivity.
  - change (join_sep (x :: y :: l)) with (x ++ 47 :: join_sep (y :: l)).
    destruct x as [|a x]; [congruence|]. unfold p_dot, p_slash.
    split; intros E; simpl in E; inversion E as [[E1 E2]]; symmetry in E2;
      exact (app_cons_not_nil _ _ _ E2).
Qed.

Lemma comps_not_special ups stk : Forall real stk ->
  Forall (fun c : bytes => c <> [] /\ nosep c /\ c <> p_dot) (repeat p_dotdot ups ++ rev stk).
Proof.
  intros H. apply Forall_app. split.
  - apply Forall_forall. intros x Hx. apply repeat_spec in Hx. subst.
    repeat split; try discriminate. intros [E|[E|[]]]; discriminate.
  - apply Forall_rev. eapply Forall_impl; [|exact H]. intros c (H1 & H2 & H3 & _). auto.
Qed.

(* pushing a real component onto a well-formed state renders as the direct child *)
Lemma render_push rooted st f : wf rooted st -> real f ->
  let base := render rooted st in
  render rooted (fst st, f :: snd st) = child base f /\ render rooted (fst st, f :: snd st) <> base.
Proof.
  destruct st as [ups stk]. intros [Hs Hr] (Hf1 & Hf2 & Hf3 & Hf4). cbn [fst snd] in *.
  unfold render.
  destruct (render_raw_push rooted ups stk f Hs) as [(Hu & Hb & Hp & Heq)|(Hl & Heq)].
  - rewrite Heq, Hp. subst ups stk. destruct rooted; simpl.
    + split; [reflexivity|]. intros E. inversion E. congruence.
    + destruct f as [|a f]; [congruence|]. split; [reflexivity|exact Hf3].
  - rewrite Heq. set (b := render_raw rooted (ups, stk)) in *.
    assert (Hbn : b <> []).
    { intros E. rewrite E in Hl. unfold render_raw in b. subst b.
      destruct rooted; [discriminate|]. apply Hl. reflexivity. }
    assert (Hbd : b <> p_dot /\ b <> p_slash).
    { subst b. unfold render_raw in *.
      pose proof (join_comps_not_special _ (comps_not_special ups stk Hs)) as [J1 J2].
      destruct rooted; simpl in *.
      - split; [discriminate|]. intros E. apply Hl. apply (f_equal (@length N)) in E. simpl in E. exact E.
      - split; assumption. }
    destruct Hbd as [Hbd Hbs].
    assert (Hnn : b ++ 47 :: f <> []) by (intros E; symmetry in E; exact (app_cons_not_nil _ _ _ E)).
    destruct (b ++ 47 :: f) as [|n0 l0] eqn:Ebf; [congruence|]. rewrite <- Ebf.
    destruct b as [|n1 l1] eqn:Eb; [congruence|]. rewrite <- Eb in *.
    unfold child.
    apply bytes_eqb_false in Hbn, Hbd, Hbs. rewrite Hbn, Hbd, Hbs. simpl.
    split; [reflexivity|]. intros E. apply (f_equal (@length N)) in E.
    rewrite app_length in E. simpl in E. lia.
Qed.

Definition plain (f : bytes) : Prop := ~ In 47 f /\ f <> p_dotdot.

Lemma plain_cases f : plain f -> f = [] \/ f = p_dot \/ real f.
Proof.
  intros [H1 H2]. destruct (bytes_eqb f []) eqn:E1; [left; apply bytes_eqb_eq; exact E1|].
  destruct (bytes_eqb f p_dot) eqn:E2; [right; left; apply bytes_eqb_eq; exact E2|].
  right. right. apply bytes_eqb_false in E1, E2. repeat split; assumption.
Qed.

Lemma stack_step_real rooted st f : real f -> stack_step rooted st f = (fst st, f :: snd st).
Proof.
  intros (H1 & _ & H3 & H4). destruct st as [ups stk]. unfold stack_step.
  apply bytes_eqb_false in H1, H3, H4. rewrite H1, H3, H4. reflexivity.
Qed.

Lemma stack_step_dot rooted st : stack_step rooted st p_dot = st.
Proof. destruct st; reflexivity. Qed.

(* The heart of C20: what Join(dir, src, f) is, relative to Join(dir, src). *)
Lemma join3_cases dir src f : plain f ->
  let base := join_clean [dir; src] in
  let r := join_clean [dir; src; f] in
  (f = [] -> r = base) /\
  (f = p_dot -> r = base \/ (base = [] /\ r = p_dot)) /\
  (f <> [] -> f <> p_dot -> r = child base f /\ r <> base).
Proof.
  intros Hp base r.
  assert (Hsplit : forall (l : list bytes) (x : bytes), x <> [] -> l <> [] -> Forall (fun e : bytes => e <> []) l ->
            nosep x ->
            clean_stack (join_sep (l ++ [x])) =
            render (is_rooted (join_sep l)) (stack_step (is_rooted (join_sep l)) (norm_state (join_sep l)) x)).
  { intros l x Hx Hl Hall Hns. rewrite join_sep_snoc. destruct l as [|y l]; [congruence|].
    apply clean_stack_snoc; [|exact Hns]. apply join_sep_nonnil; [discriminate|exact Hall]. }
  assert (Hfilter : filter nonempty [dir; src; f] = filter nonempty [dir; src] ++ filter nonempty [f]).
  { change [dir; src; f] with ([dir; src] ++ [f]). apply filter_app. }
  assert (Hall : Forall (fun e : bytes => e <> []) (filter nonempty [dir; src])).
  { apply Forall_forall. intros e He. apply filter_In in He as [_ He]. destruct e; [discriminate|discriminate]. }
  subst base r. unfold join_clean. rewrite Hfilter.
  set (L := filter nonempty [dir; src]) in *.
  destruct (plain_cases f Hp) as [->|[->|Hreal]].
  - (* "" *) cbn [filter nonempty]. rewrite app_nil_r.
    split; [reflexivity|]. split; [discriminate|]. intros H; congruence.
  - (* "." *)
    cbn [filter nonempty]. change (nonempty p_dot) with true. cbv iota.
    split; [discriminate|]. split; [|congruence]. intros _.
    destruct L as [|y L'] eqn:EL.
    + right. split; reflexivity.
    + left. rewrite <- EL in *. assert (HLn : L <> []) by (rewrite EL; discriminate).
      destruct (L ++ [p_dot]) as [|z Z] eqn:EZ; [destruct L; discriminate|]. rewrite <- EZ.
      rewrite Hsplit; [|discriminate|exact HLn|exact Hall|intros [E|[]]; discriminate].
      rewrite stack_step_dot. rewrite EL. rewrite <- EL. reflexivity.
  - (* a real name *)
    assert (Hfn : nonempty f = true) by (destruct Hreal as [H _]; destruct f; [congruence|reflexivity]).
    cbn [filter]. rewrite Hfn.
    split; [intros ->; destruct Hreal as [H _]; congruence|]. split; [intros ->; destruct Hreal as (_ & _ & H & _); congruence|].
    intros _ _.
    destruct L as [|y L'] eqn:EL.
    + (* dir = src = "" *)
      cbn [app]. unfold clean_stack, norm_state. cbn [join_sep].
      destruct Hreal as (H1 & H2 & H3 & H4).
      assert (Hr : is_rooted f = false).
      { destruct f as [|a f]; [congruence|]. simpl. apply N.eqb_neq. intros ->. apply H2. left. reflexivity. }
      rewrite Hr, (split_on_nosep f H2). cbn [fold_left].
      rewrite stack_step_real by (repeat split; assumption).
      unfold render, render_raw. cbn.
      destruct f as [|a f]; [congruence|]. split; [reflexivity|discriminate].
    + rewrite <- EL in *. assert (HLn : L <> []) by (rewrite EL; discriminate).
      destruct (L ++ [f]) as [|z Z] eqn:EZ; [destruct L; discriminate|]. rewrite <- EZ.
      rewrite Hsplit; [|destruct Hreal as [H _]; exact H|exact HLn|exact Hall|destruct Hreal as (_ & H & _); exact H].
      rewrite stack_step_real by exact Hreal.
      rewrite EL. rewrite <- EL.
      apply render_push; [apply norm_state_wf|exact Hreal].
Qed.

(* ------------------------------------------------------------------ 5. TrustedSourceFromConstantDir *)

Lemma has_separator_iff f : has_separator f = true <-> In 47 f \/ In 58 f.
Proof.
  unfold has_separator. rewrite existsb_exists. split.
  - intros (c & Hin & Hc). apply orb_true_iff in Hc as [Hc|Hc]; apply N.eqb_eq in Hc; subst;
      [left|right]; exact Hin.
  - intros [H|H]; [exists 47|exists 58]; (split; [exact H|reflexivity]).
Qed.

Lemma from_constant_dir_some dir src f r : from_constant_dir dir src f = Some r ->
  ~ In 47 f /\ ~ In 58 f /\ f <> p_dotdot /\ r = join_clean [dir; src; f].
Proof.
  unfold from_constant_dir. destruct (has_separator f) eqn:Hs; [discriminate|].
  destruct (bytes_eqb f [DOT; DOT]) eqn:Hd; [discriminate|]. intros H.
  assert (Hr : r = go_join [dir; src; f]) by congruence. clear H.
  assert (Hn : ~ (In 47 f \/ In 58 f)).
  { intros Hin. apply has_separator_iff in Hin. congruence. }
  repeat split.
  - intros Hin. apply Hn. left. exact Hin.
  - intros Hin. apply Hn. right. exact Hin.
  - apply bytes_eqb_false. exact Hd.
  - rewrite Hr. apply go_join_eq.
Qed.

Lemma tsrc_rejects dir src f :
  In 47 f \/ In 58 f \/ f = [46; 46] -> from_constant_dir dir src f = None.
Proof.
  intros H. unfold from_constant_dir. destruct (has_separator f) eqn:Hs; [reflexivity|].
  destruct H as [H|[H|H]].
  - assert (has_separator f = true) by (apply has_separator_iff; left; exact H). congruence.
  - assert (has_separator f = true) by (apply has_separator_iff; right; exact H). congruence.
  - subst. reflexivity.
Qed.

Lemma tsrc_accepts dir src f :
  ~ In 47 f -> ~ In 58 f -> f <> [46; 46] -> from_constant_dir dir src f = Some (join_clean [dir; src; f]).
Proof.
  intros H1 H2 H3. unfold from_constant_dir.
  destruct (has_separator f) eqn:Hs.
  - apply has_separator_iff in Hs as [Hs|Hs]; contradiction.
  - apply bytes_eqb_false in H3. unfold DOT. rewrite H3, go_join_eq. reflexivity.
Qed.

Lemma tsrc_confined dir src f r : from_constant_dir dir src f = Some r ->
  ~ In 47 f /\ ~ In 58 f /\ f <> [46; 46] /\
  let base := join_clean [dir; src] in
  (r = base \/ r = child base f) /\
  (f = [] -> r = base) /\
  (f = [46] -> r = base \/ (base = [] /\ r = [46])) /\
  (f <> [] -> f <> [46] -> r = child base f /\ r <> base).
Proof.
  intros H. apply from_constant_dir_some in H as (H1 & H2 & H3 & ->).
  split; [exact H1|]. split; [exact H2|]. split; [exact H3|].
  pose proof (join3_cases dir src f (conj H1 H3)) as (Ha & Hb & Hc).
  cbv zeta. split; [|split; [exact Ha|split; [exact Hb|exact Hc]]].
  destruct (bytes_eqb f []) eqn:E1.
  - apply bytes_eqb_eq in E1. left. exact (Ha E1).
  - destruct (bytes_eqb f p_dot) eqn:E2.
    + apply bytes_eqb_eq in E2. destruct (Hb E2) as [Hb'|[Hb1 Hb2]]; [left; exact Hb'|].
      right. rewrite Hb1, Hb2, E2. reflexivity.
    + apply bytes_eqb_false in E1, E2. right. exact (proj1 (Hc E1 E2)).
Qed.

(* the boolean oracle that the check evaluates on the implementation's real outputs is
   exactly what the theorem gives *)
Lemma tsrc_spec dir src f r : from_constant_dir dir src f = Some r -> c20_spec dir src f r = true.
Proof.
  intros H. apply tsrc_confined in H as (H1 & H2 & H3 & H4 & Ha & Hb & Hc).
  unfold c20_spec, plain_name.
  assert (M1 : mem_N 47 f = false) by (destruct (mem_N 47 f) eqn:E; [apply mem_N_In in E; contradiction|reflexivity]).
  assert (M2 : mem_N 58 f = false) by (destruct (mem_N 58 f) eqn:E; [apply mem_N_In in E; contradiction|reflexivity]).
  apply bytes_eqb_false in H3. unfold p_dotdot. rewrite M1, M2, H3. cbn [negb andb].
  destruct (bytes_eqb f []) eqn:E1.
  - apply bytes_eqb_eq in E1. apply bytes_eqb_eq. exact (Ha E1).
  - destruct (bytes_eqb f p_dot) eqn:E2.
    + apply bytes_eqb_eq in E2. destruct (Hb E2) as [Hb'|[Hb1 Hb2]].
      * rewrite Hb', bytes_eqb_refl. reflexivity.
      * rewrite Hb1, Hb2. reflexivity.
    + apply bytes_eqb_false in E1, E2. destruct (Hc E1 E2) as [Hc1 Hc2].
      rewrite <- Hc1, bytes_eqb_refl. apply bytes_eqb_false in Hc2. rewrite Hc2. reflexivity.
Qed.

(* ------------------------------------------------------------------ non-vacuity *)

Example tsrc_accepts_child : from_constant_dir (B "tmpl/") (B "admin") (B "index.html") = Some (B "tmpl/admin/index.html").
Proof. vm_compute. reflexivity. Qed.
Example tsrc_accepts_cleaned : from_constant_dir (B "a/../..") (B "") (B "x") = Some (B "../x").
Proof. vm_compute. reflexivity. Qed.
Example tsrc_accepts_dot : from_constant_dir (B "/a//b/") (B "") (B ".") = Some (B "/a/b").
Proof. vm_compute. reflexivity. Qed.
Example tsrc_accepts_dots3 : from_constant_dir (B "a") (B "b") (B "...") = Some (B "a/b/...").
Proof. vm_compute. reflexivity. Qed.
Example tsrc_all_empty_dot : from_constant_dir [] [] (B ".") = Some (B ".").
Proof. vm_compute. reflexivity. Qed.
Example tsrc_rejects_dotdot : from_constant_dir (B "tmpl") (B "") (B "..") = None.
Proof. vm_compute. reflexivity. Qed.
Example tsrc_rejects_slash : from_constant_dir (B "tmpl") (B "") (B "../etc/passwd") = None.
Proof. vm_compute. reflexivity. Qed.
Example tsrc_rejects_listsep : from_constant_dir (B "tmpl") (B "") (B "a:b") = None.
Proof. vm_compute. reflexivity. Qed.
(* the oracle rejects what a broken implementation would return *)
Example spec_rejects_parent : c20_spec (B "tmpl") [] (B "..") (B ".") = false.
Proof. vm_compute. reflexivity. Qed.
Example spec_rejects_nested : c20_spec (B "tmpl") [] (B "a/b") (B "tmpl/a/b") = false.
Proof. vm_compute. reflexivity. Qed.
Example spec_rejects_sibling : c20_spec (B "tmpl") [] (B "x") (B "other/x") = false.
Proof. vm_compute. reflexivity. Qed.
Example spec_accepts_child : c20_spec (B "/") (B "") (B "x") (B "/x") = true.
Proof. vm_compute. reflexivity. Qed.
