(* C04: the sanitization policy is default-deny and never weaker than the reviewed policy. *)
From V Require Import lib.Base lib.Regex lib.RegexDecide lib.Utf8 gen.GenRegex gen.GenPolicy.
From V Require Import reviewed.ReviewedPolicy model.GoStrings model.HtmlUnescape model.TContext model.TSanitize
     model.TSanitizers spec.PolicySpec proofs.RegexFacts proofs.RegexDecideFacts.
Local Open Scope N_scope.

Lemma tables_ok_ok : tables_ok = true. Proof. vm_compute. reflexivity. Qed.
Lemma rel_ok_ok : rel_ok = true. Proof. vm_compute. reflexivity. Qed.
Lemma data_ok_ok : data_ok = true. Proof. vm_compute. reflexivity. Qed.
Lemma link_href_ok_ok : link_href_ok = true. Proof. vm_compute. reflexivity. Qed.
Lemma content_ok_ok : content_ok = true. Proof. vm_compute. reflexivity. Qed.
Lemma contexts_ok_ok : contexts_ok = true. Proof. vm_compute. reflexivity. Qed.
Lemma enum_ok_ok : enum_ok = true. Proof. vm_compute. reflexivity. Qed.

(* ---- lookups return None off their key sets ---- *)
Lemma mem_bytes_In x l : mem_bytes x l = true <-> In x l.
Proof.
  unfold mem_bytes. rewrite existsb_exists. split.
  - intros [y [Hy E]]. apply bytes_eqb_eq in E. subst. exact Hy.
  - intros H. exists x. split; [exact H | apply bytes_eqb_refl].
Qed.

Lemma lookup2_keys a e t sc : lookup2 a e t = Some sc ->
  In a (map (fun x => fst (fst x)) t) /\ In e (map (fun x => snd (fst x)) t).
Proof.
  induction t as [|[[a' e'] s] t IH]; simpl; [discriminate|].
  destruct (bytes_eqb a a' && bytes_eqb e e') eqn:E.
  - intros _. apply andb_true_iff in E as [E1 E2]. apply bytes_eqb_eq in E1, E2. subst. auto.
  - intros H. destruct (IH H). auto.
Qed.

Lemma lookup_bytes_key {A} k (t : list (bytes * A)) v : lookup_bytes k t = Some v -> In k (map fst t).
Proof.
  induction t as [|[k' v'] t IH]; simpl; [discriminate|].
  destruct (bytes_eqb k k') eqn:E; [apply bytes_eqb_eq in E; subst; auto | intros H; right; auto].
Qed.

Lemma p_tables_keys a e sc : p_tables a e = Some sc -> In a K_attr /\ In e K_elem.
Proof.
  unfold p_tables, K_attr, K_elem.
  destruct (lookup2 a e P_elementSpecific) eqn:E2.
  - intros _. apply lookup2_keys in E2 as [Ha He]. split; apply in_or_app; auto.
  - destruct (lookup_bytes a P_globalAttr) eqn:Eg; [|discriminate].
    apply lookup_bytes_key in Eg.
    destruct (lookup_bytes e P_elementContent) eqn:Ec.
    + intros _. apply lookup_bytes_key in Ec. split; [apply in_or_app; auto|].
      apply in_or_app; right; apply in_or_app; auto.
    + cbn [orb]. destruct (mem_bytes e P_allowedVoid) eqn:Ev; [|discriminate].
      intros _. apply mem_bytes_In in Ev. split; [apply in_or_app; auto|].
      apply in_or_app; right; apply in_or_app; auto.
Qed.

Lemma tables_cmp a e : cmp_sc (p_tables a e) (r_tables a e) = true.
Proof.
  destruct (p_tables a e) as [sc|] eqn:E; [|reflexivity].
  destruct (p_tables_keys a e sc E) as [Ha He].
  pose proof tables_ok_ok as H. unfold tables_ok in H. rewrite forallb_forall in H.
  specialize (H a Ha). rewrite forallb_forall in H. specialize (H e He). rewrite E in H. exact H.
Qed.

(* the engine's decision function, seen as the same three rules as the reviewed one *)
Lemma sc_for_attr_val_rules e a rel :
  sc_for_attr_val e a rel =
  if bytes_eqb e (B "link") && bytes_eqb a (B "href") && all_url_rel_vals rel
  then Some SC_TRUOrURL
  else if go_match_bytes G_dataAttributeNamePattern a then Some SC_None
  else p_tables a e.
Proof. reflexivity. Qed.

(* when the engine's (all values) rule fires, the reviewed (some value) rule fires *)
Lemma all_url_rel_vals_some rel : all_url_rel_vals rel = true ->
  existsb (fun v => mem_bytes v P_urlLinkRelVals) (fields rel) = true.
Proof.
  unfold all_url_rel_vals. destruct (fields rel) as [|v vs]; [discriminate|].
  cbn [forallb existsb]. intros H. apply andb_true_iff in H as [H _]. rewrite H. reflexivity.
Qed.

Lemma rel_vals_incl v : mem_bytes v P_urlLinkRelVals = true -> mem_bytes v R_urlLinkRelVals = true.
Proof.
  intros H. apply mem_bytes_In in H. pose proof rel_ok_ok as R. unfold rel_ok in R.
  rewrite forallb_forall in R. exact (R v H).
Qed.

Lemma names_of_constants :
  sc_name SC_TRUOrURL = N_TRUOrURL /\ sc_name SC_None = N_None.
Proof. split; vm_compute; reflexivity. Qed.

Lemma trust_le_none n : trust_le N_None n = true.
Proof. unfold trust_le. rewrite (bytes_eqb_refl N_None). destruct (bytes_eqb N_None n); reflexivity. Qed.

Lemma trust_le_refl n : trust_le n n = true.
Proof. unfold trust_le. rewrite bytes_eqb_refl. reflexivity. Qed.

Theorem policy_not_weaker_attr e a rel sc :
  sc_for_attr_val e a rel = Some sc ->
  exists n', reviewed_attr e a rel = Some n' /\ trust_le n' (sc_name sc) = true.
Proof.
  rewrite sc_for_attr_val_rules. unfold reviewed_attr.
  destruct names_of_constants as [Nt Nn].
  destruct (bytes_eqb e (B "link") && bytes_eqb a (B "href")) eqn:Elh; cbn [andb].
  - destruct (all_url_rel_vals rel) eqn:Ep.
    + intros H. inversion H; subst sc. apply all_url_rel_vals_some in Ep.
      assert (Er : existsb (fun v => mem_bytes v R_urlLinkRelVals) (fields rel) = true).
      { apply existsb_exists in Ep as [v [Hin Hv]]. apply existsb_exists. exists v. split; [exact Hin|].
        apply rel_vals_incl; exact Hv. }
      rewrite Er. exists N_TRUOrURL. split; [reflexivity|]. rewrite Nt. apply trust_le_refl.
    + destruct (existsb (fun v => mem_bytes v R_urlLinkRelVals) (fields rel)) eqn:Er.
      * (* only the reviewed rel rule fires: the engine's other rules must demand at least as much *)
        apply andb_true_iff in Elh as [E1 E2]. apply bytes_eqb_eq in E1, E2. subst e a.
        intros H. exists N_TRUOrURL. split; [reflexivity|].
        pose proof link_href_ok_ok as L. unfold link_href_ok in L. rewrite H in L. exact L.
      * clear Ep Er.
        destruct (go_match_bytes G_dataAttributeNamePattern a) eqn:Eg.
        -- intros H. inversion H; subst sc.
           assert (Erd : go_match_bytes R_dataAttributeName a = true).
           { unfold go_match_bytes in *. eapply go_incl; [exact data_ok_ok | exact Eg]. }
           rewrite Erd. exists N_None. split; [reflexivity|]. rewrite Nn. apply trust_le_refl.
        -- destruct (go_match_bytes R_dataAttributeName a).
           ++ intros _. exists N_None. split; [reflexivity | apply trust_le_none].
           ++ intros H. pose proof (tables_cmp a e) as C. rewrite H in C. unfold cmp_sc in C.
              destruct (r_tables a e) as [n1|] eqn:Er; [exists n1; split; [reflexivity | exact C] | discriminate C].
  - destruct (go_match_bytes G_dataAttributeNamePattern a) eqn:Eg.
    + intros H. inversion H; subst sc.
      assert (Erd : go_match_bytes R_dataAttributeName a = true).
      { unfold go_match_bytes in *. eapply go_incl; [exact data_ok_ok | exact Eg]. }
      rewrite Erd. exists N_None. split; [reflexivity|]. rewrite Nn. apply trust_le_refl.
    + destruct (go_match_bytes R_dataAttributeName a).
      * intros _. exists N_None. split; [reflexivity | apply trust_le_none].
      * intros H. pose proof (tables_cmp a e) as C. rewrite H in C. unfold cmp_sc in C.
        destruct (r_tables a e) as [n1|] eqn:Er; [exists n1; split; [reflexivity | exact C] | discriminate C].
Qed.

Theorem policy_default_deny_attr e a rel :
  reviewed_attr e a rel = None -> sc_for_attr_val e a rel = None.
Proof.
  intros H. destruct (sc_for_attr_val e a rel) as [sc|] eqn:E; [|reflexivity].
  apply policy_not_weaker_attr in E as (n' & E & _). congruence.
Qed.

Lemma content_lookup_cmp : forall t,
  forallb (fun x => cmp_sc (Some (snd x)) (lookup_bytes (fst x) R_elementContent)) t = true ->
  forall e sc, lookup_bytes e t = Some sc -> cmp_sc (Some sc) (lookup_bytes e R_elementContent) = true.
Proof.
  induction t as [|[k v] t IH]; cbn [forallb lookup_bytes fst snd]; intros Hf e sc H; [discriminate|].
  apply andb_true_iff in Hf as [H1 H2]. destruct (bytes_eqb e k) eqn:Ek.
  - inversion H; subst. apply bytes_eqb_eq in Ek; subst. exact H1.
  - eapply IH; eauto.
Qed.

Theorem policy_not_weaker_content e sc :
  sc_for_element_content e = Some sc ->
  exists n', reviewed_content e = Some n' /\ trust_le n' (sc_name sc) = true.
Proof.
  unfold sc_for_element_content, reviewed_content. intros H.
  pose proof (content_lookup_cmp _ content_ok_ok e sc H) as C. unfold cmp_sc in C.
  destruct (lookup_bytes e R_elementContent) as [n1|]; [exists n1; auto | discriminate C].
Qed.

Theorem policy_default_deny_content e :
  reviewed_content e = None -> sc_for_element_content e = None.
Proof.
  intros H. destruct (sc_for_element_content e) as [sc|] eqn:E; [|reflexivity].
  apply policy_not_weaker_content in E as (n' & E & _). congruence.
Qed.

(* ---- positions in which an action is always refused ---- *)
Theorem policy_positions c :
  (match c_state c with StTag | StAttrName | StAfterName => True | _ => False end) \/
  ((c_attr c <> [] \/ c_attr_names c <> []) /\
   match c_state c with StTag | StAttrName | StAfterName | StHTMLCmt => False | _ => True end /\
   ~ (c_elem_names c = [] /\ c_elem c = [] /\ c_state c = StText) /\
   match c_delim c with DDoubleQuote | DSingleQuote => False | _ => True end) ->
  sanitizer_for_context c = None.
Proof.
  unfold sanitizer_for_context. intros [H|(Hattr & Hst & Hnt & Hd)].
  - destruct (c_state c); try contradiction; reflexivity.
  - destruct (c_state c) eqn:Es; try contradiction.
    all: try (
      assert (Ht : ((match c_elem_names c with [] => true | _ => false end) && bytes_eqb (c_elem c) []
                    && state_eqb (c_state c) StText) = false)
        by (rewrite Es; destruct (c_elem_names c), (bytes_eqb (c_elem c) []); reflexivity);
      rewrite Es in Ht; rewrite Ht;
      assert (Ha : (negb (bytes_eqb (c_attr c) []) || match c_attr_names c with [] => false | _ => true end) = true)
        by (destruct Hattr as [Ha|Ha];
            [destruct (c_attr c); [contradiction | reflexivity]
            |destruct (c_attr_names c); [contradiction | apply orb_true_r]]);
      rewrite Ha; destruct (c_delim c); try contradiction; reflexivity).
    (* StText *)
    assert (Ht : ((match c_elem_names c with [] => true | _ => false end) && bytes_eqb (c_elem c) []
                  && state_eqb StText StText) = false).
    { destruct (c_elem_names c) eqn:En; [|reflexivity]. simpl.
      destruct (bytes_eqb (c_elem c) []) eqn:Ee; [|reflexivity].
      apply bytes_eqb_eq in Ee. exfalso. apply Hnt. auto. }
    rewrite Ht.
    assert (Ha : (negb (bytes_eqb (c_attr c) []) || match c_attr_names c with [] => false | _ => true end) = true)
      by (destruct Hattr as [Ha|Ha];
          [destruct (c_attr c); [contradiction | reflexivity]
          |destruct (c_attr_names c); [contradiction | apply orb_true_r]]).
    rewrite Ha. destruct (c_delim c); try contradiction; reflexivity.
Qed.

(* ---- enumerated contexts: only listed words; typed-only contexts refuse plain strings ---- *)
Theorem enum_only_words f v o : enum_sanitizer f v = Some o ->
  exists words, lookup_bytes f P_enumValues = Some words /\ In o words.
Proof.
  unfold enum_sanitizer. destruct (lookup_bytes f P_enumValues) as [words|]; [|discriminate].
  destruct (mem_bytes (stringify v) words) eqn:E; [|discriminate].
  intros H. inversion H; subst. exists words. split; [reflexivity | apply mem_bytes_In; exact E].
Qed.

Lemma lookup_forallb {A} (P : bytes * A -> bool) : forall t,
  forallb P t = true -> forall k v, lookup_bytes k t = Some v -> P (k, v) = true.
Proof.
  induction t as [|[k' v'] t IH]; cbn [forallb lookup_bytes]; intros Hf k v H; [discriminate|].
  apply andb_true_iff in Hf as [H1 H2]. destruct (bytes_eqb k k') eqn:Ek.
  - inversion H; subst. apply bytes_eqb_eq in Ek; subst. exact H1.
  - eapply IH; eauto.
Qed.

Theorem enum_words_reviewed f v o : enum_sanitizer f v = Some o ->
  exists rw, lookup_bytes f R_enumValues = Some rw /\ In o rw.
Proof.
  intros H. apply enum_only_words in H as (words & El & Hin).
  pose proof (lookup_forallb _ _ enum_ok_ok f words El) as E. cbn [fst snd] in E.
  destruct (lookup_bytes f R_enumValues) as [rw|]; [|discriminate E].
  exists rw. split; [reflexivity|]. rewrite forallb_forall in E. apply mem_bytes_In. apply E. exact Hin.
Qed.

Theorem typed_only_rejects_strings k s : typed_only k (VStr s) = None.
Proof. reflexivity. Qed.

Theorem typed_only_rejects_other_kinds k k' s n :
  kind_eqb k k' = false -> typed_only k (Nat.iter n VPtr (VSafe k' s)) = None.
Proof.
  intros H. unfold typed_only.
  assert (E : indirect (Nat.iter n VPtr (VSafe k' s)) = VSafe k' s) by (induction n; simpl; auto).
  rewrite E, H. reflexivity.
Qed.

(* a URL context never accepts an action after branches that wrote different static prefixes, the
   empty prefix on one of them included
   (fix: refuse an action after an ambiguous URL prefix also when the prefix is empty on the first branch) *)
Theorem url_chain_not_ambiguous c chain sc0 :
  sanitizers_for_attr_value c = Some chain ->
  all_same_sc (attr_pairs c) (c_link_rel c) None = Some sc0 -> sc_is_url sc0 = true ->
  c_attr_amb c = false.
Proof.
  unfold sanitizers_for_attr_value. intros H Hs Hu. rewrite Hs in H.
  destruct (sc_is_enum sc0 && negb (bytes_eqb (c_attr_value c) [])); [discriminate|].
  destruct ((sc0 =? SC_Style) && negb (bytes_eqb (c_attr_value c) [])
            && negb (validate_no_charref_prefix (c_attr_value c))); [discriminate|].
  rewrite Hu in H. cbn [negb] in H. destruct (c_attr_amb c); [discriminate|reflexivity].
Qed.

(* partial substitutions are refused in enumerated contexts; URL contexts always sanitize *)
Theorem attr_chain_shape c chain :
  sanitizers_for_attr_value c = Some chain ->
  exists sc0, all_same_sc (attr_pairs c) (c_link_rel c) None = Some sc0 /\
    (sc_is_enum sc0 = true -> c_attr_value c = []) /\
    (sc_is_url sc0 = false -> chain = nonempty_names [sc_sanitizer_name sc0] ++ [N_sanitizeHTML]) /\
    (sc_is_url sc0 = true -> c_attr_value c = [] ->
       chain = nonempty_names [sc_sanitizer_name sc0; N_normalizeURL] ++ [N_sanitizeHTML]) /\
    (sc_is_url sc0 = true -> c_attr_value c <> [] ->
       c_attr_amb c = false /\
       (chain = [N_validateTRUSubst; N_queryEscapeURL; N_sanitizeHTML] \/
        chain = [N_queryEscapeURL; N_sanitizeHTML] \/ chain = [N_normalizeURL; N_sanitizeHTML])) /\
    exists pre, chain = pre ++ [N_sanitizeHTML].
Proof.
  unfold sanitizers_for_attr_value.
  destruct (all_same_sc (attr_pairs c) (c_link_rel c) None) as [sc0|]; [|discriminate].
  intros H. exists sc0. split; [reflexivity|].
  destruct (sc_is_enum sc0 && negb (bytes_eqb (c_attr_value c) [])) eqn:Een; [discriminate|].
  destruct ((sc0 =? SC_Style) && negb (bytes_eqb (c_attr_value c) [])
            && negb (validate_no_charref_prefix (c_attr_value c))); [discriminate|].
  assert (Henum : sc_is_enum sc0 = true -> c_attr_value c = []).
  { intros He. rewrite He in Een. simpl in Een. apply negb_false_iff in Een. apply bytes_eqb_eq in Een. exact Een. }
  split; [exact Henum|].
  destruct (sc_is_url sc0) eqn:Eu; cbn [negb] in H.
  - destruct (c_attr_amb c) eqn:Ea; [discriminate|].
    destruct (c_attr_value c) as [|b0 v] eqn:Ev.
    + inversion H; subst.
      split; [discriminate|]. split; [reflexivity|]. split; [intros _ Hne; congruence|].
      eexists; reflexivity.
    + destruct (url_prefix_validator sc0) as [vf|]; [|discriminate].
      destruct (vf (b0 :: v)); cbn [negb] in H; [|discriminate].
      split; [discriminate|]. split; [intros _ Hnil; discriminate|].
      split.
      * intros _ _. split; [reflexivity|].
        destruct (sc0 =? SC_TRU); [inversion H; auto|].
        destruct (index_any [35; 63] (html_unescape (b0 :: v))); inversion H; auto.
      * destruct (sc0 =? SC_TRU); [inversion H; exists [N_validateTRUSubst; N_queryEscapeURL]; reflexivity|].
        destruct (index_any [35; 63] (html_unescape (b0 :: v))); inversion H;
          [exists [N_queryEscapeURL] | exists [N_normalizeURL]]; reflexivity.
  - inversion H; subst.
    split; [reflexivity|]. split; [discriminate|]. split; [discriminate|].
    eexists; reflexivity.
Qed.
