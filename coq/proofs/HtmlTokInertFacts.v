(* C10, tokenizer clause: HTMLEscaped output placed in element content, RCDATA content or a quoted
   attribute value never ends the enclosing construct, under the WHATWG tokenizer specification. *)
From V Require Import lib.Base lib.Utf8 model.Html spec.HtmlSpec spec.HtmlTok proofs.HtmlFacts proofs.HtmlTokFacts.
Local Open Scope N_scope.

Lemma no_qa_inert (o : bytes) : no_quote_or_angle o = true -> inert o.
Proof.
  unfold no_quote_or_angle, inert. rewrite forallb_forall. intros H.
  apply Forall_forall. intros b Hb. specialize (H b Hb).
  unfold quote_or_angle, mem_N in H. cbn [existsb] in H.
  apply negb_true_iff in H. repeat (apply orb_false_iff in H as [? H]).
  unfold inert_byte.
  repeat match goal with E : (b =? _) = false |- _ => apply N.eqb_neq in E end.
  repeat split; assumption.
Qed.

Theorem html_escaped_inert (s : bytes) : inert (html_escaped s).
Proof. apply no_qa_inert, html_escaped_no_qa. Qed.

Theorem html_escaped_tokenizes_inert (s : bytes) :
  (forall t, t_state t = SData ->
     let t' := tok_run t (html_escaped s) in
     t_state t' = SData /\ t_toks t' = t_toks t /\
     t_classes t' = rev (map (fun _ => PText) (html_escaped s)) ++ t_classes t) /\
  (forall n t, t_state t = SRcdata n ->
     let t' := tok_run t (html_escaped s) in
     t_state t' = SRcdata n /\ t_toks t' = t_toks t /\
     t_classes t' = rev (map (fun _ => PRcdata n) (html_escaped s)) ++ t_classes t) /\
  (forall t, t_state t = SAttrValueDQ ->
     let t' := tok_run t (html_escaped s) in t_state t' = SAttrValueDQ /\ t_toks t' = t_toks t) /\
  (forall t, t_state t = SAttrValueSQ ->
     let t' := tok_run t (html_escaped s) in t_state t' = SAttrValueSQ /\ t_toks t' = t_toks t).
Proof.
  destruct (inertness (html_escaped s) (html_escaped_inert s)) as (H1 & H2 & H3 & H4).
  repeat split.
  - apply (H1 t H).
  - apply (H1 t H).
  - apply (H1 t H).
  - apply (H2 n t H).
  - apply (H2 n t H).
  - apply (H2 n t H).
  - apply (H3 t H).
  - apply (H3 t H).
  - apply (H4 t H).
  - apply (H4 t H).
Qed.
