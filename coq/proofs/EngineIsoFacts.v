(* C07, isolation of template objects between name spaces (model/Engine.v). *)
From V Require Import lib.Base gen.GenTemplate model.GoStrings model.TContext model.TTransition
     model.TEscapeText model.TSanitize model.TTree model.TEscaper model.Engine proofs.EngineFacts proofs.EngineHistFacts proofs.EngineInvFacts proofs.EngineOkFacts.
From Coq Require Import Arith PeanoNat Lia.
Local Open Scope N_scope.

(* the name space an operation works on: that of the object its handle denotes *)
Definition op_ns (w : world) (op : op) : option nat :=
  let of_h h := match handle w h with Some obj => Some (h_ns (get_tmpl w obj)) | None => None end in
  match op with
  | ONew _ => None
  | OSubNew h _ | OParse h _ | OClone h | OLookup h _ | OExecute h | OExecuteTemplate h _ | OInfo h | OCSP h => of_h h
  end.

Lemma tf_sub_new_other o w obj name : Inv w -> (o < length (w_tmpl w))%nat ->
  h_ns (get_tmpl w o) <> h_ns (get_tmpl w obj) -> tmpl_frame o w (fst (sub_new w obj name)).
Proof.
  intros HI Hol Hns. rewrite sub_new_eq. cbv zeta. cbn [fst]. eapply tf_trans; [|apply tf_same; reflexivity].
  unfold sn_w4. set (w2 := sn_w2 w obj name).
  assert (T2 : tmpl_frame o w w2) by (unfold w2, sn_w2; eapply tf_trans; [|apply tf_new_tmpl]; apply tf_same; reflexivity).
  destruct (assoc_get name (n_set (get_ns w2 (h_ns (get_tmpl w obj))))) as [existing|] eqn:Ex; [|exact T2].
  assert (Ex0 : assoc_get name (n_set (get_ns w (h_ns (get_tmpl w obj)))) = Some existing) by exact Ex.
  destruct HI as (Hsc & _ & _). destruct (Hsc _ _ _ Ex0) as ((E1 & _) & E3 & _).
  assert (Hne : existing <> o) by (intros ->; congruence).
  eapply tf_trans; [exact T2|].
  eapply tf_trans; [apply tf_alloc_new|].
  apply tf_put_tmpl_other; [exact Hne|].
  destruct (tf_alloc_new o w2 (x_name (get_text w2 (h_text (get_tmpl w2 existing))))) as (L & _).
  destruct T2 as (L2 & _). lia.
Qed.

(* C07, objects: an operation through a handle of one name space never touches a template object
   (status, text template, name space) that lives in ANOTHER name space *)
Lemma step_other_ns_frame w op o : Inv w -> (o < length (w_tmpl w))%nat ->
  (forall a, op_ns w op = Some a -> h_ns (get_tmpl w o) <> a) ->
  tmpl_frame o w (fst (step w op)).
Proof.
  intros HI Hol Hns.
  { destruct op as [name|h name|h p|h|h name|h0|h name|h|h]; cbn [op_ns] in Hns.
    - cbn [step]. pose proof (tf_alloc_new o w name) as H. destruct (alloc_new w name) as [w1 obj]. cbn [fst] in *.
      eapply tf_trans; [exact H | apply tf_same; reflexivity].
    - cbn [step]. destruct (handle w h) as [obj|] eqn:Eh; [|apply tf_refl].
      pose proof (tf_sub_new_other o w obj name HI Hol (Hns _ eq_refl)) as H.
      destruct (sub_new w obj name) as [w1 o']. cbn [fst] in *. eapply tf_trans; [exact H | apply tf_same; reflexivity].
    - destruct (handle w h) as [obj|] eqn:Eh; [|cbn [step]; rewrite Eh; apply tf_refl].
      apply (tf_parse o w h p obj HI Eh Hol (Hns _ eq_refl)).
    - apply tf_clone.
    - cbn [step]. destruct (handle w h) as [obj|]; [|apply tf_refl]. apply tf_same. reflexivity.
    - cbn [step]. destruct (handle w h0) as [obj0|] eqn:Eh; [|apply tf_refl].
      set (nsid := h_ns (get_tmpl w obj0)) in *.
      assert (HS : tmpl_frame o w (set_escaped w nsid)) by (apply tf_same; reflexivity).
      destruct (h_err (get_tmpl w obj0)); cbn [fst]; try exact HS.
      destruct (h_tree_nil (get_tmpl w obj0)); cbn [fst]; [exact HS|].
      match goal with |- context [escape_template ?a ?b ?cc] =>
        assert (HX : tmpl_frame o a (fst (escape_template a b cc))) end.
      { apply tf_escape_template; [apply Inv_set_escaped; exact HI|]. intros m Hm.
        destruct (set_escaped_spec w nsid) as (_ & _ & _ & S4). rewrite S4 in Hm.
        destruct HI as (Hsc & _ & _). destruct (Hsc _ _ _ Hm) as (_ & M3 & _). intros ->. exact (Hns _ eq_refl M3). }
      destruct (escape_template _ _ _) as [w2 [[[code|]|pp]|]]; cbn [fst] in *; (eapply tf_trans; [exact HS | exact HX]).
    - cbn [step]. destruct (handle w h) as [obj|] eqn:Eh; [|apply tf_refl].
      set (nsid := h_ns (get_tmpl w obj)) in *.
      assert (HS : tmpl_frame o w (set_escaped w nsid)) by (apply tf_same; reflexivity).
      destruct (assoc_get name (n_set (get_ns (set_escaped w nsid) nsid))) as [m|] eqn:Em; cbn [fst]; [|exact HS].
      destruct (h_err (get_tmpl (set_escaped w nsid) m)); cbn [fst]; try exact HS;
        destruct (x_tree _); cbn [fst]; try exact HS;
        destruct (assoc_get name (get_common _ _)); cbn [fst]; try exact HS.
      match goal with |- context [escape_template ?a ?b ?cc] =>
        assert (HX : tmpl_frame o a (fst (escape_template a b cc))) end.
      { apply tf_escape_template; [apply Inv_set_escaped; exact HI|]. intros m' Hm'. rewrite Em in Hm'. inversion Hm'; subst m'.
        destruct (set_escaped_spec w nsid) as (_ & _ & _ & S4). rewrite S4 in Em.
        destruct HI as (Hsc & _ & _). destruct (Hsc _ _ _ Em) as (_ & M3 & _). intros ->. exact (Hns _ eq_refl M3). }
      destruct (escape_template _ _ _) as [w2 [[[code|]|pp]|]]; cbn [fst] in *; (eapply tf_trans; [exact HS | exact HX]).
    - cbn [step]. destruct (handle w h); apply tf_refl.
    - cbn [step]. destruct (handle w h) as [obj|]; [|apply tf_refl]. cbn [fst]. apply tf_same; reflexivity. }
Qed.

Theorem other_sets_objects_untouched w op o : Inv w -> (o < length (w_tmpl w))%nat ->
  (forall a, op_ns w op = Some a -> h_ns (get_tmpl w o) <> a) ->
  get_tmpl (fst (step w op)) o = get_tmpl w o.
Proof. intros HI Hol Hns. destruct (step_other_ns_frame w op o HI Hol Hns) as (_ & T2). apply T2. exact Hol. Qed.

(* ... and through every history of operations none of which goes through a handle of that name space *)
Fixpoint other_ns_hist (w : world) (n : nat) (ops : list op) : Prop :=
  match ops with
  | [] => True
  | op :: rest => (forall a, op_ns w op = Some a -> a <> n) /\ other_ns_hist (fst (step w op)) n rest
  end.

Theorem other_sets_objects_untouched_hist ops : forall w o, Inv w -> (o < length (w_tmpl w))%nat ->
  other_ns_hist w (h_ns (get_tmpl w o)) ops ->
  get_tmpl (run_from w ops) o = get_tmpl w o.
Proof.
  induction ops as [|op ops IH]; intros w o HI Hol Hh; cbn [run_from fold_left]; [reflexivity|].
  destruct Hh as [H1 H2].
  assert (Hns : forall a, op_ns w op = Some a -> h_ns (get_tmpl w o) <> a) by (intros a Ha E; exact (H1 a Ha (eq_sym E))).
  destruct (step_other_ns_frame w op o HI Hol Hns) as (L & T2). specialize (T2 Hol).
  change (fold_left (fun w0 o0 => fst (step w0 o0)) ops (fst (step w op))) with (run_from (fst (step w op)) ops).
  rewrite (IH (fst (step w op)) o); [exact T2 | apply Inv_step; exact HI | lia | rewrite T2; exact H2].
Qed.
