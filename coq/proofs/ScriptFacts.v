(* C17: ScriptFromDataAndConstant -- frame, inertness of the JSON literal, round trip, errors,
   the variable name.  The JSON-level facts are in proofs/JsonFacts.v. *)
From V Require Import lib.Base lib.Regex lib.RegexDecide lib.Utf8 gen.GenRegex gen.GenFormats.
From V Require Import model.Script spec.Json spec.ScriptSpec.
From V Require Import proofs.RegexFacts proofs.RegexDecideFacts proofs.RegexSpecs proofs.Utf8Facts.
From V Require Import proofs.JsonFacts.
From Coq Require Import ZifyBool ZifyN ZifyNat.
Local Open Scope N_scope.

(* ---- side conditions on the regenerated data ---- *)
Lemma bridge_js_start_ok : bridge_js_start = true. Proof. vm_compute. reflexivity. Qed.
Lemma bridge_js_only_ok : bridge_js_only = true. Proof. vm_compute. reflexivity. Qed.
Lemma bridge_js_rev_ok : bridge_js_rev = true. Proof. vm_compute. reflexivity. Qed.
(* the Sprintf layout is "var %s = %s;\n%s" with operands (name, JSON text, script) *)
Lemma layout_ok : layout_ok_b = true. Proof. vm_compute. reflexivity. Qed.
(* the JSON text is produced by json.Marshal(data) (escapeHTML on), which model/Script.v models *)
Lemma producer_ok : producer_ok_b = true. Proof. vm_compute. reflexivity. Qed.

Lemma layout_pieces :
  script_layout_prefix = B "var " /\ script_layout_mid = B " = " /\ script_layout_suffix = [59; 10].
Proof.
  pose proof layout_ok as H. unfold layout_ok_b in H.
  apply andb_true_iff in H as [H H3]. apply andb_true_iff in H as [H H2].
  apply andb_true_iff in H as [_ H1].
  apply bytes_eqb_eq in H1, H2, H3. auto.
Qed.

(* ---- the variable name ---- *)
Lemma js_start_cls_spec c : in_ranges c js_start_cls = true -> is_js_start c = true /\ c < 128.
Proof. unfold in_ranges, in_range, js_start_cls, is_js_start; simpl. lia. Qed.

Lemma js_part_cls_spec c : in_ranges c js_part_cls = true -> is_js_part c = true /\ c < 128.
Proof. unfold in_ranges, in_range, js_part_cls, is_js_part, is_js_start; simpl. lia. Qed.

Lemma js_part_cls_complete c : is_js_part c = true -> in_ranges c js_part_cls = true.
Proof. unfold in_ranges, in_range, js_part_cls, is_js_part, is_js_start; simpl. lia. Qed.

Lemma js_start_cls_complete c : is_js_start c = true -> in_ranges c js_start_cls = true.
Proof. unfold in_ranges, in_range, js_start_cls, is_js_start; simpl. lia. Qed.

Lemma js_name_ascii n : js_name_ok n = true -> decode_runes n = n /\ js_ident_spec n = true.
Proof.
  unfold js_name_ok. intros H.
  pose proof (incl_ok_sound _ _ bridge_js_only_ok _ H) as Ho. apply accepts_all_cls in Ho.
  assert (Ha : Forall (fun c => c < 128) (decode_runes n)).
  { eapply Forall_impl; [|exact Ho]. intros c Hc. apply js_part_cls_spec in Hc. tauto. }
  apply decode_all_ascii in Ha. rewrite Ha in *. split; [reflexivity|].
  pose proof (incl_ok_sound _ _ bridge_js_start_ok _ H) as Hs.
  apply accepts_begin_cls in Hs as (c & t & -> & Hc).
  apply js_start_cls_spec in Hc. inversion Ho as [|? ? _ Ht]; subst.
  cbn [js_ident_spec]. destruct Hc as [Hc _]. rewrite Hc. cbn [andb].
  apply forallb_forall. intros x Hx. rewrite Forall_forall in Ht. apply js_part_cls_spec, Ht, Hx.
Qed.

Lemma ascii_decode n : Forall (fun c => c < 128) n -> decode_runes n = n.
Proof.
  induction 1 as [|c n Hc Hn IH]; [reflexivity|]. rewrite decode_ascii by exact Hc. f_equal. exact IH.
Qed.

(* completeness: every ASCII identifier of two or more characters is accepted *)
Lemma js_ident2_accepted n : js_ident2_spec n = true -> js_name_ok n = true.
Proof.
  unfold js_ident2_spec, js_name_ok. intros H. apply andb_true_iff in H as [H H2].
  destruct n as [|c [|c2 t]]; try discriminate. cbn [js_ident_spec forallb] in H.
  apply andb_true_iff in H as [Hc H]. apply andb_true_iff in H as [Hc2 Ht].
  rewrite forallb_forall in Ht.
  assert (Hascii : Forall (fun x => x < 128) (c :: c2 :: t)).
  { constructor; [apply js_start_cls_complete, js_start_cls_spec in Hc; tauto|].
    constructor; [apply js_part_cls_complete, js_part_cls_spec in Hc2; tauto|].
    apply Forall_forall. intros x Hx. apply Ht, js_part_cls_complete, js_part_cls_spec in Hx. tauto. }
  rewrite (ascii_decode _ Hascii).
  apply (incl_ok_sound _ _ bridge_js_rev_ok). apply accepts_M. unfold S_js_ident2.
  change (c :: c2 :: t) with ([] ++ (c :: c2 :: t)). constructor; [constructor|]. cbn [last_or].
  change (c :: c2 :: t) with ([c] ++ (c2 :: t)). constructor.
  { constructor. apply js_start_cls_complete; exact Hc. }
  cbn [last_or]. rewrite <- (app_nil_r (c2 :: t)). constructor; [|constructor].
  unfold plus. change (c2 :: t) with ([c2] ++ t). constructor.
  { constructor. apply js_part_cls_complete; exact Hc2. }
  apply star_cls_M. apply Forall_forall. intros x Hx. apply js_part_cls_complete, Ht, Hx.
Qed.

(* ---- frame ---- *)
Lemma script_frame_spec n J s :
  script_frame n J s = B "var " ++ n ++ B " = " ++ J ++ [59; 10] ++ s.
Proof.
  unfold script_frame. destruct layout_pieces as (-> & -> & ->). reflexivity.
Qed.

Lemma script_from_data_frame n d s o : script_from_data n d s = Some o ->
  o = B "var " ++ n ++ B " = " ++ json_marshal d ++ [59; 10] ++ s /\ js_ident_spec n = true.
Proof.
  unfold script_from_data. destruct (js_name_ok n) eqn:Hn; [|discriminate].
  intros H. inversion H; subst. split; [apply script_frame_spec | apply js_name_ascii; exact Hn].
Qed.

Lemma script_from_go_frame n g s o : script_from_go n g s = Some o ->
  o = B "var " ++ n ++ B " = " ++ g_marshal g ++ [59; 10] ++ s /\ js_ident_spec n = true
  /\ g_encodable g = true.
Proof.
  unfold script_from_go. destruct (js_name_ok n) eqn:Hn; [|discriminate].
  destruct (g_encodable g) eqn:Hg; [|discriminate].
  intros H. inversion H; subst.
  split; [apply script_frame_spec | split; [apply js_name_ascii; exact Hn | reflexivity]].
Qed.

(* ---- errors ---- *)
Lemma script_from_data_error n d s : js_name_ok n = false -> script_from_data n d s = None.
Proof. unfold script_from_data. intros ->. reflexivity. Qed.

Lemma script_from_go_error n g s : js_name_ok n = false \/ g_encodable g = false ->
  script_from_go n g s = None.
Proof.
  unfold script_from_go. intros [-> | ->]; [reflexivity|]. destruct (js_name_ok n); reflexivity.
Qed.

Lemma non_identifier_rejected n d s : js_ident_spec n = false -> script_from_data n d s = None.
Proof.
  intros H. apply script_from_data_error. destruct (js_name_ok n) eqn:E; [|reflexivity].
  apply js_name_ascii in E as [_ E]. congruence.
Qed.

Lemma identifier_accepted n d s : js_ident2_spec n = true -> script_from_data n d s <> None.
Proof.
  intros H. unfold script_from_data. rewrite (js_ident2_accepted _ H). discriminate.
Qed.

(* ---- inertness, in the form used by the property statements ---- *)
Definition harmless (r : N) : Prop := r <> 60 /\ r <> 62 /\ r <> 38 /\ r <> 8232 /\ r <> 8233.

Lemma inert_harmless J : inert J = true -> Forall harmless (decode_runes J).
Proof.
  unfold inert. intros H. rewrite forallb_forall in H. apply Forall_forall. intros r Hr.
  specialize (H r Hr). unfold forbidden_rune in H. unfold harmless. lia.
Qed.

Lemma marshal_harmless d : wf_jvalue d = true -> Forall harmless (decode_runes (json_marshal d)).
Proof. intros H. apply inert_harmless, json_marshal_inert, H. Qed.

Lemma g_marshal_harmless g : wf_gvalue g = true -> Forall harmless (decode_runes (g_marshal g)).
Proof. intros H. apply inert_harmless, g_marshal_inert, H. Qed.

Lemma compact_harmless raw : Forall harmless (decode_runes (compact_escape raw)).
Proof. apply inert_harmless, compact_escape_inert. Qed.

(* the literal is valid UTF-8 whenever no marshaler-supplied bytes are involved?  Not needed:
   inertness is stated on the runes a UTF-8 decoder sees, whatever the bytes. *)

(* ---- why the round trip needs number texts that are numbers (charset alone is not enough) ---- *)
Example roundtrip_needs_number_syntax :
  wf_jvalue (JNum (B "1-2")) = true /\
  json_decode (json_marshal (JNum (B "1-2"))) <> Some (canon (JNum (B "1-2"))).
Proof. split; [reflexivity | vm_compute; discriminate]. Qed.

(* ---- non-vacuity ---- *)
Example script_hostile_string :
  script_from_data (B "ab") (JStr (B "</script><!--")) (B "go()")
  = Some (B "var ab = " ++ [34] ++ B "\u003c/script\u003e\u003c!--" ++ [34; 59; 10] ++ B "go()").
Proof. vm_compute. reflexivity. Qed.

Example marshal_line_separator :
  json_marshal (JStr [97; 226; 128; 168; 226; 128; 169]) = [34; 97] ++ B "\u2028\u2029" ++ [34].
Proof. vm_compute. reflexivity. Qed.

Example marshal_invalid_utf8 :
  json_marshal (JStr [255; 237; 160; 128]) = [34] ++ B "\ufffd\ufffd\ufffd\ufffd" ++ [34]
  /\ json_decode (json_marshal (JStr [255])) = Some (JStr [239; 191; 189]).
Proof. split; vm_compute; reflexivity. Qed.

Example marshal_nested :
  json_marshal (JObj [(B "<k>", JArr [JNum (B "-1.5e+21"); JNull; JBool true; JStr [34; 92; 10; 127]])])
  = [123; 34] ++ B "\u003ck\u003e" ++ [34; 58; 91] ++ B "-1.5e+21,null,true," ++ [34; 92; 34; 92; 92; 92; 110; 127; 34; 93; 125].
Proof. vm_compute. reflexivity. Qed.

Example compact_marshaler_bytes :
  (* { "a" : [ 1 , "</script>?" ] } followed by LF, ? being a raw U+2028 *)
  compact_escape ([32; 123; 32; 34; 97; 34; 32; 58; 32; 91; 32; 49; 32; 44; 32; 34] ++ B "</script>"
                  ++ [226; 128; 168; 34; 32; 93; 32; 125; 10])
  = [123; 34; 97; 34; 58; 91; 49; 44; 34] ++ B "\u003c/script\u003e\u2028" ++ [34; 93; 125].
Proof. vm_compute. reflexivity. Qed.

Example marshaler_invalid_json_rejected :
  script_from_go (B "ab") (GArr [GRaw (B "[1,]")]) (B "go()") = None
  /\ script_from_go (B "ab") (GArr [GBad]) [] = None
  /\ script_from_go (B "ab") (GArr [GRaw (B " [ 1 ] ")]) [] = Some (B "var ab = [[1]];" ++ [10]).
Proof. repeat split; vm_compute; reflexivity. Qed.

Example names_rejected :
  script_from_data (B "a;alert(1)//") JNull [] = None
  /\ script_from_data (B "a b") JNull [] = None
  /\ script_from_data [97; 98; 10] JNull [] = None
  /\ script_from_data [97; 195; 169] JNull [] = None
  /\ script_from_data (B "1a") JNull [] = None
  /\ script_from_data [] JNull [] = None
  (* the code also rejects one-character identifiers *)
  /\ script_from_data (B "a") JNull [] = None.
Proof. repeat split; vm_compute; reflexivity. Qed.

Example spec_rejects_unescaped_output :
  (* what an encoder without HTML escaping would return is refused by the specification predicate *)
  c17_spec (B "ab") (Some (JStr (B "</script>"))) [] true (B "var ab = " ++ [34] ++ B "</script>" ++ [34; 59; 10])
  <> []
  /\ c17_spec (B "ab") (Some (JStr (B "</script>"))) [] true
       (B "var ab = " ++ [34] ++ B "\u003c/script\u003e" ++ [34; 59; 10]) = [].
Proof. split; vm_compute; [discriminate|reflexivity]. Qed.
