(* C02: untrusted strings never reach code contexts; URLs never become javascript:.
   Sanitizer-level theorems, complete over all byte strings; the policy instances are derived from
   the REVIEWED policy through the theorems of C04 (proofs/PolicyFacts.v). *)
From V Require Import lib.Base lib.Regex lib.RegexDecide lib.Utf8 gen.GenRegex gen.GenPolicy.
From V Require Import reviewed.ReviewedPolicy model.GoStrings model.Html model.HtmlUnescape model.Url model.UrlProc
     model.UrlSet model.TContext model.TSanitize model.TSanitizers.
From V Require Import spec.HtmlSpec spec.HtmlTok spec.WhatwgUrl spec.UrlSpec spec.Srcset spec.UrlSetSpec
     spec.PolicySpec spec.SanitizerSpec spec.CodeContextSpec spec.CodeContextPolicy.
From V Require Import proofs.RegexFacts proofs.RegexDecideFacts proofs.RegexSpecs proofs.Utf8Facts
     proofs.Utf8AsciiFacts proofs.HtmlFacts proofs.UrlFacts proofs.UrlSetFacts proofs.PolicyFacts
     proofs.SanitizerFacts.
From Coq Require Import ZifyBool ZifyN.
Local Open Scope N_scope.

(* ================================================================== *)
(* side conditions on regenerated / reviewed data, evaluated by the kernel *)
Lemma url_sanitizers_ok : c02_url_sanitizers = true. Proof. vm_compute. reflexivity. Qed.
Lemma handlers_denied_ok : c02_handlers_denied = true. Proof. vm_compute. reflexivity. Qed.
Lemma data_prefix_ok : c02_data_prefix = true. Proof. vm_compute. reflexivity. Qed.
Lemma code_tables_ok : c02_code_tables = true. Proof. vm_compute. reflexivity. Qed.

(* ================================================================== *)
(* (a) typed-only sanitizers refuse every value that is not of their own safe type *)
Lemma apply_chain_head_none f rest v : apply_sanitizer f v = None -> apply_chain (f :: rest) v = None.
Proof. intros H. destruct rest; cbn [apply_chain]; rewrite H; reflexivity. Qed.

Theorem typed_only_reject f v rest :
  In f typed_only_sanitizers ->
  (forall k s, indirect v = VSafe k s -> own f k = false) ->
  apply_chain (f :: rest) v = None.
Proof.
  unfold typed_only_sanitizers. intros Hin Hv. apply apply_chain_head_none.
  repeat (destruct Hin as [<-|Hin]; [
    unfold apply_sanitizer, typed_only; eval_closed;
    destruct (indirect v) as [ | k s | | | ] eqn:Ei; try reflexivity;
    specialize (Hv k s eq_refl); unfold own in Hv; destruct k; revert Hv; eval_closed;
    cbn [orb kind_eqb kind_num N.eqb Pos.eqb]; intros Hv; first [reflexivity | discriminate Hv] |]).
  destruct Hin.
Qed.

(* plain strings, other Go values, nil, pointers to them: no safe type at all *)
Definition untrusted (v : value) : Prop := forall k s, indirect v <> VSafe k s.

Corollary typed_only_reject_untrusted f v rest :
  In f typed_only_sanitizers -> untrusted v -> apply_chain (f :: rest) v = None.
Proof. intros Hf Hu. apply typed_only_reject; [exact Hf|]. intros k s E. destruct (Hu k s E). Qed.

Example untrusted_str (s : bytes) n : untrusted (Nat.iter n VPtr (VStr s)).
Proof. intros k t. rewrite indirect_iter. discriminate. Qed.
Example untrusted_other (s : bytes) n : untrusted (Nat.iter n VPtr (VOther s)).
Proof. intros k t. rewrite indirect_iter. discriminate. Qed.
Example untrusted_nil n : untrusted (Nat.iter n VPtr VNil).
Proof. intros k t. rewrite indirect_iter. discriminate. Qed.

(* ================================================================== *)
(* (b) comments *)
Theorem comment_empty c :
  c_state c = StHTMLCmt ->
  sanitizer_for_context c = Some [N_sanitizeHTMLComment] /\
  forall v, apply_chain [N_sanitizeHTMLComment] v = Some [].
Proof.
  intros H. split; [unfold sanitizer_for_context; rewrite H; reflexivity|].
  intros v. reflexivity.
Qed.

(* ================================================================== *)
(* (c) the whole-value URL lemma *)

(* ---- the output alphabet of NormalizeURL: printable ASCII ---- *)
Definition printable (c : N) : bool := (33 <=? c) && (c <=? 126).

Lemma keep_byte_printable c t : keep_byte true c t = true -> printable c = true.
Proof.
  unfold keep_byte.
  destruct (mem_N c url_reserved) eqn:E1.
  - intros _. apply mem_N_In in E1. unfold url_reserved in E1. simpl in E1. unfold printable. lia.
  - destruct (mem_N c url_unreserved_marks) eqn:E2.
    + intros _. apply mem_N_In in E2. unfold url_unreserved_marks in E2. simpl in E2. unfold printable. lia.
    + destruct (c =? 37) eqn:E3; [intros _; unfold printable; lia|].
      unfold is_alnum, printable. lia.
Qed.

Lemma keep_byte_intro c t :
  mem_N c url_reserved = true \/ mem_N c url_unreserved_marks = true \/ is_alnum c = true ->
  keep_byte true c t = true.
Proof.
  unfold keep_byte. intros H.
  destruct (mem_N c url_reserved) eqn:E1; [reflexivity|].
  destruct (mem_N c url_unreserved_marks) eqn:E2; [reflexivity|].
  destruct H as [H|[H|H]]; try discriminate.
  destruct (c =? 37) eqn:E3; [unfold is_alnum in H; lia | exact H].
Qed.

Lemma keep_byte_high c t : 128 <= c -> keep_byte true c t = false.
Proof.
  intros Hc. unfold keep_byte.
  destruct (mem_N c url_reserved) eqn:E1.
  { apply mem_N_In in E1. unfold url_reserved in E1. simpl in E1. lia. }
  destruct (mem_N c url_unreserved_marks) eqn:E2.
  { apply mem_N_In in E2. unfold url_unreserved_marks in E2. simpl in E2. lia. }
  destruct (c =? 37) eqn:E3; [lia|]. unfold is_alnum. lia.
Qed.

Lemma hex_digit_range d : d < 16 -> 48 <= hex_digit d <= 102.
Proof. unfold hex_digit. destruct (d <? 10) eqn:E; lia. Qed.

Lemma pct_encode_printable c : c < 256 -> Forall (fun b => printable b = true) (pct_encode c).
Proof.
  intros Hc. unfold pct_encode.
  assert (H1 : c / 16 < 16) by (apply N.div_lt_upper_bound; lia).
  assert (H2 : c mod 16 < 16) by (apply N.mod_lt; lia).
  pose proof (hex_digit_range _ H1). pose proof (hex_digit_range _ H2).
  repeat constructor; unfold printable; lia.
Qed.

Lemma normalize_printable (s : bytes) : wf_bytes s -> Forall (fun b => printable b = true) (normalize_url s).
Proof.
  unfold normalize_url. induction 1 as [|c t Hc Ht IH]; cbn [url_processor]; [constructor|].
  destruct (keep_byte true c t) eqn:E.
  - constructor; [eapply keep_byte_printable; exact E | exact IH].
  - apply Forall_app. split; [apply pct_encode_printable; exact Hc | exact IH].
Qed.

Lemma printable_clean_ok : forallb (fun c => negb (spec_bad c)) (N_seq 33 94) = true.
Proof. vm_compute. reflexivity. Qed.

Lemma printable_not_bad c : printable c = true -> coerce_spec_rune c = c.
Proof.
  intros H. unfold coerce_spec_rune.
  pose proof printable_clean_ok as K. rewrite forallb_forall in K.
  assert (Hin : In c (N_seq 33 94)) by (apply N_seq_In; unfold printable in H; simpl; lia).
  specialize (K c Hin). destruct (spec_bad c); [discriminate K | reflexivity].
Qed.

Lemma printable_ascii (s : bytes) : Forall (fun b => printable b = true) s -> Forall (fun c => c < 128) s.
Proof. intros H. eapply Forall_impl; [|exact H]. intros c Hc. unfold printable in Hc. lia. Qed.

Lemma decode_ascii_all (s : bytes) : Forall (fun c => c < 128) s -> decode_runes s = s.
Proof.
  intros H. pose proof (decode_ascii_prefix s [] H) as E. rewrite app_nil_r in E.
  rewrite E. change (decode_runes []) with (@nil N). apply app_nil_r.
Qed.

Lemma encode_ascii_all (s : list N) : Forall (fun c => c < 128) s -> encode_runes s = s.
Proof.
  induction 1 as [|c t Hc Ht IH]; [reflexivity|]. unfold encode_runes in *. cbn [flat_map].
  rewrite (encode_rune_ascii c Hc), IH. reflexivity.
Qed.

Lemma printable_coerce (s : bytes) : Forall (fun b => printable b = true) s -> coerce_spec s = s.
Proof.
  intros H. unfold coerce_spec. rewrite (decode_ascii_all s (printable_ascii s H)).
  assert (E : map coerce_spec_rune s = s).
  { induction H as [|c t Hc Ht IH]; [reflexivity|]. cbn [map]. rewrite (printable_not_bad c Hc), IH. reflexivity. }
  rewrite E. apply encode_ascii_all, printable_ascii, H.
Qed.

(* what the browser decodes from the escaped, normalised URL is the normalised URL *)
Lemma unescape_escaped_normalized (u : bytes) : wf_bytes u ->
  decode_runes (html_unescape (html_escaped (normalize_url u))) = normalize_url u.
Proof.
  intros Hu. pose proof (normalize_printable u Hu) as Hp.
  rewrite html_unescape_escaped, (printable_coerce _ Hp).
  apply decode_ascii_all, printable_ascii, Hp.
Qed.

(* ---- NormalizeURL keeps an ASCII scheme prefix byte for byte ---- *)
Lemma scheme_char_kept c t : scheme_char c = true -> keep_byte true c t = true.
Proof.
  intros H. apply keep_byte_intro.
  unfold scheme_char, ascii_alphanumeric, WhatwgUrl.ascii_digit, ascii_alpha, ascii_upper_alpha, ascii_lower_alpha in H.
  destruct (c =? 43) eqn:E1; [left; apply mem_N_In; unfold url_reserved; simpl; lia|].
  destruct ((c =? 45) || (c =? 46)) eqn:E2; [right; left; apply mem_N_In; unfold url_unreserved_marks; simpl; lia|].
  right; right. unfold is_alnum. lia.
Qed.

Lemma normalize_scheme_prefix (a : bytes) rest : Forall (fun c => scheme_char c = true) a ->
  normalize_url (a ++ rest) = a ++ normalize_url rest.
Proof.
  unfold normalize_url. induction 1 as [|c t Hc Ht IH]; [reflexivity|]. cbn [app url_processor].
  rewrite (scheme_char_kept c (t ++ rest) Hc), IH. reflexivity.
Qed.

Lemma normalize_colon rest : normalize_url (58 :: rest) = 58 :: normalize_url rest.
Proof. reflexivity. Qed.

Lemma normalize_high c rest : 128 <= c -> exists t, normalize_url (c :: rest) = 37 :: t.
Proof.
  intros Hc. unfold normalize_url. cbn [url_processor].
  assert (E : keep_byte true c rest = false) by (apply keep_byte_high; exact Hc).
  rewrite E. unfold pct_encode. cbn [app]. eexists; reflexivity.
Qed.

(* ---- a percent sign after scheme characters: the URL parser finds no scheme ---- *)
Lemma scheme_state_pct a : forall buf t, Forall (fun c => scheme_char c = true) a ->
  scheme_state (a ++ 37 :: t) buf = None.
Proof.
  induction a as [|c a IH]; intros buf t H; cbn [app scheme_state].
  - reflexivity.
  - inversion H as [|? ? Hc Ha]; subst. rewrite Hc. apply IH. exact Ha.
Qed.

Lemma scheme_char_not_c0 c : scheme_char c = true -> c0_or_space c = false /\ c <> 58.
Proof.
  unfold scheme_char, ascii_alphanumeric, WhatwgUrl.ascii_digit, ascii_alpha, ascii_upper_alpha, ascii_lower_alpha,
    c0_or_space. lia.
Qed.

Lemma whatwg_no_scheme_pct a t : Forall (fun c => scheme_char c = true) a ->
  whatwg_scheme (a ++ 37 :: t) = None.
Proof.
  intros Ha.
  assert (Hc0 : Forall (fun c => c0_or_space c = false) a).
  { eapply Forall_impl; [|exact Ha]. intros c Hc. apply scheme_char_not_c0 in Hc. tauto. }
  unfold whatwg_scheme, url_preprocess.
  assert (Es : strip_leading (a ++ 37 :: t) = a ++ 37 :: t).
  { destruct a as [|c a]; cbn [app strip_leading]; [reflexivity|].
    inversion Hc0; subst. match goal with H : c0_or_space c = false |- _ => rewrite H end. reflexivity. }
  rewrite Es. destruct (strip_trailing_keep a 37 t eq_refl) as (t' & E). rewrite E.
  unfold remove_tab_newline. rewrite filter_app. fold (remove_tab_newline a).
  rewrite (remove_tab_newline_keep a Hc0). cbn [filter]. change (negb (ascii_tab_or_newline 37)) with true. cbn iota.
  destruct a as [|c a]; cbn [app scheme_start_state]; [reflexivity|].
  destruct (ascii_alpha c); [|reflexivity]. inversion Ha; subst. apply scheme_state_pct. assumption.
Qed.

(* ---- byte-level view of the two shapes URLSanitized accepts ---- *)
Lemma first_nonascii (a : bytes) :
  Forall (fun c => c < 128) a \/
  exists a1 c a2, a = a1 ++ c :: a2 /\ Forall (fun c => c < 128) a1 /\ 128 <= c.
Proof.
  induction a as [|c a IH]; [left; constructor|].
  destruct (N.lt_ge_cases c 128) as [Hc|Hc].
  - destruct IH as [H|(a1 & d & a2 & -> & H1 & Hd)].
    + left. constructor; assumption.
    + right. exists (c :: a1), d, a2. repeat split; [constructor; assumption | exact Hd].
  - right. exists [], c, a. repeat split; [constructor | exact Hc].
Qed.

Lemma ascii_lower_in_cls c : c < 128 -> in_ranges (to_lower c) scheme_cls = true -> scheme_char c = true.
Proof.
  intros Hc H. rewrite to_lower_ascii in H by exact Hc. apply scheme_cls_spec in H.
  unfold scheme_char, ascii_alphanumeric, WhatwgUrl.ascii_digit, ascii_alpha, ascii_upper_alpha, ascii_lower_alpha.
  destruct (ascii_lower_spec c) as [[? E]|[? E]]; rewrite E in H; lia.
Qed.

Lemma normalized_scheme_shape_no_js (u : bytes) : scheme_shape (decode_runes u) ->
  whatwg_scheme (normalize_url u) <> Some javascript_scheme.
Proof.
  intros (q & r & E & Hne & Hq & Hj).
  destruct (decode_split_ascii u q 58 r eq_refl E) as (a & b & -> & Ea & _).
  (* every ASCII byte of a is a scheme character *)
  assert (Hasc : forall c, In c a -> c < 128 -> scheme_char c = true).
  { intros c Hin Hc. apply ascii_lower_in_cls; [exact Hc|].
    rewrite Forall_forall in Hq. apply Hq. rewrite <- Ea. apply (decode_in_ascii a c Hc). exact Hin. }
  destruct (first_nonascii a) as [Hall|(a1 & c & a2 & -> & H1 & Hc)].
  - (* all ASCII: the prefix is copied, the scheme is the same non-javascript scheme *)
    assert (Hsc : Forall (fun c => scheme_char c = true) a).
    { apply Forall_forall. intros c Hin. apply Hasc; [exact Hin|]. rewrite Forall_forall in Hall. auto. }
    rewrite (normalize_scheme_prefix a (58 :: b) Hsc), normalize_colon.
    rewrite (decode_ascii_all a Hall) in Ea. subst q.
    apply scheme_shape_no_js. exists a, (normalize_url b). auto.
  - (* a non-ASCII byte before the colon is percent-encoded: no scheme at all *)
    assert (Hsc : Forall (fun c => scheme_char c = true) a1).
    { apply Forall_forall. intros d Hin. apply Hasc; [apply in_or_app; left; exact Hin|].
      rewrite Forall_forall in H1. auto. }
    rewrite <- app_assoc. cbn [app]. rewrite (normalize_scheme_prefix a1 _ Hsc).
    destruct (normalize_high c (a2 ++ 58 :: b) Hc) as (t & Et). rewrite Et.
    rewrite (whatwg_no_scheme_pct a1 t Hsc). discriminate.
Qed.

(* relative shape, on bytes *)
Lemma nonspecial_bytes (a : bytes) :
  Forall (fun c => is_delim c = false /\ colon_or_amp c = false) (decode_runes a) ->
  Forall (fun c => is_delim c = false /\ colon_or_amp c = false) a.
Proof.
  intros H. apply Forall_forall. intros c Hin.
  destruct (N.lt_ge_cases c 128) as [Hc|Hc].
  - rewrite Forall_forall in H. apply H. apply (decode_in_ascii a c Hc). exact Hin.
  - unfold is_delim, colon_or_amp. lia.
Qed.

Lemma oad_bytes_of_runes (u : bytes) :
  colon_amp_only_after_delim (decode_runes u) = true -> colon_amp_only_after_delim u = true.
Proof.
  unfold colon_amp_only_after_delim. intros H.
  apply oad_shape in H as (p & rest & E & Hp & Hr). apply oad_shape.
  destruct Hr as [->|(d & r & -> & Hd)].
  - rewrite app_nil_r in E. exists u, []. rewrite app_nil_r. split; [reflexivity|].
    split; [apply nonspecial_bytes; rewrite E; exact Hp | left; reflexivity].
  - assert (Hd128 : d < 128) by (unfold is_delim in Hd; lia).
    destruct (decode_split_ascii u p d r Hd128 E) as (a & b & -> & Ea & _).
    exists a, (d :: b). split; [reflexivity|].
    split; [apply nonspecial_bytes; rewrite Ea; exact Hp | right; eauto].
Qed.

Lemma hex_digit_plain d : is_delim (hex_digit d) = false /\ is_colon (hex_digit d) = false.
Proof. unfold hex_digit, is_delim, is_colon. destruct (d <? 10) eqn:E; lia. Qed.

Lemma delim_kept c t : is_delim c = true -> keep_byte true c t = true.
Proof.
  intros H. apply keep_byte_intro. left. apply mem_N_In. unfold url_reserved, is_delim in *. simpl. lia.
Qed.

Lemma normalize_keeps_oad (u : bytes) :
  only_after_delim colon_or_amp u = true -> only_after_delim is_colon (normalize_url u) = true.
Proof.
  unfold normalize_url. induction u as [|c t IH]; cbn [only_after_delim url_processor]; [reflexivity|].
  destruct (is_delim c) eqn:Ed.
  - intros _. rewrite (delim_kept c t Ed). cbn [only_after_delim]. rewrite Ed. reflexivity.
  - destruct (colon_or_amp c) eqn:Eb; [discriminate|]. intros H.
    assert (Ec : is_colon c = false) by (unfold colon_or_amp, is_colon in *; lia).
    destruct (keep_byte true c t).
    + cbn [only_after_delim]. rewrite Ed, Ec. apply IH. exact H.
    + unfold pct_encode. cbn [app only_after_delim].
      destruct (hex_digit_plain (c / 16)) as [A1 A2]. destruct (hex_digit_plain (c mod 16)) as [B1 B2].
      change (is_delim 37) with false. change (is_colon 37) with false. cbn iota.
      rewrite A1, A2, B1, B2. apply IH. exact H.
Qed.

Theorem normalized_safe_no_js (u : bytes) : is_safe_url u = true ->
  whatwg_scheme (normalize_url u) <> Some javascript_scheme.
Proof.
  intros H. apply is_safe_url_shape in H as [H|H].
  - apply normalized_scheme_shape_no_js. exact H.
  - apply oad_bytes_of_runes in H. unfold colon_amp_only_after_delim in H.
    apply normalize_keeps_oad, oad_no_scheme in H. rewrite H. discriminate.
Qed.

Lemma url_sanitized_safe (s : bytes) : is_safe_url (url_sanitized s) = true.
Proof. unfold url_sanitized. destruct (is_safe_url s) eqn:E; [exact E | exact innocuous_is_safe]. Qed.

Lemma innocuous_wf : wf_bytes innocuous_url.
Proof. unfold wf_bytes, innocuous_url. repeat (constructor; [unfold wf_byte; lia|]). constructor. Qed.

Lemma url_sanitized_wf (s : bytes) : wf_bytes s -> wf_bytes (url_sanitized s).
Proof. intros H. unfold url_sanitized. destruct (is_safe_url s); [exact H | exact innocuous_wf]. Qed.

(* the run-time pipeline of a URL attribute at an empty static prefix, on an untrusted value *)
Lemma url_chain_output f v o :
  f = B "_sanitizeURL" \/ f = B "_sanitizeTrustedResourceURLOrURL" ->
  untrusted v ->
  apply_chain [f; N_normalizeURL; N_sanitizeHTML] v = Some o ->
  o = html_escaped (normalize_url (url_sanitized (stringify v))).
Proof.
  intros Hf Hu. cbn [apply_chain].
  assert (E1 : apply_sanitizer f v = Some (url_sanitized (stringify v))).
  { destruct Hf as [->| ->]; unfold apply_sanitizer; eval_closed;
      destruct (indirect v) as [ | k s | | | ] eqn:Ei; try reflexivity; destruct (Hu k s Ei). }
  rewrite E1.
  assert (E2 : forall x : bytes, apply_sanitizer N_normalizeURL (VStr x) = Some (normalize_url x)).
  { intros x. unfold apply_sanitizer, N_normalizeURL. eval_closed. reflexivity. }
  rewrite E2.
  assert (E3 : forall x : bytes, apply_sanitizer N_sanitizeHTML (VStr x) = Some (html_escaped x)).
  { intros x. unfold apply_sanitizer, N_sanitizeHTML. eval_closed. reflexivity. }
  rewrite E3. intros H. inversion H. reflexivity.
Qed.

Theorem url_whole_value f v o :
  f = B "_sanitizeURL" \/ f = B "_sanitizeTrustedResourceURLOrURL" ->
  untrusted v -> wf_bytes (stringify v) ->
  apply_chain [f; N_normalizeURL; N_sanitizeHTML] v = Some o ->
  whatwg_scheme (decode_runes (html_unescape o)) <> Some javascript_scheme.
Proof.
  intros Hf Hu Hwf Ha. rewrite (url_chain_output f v o Hf Hu Ha).
  rewrite unescape_escaped_normalized by (apply url_sanitized_wf; exact Hwf).
  apply normalized_safe_no_js, url_sanitized_safe.
Qed.

Example url_whole_value_js : apply_chain [B "_sanitizeURL"; N_normalizeURL; N_sanitizeHTML] (VStr (B "JaVaScRiPt:alert(1)"))
  = Some (B "about:invalid#zGoSafez").
Proof. vm_compute. reflexivity. Qed.
Example url_whole_value_kept : apply_chain [B "_sanitizeURL"; N_normalizeURL; N_sanitizeHTML] (VStr (B "https://a.b/c d?e=f&g"))
  = Some (B "https://a.b/c%20d?e=f&amp;g").
Proof. vm_compute. reflexivity. Qed.
